(* Bvm/SoundTop.v — from `verify p = true` to the entry points of the VM: execute_main, one dsp call
   (set_input + execute_idx) and whole sessions. *)
From Coq Require Import List ZArith NArith Bool Lia Arith.
From Mimium Require Import Bvm.Model Bvm.Verify Bvm.ListLemmas Bvm.SoundAbs Bvm.SoundStep Bvm.SoundFuel Bvm.SoundRun.
Import ListNotations.
Local Open Scope N_scope.

(* between calls: the globals have the size the program declares and the state cursor is home *)
Definition minv (p : program) (m : mach) : Prop := lenN (m_globals m) = p_gsize p /\ m_pos m = 0.

(* the dsp function of a program *)
Definition dsp_fn (p : program) : option fn :=
  match p_dsp p with Some di => rd1 (p_funs p) di | None => None end.

Lemma verify_prog_ok : forall p, verify p = true -> prog_ok p.
Proof.
  intros p H. unfold verify in H. apply andb_true_iff in H. destruct H as [H _].
  apply andb_true_iff in H. destruct H as [H _]. rewrite forallb_forall in H. exact H.
Qed.

Lemma verify_main : forall p, verify p = true -> exists f0, rd1 (p_funs p) 0 = Some f0 /\ f_pwords f0 = 0.
Proof.
  intros p H. unfold verify in H. apply andb_true_iff in H. destruct H as [H _].
  apply andb_true_iff in H. destruct H as [_ H]. destruct (rd1 (p_funs p) 0) as [f0|]; [|discriminate].
  exists f0. split; [reflexivity|]. apply N.eqb_eq. exact H.
Qed.

Lemma verify_dsp : forall p, verify p = true -> exists di f, p_dsp p = Some di /\ rd1 (p_funs p) di = Some f.
Proof.
  intros p H. unfold verify in H. apply andb_true_iff in H. destruct H as [_ H].
  destruct (p_dsp p) as [di|]; [|discriminate]. destruct (rd1 (p_funs p) di) as [f|] eqn:E; [|discriminate].
  exists di, f. auto.
Qed.

Lemma lenN_resize0 : forall l n, lenN (resize0 l n) = n.
Proof. intros. unfold resize0, lenN, nn. rewrite app_length, firstn_length, repeat_length. lia. Qed.

Lemma checked_code_nonempty : forall p f, check_fn p f (infer p f) = true -> f_code f <> [].
Proof.
  intros p f H. destruct (check_fn_entry _ _ H) as (a0 & Ha0 & _).
  unfold check_fn in H. apply andb_true_iff in H. destruct H as [H _]. apply andb_true_iff in H. destruct H as [Hlen _].
  apply N.eqb_eq in Hlen. apply rd1_Some in Ha0. intros E. rewrite E in Hlen. unfold lenN in *. cbn in Hlen. lia.
Qed.

Lemma zero_head_frame : forall m,
  let m3 := match m_stack m with [] => m | _ :: rest => set_stack m (0%Z :: rest) end in
  lenN (m_stack m3) = lenN (m_stack m) /\ m_pos m3 = m_pos m /\ m_globals m3 = m_globals m /\ m_state m3 = m_state m.
Proof. intros [st g ps sd]. destruct st; cbn; auto. Qed.

Section Top.
  Variable p : program.
  Hypothesis Hv : verify p = true.

  (* execute_main *)
  Theorem exec_main_safe : forall A fuel m, minv p m -> m_stack m = [] ->
    match exec_main A p fuel m with
    | Ret n m' => minv p m' /\ lenN (m_stack m') = n
    | OutOfFuel => True
    | Fault _ | Unsupported _ => False
    end.
  Proof.
    intros A fuel m (Hg & Hp) Hst. destruct (verify_main p Hv) as (f0 & Hf0 & Hpw).
    unfold exec_main. rewrite Hf0.
    assert (Hck : check_fn p f0 (infer p f0) = true) by (apply verify_prog_ok; [exact Hv|eapply rd1_In; eauto]).
    destruct (check_fn_entry _ _ Hck) as (a0 & Ha0 & Hsub).
    set (m1 := mkMach (m_stack m) (m_globals m) 0 (repeat 0%Z (nn (f_ssize f0)))).
    assert (Hc : conc 1 0 a0 m1).
    { eapply conc_sub; [|exact Hsub]. apply conc_entry; [left; exact Hpw|reflexivity]. }
    assert (Hf : finv p f0 1 0 m1).
    { unfold finv, m1; cbn [m_stack m_state m_globals]. rewrite Hst, lenN_repeat. cbn. unfold nn. repeat split; auto; lia. }
    pose proof (run_sound A p (verify_prog_ok p Hv) fuel 0 f0 1 0 m1 a0 0 Hf0 Ha0 Hc Hf) as R.
    destruct (run A p fuel 0 1 0 m1) as [n m'| | |]; cbn [ret_ok] in R; auto.
    destruct R as (R1 & R2 & R3 & R4 & R5 & R6). split; [split; cbn; assumption|]. cbn [m_stack]. rewrite R5. lia.
  Qed.

  (* one sample: set_input + execute_idx(dsp) *)
  Theorem exec_dsp_safe : forall A fuel inputs m f, dsp_fn p = Some f -> minv p m -> f_pwords f <= lenN inputs ->
    match exec_dsp A p fuel inputs m with
    | Ret n m' => n = f_nret f /\ lenN (m_stack m') = f_nret f /\ lenN (m_state m') = f_ssize f /\ minv p m'
    | OutOfFuel => True
    | Fault _ | Unsupported _ => False
    end.
  Proof.
    intros A fuel inputs m f Hd (Hg & Hp) Hin. unfold dsp_fn in Hd. unfold exec_dsp.
    destruct (p_dsp p) as [di|]; [|discriminate]. rewrite Hd.
    assert (Hck : check_fn p f (infer p f) = true) by (apply verify_prog_ok; [exact Hv|eapply rd1_In; eauto]).
    destruct (check_fn_entry _ _ Hck) as (a0 & Ha0 & Hsub).
    pose proof (checked_code_nonempty _ _ Hck) as Hne.
    destruct (f_code f) as [|i0 code] eqn:Ecode; [congruence|]. clear Hne.
    set (m1 := match inputs with [] => m | _ :: _ => sput 1 m 0 inputs end).
    assert (H1 : (f_pwords f = 0 \/ 1 + f_pwords f <= lenN (m_stack m1)) /\ m_pos m1 = 0 /\ m_globals m1 = m_globals m).
    { unfold m1. destruct inputs as [|x inputs].
      - unfold lenN in Hin. cbn [length] in Hin. split; [left; lia|]. split; [exact Hp|reflexivity].
      - rewrite sput_stack, wr_range_length. cbn [sput set_stack m_pos m_globals].
        split; [right; lia|]. split; [exact Hp|reflexivity]. }
    destruct H1 as (S1 & S2 & S3).
    set (m2 := set_state m1 (resize0 (m_state m1) (f_ssize f))).
    set (m3 := match m_stack m2 with [] => m2 | _ :: rest => set_stack m2 (0%Z :: rest) end).
    assert (H3 : lenN (m_stack m3) = lenN (m_stack m1) /\ m_pos m3 = 0 /\ m_globals m3 = m_globals m /\
                 lenN (m_state m3) = f_ssize f).
    { destruct (zero_head_frame m2) as (Z1 & Z2 & Z3 & Z4). fold m3 in Z1, Z2, Z3, Z4.
      rewrite Z1, Z2, Z3, Z4. unfold m2. cbn [set_state m_stack m_pos m_globals m_state].
      rewrite lenN_resize0. repeat split; auto. }
    destruct H3 as (T1 & T2 & T3 & T4).
    assert (Hc : conc 1 0 a0 m3).
    { eapply conc_sub; [|exact Hsub]. apply conc_entry; [rewrite T1; exact S1|exact T2]. }
    assert (Hf : finv p f 1 0 m3) by (unfold finv; rewrite T3, T4; repeat split; auto; lia).
    pose proof (run_sound A p (verify_prog_ok p Hv) fuel di f 1 0 m3 a0 0 Hd Ha0 Hc Hf) as R.
    destruct (run A p fuel di 1 0 m3) as [n m'| | |]; cbn [ret_ok] in R; auto.
    destruct R as (R1 & R2 & R3 & R4 & R5 & R6).
    split; [exact R1|]. split; [rewrite R5, R1; lia|]. split; [congruence|]. split; assumption.
  Qed.

  (* with the fuel the checked cost assignment names, a dsp call never runs out of fuel *)
  Theorem exec_dsp_total : forall A fuel inputs m f, dsp_fn p = Some f -> minv p m -> f_pwords f <= lenN inputs ->
    term_ok p (costs p) = true -> fuel_dsp p <= N.of_nat fuel ->
    exec_dsp A p fuel inputs m <> OutOfFuel.
  Proof.
    intros A fuel inputs m f Hd (Hg & Hp) Hin Ht Hfuel. unfold dsp_fn in Hd. unfold exec_dsp, fuel_dsp in *.
    destruct (p_dsp p) as [di|]; [|discriminate]. rewrite Hd.
    assert (Hck : check_fn p f (infer p f) = true) by (apply verify_prog_ok; [exact Hv|eapply rd1_In; eauto]).
    destruct (check_fn_entry _ _ Hck) as (a0 & Ha0 & Hsub).
    pose proof (checked_code_nonempty _ _ Hck) as Hne.
    destruct (f_code f) as [|i0 code] eqn:Ecode; [congruence|]. clear Hne.
    set (m1 := match inputs with [] => m | _ :: _ => sput 1 m 0 inputs end).
    assert (H1 : (f_pwords f = 0 \/ 1 + f_pwords f <= lenN (m_stack m1)) /\ m_pos m1 = 0 /\ m_globals m1 = m_globals m).
    { unfold m1. destruct inputs as [|x inputs].
      - unfold lenN in Hin. cbn [length] in Hin. split; [left; lia|]. split; [exact Hp|reflexivity].
      - rewrite sput_stack, wr_range_length. cbn [sput set_stack m_pos m_globals].
        split; [right; lia|]. split; [exact Hp|reflexivity]. }
    destruct H1 as (S1 & S2 & S3).
    set (m2 := set_state m1 (resize0 (m_state m1) (f_ssize f))).
    set (m3 := match m_stack m2 with [] => m2 | _ :: rest => set_stack m2 (0%Z :: rest) end).
    assert (H3 : lenN (m_stack m3) = lenN (m_stack m1) /\ m_pos m3 = 0 /\ m_globals m3 = m_globals m /\
                 lenN (m_state m3) = f_ssize f).
    { destruct (zero_head_frame m2) as (Z1 & Z2 & Z3 & Z4). fold m3 in Z1, Z2, Z3, Z4.
      rewrite Z1, Z2, Z3, Z4. unfold m2. cbn [set_state m_stack m_pos m_globals m_state].
      rewrite lenN_resize0. repeat split; auto. }
    destruct H3 as (T1 & T2 & T3 & T4).
    assert (Hc : conc 1 0 a0 m3).
    { eapply conc_sub; [|exact Hsub]. apply conc_entry; [rewrite T1; exact S1|exact T2]. }
    assert (Hf : finv p f 1 0 m3) by (unfold finv; rewrite T3, T4; repeat split; auto; lia).
    eapply (run_enough_fuel A p (costs p) (verify_prog_ok p Hv) Ht fuel di f 1 0 m3 a0 0 Hd Ha0 Hc Hf).
    pose proof (term_fn_cost _ _ _ _ (term_ok_fn _ _ _ _ Ht Hd)). lia.
  Qed.

  (* a whole session after main: every sample returns (or the fuel of that sample ran out, which ends the list) *)
  Theorem run_session_safe : forall fuel f steps m, dsp_fn p = Some f -> minv p m ->
    Forall (fun s => f_pwords f <= lenN (snd s)) steps ->
    Forall (fun o => match o with
                     | Ret n m' => n = f_nret f /\ lenN (m_stack m') = f_nret f /\ lenN (m_state m') = f_ssize f /\ m_pos m' = 0
                     | OutOfFuel => True
                     | Fault _ | Unsupported _ => False
                     end) (run_session p fuel steps m).
  Proof.
    intros fuel f steps. induction steps as [|[A r] steps IH]; intros m Hd Hm Hall; [constructor|].
    inversion Hall as [|s l Hs Hrest]; subst. cbn [snd] in Hs. cbn [run_session].
    pose proof (exec_dsp_safe A fuel r m f Hd Hm Hs) as R.
    destruct (exec_dsp A p fuel r m) as [n m'| | |]; try contradiction.
    - destruct R as (R1 & R2 & R3 & R4). constructor; [destruct R4; auto|]. apply IH; auto.
    - constructor; [exact I|constructor].
  Qed.
End Top.

Lemma minv_mach0 : forall p, minv p (mach0 p).
Proof. intros p. unfold minv, mach0. cbn. split; [|reflexivity]. rewrite lenN_repeat. unfold nn. lia. Qed.

Theorem exec_main_fresh_safe : forall (p : program), verify p = true ->
  forall (A : arith) (fuel : nat),
  match exec_main A p fuel (mach0 p) with
  | Ret n m' => minv p m' /\ lenN (m_stack m') = n
  | OutOfFuel => True
  | Fault _ | Unsupported _ => False
  end.
Proof. intros p Hv A fuel. exact (exec_main_safe p Hv A fuel (mach0 p) (minv_mach0 p) eq_refl). Qed.

Theorem exec_dsp_fuel : forall (p : program), verify p = true -> term_ok p (costs p) = true ->
  forall (A : arith) (fuel : nat) (inputs : list Z) (m : mach) (f : fn),
  dsp_fn p = Some f -> minv p m -> f_pwords f <= lenN inputs -> fuel_dsp p <= N.of_nat fuel ->
  exists n m', exec_dsp A p fuel inputs m = Ret n m' /\
               n = f_nret f /\ lenN (m_stack m') = f_nret f /\ lenN (m_state m') = f_ssize f /\ minv p m'.
Proof.
  intros p Hv Ht A fuel inputs m f Hd Hm Hin Hfuel.
  pose proof (exec_dsp_safe p Hv A fuel inputs m f Hd Hm Hin) as S.
  pose proof (exec_dsp_total p Hv A fuel inputs m f Hd Hm Hin Ht Hfuel) as T.
  destruct (exec_dsp A p fuel inputs m) as [n m'| | |]; try contradiction.
  exists n, m'. split; [reflexivity|exact S].
Qed.
