(* Bvm/SoundAbs.v — the abstract states of Bvm/Verify.v and what they promise about a machine state. *)
From Coq Require Import List ZArith NArith Bool Lia Arith.
From Mimium Require Import Bvm.Model Bvm.Verify Bvm.ListLemmas.
Import ListNotations.
Local Open Scope N_scope.

(* ---------- association lists of known registers ---------- *)
Lemma find_filter_key : forall (g : N * Z -> bool) (g' : N -> bool) (r : N) (l : list (N * Z)),
  (forall e, g e = g' (fst e)) ->
  find (fun e => fst e =? r) (filter g l) = if g' r then find (fun e => fst e =? r) l else None.
Proof.
  intros g g' r l Hg. induction l as [|x l IH]; cbn [filter find].
  - destruct (g' r); reflexivity.
  - destruct (g x) eqn:Egx; cbn [find].
    + destruct (N.eqb_spec (fst x) r) as [Heq|Hne].
      * rewrite Hg, Heq in Egx. rewrite Egx. reflexivity.
      * exact IH.
    + rewrite IH. destruct (g' r) eqn:Er; [|reflexivity].
      destruct (N.eqb_spec (fst x) r) as [Heq|Hne]; [|reflexivity].
      rewrite Hg, Heq, Er in Egx. discriminate.
Qed.

Lemma alookup_akill : forall regs d n r,
  alookup (akill regs d n) r = if negb ((d <=? r) && (r <? d + n)) then alookup regs r else None.
Proof.
  intros. unfold alookup, akill.
  rewrite (find_filter_key _ (fun x => negb ((d <=? x) && (x <? d + n)))) by reflexivity.
  destruct (negb ((d <=? r) && (r <? d + n))); reflexivity.
Qed.

Lemma alookup_abelow : forall regs f r,
  alookup (abelow regs f) r = if r <? f then alookup regs r else None.
Proof.
  intros. unfold alookup, abelow. rewrite (find_filter_key _ (fun x => x <? f)) by reflexivity.
  destruct (r <? f); reflexivity.
Qed.

Lemma alookup_cons : forall d k regs r,
  alookup ((d, k) :: regs) r = if d =? r then Some k else alookup regs r.
Proof. intros. unfold alookup. cbn [find fst snd]. destruct (d =? r); reflexivity. Qed.

Lemma alookup_akill_Some : forall regs d n r k,
  alookup (akill regs d n) r = Some k -> alookup regs r = Some k /\ (r < d \/ d + n <= r).
Proof.
  intros regs d n r k H. rewrite alookup_akill in H.
  destruct (N.leb_spec d r), (N.ltb_spec r (d + n)); cbn in H; try discriminate; split; auto; lia.
Qed.

Lemma alookup_abelow_Some : forall regs f r k,
  alookup (abelow regs f) r = Some k -> alookup regs r = Some k /\ r < f.
Proof.
  intros regs f r k H. rewrite alookup_abelow in H. destruct (N.ltb_spec r f); [auto|discriminate].
Qed.

(* ---------- concretisation ---------- *)
Definition stack_ok (base h : N) (st : list Z) : Prop := h = 0 \/ base + h <= lenN st.

Definition regs_ok (base : N) (regs : list (N * Z)) (st : list Z) : Prop :=
  forall r k, alookup regs r = Some k -> rd1 st (base + r) = Some k.

Definition conc (base p0 : N) (a : astate) (m : mach) : Prop :=
  stack_ok base (a_h a) (m_stack m) /\ regs_ok base (a_regs a) (m_stack m) /\ m_pos m = p0 + a_pos a.

(* what holds throughout one activation of function f with base pointer `base` and entry cursor p0 *)
Definition finv (p : program) (f : fn) (base p0 : N) (m : mach) : Prop :=
  1 <= base /\ base <= lenN (m_stack m) + 1 /\ p0 + f_ssize f <= lenN (m_state m) /\ lenN (m_globals m) = p_gsize p.

Lemma sub_spec : forall a' b, sub a' b = true ->
  a_h b <= a_h a' /\ a_pos b = a_pos a' /\
  forall r k, alookup (a_regs b) r = Some k -> alookup (a_regs a') r = Some k.
Proof.
  intros a' b H. unfold sub in H. apply andb_true_iff in H. destruct H as [H Hf].
  apply andb_true_iff in H. destruct H as [Hh Hp].
  apply N.leb_le in Hh. apply N.eqb_eq in Hp. split; [exact Hh|]. split; [exact Hp|].
  intros r k Hl. unfold alookup in Hl.
  destruct (find (fun e => fst e =? r) (a_regs b)) as [e|] eqn:Ef; [|discriminate].
  inversion Hl; subst k. apply find_some in Ef. destruct Ef as [Hin He]. apply N.eqb_eq in He.
  rewrite forallb_forall in Hf. specialize (Hf e Hin). rewrite He in Hf.
  destruct (alookup (a_regs a') r) as [k'|]; [|discriminate]. apply Z.eqb_eq in Hf. congruence.
Qed.

Lemma conc_sub : forall base p0 a' b m, conc base p0 a' m -> sub a' b = true -> conc base p0 b m.
Proof.
  intros base p0 a' b m (Hs & Hr & Hp) Hsub. apply sub_spec in Hsub. destruct Hsub as (Hh & Hpos & Hregs).
  split; [|split].
  - destruct Hs as [Hs|Hs]; [left; lia|]. unfold stack_ok. destruct (N.eq_dec (a_h b) 0); [left; assumption|right; lia].
  - intros r k Hl. apply Hr. apply Hregs. exact Hl.
  - rewrite Hpos. exact Hp.
Qed.

Lemma conc_same : forall base p0 a m m',
  m_stack m' = m_stack m -> m_pos m' = m_pos m -> conc base p0 a m -> conc base p0 a m'.
Proof. intros base p0 a m m' Hs Hp (H1 & H2 & H3). unfold conc. rewrite Hs, Hp. auto. Qed.

Lemma conc_pos : forall base p0 a m q,
  conc base p0 a m -> conc base p0 (apos a q) (set_pos m (p0 + q)).
Proof. intros base p0 a m q (H1 & H2 & H3). unfold conc, apos, set_pos. cbn. auto. Qed.

(* ---------- reads ---------- *)
Lemma rdok_spec : forall base p0 a m r n, conc base p0 a m -> rdok a r n = true ->
  base + r + n <= lenN (m_stack m).
Proof.
  intros base p0 a m r n (Hs & _) H. unfold rdok in H. apply andb_true_iff in H. destruct H as [H1 H2].
  apply N.leb_le in H1. apply orb_true_iff in H2.
  destruct Hs as [Hs|Hs]; [|lia]. destruct H2 as [H2|H2]; apply N.leb_le in H2; lia.
Qed.

Lemma rdok_nonzero : forall a r, rdok a r 1 = true -> a_h a <> 0.
Proof.
  intros a r H. unfold rdok in H. apply andb_true_iff in H. destruct H as [H1 _]. apply N.leb_le in H1. lia.
Qed.

Lemma rdok_sget_range : forall base p0 a m r n, conc base p0 a m -> rdok a r n = true ->
  exists vs, sget_range base m r n = Some vs /\ lenN vs = n.
Proof.
  intros base p0 a m r n Hc H. pose proof (rdok_spec _ _ _ _ _ _ Hc H) as Hb.
  unfold sget_range. destruct (rd_range_ok _ (m_stack m) (base + r) n) as [vs Hvs]; [lia|].
  exists vs. split; [exact Hvs|]. apply rd_range_Some in Hvs. tauto.
Qed.

Lemma rdok_sget : forall base p0 a m r, conc base p0 a m -> rdok a r 1 = true ->
  exists v, sget base m r = Some v.
Proof.
  intros base p0 a m r Hc H. pose proof (rdok_spec _ _ _ _ _ _ Hc H) as Hb.
  unfold sget. apply rd1_lt. lia.
Qed.

Lemma alookup_sget : forall base p0 a m r k, conc base p0 a m -> alookup (a_regs a) r = Some k ->
  sget base m r = Some k.
Proof. intros base p0 a m r k (_ & Hr & _) H. unfold sget. apply Hr. exact H. Qed.

(* ---------- writes ---------- *)
Lemma sput_stack : forall base m d vs, m_stack (sput base m d vs) = wr_range 0%Z (m_stack m) (base + d) vs.
Proof. reflexivity. Qed.

Lemma stack_ok_write : forall base h st d vs,
  stack_ok base h st -> stack_ok base (N.max h (d + lenN vs)) (wr_range 0%Z st (base + d) vs).
Proof.
  intros base h st d vs Hs. unfold stack_ok in *. rewrite wr_range_length.
  destruct (N.eq_dec (N.max h (d + lenN vs)) 0) as [E|E]; [left; exact E|right].
  destruct Hs as [Hs|Hs]; lia.
Qed.

Lemma conc_write : forall base p0 a m d n vs, conc base p0 a m -> lenN vs = n ->
  conc base p0 (awrite a d n) (sput base m d vs).
Proof.
  intros base p0 a m d n vs (Hs & Hr & Hp) Hn. subst n. split; [|split].
  - cbn [awrite a_h]. rewrite sput_stack. apply stack_ok_write. exact Hs.
  - intros r k Hl. cbn [awrite a_regs] in Hl. apply alookup_akill_Some in Hl. destruct Hl as [Hl Hout].
    rewrite sput_stack. apply rd1_wr_range_out; [apply Hr; exact Hl|lia].
  - exact Hp.
Qed.

Lemma conc_writec : forall base p0 a m d k, conc base p0 a m ->
  conc base p0 (awritec a d k) (sput base m d [k]).
Proof.
  intros base p0 a m d k (Hs & Hr & Hp). split; [|split].
  - cbn [awritec a_h]. rewrite sput_stack. change (d + 1) with (d + lenN [k]). apply stack_ok_write. exact Hs.
  - intros r k' Hl. cbn [awritec a_regs] in Hl. rewrite alookup_cons in Hl. rewrite sput_stack.
    destruct (N.eqb_spec d r) as [->|Hne].
    + inversion Hl; subst. apply rd1_wr_range_one.
    + apply alookup_akill_Some in Hl. destruct Hl as [Hl Hout].
      apply rd1_wr_range_out; [apply Hr; exact Hl|]. change (lenN [k]) with 1. lia.
  - exact Hp.
Qed.

Lemma finv_sput : forall p f base p0 m d vs, finv p f base p0 m -> finv p f base p0 (sput base m d vs).
Proof.
  intros p f base p0 m d vs (H1 & H2 & H3 & H4). unfold finv. rewrite sput_stack, wr_range_length.
  cbn [sput set_stack m_state m_globals]. repeat split; auto; lia.
Qed.

Lemma sput_firstn : forall p f base p0 m d vs, finv p f base p0 m ->
  firstn (nn (base - 1)) (m_stack (sput base m d vs)) = firstn (nn (base - 1)) (m_stack m).
Proof.
  intros p f base p0 m d vs (H1 & H2 & _). rewrite sput_stack. apply wr_range_firstn; unfold nn, lenN in *; lia.
Qed.

Lemma rd1_firstn_app : forall A (l t : list A) c j v,
  rd1 l j = Some v -> j < c -> rd1 (firstn (nn c) l ++ t) j = Some v.
Proof.
  intros A l t c j v H Hj. assert (Hlt := rd1_Some _ _ _ _ H). rewrite rd1_nth_error in *.
  rewrite nth_error_app1 by (rewrite firstn_length; unfold nn, lenN in *; lia).
  rewrite nth_error_firstn_lt by (unfold nn; lia). exact H.
Qed.

Lemma firstn_firstn_app : forall A (l t : list A) c c2,
  (c <= c2)%nat -> (c2 <= length l)%nat -> firstn c (firstn c2 l ++ t) = firstn c l.
Proof.
  intros A l t c c2 H1 H2. rewrite firstn_app, firstn_firstn, firstn_length.
  rewrite Nat.min_l by exact H1. replace (c - Nat.min c2 (length l))%nat with O by lia.
  rewrite firstn_O, app_nil_r. reflexivity.
Qed.

Lemma next_pc_1 : forall pc, next_pc pc 1 = Some (pc + 1).
Proof.
  intros pc. unfold next_pc. destruct (Z.ltb_spec (Z.of_N pc + 1) 0); [lia|]. f_equal. lia.
Qed.
