(* Bvm/XLocal.v — the instructions of Bvm/Model.v executed on a view of the extended machine (Bvm/XModel.v `xlocal`):
   an instruction that does not use the state storage neither reads nor changes it; no instruction lets the stack
   shrink below the base pointer; what `put_view` leaves of a view. *)
From Coq Require Import List ZArith NArith Bool Lia Arith.
From Mimium Require Import Heap.Model Heap.SlotMap.
From Mimium Require Import Bvm.Model Bvm.ListLemmas Bvm.XModel Bvm.XInv.
Import ListNotations.
Local Open Scope N_scope.

Section Local.
  Variable A : arith.
  Variable p : program.

  (* the state storage is a parameter of an instruction that does not use it *)
  Lemma lstep_nostate : forall f base u st gl q d q' d', uses_state u = false ->
    lstep A p f base u (mkMach st gl q' d') =
    match lstep A p f base u (mkMach st gl q d) with
    | LNext inc m' => LNext inc (mkMach (m_stack m') (m_globals m') q' d')
    | LFault e => LFault e
    | LUnsup e => LUnsup e
    end.
  Proof.
    intros f base u st gl q d q' d' Hu.
    destruct u; try discriminate Hu; cbn [lstep]; unfold sget, sget_range, sput, set_stack, set_globals;
      cbn [m_stack m_globals m_pos m_state];
      repeat match goal with
             | |- context [match ?X with _ => _ end] =>
                 match X with
                 | context [mkMach] => fail 1
                 | _ => destruct X
                 end
             end; reflexivity.
  Qed.

  Lemma lstep_keeps_base : forall f base u m inc m',
    lstep A p f base u m = LNext inc m' -> base <= lenN (m_stack m) -> base <= lenN (m_stack m').
  Proof.
    intros f base u m inc m' H Hb.
    assert (Hput : forall d vs m0, base <= lenN (m_stack m0) -> base <= lenN (m_stack (sput base m0 d vs))).
    { intros d vs m0 H0. unfold sput, set_stack; cbn [m_stack]. rewrite wr_range_length. lia. }
    destruct u; cbn [lstep] in H;
      repeat match type of H with
             | context [match ?X with _ => _ end] => destruct X eqn:?; try discriminate H
             end;
      try (inversion H; subst; clear H; cbn [set_stack set_pos set_globals set_state st_put m_stack];
           first [ apply Hput; cbn [m_stack]; assumption
                 | assumption
                 | rewrite ?lenN_app, lenN_firstn; lia ]).
    (* UDelay: the ring buffer leaves the stack alone *)
    - inversion H; subst; clear H. apply Hput.
      match goal with E : delay_step _ _ _ _ _ = Some (_, ?mm) |- _ =>
        unfold delay_step in E; repeat match type of E with context [if ?c then _ else _] => destruct c; try discriminate E end;
        inversion E; subst; cbn [st_put set_state m_stack]; assumption end.
  Qed.
End Local.

(* ---- views ---- *)
Lemma view_stack : forall x s, m_stack (view x s) = x_stack x.
Proof. reflexivity. Qed.

Lemma put_view_stack : forall x m, x_stack (put_view x m) = m_stack m.
Proof.
  intros x m. unfold put_view, x_stack. destruct (x_ss x) as [|c ss]; [reflexivity|].
  destruct (sm_get (x_cls x) c); reflexivity.
Qed.

Lemma put_view_globals : forall x m, m_globals (x_core (put_view x m)) = m_globals m.
Proof.
  intros x m. unfold put_view. destruct (x_ss x) as [|c ss]; [reflexivity|].
  destruct (sm_get (x_cls x) c); reflexivity.
Qed.

Lemma put_view_ss : forall x m, x_ss (put_view x m) = x_ss x.
Proof.
  intros x m. unfold put_view. destruct (x_ss x) as [|c ss] eqn:E; [cbn; exact E|].
  destruct (sm_get (x_cls x) c); cbn; exact E.
Qed.

(* the current storage after the write-back *)
Lemma cur_put_view : forall x m,
  cur_store (put_view x m) = match cur_store x with Some _ => Some (m_pos m, m_state m) | None => None end.
Proof.
  intros x m. unfold cur_store, put_view. destruct (x_ss x) as [|c ss] eqn:E.
  - cbn. rewrite E. reflexivity.
  - destruct (sm_get (x_cls x) c) as [cl|] eqn:Hg; cbn; rewrite E.
    + rewrite (set_get_same _ _ _ _ Hg). reflexivity.
    + rewrite Hg. reflexivity.
Qed.

Lemma put_view_ok : forall p x m s, xok p x -> cur_store x = Some s -> lenN (m_state m) = lenN (snd s) ->
  xok p (put_view x m).
Proof.
  intros p x m s Hok Hc Hl. unfold xok, put_view, cur_store in *. destruct (x_ss x) as [|c ss]; [exact Hok|].
  destruct (sm_get (x_cls x) c) as [cl|] eqn:Hg; [|exact Hok]. inversion Hc; subst s. cbn [snd] in Hl. cbn.
  eapply clsok_set; eauto. repeat split. cbn. symmetry. exact Hl.
Qed.

Lemma put_view_ext : forall x m,
  lenN (m_globals m) = lenN (m_globals (x_core x)) ->
  (forall s, cur_store x = Some s -> lenN (m_state m) = lenN (snd s)) ->
  (cur_store x = None -> True) ->
  xext (Some (owner x)) x (put_view x m).
Proof.
  intros x m Hg Hs _. unfold xext. rewrite put_view_ss, put_view_globals.
  split; [reflexivity|]. split; [exact Hg|]. unfold put_view, owner, cur_store in *.
  destruct (x_ss x) as [|c ss].
  - cbn. split; [apply (Hs _ eq_refl)|]. split; [intros H; exfalso; apply H; reflexivity|apply cext_refl].
  - destruct (sm_get (x_cls x) c) as [cl|] eqn:Hgc; cbn.
    + split; [reflexivity|]. split; [reflexivity|].
      eapply cext_set; [exact Hgc| |].
      * repeat split. cbn. symmetry. apply (Hs _ eq_refl).
      * intros H. exfalso. apply H. reflexivity.
    + split; [reflexivity|]. split; [reflexivity|apply cext_refl].
Qed.
