(* Bvm/Model.v — executable model of the bytecode VM (runtime/vm.rs `Machine::execute`) on the REAL compiler's
   bytecode (runtime/vm/bytecode.rs `Instruction`, runtime/vm/program.rs `Program`/`FuncProto`).
   Definitions only (lemmas: Bvm/ListLemmas.v, Bvm/Sound*.v).

   * `instr` has ONE constructor per variant of bytecode::Instruction, so the dump of a program is total.
   * `decode` maps the subset THIS file gives a meaning to onto micro-operations `uop`; everything else is
     `UUnsupported` here: `run` answers `Unsupported`.  Bvm/XModel.v extends the machine (closures, upvalue cells,
     heap objects, per-closure state storages, arrays) and runs the instructions of this file through `lstep`;
     only integer arithmetic, CastItoB and Dummy have no meaning anywhere.
   * Words are raw 64-bit patterns as Z.  The semantics is PARAMETRIC in the arithmetic: a record `arith`
     supplies the float operations on bit patterns, the truth test of JmpIfNeg, the `f64 as i64` cast used by the
     ring buffer, and the pure one-word external functions.  The safety theorem holds for every `arith`.
   * Faults are explicit and named after the Rust site (index panic / unsafe out-of-range access).
   Numbers (registers, sizes, positions) are N; lists are indexed through N.to_nat. *)
From Coq Require Import List ZArith NArith Bool.
Import ListNotations.
Local Open Scope N_scope.

(* ---------- bytecode::Instruction, one constructor per variant ---------- *)
Inductive instr : Type :=
| Move (d s : N) | MoveConst (d c : N) | MoveImmF (d : N) (bits : Z) | MoveRange (d s n : N)
| Call (f nargs nret : N) | CallCls (f nargs nret : N) | CallExtFun (f nargs nret : N)
| Closure (d f : N) | Close (s : N)
| MakeHeapClosure (d f n : N) | CloseHeapClosure (s : N) | CloneHeap (s : N) | CallIndirect (f nargs nret : N)
| BoxAlloc (d s n : N) | BoxLoad (d s n : N) | BoxClone (s : N) | BoxRelease (s : N) | BoxStore (d s n : N)
| CloneUserSum (s n t : N) | ReleaseUserSum (s n t : N)
| GetUpValue (d s n : N) | SetUpValue (d s n : N)
| GetGlobal (d g n : N) | SetGlobal (g s n : N)
| GetState (d n : N) | SetState (s n : N) | PushStatePos (k : N) | PopStatePos (k : N)
| Return0 | Return (r n : N)
| Delay (d s t : N) | Mem (d s : N)
| Jmp (off : Z) | JmpIfNeg (c : N) (off : Z) | JmpTable (s t : N)
| AddF (d a b : N) | SubF (d a b : N) | MulF (d a b : N) | DivF (d a b : N) | ModF (d a b : N)
| NegF (d a : N) | AbsF (d a : N) | SqrtF (d a : N) | SinF (d a : N) | CosF (d a : N)
| PowF (d a b : N) | LogF (d a : N)
| AddI (d a b : N) | SubI (d a b : N) | MulI (d a b : N) | DivI (d a b : N) | ModI (d a b : N)
| NegI (d a : N) | AbsI (d a : N) | PowI (d a b : N) | LogI (d a b : N)
(* Eq Ne Gt Ge Lt Le (renamed: Eq Lt Gt are the constructors of Coq's `comparison`) *)
| Not (d a : N) | CmpEq (d a b : N) | CmpNe (d a b : N) | CmpGt (d a b : N) | CmpGe (d a b : N) | CmpLt (d a b : N) | CmpLe (d a b : N)
| And (d a b : N) | Or (d a b : N)
| CastFtoI (d a : N) | CastItoF (d a : N) | CastItoB (d a : N)
| AllocArray (d s n : N) | GetArrayElem (d a i : N) | SetArrayElem (a i v : N)
| Dummy.

Inductive binop := BAddF | BSubF | BMulF | BDivF | BModF | BPowF | BEq | BNe | BGt | BGe | BLt | BLe | BAnd | BOr.
Inductive unop := ONegF | OAbsF | OSqrtF | OSinF | OCosF | OLogF | ONot | OCastFtoI | OCastItoF.

(* the supported subset, arithmetic instructions collapsed *)
Inductive uop : Type :=
| UMove (d s : N) | UConst (d c : N) | UImm (d : N) (v : Z) | UMoveRange (d s n : N)
| UBin (o : binop) (d a b : N) | UUn (o : unop) (d a : N)
| UCall (f nargs nret : N) | UExt (f nargs nret : N)
| URet0 | URet (r n : N)
| UJmp (off : Z) | UJmpIfNeg (c : N) (off : Z) | UJmpTable (s t : N)
| UGetGlobal (d g n : N) | USetGlobal (g s n : N)
| UGetState (d n : N) | USetState (s n : N) | UPush (k : N) | UPop (k : N)
| UDelay (d s t : N) | UMem (d s : N)
| USumRc (r n t : N)
| UUnsupported.

Definition decode (i : instr) : uop :=
  match i with
  | Move d s => UMove d s | MoveConst d c => UConst d c | MoveImmF d v => UImm d v | MoveRange d s n => UMoveRange d s n
  | Call f a r => UCall f a r | CallExtFun f a r => UExt f a r
  | Return0 => URet0 | Return r n => URet r n
  | Jmp o => UJmp o | JmpIfNeg c o => UJmpIfNeg c o | JmpTable s t => UJmpTable s t
  | GetGlobal d g n => UGetGlobal d g n | SetGlobal g s n => USetGlobal g s n
  | GetState d n => UGetState d n | SetState s n => USetState s n
  | PushStatePos k => UPush k | PopStatePos k => UPop k
  | Delay d s t => UDelay d s t | Mem d s => UMem d s
  | CloneUserSum r n t => USumRc r n t | ReleaseUserSum r n t => USumRc r n t
  | AddF d a b => UBin BAddF d a b | SubF d a b => UBin BSubF d a b | MulF d a b => UBin BMulF d a b
  | DivF d a b => UBin BDivF d a b | ModF d a b => UBin BModF d a b | PowF d a b => UBin BPowF d a b
  | CmpEq d a b => UBin BEq d a b | CmpNe d a b => UBin BNe d a b | CmpGt d a b => UBin BGt d a b | CmpGe d a b => UBin BGe d a b
  | CmpLt d a b => UBin BLt d a b | CmpLe d a b => UBin BLe d a b | And d a b => UBin BAnd d a b | Or d a b => UBin BOr d a b
  | NegF d a => UUn ONegF d a | AbsF d a => UUn OAbsF d a | SqrtF d a => UUn OSqrtF d a | SinF d a => UUn OSinF d a
  | CosF d a => UUn OCosF d a | LogF d a => UUn OLogF d a | Not d a => UUn ONot d a
  | CastFtoI d a => UUn OCastFtoI d a | CastItoF d a => UUn OCastItoF d a
  (* CastItoB: to_value::<bool> asserts size_of::<bool>() == 8 and always panics; bytecodegen never emits it *)
  | _ => UUnsupported
  end.

(* ---------- program ---------- *)
(* program::JumpTable *)
Record jtable := mkJT { jt_min : Z; jt_offsets : list Z }.

(* program::FuncProto; `f_pwords` is NOT a field of FuncProto: an untrusted annotation (words of the parameters) used
   only by the verifier; `f_ssize` = state_skeleton.total_size(); `f_up` = upindexes (read by Bvm/XModel.v only) *)
(* mir::OpenUpValue { pos, size, is_closure }: an entry of FuncProto.upindexes *)
Record upidx := mkUp { u_pos : N; u_size : N; u_isc : bool }.

Record fn := mkFn { f_pwords : N; f_nparam : N; f_nret : N; f_code : list instr; f_consts : list Z;
                    f_jt : list jtable; f_ssize : N; f_up : list upidx; f_ew : list (N * N) }.

(* `f_ew` is NOT a field of FuncProto either: an untrusted annotation (program counter, element width in words) for the
   GetArrayElem / SetArrayElem instructions, whose operand width is the elem_word_size of the array they meet at run time.
   Only the verifier and the instrumented semantics of Bvm/XModel.v (DynElemWidth) read it. *)
Definition ew_hint (f : fn) (pc : N) : option N :=
  match find (fun e => fst e =? pc) (f_ew f) with Some e => Some (snd e) | None => None end.

(* an entry of Program.ext_fun_table as the model sees it: a pure function that reads `arity` argument words and
   leaves ONE result word (runtime get_now / get_samplerate, the f64 -> f64 builtins), or anything else *)
Inductive ext_kind := ExtPure (code arity : N) | ExtOther
(* a builtin on Machine.arrays (plugin/builtin_functins.rs len split_head split_tail prepend append and their
   `$arityN` specialisations): given a meaning by Bvm/XModel.v only *)
| ExtArr (op ew : N)
(* the scheduler plugin's `_mimium_schedule_at` (mimium-scheduler SimpleScheduler::schedule_at): reads a time and a heap
   handle, resolves the closure behind the handle, queues a task, returns no word: Bvm/XModel.v only *)
| ExtSched.

(* types::Type as clone_usersum_recursive / release_usersum_recursive see it: Boxed(inner), UserSum { name, variants }
   (payload type per variant), Tuple / Record (word size and type of every element), TypeAlias(name), anything else *)
Inductive ty : Type :=
| TPrim
| TBoxed (inner : ty)
| TSum (name : N) (variants : list (option ty))
| TTuple (elems : list (N * ty))
| TAlias (name : N).

(* program::Program: global_fn_table, sum of global_vals, ext_fun_table, dsp_index, and for every entry of type_table
   whether the type is free of boxed references (Boxed / recursive TypeAlias): on such a type clone_usersum_recursive
   and release_usersum_recursive touch nothing; `p_tys` is the type table itself (read by Bvm/XModel.v for the entries
   that do contain boxed references) *)
Record program := mkProg { p_funs : list fn; p_gsize : N; p_ext : list ext_kind; p_dsp : option N; p_types : list bool;
                           p_tys : list ty }.

(* ---------- arithmetic, supplied from outside ---------- *)
Record arith := mkArith {
  a_bin : binop -> Z -> Z -> Z;
  a_un : unop -> Z -> Z;
  a_truthy : Z -> bool;          (* f64::from_bits(w) > 0.0 *)
  a_trunc : Z -> Z;              (* f64::from_bits(w) as i64 (saturating, NaN -> 0) *)
  a_ext : N -> list Z -> Z       (* pure external function `code` on its argument words *)
}.

(* ---------- faults ---------- *)
(* Faults whose absence depends on the VALUE a register or an upvalue cell holds at run time (a handle, a callable, the
   words of a cell), which no static check on untyped bytecode decides; the soundness theorem of the closure layer
   (Bvm/XSound*.v) excludes exactly these.  The last five are raised by the instrumented (`strict`) semantics of
   Bvm/XModel.v only: the real VM makes no such check and goes on. *)
Inductive dynfault :=
| DynHandle         (* a stale ClosureIdx / HeapIdx / ArrayIdx is dereferenced, or the object is smaller than the access:
                       get_closure (assertion of the verif build, unchecked access otherwise), drop_closure's unwrap,
                       `expect("BoxLoad: invalid heap index")`, data[..inner_size], "Invalid indirect callable" *)
| DynUpvalue        (* the content of an upvalue cell does not fit: an open cell that is being closed or written points
                       outside the value stack (get_open_upvalue reads through a raw pointer), a closure-typed cell has no
                       word (data[0]),
                       SetUpValue on a closed cell of another width (copy_from_slice) *)
| DynSignature      (* strict: the function behind an indirect callee does not fit the call site (parameter words,
                       result words, a plain function that expects upvalues or more state than the caller has left) *)
| DynReentry        (* strict: a closure is entered while the cursor of its own state storage is not at 0 *)
| DynOpenWrite      (* strict: SetUpValue through an OPEN cell (a write into another activation's registers) *)
| DynCellWidth      (* strict: an upvalue cell is not as wide as the running function's upindexes entry declares *)
| DynElemWidth.     (* strict: the array GetArrayElem / SetArrayElem meets has another elem_word_size than the annotation
                       `f_ew` gives for this program counter; an unspecialised split_head / split_tail meets an array
                       whose elements are not one word wide *)

Definition strict_only (d : dynfault) : bool :=
  match d with DynSignature | DynReentry | DynOpenWrite | DynCellWidth | DynElemWidth => true | _ => false end.

Inductive fault :=
| StackReadOOB      (* get_stack / get_stack_range / copy_within index panic *)
| ConstOOB          (* constants[pos] *)
| FnIndexOOB        (* global_fn_table[func_i] *)
| JumpOOB           (* bytecodes[pcounter] *)
| StateOOB          (* get_state / get_state_mut / ring buffer beyond rawdata (unsafe), cursor underflow *)
| GlobalOOB         (* global_vals raw slice (unsafe) *)
| BadNret           (* call_function: "invalid number of return value" *)
| ExtIndexOOB       (* fn_map.get(&idx).unwrap() *)
| JumpTableOOB      (* jump_tables[idx], empty offsets *)
| TypeTableOOB      (* get_type_from_table(idx).expect(..) *)
| BaseUnderflow     (* base_pointer - 1 with base_pointer = 0 *)
(* the closure / heap layer (Bvm/XModel.v) *)
| NoClosureEnv      (* GetUpValue / SetUpValue: cls_i.unwrap() in a function entered without a closure *)
| UpvalueIndexOOB   (* upvalues[index] *)
| Dyn (d : dynfault).

Definition is_dyn (f : fault) : bool := match f with Dyn _ => true | _ => false end.

Inductive unsup := UnsupInstr | UnsupExt | UnsupNretFallback | UnsupBoxed.

(* ---------- machine state ---------- *)
(* Machine.stack, Machine.global_vals, global_states.pos, global_states.rawdata *)
Record mach := mkMach { m_stack : list Z; m_globals : list Z; m_pos : N; m_state : list Z }.

Definition nn := N.to_nat.
Definition lenN {A} (l : list A) : N := N.of_nat (length l).

(* &l[i .. i+n] (index panic when out of range) *)
Definition rd_range {A} (l : list A) (i n : N) : option (list A) :=
  if i + n <=? lenN l then Some (firstn (nn n) (skipn (nn i) l)) else None.

(* l[i] (the bound is tested before the index is converted: a raw word may be astronomically large) *)
Definition rd1 {A} (l : list A) (i : N) : option A := if i <? lenN l then nth_error l (nn i) else None.

(* vm.rs set_vec_range: overwrite in place, growing (zero filled) when the range ends beyond the vector *)
Definition wr_range {A} (dflt : A) (l : list A) (i : N) (vs : list A) : list A :=
  firstn (nn i) (l ++ repeat dflt (nn i - length l)) ++ vs ++ skipn (nn i + length vs) l.

Definition set_stack (m : mach) (s : list Z) : mach := mkMach s (m_globals m) (m_pos m) (m_state m).
Definition set_state (m : mach) (s : list Z) : mach := mkMach (m_stack m) (m_globals m) (m_pos m) s.
Definition set_globals (m : mach) (g : list Z) : mach := mkMach (m_stack m) g (m_pos m) (m_state m).
Definition set_pos (m : mach) (p : N) : mach := mkMach (m_stack m) (m_globals m) p (m_state m).

(* get_stack(r) / get_stack_range(r, n) / set_stack_range(r, vs) relative to the base pointer *)
Definition sget (base : N) (m : mach) (r : N) : option Z := rd1 (m_stack m) (base + r).
Definition sget_range (base : N) (m : mach) (r n : N) : option (list Z) := rd_range (m_stack m) (base + r) n.
Definition sput (base : N) (m : mach) (r : N) (vs : list Z) : mach :=
  set_stack m (wr_range 0%Z (m_stack m) (base + r) vs).

(* StateStorage::get_state(size) at the cursor *)
Definition st_get (m : mach) (n : N) : option (list Z) := rd_range (m_state m) (m_pos m) n.
(* get_state_mut(size).copy_from_slice(vs) *)
Definition st_put (m : mach) (off : N) (vs : list Z) : mach :=
  set_state m (wr_range 0%Z (m_state m) (m_pos m + off) vs).

Definition clampZ (t lo hi : Z) : Z := Z.max lo (Z.min t hi).

(* i64 reading of a raw word *)
Definition to_i64 (w : Z) : Z := if (w <? 9223372036854775808)%Z then w else (w - 18446744073709551616)%Z.

(* local result of one instruction that neither calls nor returns: program-counter increment and new state *)
Inductive lres := LNext (inc : Z) (m : mach) | LFault (f : fault) | LUnsup (u : unsup).

Section Exec.
  Variable A : arith.
  Variable p : program.

  (* Ringbuffer::process on [read_idx; write_idx; data[len]] at the cursor; the three words and the data must lie
     inside rawdata (get_as_ringbuffer builds the references with raw pointer arithmetic) *)
  Definition delay_step (m : mach) (len : N) (x t : Z) : option (Z * mach) :=
    if m_pos m + 2 + len <=? lenN (m_state m) then
      if len =? 0 then Some (0%Z, m)
      else
        let l := Z.of_N len in
        let ds := clampZ (a_trunc A t) 0 (l - 1) in
        let w := (nth (nn (m_pos m + 1)) (m_state m) 0 mod l)%Z in
        let r := ((w + l - ds) mod l)%Z in
        let res := nth (nn (m_pos m + 2 + Z.to_N r)) (m_state m) 0%Z in
        let m1 := st_put m (Z.to_N w + 2) [x] in
        let m2 := st_put m1 0 [r] in
        let m3 := st_put m2 1 [((w + 1) mod l)%Z] in
        Some (res, m3)
    else None.

  Definition lstep (f : fn) (base : N) (u : uop) (m : mach) : lres :=
    match u with
    | UMove d s =>
        match sget base m s with
        | Some v => LNext 1 (sput base m d [v])
        | None => LFault StackReadOOB
        end
    | UConst d c =>
        match rd1 (f_consts f) c with
        | Some v => LNext 1 (sput base m d [v])
        | None => LFault ConstOOB
        end
    | UImm d v => LNext 1 (sput base m d [v])
    | UMoveRange d s n =>
        match sget_range base m s n with
        | Some vs => LNext 1 (sput base m d vs)
        | None => LFault StackReadOOB
        end
    | UBin o d a b =>
        match sget base m a, sget base m b with
        | Some x, Some y => LNext 1 (sput base m d [a_bin A o x y])
        | _, _ => LFault StackReadOOB
        end
    | UUn o d a =>
        match sget base m a with
        | Some x => LNext 1 (sput base m d [a_un A o x])
        | None => LFault StackReadOOB
        end
    | UExt fr nargs nret =>
        (* CallExtFun: index in register fr, arguments above it; the result words end up at fr *)
        match sget base m fr with
        | None => LFault StackReadOOB
        | Some iv =>
            match rd1 (p_ext p) (Z.to_N iv) with
            | None => LFault ExtIndexOOB
            | Some ExtOther | Some (ExtArr _ _) | Some ExtSched => LUnsup UnsupExt
            | Some (ExtPure code arity) =>
                let base' := base + fr + 1 in
                if (nargs =? 0) || (base' + nargs <=? lenN (m_stack m)) then
                  match rd_range (m_stack m) base' arity with
                  | None => LFault StackReadOOB
                  | Some args =>
                      let res := a_ext A code args in
                      if nret =? 1 then LNext 1 (set_stack m (firstn (nn (base + fr)) (m_stack m) ++ [res]))
                      else if nret =? 0 then LNext 1 (set_stack m (firstn (nn (base + fr)) (m_stack m)))
                      else if nret <=? nargs then LUnsup UnsupNretFallback
                      else LFault BadNret
                  end
                else LFault StackReadOOB
            end
        end
    | UJmp off => LNext off m
    | UJmpIfNeg c off =>
        match sget base m c with
        | Some v => LNext (if a_truthy A v then 1 else off) m
        | None => LFault StackReadOOB
        end
    | UJmpTable s t =>
        match sget base m s with
        | None => LFault StackReadOOB
        | Some v =>
            match rd1 (f_jt f) t with
            | None => LFault JumpTableOOB
            | Some tb =>
                match jt_offsets tb with
                | [] => LFault JumpTableOOB
                | o0 :: _ =>
                    (* vm.rs since 9f2ab74 (fix J1): val.checked_sub(table.min), then usize::try_from: an index that does not
                       exist (below the smallest case, above the largest, or not representable) takes the default offset, the
                       last entry.  (Before the repair: `(val - min) as usize`, which overflowed for val = i64::MIN.) *)
                    let idx := (to_i64 v - jt_min tb)%Z in
                    LNext (if ((0 <=? idx) && (idx <? Z.of_nat (length (jt_offsets tb))))%Z
                           then nth (Z.to_nat idx) (jt_offsets tb) o0
                           else last (jt_offsets tb) o0) m
                end
            end
        end
    | UGetGlobal d g n =>
        match rd_range (m_globals m) g n with
        | Some vs => LNext 1 (sput base m d vs)
        | None => LFault GlobalOOB
        end
    | USetGlobal g s n =>
        match sget_range base m s n with
        | None => LFault StackReadOOB
        | Some vs =>
            if g + n <=? lenN (m_globals m)
            then LNext 1 (set_globals m (wr_range 0%Z (m_globals m) g vs))
            else LFault GlobalOOB
        end
    | UGetState d n =>
        match st_get m n with
        | Some vs => LNext 1 (sput base m d vs)
        | None => LFault StateOOB
        end
    | USetState s n =>
        match sget_range base m s n with
        | None => LFault StackReadOOB
        | Some vs =>
            if m_pos m + n <=? lenN (m_state m) then LNext 1 (st_put m 0 vs) else LFault StateOOB
        end
    | UPush k => LNext 1 (set_pos m (m_pos m + k))
    | UPop k => if k <=? m_pos m then LNext 1 (set_pos m (m_pos m - k)) else LFault StateOOB
    | UDelay d s t =>
        match sget base m s, sget base m t, sget base m d with
        | Some x, Some tv, Some sz =>
            match delay_step m (Z.to_N sz) x tv with
            | Some (res, m') => LNext 1 (sput base m' d [res])
            | None => LFault StateOOB
            end
        | _, _, _ => LFault StackReadOOB
        end
    | UMem d s =>
        match sget base m s with
        | None => LFault StackReadOOB
        | Some x =>
            match st_get m 1 with
            | Some [old] => LNext 1 (st_put (sput base m d [old]) 0 [x])
            | _ => LFault StateOOB
            end
        end
    | USumRc r n t =>
        (* CloneUserSum / ReleaseUserSum: type lookup, then the value words are read; nothing else on a plain type *)
        match rd1 (p_types p) t with
        | None => LFault TypeTableOOB
        | Some false => LUnsup UnsupBoxed
        | Some true =>
            match sget_range base m r n with
            | Some _ => LNext 1 m
            | None => LFault StackReadOOB
            end
        end
    | UCall _ _ _ | URet0 | URet _ _ | UUnsupported => LUnsup UnsupInstr
    end.

  Inductive outcome := Ret (n : N) (m : mach) | Fault (f : fault) | OutOfFuel | Unsupported (u : unsup).

  Definition next_pc (pc : N) (inc : Z) : option N :=
    let z := (Z.of_N pc + inc)%Z in if (z <? 0)%Z then None else Some (Z.to_N z).

  (* Machine::execute(fi) from program counter pc with base pointer `base`; one unit of fuel per instruction *)
  Fixpoint run (fuel : nat) (fi : N) (base : N) (pc : N) (m : mach) {struct fuel} : outcome :=
    match fuel with
    | O => OutOfFuel
    | S k =>
        match rd1 (p_funs p) fi with
        | None => Fault FnIndexOOB
        | Some f =>
            match rd1 (f_code f) pc with
            | None => Fault JumpOOB
            | Some i =>
                match decode i with
                | UUnsupported => Unsupported UnsupInstr
                | URet0 =>
                    (* stack.truncate(base - 1) *)
                    if base =? 0 then Fault BaseUnderflow
                    else Ret 0 (set_stack m (firstn (nn (base - 1)) (m_stack m)))
                | URet r n =>
                    (* return_general: copy_within(iret .. iret+nret, base-1); truncate(base-1+nret) *)
                    if base =? 0 then Fault BaseUnderflow
                    else match sget_range base m r n with
                         | Some vs => Ret n (set_stack m (firstn (nn (base - 1)) (m_stack m) ++ vs))
                         | None => Fault StackReadOOB
                         end
                | UCall fr nargs nret_req =>
                    match sget base m fr with
                    | None => Fault StackReadOOB
                    | Some fv =>
                        let base' := base + fr + 1 in
                        (* call_function: the argument snapshot reads nargs words of the new frame *)
                        if (nargs =? 0) || (base' + nargs <=? lenN (m_stack m)) then
                          match run k (Z.to_N fv) base' 0 m with
                          | Ret n m1 =>
                              if nret_req <=? n then
                                (* stack.truncate(base' + nret_req) *)
                                let m2 := set_stack m1 (firstn (nn (base' + nret_req)) (m_stack m1)) in
                                run k fi base (pc + 1) m2
                              else if (n =? 1) && (nret_req <=? nargs) then Unsupported UnsupNretFallback
                              else Fault BadNret
                          | o => o
                          end
                        else Fault StackReadOOB
                    end
                | u =>
                    match lstep f base u m with
                    | LNext inc m' =>
                        match next_pc pc inc with
                        | Some pc' => run k fi base pc' m'
                        | None => Fault JumpOOB
                        end
                    | LFault x => Fault x
                    | LUnsup x => Unsupported x
                    end
                end
            end
        end
    end.

  (* Vec::resize(n, 0) *)
  Definition resize0 (l : list Z) (n : N) : list Z := firstn (nn n) l ++ repeat 0%Z (nn n - length l).

  (* Machine::execute_main: the initialiser runs on a state storage of its own (cursor 0, zero words of main's skeleton
     size); dsp's storage (std::mem::take) is put back afterwards; base_pointer 0 -> 1, execute(0) *)
  Definition exec_main (fuel : nat) (m : mach) : outcome :=
    match rd1 (p_funs p) 0 with
    | None => Fault FnIndexOOB
    | Some f =>
        match run fuel 0 1 0 (mkMach (m_stack m) (m_globals m) 0 (repeat 0%Z (nn (f_ssize f)))) with
        | Ret n m' => Ret n (mkMach (m_stack m') (m_globals m') (m_pos m) (m_state m))
        | o => o
        end
    end.

  (* VmDspRuntime::set_input (set_stack_range(0, input) with base pointer 1) then Machine::execute_idx(dsp):
     resize the state storage to dsp's skeleton, stack[0] = 0 when the stack is not empty, base pointer 1 *)
  Definition exec_dsp (fuel : nat) (inputs : list Z) (m : mach) : outcome :=
    match p_dsp p with
    | None => Fault FnIndexOOB
    | Some di =>
        match rd1 (p_funs p) di with
        | None => Fault FnIndexOOB
        | Some f =>
            let m := match inputs with [] => m | _ => sput 1 m 0 inputs end in
            match f_code f with
            | [] => Ret 0 m
            | _ =>
                let m := set_state m (resize0 (m_state m) (f_ssize f)) in
                let m := match m_stack m with [] => m | _ :: rest => set_stack m (0%Z :: rest) end in
                run fuel di 1 0 m
            end
        end
    end.

End Exec.

(* Machine::new: globals zeroed, everything else empty *)
Definition mach0 (p : program) : mach := mkMach [] (repeat 0%Z (nn (p_gsize p))) 0 [].

(* a session after main: one dsp call per step; every step brings its own arithmetic (the external function
   `now` changes from sample to sample) and its input words.  Stops at the first outcome that is not a return. *)
Fixpoint run_session (p : program) (fuel : nat) (steps : list (arith * list Z)) (m : mach) : list outcome :=
  match steps with
  | [] => []
  | (A, r) :: rest =>
      match exec_dsp A p fuel r m with
      | Ret n m' => Ret n m' :: run_session p fuel rest m'
      | o => [o]
      end
  end.
