(* Bvm/Examples.v — concrete programs for the Examples of Props/C03_bvm.v.
   ex_stateful, ex_default_param and ex_sum_match are REAL dumps (harness bc_dump of the sources quoted below, printed by a script);
   ex_read_above and ex_unbalanced are hand-made bad programs. `toy` is an arithmetic good enough to run them:
   the truth test is the exact `> 0.0` on bit patterns, every other operation is addition modulo 2^64. *)
From Coq Require Import List ZArith NArith Bool.
From Mimium Require Import Bvm.Model Bvm.Verify.
Import ListNotations.
Local Open Scope N_scope.

Definition mkFn0 pw np nr code consts jt ss : fn := mkFn pw np nr code consts jt ss [] [].

Definition toy : arith :=
  mkArith (fun _ x y => ((x + y) mod 18446744073709551616)%Z) (fun _ x => x)
          (fun x => ((0 <? x) && (x <=? 9218868437227405312))%Z) (fun _ => 0%Z) (fun _ _ => 0%Z).

(* source:
fn cnt(i){ self + i }
fn g(x, y){ mem(x) + delay(4.0, y, 2.0) }
fn dsp(){ 
  let a = cnt(1.0)
  let b = if (a > 3.0) g(a, 2.0) else cnt(10.0)
  (a, b + now)
}
*)
Definition ex_stateful : program :=
  mkProg [
    (* _mimium_global *)
    mkFn0 0 0 0
      [Return0]
      [] [] 0;
    (* cnt *)
    mkFn0 1 1 1
      [GetState 1 1; Move 2 1; Move 3 0; AddF 2 2 3; SetState 2 1; Return 2 1]
      [] [] 1;
    (* g *)
    mkFn0 2 2 1
      [Move 2 0; Mem 2 2; Move 3 1; MoveImmF 4 4611686018427387904%Z; PushStatePos 1; MoveConst 5 0; Delay 5 3 4; AddF 2 2 5; PopStatePos 1; Return 2 1]
      [4%Z] [] 7;
    (* dsp *)
    mkFn0 0 0 2
      [MoveImmF 0 4607182418800017408%Z; MoveConst 1 0; Move 2 1; Move 3 0; Call 2 1 1; Move 3 2; Move 4 3; MoveImmF 5 4613937818241073152%Z; CmpGt 4 4 5; PushStatePos 1; JmpIfNeg 4 (12)%Z; Move 4 3; MoveImmF 5 4611686018427387904%Z; MoveConst 6 1; Move 7 6; Move 8 4; Move 9 5; Call 7 2 1; PushStatePos 7; PushStatePos 1; Move 11 7; Jmp (9)%Z; MoveImmF 8 4621819117588971520%Z; PushStatePos 7; MoveConst 9 0; Move 10 9; Move 11 8; Call 10 1 1; PushStatePos 1; Move 11 10; Move 12 11; Move 15 3; Move 13 15; Move 15 12; MoveConst 16 2; CallExtFun 16 0 1; AddF 15 15 16; Move 14 15; PopStatePos 9; Return 13 2]
      [1%Z; 2%Z; 0%Z] [] 9]
    0 [ExtPure 0 0] (Some 3) [] [].

(* real VM: [{"out": ["3ff0000000000000", "4024000000000000"], "pos": 0, "rc": 2, "words": [4607182418800017408, 0, 0, 0, 0, 0, 0, 0, 4621819117588971520]}, {"out": ["4000000000000000", "4035000000000000"], "pos": 0, "rc": 2, "words": [4611686018427387904, 0, 0, 0, 0, 0, 0, 0, 4626322717216342016]}, {"out": ["4008000000000000", "4040000000000000"], "pos": 0, "rc": 2, "words": [4613937818241073152, 0, 0, 0, 0, 0, 0, 0, 4629137466983448576]}, {"out": ["4010000000000000", "4008000000000000"], "pos": 0, "rc": 2, "words": [4616189618054758400, 4616189618054758400, 2, 1, 4611686018427387904, 0, 0, 0, 4629137466983448576]}] *)

(* source:
fn f3(a:float,b:float,c:float = 5.0){
  c+a+b
}
fn dsp(){
  {a=1.0,b=5.0, .. } |> f3
}
*)
Definition ex_default_param : program :=
  mkProg [
    (* _mimium_global *)
    mkFn0 0 0 0
      [Return0]
      [] [] 0;
    (* f3 *)
    mkFn0 3 3 1
      [Move 3 2; Move 4 0; AddF 3 3 4; Move 4 1; AddF 3 3 4; Return 3 1]
      [] [] 0;
    (* __default_1_c *)
    mkFn0 0 0 1
      [MoveImmF 0 4617315517961601024%Z; Return 0 1]
      [] [] 0;
    (* dsp *)
    mkFn0 0 0 1
      [MoveImmF 2 4607182418800017408%Z; Move 0 2; MoveImmF 2 4617315517961601024%Z; Move 1 2; MoveConst 2 0; Move 3 2; Move 4 0; Move 5 1; Call 3 2 1; Return 3 1]
      [1%Z] [] 0]
    0 [] (Some 3) [] [].

(* real VM: [{"panic": "range end index 8 out of range for slice of length 7"}] *)

(* source:
type Dir = Up | Down | Mid(float)
fn cnt(x){ self + x }
fn f0(q: Dir, x: float) -> float {
  match q { Up => cnt(x), Down => mem(x) * 2.0, Mid(r) => delay(3.0, r, 1.0) + x }
}
fn dsp(){
  f0(Up, now) + f0(Mid(5.0), 2.0) + f0(Down, 1.0)
}
*)
Definition ex_sum_match : program :=
  mkProg [
    (* _mimium_global *)
    mkFn0 0 0 0
      [Return0]
      [] [] 0;
    (* cnt *)
    mkFn0 1 1 1
      [GetState 1 1; Move 2 1; Move 3 0; AddF 2 2 3; SetState 2 1; Return 2 1]
      [] [] 1;
    (* f0 *)
    mkFn0 3 2 1
      [MoveRange 3 0 2; Move 5 3; JmpTable 5 0; Move 5 2; MoveConst 6 0; Move 7 6; Move 8 5; Call 7 1 1; PushStatePos 1; PushStatePos 6; Move 12 7; Jmp (21)%Z; Move 8 2; PushStatePos 1; Mem 8 8; MoveImmF 9 4611686018427387904%Z; MulF 8 8 9; PushStatePos 1; PushStatePos 5; Move 12 8; Jmp (12)%Z; Move 9 4; Move 10 9; Move 11 10; MoveImmF 12 4607182418800017408%Z; PushStatePos 2; MoveConst 13 1; Delay 13 11 12; Move 14 2; AddF 11 13 14; PushStatePos 5; Move 12 11; PopStatePos 7; Return 12 1]
      [1%Z; 3%Z] [mkJT (0)%Z [(1)%Z; (10)%Z; (19)%Z; (19)%Z]] 7;
    (* dsp *)
    mkFn0 0 0 1
      [MoveConst 0 0; MoveConst 1 0; CloneUserSum 0 2 0; MoveConst 2 0; CallExtFun 2 0 1; MoveConst 3 1; Move 4 3; MoveRange 5 0 2; Move 7 2; Call 4 3 1; MoveImmF 5 4617315517961601024%Z; MoveConst 6 1; MoveConst 7 0; Move 7 5; CloneUserSum 6 2 0; MoveImmF 8 4611686018427387904%Z; PushStatePos 7; MoveConst 9 1; Move 10 9; MoveRange 11 6 2; Move 13 8; Call 10 3 1; AddF 0 4 10; MoveConst 1 2; MoveConst 2 0; CloneUserSum 1 2 0; MoveImmF 3 4607182418800017408%Z; PushStatePos 7; MoveConst 4 3; Move 5 4; MoveRange 6 1 2; Move 8 3; Call 5 3 1; AddF 0 0 5; PopStatePos 14; Return 0 1]
      [0%Z; 2%Z; 1%Z; 2%Z] [] 21]
    0 [ExtPure 0 0] (Some 3) [true] [].

(* real VM: [{"out": ["4000000000000000"], "pos": 0, "rc": 1, "words": [0, 0, 0, 0, 0, 0, 0, 0, 0, 2, 1, 4617315517961601024, 0, 0, 0, 4607182418800017408, 0, 0, 0, 0, 0]}, {"out": ["4024000000000000"], "pos": 0, "rc": 1, "words": [4607182418800017408, 0, 0, 0, 0, 0, 0, 0, 0, 0, 2, 4617315517961601024, 4617315517961601024, 0, 0, 4607182418800017408, 0, 0, 0, 0, 0]}, {"out": ["4028000000000000"], "pos": 0, "rc": 1, "words": [4613937818241073152, 0, 0, 0, 0, 0, 0, 0, 0, 1, 0, 4617315517961601024, 4617315517961601024, 4617315517961601024, 0, 4607182418800017408, 0, 0, 0, 0, 0]}] *)

(* reads register 5 although nothing above register 0 was written *)
Definition ex_read_above : program :=
  mkProg [mkFn0 0 0 0 [Return0] [] [] 0;
          mkFn0 0 0 1 [MoveImmF 0 0%Z; Move 1 5; Return 1 1] [] [] 0]
    0 [] (Some 1) [] [].

(* pushes the state cursor past its only cell and reads there *)
Definition ex_unbalanced : program :=
  mkProg [mkFn0 0 0 0 [Return0] [] [] 0;
          mkFn0 0 0 1 [PushStatePos 1; GetState 0 1; Return 0 1] [] [] 1]
    0 [] (Some 1) [] [].

(* the machine after Machine::new and execute_main *)
Definition after_main (p : program) : option mach :=
  match exec_main toy p 100 (mach0 p) with Ret _ m => Some m | _ => None end.
