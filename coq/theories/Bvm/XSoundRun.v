(* Bvm/XSoundRun.v — soundness of the extended bytecode verifier (Bvm/XVerify.v) for the instrumented semantics
   (Bvm/XModel.v, strict = true): in a program whose every function passes `xcheck_fn`, `xrun` started in a machine
   the table describes never meets an unsupported instruction and faults only in the dynamic class; when it returns
   it returns the declared number of words, every state storage has kept its size and its cursor (the current one is
   back at its entry value), the closure table is in shape and the caller's part of the stack is untouched. *)
From Coq Require Import List ZArith NArith Bool Lia Arith.
From Mimium Require Import Heap.Model Heap.SlotMap.
From Mimium Require Import Bvm.Model Bvm.Verify Bvm.ListLemmas Bvm.SoundAbs Bvm.SoundStep Bvm.SoundRun.
From Mimium Require Import Bvm.XModel Bvm.XVerify Bvm.XInv Bvm.XDyn Bvm.XLocal Bvm.XSoundStep Bvm.XSoundArr.
Import ListNotations.
Local Open Scope N_scope.

Definition xprog_ok (p : program) : Prop := forall f, In f (p_funs p) -> xcheck_fn p f (xinfer p f) = true.

Lemma xcheck_fn_at : forall p f pc a,
  xcheck_fn p f (xinfer p f) = true -> rd1 (xinfer p f) pc = Some (Some a) ->
  exists i succs, rd1 (f_code f) pc = Some i /\ xflow p f pc a (xdecode i) = Some succs /\
    forall q a', In (q, a') succs -> exists b, rd1 (xinfer p f) q = Some (Some b) /\ sub a' b = true.
Proof.
  intros p f pc a Hck Hpc. unfold xcheck_fn in Hck.
  apply andb_true_iff in Hck. destruct Hck as [Hck Hall]. apply andb_true_iff in Hck. destruct Hck as [Hlen _].
  apply N.eqb_eq in Hlen. rewrite forallb_forall in Hall.
  assert (Hlt : pc < lenN (f_code f)) by (rewrite <- Hlen; eapply rd1_Some; eauto).
  specialize (Hall pc (indices_In _ _ _ Hlt)). unfold xcheck_at in Hall. rewrite Hpc in Hall.
  destruct (rd1 (f_code f) pc) as [i|] eqn:Ei; [|discriminate].
  destruct (xflow p f pc a (xdecode i)) as [succs|] eqn:Efl; [|discriminate].
  exists i, succs. split; [reflexivity|]. split; [exact Efl|].
  intros q a' Hin. rewrite forallb_forall in Hall. specialize (Hall (q, a') Hin). cbn [fst snd] in Hall.
  destruct (rd1 (xinfer p f) q) as [[b|]|]; try discriminate. exists b. auto.
Qed.

Lemma xcheck_fn_entry : forall p f, xcheck_fn p f (xinfer p f) = true ->
  exists a0, rd1 (xinfer p f) 0 = Some (Some a0) /\ sub (entry f) a0 = true.
Proof.
  intros p f Hck. unfold xcheck_fn in Hck.
  apply andb_true_iff in Hck. destruct Hck as [Hck _]. apply andb_true_iff in Hck. destruct Hck as [_ Hent].
  destruct (xinfer p f) as [|[a0|] T]; try discriminate. exists a0. split; [reflexivity|exact Hent].
Qed.

Definition xret_ok (p : program) (f : fn) (base p0 : N) (x : xmach) (o : xoutcome) : Prop :=
  match o with
  | XFault e => is_dyn e = true
  | XUnsupported _ => False
  | XOutOfFuel => True
  | XRet n x' =>
      n = f_nret f /\ xok p x' /\ xext (Some (owner x)) x x' /\
      (forall s', cur_store x' = Some s' -> fst s' = p0) /\
      lenN (x_stack x') = base - 1 + n /\
      firstn (nn (base - 1)) (x_stack x') = firstn (nn (base - 1)) (x_stack x)
  end.

Lemma frs_sub : forall p f fi ci base p0 a' b x, frs p f fi ci base p0 a' x -> sub a' b = true -> frs p f fi ci base p0 b x.
Proof.
  intros p f fi ci base p0 a' b x (F1 & F2 & F3 & F4 & F5 & F6 & F7 & F8 & F9) Hsub.
  pose (m := mkMach (x_stack x) [] (p0 + a_pos a') []).
  assert (Hc : conc base p0 a' m) by (split; [exact F1|split; [exact F2|reflexivity]]).
  destruct (conc_sub base p0 a' b m Hc Hsub) as (C1 & C2 & C3). cbn [m m_pos m_stack] in *.
  unfold frs. split; [exact C1|]. split; [exact C2|]. repeat (split; [assumption|]).
  split; [|auto]. intros s Hs. destruct (F6 s Hs) as [P1 P2]. split; [lia|exact P2].
Qed.

Lemma xset_stack_id : forall x, xset_stack x (x_stack x) = x.
Proof. intros [[st gl ps sd] c h ce ss ar]. reflexivity. Qed.

(* the cursor of the exempted owner is where it was: nothing moved *)
Lemma xext_upgrade : forall ow x x1, xext (Some ow) x x1 -> (forall c, owner x = Some c -> bound (x_cls x) c) -> owner x = ow ->
  (forall s s1, cur_store x = Some s -> cur_store x1 = Some s1 -> fst s1 = fst s) -> xext None x x1.
Proof.
  intros ow x x1 (E1 & E2 & E3 & E4 & [EB EG]) Hb How Hcur. unfold xext.
  split; [exact E1|]. split; [exact E2|]. split; [exact E3|].
  unfold owner, cur_store in *. rewrite E1 in Hcur. destruct (x_ss x) as [|c ss]; subst ow.
  - split; [intros _; apply (Hcur _ _ eq_refl eq_refl)|].
    split; [exact EB|]. intros k cl' Hbk Hg'. destruct (EG k cl' Hbk Hg') as (cl & Hg & S & P).
    exists cl. split; [exact Hg|]. split; [exact S|]. intros _. apply P. discriminate.
  - split; [intros _; apply E4; discriminate|].
    split; [exact EB|]. intros k cl' Hbk Hg'. destruct (EG k cl' Hbk Hg') as (cl & Hg & S & P).
    exists cl. split; [exact Hg|]. split; [exact S|]. intros _.
    destruct (key_eq_dec k c) as [->|Hne].
    + rewrite Hg, Hg' in Hcur. apply (Hcur _ _ eq_refl eq_refl).
    + apply P. intros H. inversion H. congruence.
Qed.

(* the same evolution seen from machines that differ in states_stack only *)
Lemma xext_ss : forall o x0 x1 x x1', xext o x0 x1 ->
  x_core x = x_core x0 -> x_cls x = x_cls x0 -> x_core x1' = x_core x1 -> x_cls x1' = x_cls x1 -> x_ss x1' = x_ss x ->
  xext o x x1'.
Proof.
  intros o x0 x1 x x1' (E1 & E2 & E3 & E4 & E5) A1 A2 B1 B2 Hss. unfold xext. rewrite A1, A2, B1, B2. auto.
Qed.

Section Run.
  Variable A : arith.
  Variable p : program.
  Hypothesis Hok : xprog_ok p.

  Lemma strict_ok_spec : forall x g c nargs nret gf,
    strict_ok p true x g c nargs nret = None -> rd1 (p_funs p) g = Some gf ->
    f_pwords gf <= nargs /\ nret = f_nret gf /\
    match c with
    | Some k => forall cl, sm_get (x_cls x) k = Some cl -> c_pos cl = 0
    | None => f_up gf = [] /\ forall s, cur_store x = Some s -> fst s + f_ssize gf <= lenN (snd s)
    end.
  Proof.
    intros x g c nargs nret gf H Hg. unfold strict_ok in H. rewrite Hg in H.
    destruct ((f_pwords gf <=? nargs) && (nret =? f_nret gf)) eqn:E; cbn [negb] in H; [|discriminate].
    apply andb_true_iff in E. destruct E as [E1 E2]. apply N.leb_le in E1. apply N.eqb_eq in E2.
    split; [exact E1|]. split; [exact E2|]. destruct c as [k|].
    - intros cl Hcl. rewrite Hcl in H. destruct (N.eqb_spec (c_pos cl) 0); [assumption|discriminate].
    - destruct (f_up gf); [|discriminate]. split; [reflexivity|]. intros s Hs. rewrite Hs in H.
      destruct (N.leb_spec (fst s + f_ssize gf) (lenN (snd s))); [assumption|discriminate].
  Qed.

  (* what an indirect callee is *)
  Lemma callee_cls_spec : forall x v g c, callee_cls x v = Some (g, c) ->
    exists k cl, c = Some k /\ sm_get (x_cls x) k = Some cl /\ c_fn cl = g.
  Proof.
    intros x v g c H. unfold callee_cls in H. destruct (sm_get (x_cls x) (kraw v)) as [cl|] eqn:E; [|discriminate].
    inversion H; subst. eauto.
  Qed.

  Lemma callee_ind_spec : forall x v g c, callee_ind p x v = Some (g, c) ->
    match c with
    | Some k => exists cl, sm_get (x_cls x) k = Some cl /\ c_fn cl = g
    | None => g < lenN (p_funs p)
    end.
  Proof.
    intros x v g c H. unfold callee_ind in H.
    match type of H with match ?V with _ => _ end = _ => destruct V as [k|] end.
    - destruct (sm_get (x_cls x) k) as [cl|] eqn:E; [|discriminate]. inversion H; subst. eauto.
    - destruct (sm_contains (x_cls x) (kffi v)).
      + destruct (sm_get (x_cls x) (kffi v)) as [cl|] eqn:E; [|discriminate]. inversion H; subst. eauto.
      + destruct (N.ltb_spec (Z.to_N v) (lenN (p_funs p))); [|discriminate]. inversion H; subst. assumption.
  Qed.

  Theorem xrun_sound : forall fuel fi f ci base pc x fl a p0,
    rd1 (p_funs p) fi = Some f -> rd1 (xinfer p f) pc = Some (Some a) ->
    frs p f fi ci base p0 a x -> xok p x ->
    xret_ok p f base p0 x (xrun A p true fuel fi ci base pc x fl).
  Proof.
    induction fuel as [|k IH]; intros fi f ci base pc x fl a p0 Hfi Hpc F Hx; [exact I|].
    assert (Hck : xcheck_fn p f (xinfer p f) = true) by (apply Hok; eapply rd1_In; eauto).
    destruct (xcheck_fn_at _ _ _ _ Hck Hpc) as (i & succs & Hi & Hflow & Hsucc).
    cbn [xrun]. rewrite Hfi, Hi.
    (* ---- after a step that neither calls nor returns ---- *)
    assert (Hlocal : forall r, xstep_ok p f fi ci base p0 pc x succs r ->
              xret_ok p f base p0 x (xcontinue (fun pc' x' fl' => xrun A p true k fi ci base pc' x' fl') pc r)).
    { intros r Hr. destruct r as [inc x' fl'|e|e|]; cbn [xstep_ok xcontinue] in *; [|exact Hr|contradiction|exact I].
      destruct Hr as (pc' & a' & E2 & E3 & F' & Ok' & Ext & Fr). rewrite E2.
      destruct (Hsucc _ _ E3) as (b & Hb & Hsub).
      pose proof (IH fi f ci base pc' x' fl' b p0 Hfi Hb (frs_sub _ _ _ _ _ _ _ _ _ F' Hsub) Ok') as R.
      destruct (xrun A p true k fi ci base pc' x' fl') as [n x''| | |]; cbn [xret_ok] in *; auto.
      destruct R as (R1 & R2 & R3 & R4 & R5 & R6).
      assert (Hown : owner x' = owner x) by (unfold owner; destruct Ext as (-> & _); reflexivity).
      rewrite Hown in R3. split; [exact R1|]. split; [exact R2|]. split; [eapply xext_trans; eauto|].
      split; [exact R4|]. split; [exact R5|]. congruence. }
    (* ---- Return / Return0: the stack is cut, then the scope's closures are released ---- *)
    assert (Hexit : forall xc n, lite x xc -> a_pos a = 0 -> n = f_nret f ->
              lenN (x_stack xc) = base - 1 + n ->
              firstn (nn (base - 1)) (x_stack xc) = firstn (nn (base - 1)) (x_stack x) ->
              xret_ok p f base p0 x (scope_exit k xc fl n)).
    { intros xc n L Hp0 Hn Hlen Hfr. unfold scope_exit.
      assert (Hxc : xok p xc) by (eapply lite_ok; eauto).
      pose proof (release_open_good p k (fl_lc fl) xc Hxc) as D1.
      destruct (xrelease_open k xc (fl_lc fl)) as [x1|e|]; cbn [dgood] in D1; [|exact D1|exact I].
      pose proof (release_heap_all_good p k (fl_lh fl) x1 (proj1 D1)) as D2.
      destruct (xrelease_heap_all k x1 (fl_lh fl)) as [x2|e|]; cbn [dgood] in D2; [|exact D2|exact I].
      destruct D1 as (O1 & E1 & C1). destruct D2 as (O2 & E2 & C2).
      assert (E : xext None x x2).
      { eapply xext_trans; [|exact E2]. eapply xext_trans; [|exact E1]. eapply xext_lite; [apply xext_refl|exact L]. }
      cbn [xret_ok]. split; [exact Hn|]. split; [exact O2|]. split; [apply xext_weaken; exact E|].
      assert (Hst : x_stack x2 = x_stack xc) by (unfold x_stack; congruence).
      split; [|rewrite Hst; auto].
      intros s' Hs'. destruct F as (_ & _ & _ & _ & _ & F6 & F7 & _).
      destruct (cur_store_ext None x x2 s' E F7 Hs') as (s & Hs & _ & Hp). rewrite (Hp ltac:(discriminate)).
      destruct (F6 s Hs) as [P1 _]. lia. }
    (* ---- calls ---- *)
    assert (Hcall : forall fr nargs nret g c gf,
              rdok a fr 1 = true -> (nargs =? 0) || (fr + 1 + nargs <=? a_h a) = true ->
              rd1 (p_funs p) g = Some gf -> f_pwords gf <= nargs -> nret = f_nret gf ->
              In (pc + 1, acall a fr nret) succs ->
              match c with
              | None => f_up gf = [] /\ (forall s, cur_store x = Some s -> fst s + f_ssize gf <= lenN (snd s))
              | Some kc => exists cl, sm_get (x_cls x) kc = Some cl /\ c_fn cl = g /\ c_pos cl = 0
              end ->
              xret_ok p f base p0 x
                (xcall (xrun A p true k) (fun x' => xrun A p true k fi ci base (pc + 1) x' fl) base x fr nargs nret g c)).
    { intros fr nargs nret g c gf Hrd Hargs Hg Hpw Hnr Hin Hc.
      destruct F as (F1 & F2 & F3 & F4 & F5 & F6 & F7 & F8 & F9).
      pose (m := mkMach (x_stack x) [] (p0 + a_pos a) []).
      assert (Hconc : conc base p0 a m) by (split; [exact F1|split; [exact F2|reflexivity]]).
      pose proof (rdok_spec _ _ _ _ _ _ Hconc Hrd) as Hfr. cbn [m m_stack] in Hfr.
      assert (Hh : a_h a <> 0) by (eapply rdok_nonzero; eauto).
      assert (Hlen : base + a_h a <= lenN (x_stack x)) by (destruct F1 as [F1|F1]; [contradiction|exact F1]).
      unfold xcall.
      assert (Hsnap : (nargs =? 0) || (base + fr + 1 + nargs <=? lenN (x_stack x)) = true).
      { apply orb_true_iff in Hargs. destruct Hargs as [Hz|Hle]; apply orb_true_iff; [left; exact Hz|right].
        apply N.leb_le in Hle. apply N.leb_le. lia. }
      rewrite Hsnap.
      set (x0 := match c with Some ck => set_ss x (ck :: x_ss x) | None => x end).
      set (p0' := match c with Some _ => 0 | None => p0 + a_pos a end).
      assert (Hx0 : x_core x0 = x_core x /\ x_cls x0 = x_cls x) by (unfold x0; destruct c; split; reflexivity).
      destruct Hx0 as [Hx0c Hx0k].
      assert (Hst0 : x_stack x0 = x_stack x) by (unfold x_stack; rewrite Hx0c; reflexivity).
      (* the callee's activation *)
      assert (Hckg : xcheck_fn p gf (xinfer p gf) = true) by (apply Hok; eapply rd1_In; eauto).
      destruct (xcheck_fn_entry _ _ Hckg) as (a0 & Ha0 & Hsub0).
      assert (Fg : frs p gf g c (base + fr + 1) p0' a0 x0).
      { eapply frs_sub; [|exact Hsub0]. unfold frs, ci_inv. rewrite Hst0, Hx0c, Hx0k. cbn [entry a_h a_regs a_pos].
        split. { apply orb_true_iff in Hargs. destruct Hargs as [Hz|Hle]; [apply N.eqb_eq in Hz; left; lia|].
                 apply N.leb_le in Hle. destruct (N.eq_dec (f_pwords gf) 0); [left; assumption|right; lia]. }
        split; [intros r k0 Hl; discriminate|]. split; [lia|]. split; [lia|]. split; [exact F5|].
        destruct c as [kc|].
        - destruct Hc as (cl & Hcl & Hcf & Hcp).
          assert (Hcur : cur_store x0 = Some (c_pos cl, c_data cl)) by (unfold cur_store, x0; cbn; rewrite Hcl; reflexivity).
          split. { intros s Hs. rewrite Hcur in Hs. inversion Hs; subst s. cbn [fst snd]. unfold p0'. split; [lia|].
                   destruct (proj2 Hx kc cl Hcl) as (g' & G1 & _ & G3). rewrite Hcf, Hg in G1. inversion G1; subst g'. lia. }
          split. { intros c' Hc'. unfold owner, x0 in Hc'. cbn in Hc'. inversion Hc'; subst c'. eapply get_bound; eauto. }
          split. { split; [eapply get_bound; eauto|]. intros cl' Hcl'. rewrite Hcl in Hcl'. inversion Hcl'; subst cl'. exact Hcf. }
          intros _. lia.
        - destruct Hc as [Hup Hfit]. unfold x0, p0'.
          split. { intros s Hs. destruct (F6 s Hs) as [P1 P2]. specialize (Hfit s Hs). split; lia. }
          split; [exact F7|]. split; [exact Hup|]. intros H; contradiction. }
      assert (Hxk0 : xok p x0) by (unfold xok; rewrite Hx0k; exact Hx).
      pose proof (IH g gf c (base + fr + 1) 0 x0 fl0 a0 p0' Hg Ha0 Fg Hxk0) as Hcallee.
      destruct (xrun A p true k g c (base + fr + 1) 0 x0 fl0) as [n x1| | |]; cbn [xret_ok] in Hcallee |- *; auto.
      destruct Hcallee as (C1 & C2 & C3 & C4 & C5 & C6).
      subst n. rewrite <- Hnr. rewrite N.leb_refl.
      set (x1' := match c with Some _ => set_ss x1 (tl (x_ss x1)) | None => x1 end).
      assert (Hx1 : x_core x1' = x_core x1 /\ x_cls x1' = x_cls x1) by (unfold x1'; destruct c; split; reflexivity).
      destruct Hx1 as [Hx1c Hx1k].
      assert (Hst1 : x_stack x1' = x_stack x1) by (unfold x_stack; rewrite Hx1c; reflexivity).
      replace (base + fr + 1 - 1) with (base + fr) in * by lia.
      assert (Hid : firstn (nn (base + fr + 1 + nret)) (x_stack x1') = x_stack x1').
      { apply firstn_all_ge. rewrite Hst1. unfold lenN, nn in *. lia. }
      rewrite Hid, xset_stack_id.
      (* every cursor is where it was *)
      assert (Hss1 : x_ss x1' = x_ss x).
      { destruct C3 as (S1 & _). unfold x1', x0 in *. destruct c; cbn in *; [rewrite S1; reflexivity|exact S1]. }
      assert (Hfull : xext None x x1').
      { eapply (xext_ss None x0 x1); auto.
        eapply xext_upgrade; [exact C3| |reflexivity|].
        - intros c' Hc'. destruct Fg as (_ & _ & _ & _ & _ & _ & G7 & _). apply G7. exact Hc'.
        - intros s s1 Hs Hs1. rewrite (C4 s1 Hs1). destruct Fg as (_ & _ & _ & _ & _ & G6 & _).
          destruct (G6 s Hs) as [P1 _]. destruct (xcheck_fn_entry _ _ Hckg) as (a0' & Ha0' & Hsub0').
          rewrite Ha0 in Ha0'. inversion Ha0'; subst a0'. apply sub_spec in Hsub0. destruct Hsub0 as (_ & Hp & _).
          cbn [entry a_pos] in Hp. lia. }
      (* back in the caller *)
      destruct (Hsucc (pc + 1) (acall a fr nret) Hin) as (b & Hb & Hsubb).
      assert (Fb : frs p f fi ci base p0 b x1').
      { eapply frs_sub; [|exact Hsubb]. unfold frs. rewrite Hst1. cbn [acall a_h a_regs a_pos].
        split; [right; lia|].
        split. { intros r k' Hl. apply alookup_abelow_Some in Hl. destruct Hl as [Hl Hlt'].
                 specialize (F2 r k' Hl). rewrite rd1_nth_error in *. rewrite <- F2.
                 apply (firstn_eq_nth_error _ _ _ (nn (base + fr))); [rewrite C6, Hst0; reflexivity|unfold nn; lia]. }
        split; [exact F3|]. split; [lia|].
        split. { destruct Hfull as (_ & E2 & _). unfold lenN in *. congruence. }
        split. { intros s' Hs'. destruct (cur_store_ext None x x1' s' Hfull F7 Hs') as (s & Hs & Hl & Hp).
                 destruct (F6 s Hs) as [P1 P2]. rewrite Hl, (Hp ltac:(discriminate)). auto. }
        split; [eapply owner_bound_ext; eauto|]. split; [eapply ci_inv_ext; eauto|]. intros _. lia. }
      assert (Hxk1 : xok p x1') by (unfold xok; rewrite Hx1k; exact C2).
      pose proof (IH fi f ci base (pc + 1) x1' fl b p0 Hfi Hb Fb Hxk1) as R.
      destruct (xrun A p true k fi ci base (pc + 1) x1' fl) as [n' x''| | |]; cbn [xret_ok] in R |- *; auto.
      destruct R as (R1 & R2 & R3 & R4 & R5 & R6).
      assert (Hown : owner x1' = owner x) by (unfold owner; rewrite Hss1; reflexivity).
      rewrite Hown in R3. split; [exact R1|]. split; [exact R2|].
      split; [eapply xext_trans; [apply xext_weaken; exact Hfull|exact R3]|]. split; [exact R4|]. split; [exact R5|].
      rewrite R6, Hst1. apply (firstn_le_eq _ _ _ _ (nn (base + fr))); [rewrite C6, Hst0; reflexivity|unfold nn; lia]. }
    (* ---- the instruction ---- *)
    destruct (xdecode i) as [u|d fr|s|fr nargs nret|d fr|s|s|fr nargs nret|d iu|iu s n|d s n|d s n|s|s|d s n|d l e|d ar ix|ar ix v] eqn:Ed;
      try (apply Hlocal; apply (xstep_sound p f fi Hfi base p0 pc ci a _ x fl succs Hflow I F Hx)).
    - (* an instruction of Bvm/Model.v *)
      destruct u as [d s|d c|d v|d s n|o d x1 y|o d x1|fr nargs nret|fr nargs nret| |r n|off|c off|s t|d g n|g s n|d n|s n|q|q|d s t|d s|r n t|];
        cbn [xflow] in Hflow;
        try (apply Hlocal; apply (xlocal_sound A p f fi base p0 pc ci a _ x fl succs Hflow I F Hx)).
      + (* UCall *)
        unfold known_fn in Hflow.
        destruct (alookup (a_regs a) fr) as [kf|] eqn:El; [|discriminate].
        destruct (rd1 (p_funs p) (Z.to_N kf)) as [g|] eqn:Eg; [|discriminate].
        destruct (f_up g) eqn:Eup; [|discriminate]. cbn [flow] in Hflow. rewrite El, Eg in Hflow.
        match type of Hflow with (if ?c then _ else _) = _ => destruct c eqn:Econd; [|discriminate] end.
        inversion Hflow; subst succs. clear Hflow.
        apply andb_true_iff in Econd. destruct Econd as [Econd Hss]. apply N.leb_le in Hss.
        apply andb_true_iff in Econd. destruct Econd as [Econd Hnr]. apply N.eqb_eq in Hnr.
        apply andb_true_iff in Econd. destruct Econd as [Econd Hpw]. apply N.leb_le in Hpw.
        apply andb_true_iff in Econd. destruct Econd as [Hrd Hargs].
        rewrite (frs_known _ _ _ _ _ _ _ _ _ _ F El).
        apply (Hcall fr nargs nret (Z.to_N kf) None g Hrd Hargs Eg Hpw Hnr (or_introl eq_refl)).
        split; [exact Eup|]. intros s Hs. destruct F as (_ & _ & _ & _ & _ & F6 & _). destruct (F6 s Hs) as [P1 P2]. lia.
      + (* UExt: pure external functions, the array builtins, the scheduler call *)
        apply Hlocal. apply (xextcall_sound A p f fi base p0 pc ci a fr nargs nret x fl succs Hflow F Hx).
      + (* URet0 *)
        cbn [xflow flow] in Hflow.
        match type of Hflow with (if ?c then _ else _) = _ => destruct c eqn:Econd; [|discriminate] end.
        apply andb_true_iff in Econd. destruct Econd as [Hp0 Hnr]. apply N.eqb_eq in Hp0. apply N.eqb_eq in Hnr.
        destruct F as (F1 & F2 & F3 & F4 & F').
        destruct (N.eqb_spec base 0); [lia|].
        apply Hexit; [repeat split|exact Hp0|symmetry; exact Hnr| |].
        * unfold xset_stack, x_stack; cbn. rewrite lenN_firstn. unfold x_stack in F4. lia.
        * unfold xset_stack, x_stack; cbn. rewrite firstn_firstn, Nat.min_id. reflexivity.
      + (* URet *)
        cbn [xflow flow] in Hflow.
        match type of Hflow with (if ?c then _ else _) = _ => destruct c eqn:Econd; [|discriminate] end.
        apply andb_true_iff in Econd. destruct Econd as [Econd Hnr]. apply N.eqb_eq in Hnr.
        apply andb_true_iff in Econd. destruct Econd as [Hrd Hp0]. apply N.eqb_eq in Hp0.
        destruct (frs_rd _ _ _ _ _ _ _ _ _ _ F Hrd) as (vs & Hvs & Hn). rewrite Hvs.
        destruct F as (F1 & F2 & F3 & F4 & F').
        destruct (N.eqb_spec base 0); [lia|].
        apply Hexit; [repeat split|exact Hp0|exact Hnr| |].
        * unfold xset_stack, x_stack; cbn. rewrite lenN_app, lenN_firstn. unfold x_stack in F4. lia.
        * unfold xset_stack, x_stack; cbn. apply firstn_firstn_app; unfold nn, lenN, x_stack in *; lia.
      + (* USumRc *)
        apply Hlocal. unfold xsumrc. destruct (rd1 (p_types p) t) as [[|]|] eqn:Et;
          try (apply (xlocal_sound A p f fi base p0 pc ci a _ x fl succs Hflow I F Hx)).
        destruct (rd1 (p_tys p) t) as [tyv|]; [|discriminate].
        destruct (rdok a r n) eqn:Er; [|discriminate]. inversion Hflow; subst succs.
        destruct (frs_rd _ _ _ _ _ _ _ _ _ _ F Er) as (vs & Hvs & Hl). rewrite Hvs.
        destruct (is_release i).
        * destruct (sum_release k (p_tys p) (x_heap x) tyv vs) as [h'|]; [|exact I].
          eapply ok_dyn; [exact F|apply dgood_refl; exact Hx|apply lite_set_heap|reflexivity].
        * eapply ok_dyn; [exact F|apply dgood_refl; exact Hx|apply lite_set_heap|reflexivity].
      + (* UUnsupported *)
        cbn [xflow flow] in Hflow. discriminate.
    - (* XCallCls *)
      cbn [xflow] in Hflow.
      match type of Hflow with (if ?c then _ else _) = _ => destruct c eqn:Econd; [|discriminate] end.
      inversion Hflow; subst succs. clear Hflow. apply andb_true_iff in Econd. destruct Econd as [Hrd Hargs].
      destruct (frs_rd1 _ _ _ _ _ _ _ _ _ F Hrd) as [fv Hfv]. rewrite Hfv. unfold xicall.
      destruct (callee_cls x fv) as [[g c]|] eqn:Ec; [|reflexivity].
      destruct (callee_cls_spec _ _ _ _ Ec) as (kc & cl & -> & Hcl & Hcf).
      destruct (proj2 Hx kc cl Hcl) as (gf & G1 & _). rewrite Hcf in G1.
      destruct (strict_ok p true x g (Some kc) nargs nret) as [dy|] eqn:Es; [reflexivity|].
      destruct (strict_ok_spec _ _ _ _ _ _ Es G1) as (S1 & S2 & S3).
      apply (Hcall fr nargs nret g (Some kc) gf Hrd Hargs G1 S1 S2 (or_introl eq_refl)). exists cl. auto.
    - (* XCallInd *)
      cbn [xflow] in Hflow.
      match type of Hflow with (if ?c then _ else _) = _ => destruct c eqn:Econd; [|discriminate] end.
      inversion Hflow; subst succs. clear Hflow. apply andb_true_iff in Econd. destruct Econd as [Hrd Hargs].
      destruct (frs_rd1 _ _ _ _ _ _ _ _ _ F Hrd) as [fv Hfv]. rewrite Hfv. unfold xicall.
      destruct (callee_ind p x fv) as [[g c]|] eqn:Ec; [|reflexivity].
      pose proof (callee_ind_spec _ _ _ _ Ec) as Hsp.
      destruct (strict_ok p true x g c nargs nret) as [dy|] eqn:Es; [reflexivity|].
      destruct c as [kc|].
      + destruct Hsp as (cl & Hcl & Hcf). destruct (proj2 Hx kc cl Hcl) as (gf & G1 & _). rewrite Hcf in G1.
        destruct (strict_ok_spec _ _ _ _ _ _ Es G1) as (S1 & S2 & S3).
        apply (Hcall fr nargs nret g (Some kc) gf Hrd Hargs G1 S1 S2 (or_introl eq_refl)). exists cl. auto.
      + destruct (rd1_lt _ (p_funs p) g Hsp) as [gf G1].
        destruct (strict_ok_spec _ _ _ _ _ _ Es G1) as (S1 & S2 & S3).
        apply (Hcall fr nargs nret g None gf Hrd Hargs G1 S1 S2 (or_introl eq_refl)). exact S3.
    - (* XGetArr *)
      apply Hlocal. apply (xgetarr_sound A p f fi base p0 pc ci a d ar ix x fl succs Hflow F Hx).
    - (* XSetArr *)
      apply Hlocal. apply (xsetarr_sound A p f fi base p0 pc ci a ar ix v x fl succs Hflow F Hx).
  Qed.
End Run.
