(* Bvm/XInv.v — invariants of the extended machine (Bvm/XModel.v) for the soundness proof of Bvm/XVerify.v:
   * `clsok`: the closure table is a well-formed slot map and every live closure has the shape its function
     dictates (valid function index, as many upvalue cells as upindexes, a state storage of the skeleton's size);
   * `cext keep C C'`: how the table may evolve: keys issued once stay issued (`bound`, so a key is never reissued),
     a closure that is live afterwards and was issued before was live before with the same shape, and with the same
     state cursor when `keep` says so. *)
From Coq Require Import List ZArith NArith Bool Lia Arith.
From Mimium Require Import Heap.Model Heap.SlotMap.
From Mimium Require Import Bvm.Model Bvm.ListLemmas Bvm.XModel.
Import ListNotations.
Local Open Scope N_scope.

Definition shape_eq (a b : clos) : Prop :=
  c_fn a = c_fn b /\ lenN (c_upv a) = lenN (c_upv b) /\ lenN (c_data a) = lenN (c_data b).

Lemma shape_eq_refl : forall a, shape_eq a a.
Proof. intros; repeat split. Qed.

Lemma shape_eq_trans : forall a b c, shape_eq a b -> shape_eq b c -> shape_eq a c.
Proof. intros a b c (A1 & A2 & A3) (B1 & B2 & B3). repeat split; congruence. Qed.

Definition shaped (p : program) (cl : clos) : Prop :=
  exists g, rd1 (p_funs p) (c_fn cl) = Some g /\ lenN (c_upv cl) = lenN (f_up g) /\ lenN (c_data cl) = f_ssize g.

Lemma shaped_eq : forall p a b, shape_eq a b -> shaped p a -> shaped p b.
Proof. intros p a b (E1 & E2 & E3) (g & G1 & G2 & G3). exists g. rewrite <- E1, <- E2, <- E3. auto. Qed.

Definition clsok (p : program) (C : smap clos) : Prop :=
  wf C /\ forall k cl, sm_get C k = Some cl -> shaped p cl.

Definition cext (keep : key -> Prop) (C C' : smap clos) : Prop :=
  (forall k, bound C k -> bound C' k) /\
  (forall k cl', bound C k -> sm_get C' k = Some cl' ->
     exists cl, sm_get C k = Some cl /\ shape_eq cl cl' /\ (keep k -> c_pos cl' = c_pos cl)).

Lemma cext_refl : forall (keep : key -> Prop) C, cext keep C C.
Proof. intros keep C. split; [auto|]. intros k cl' _ H. exists cl'. split; [exact H|]. split; [apply shape_eq_refl|auto]. Qed.

Lemma cext_trans : forall (keep : key -> Prop) C1 C2 C3, cext keep C1 C2 -> cext keep C2 C3 -> cext keep C1 C3.
Proof.
  intros keep C1 C2 C3 [B1 G1] [B2 G2]. split; [auto|].
  intros k cl3 Hb H3. destruct (G2 k cl3 (B1 k Hb) H3) as (cl2 & H2 & S2 & P2).
  destruct (G1 k cl2 Hb H2) as (cl1 & H1 & S1 & P1). exists cl1. split; [exact H1|]. split; [eapply shape_eq_trans; eauto|].
  intros Hk. rewrite (P2 Hk). apply P1. exact Hk.
Qed.

Lemma cext_weaken : forall (keep keep' : key -> Prop) C C', (forall k, keep' k -> keep k) -> cext keep C C' -> cext keep' C C'.
Proof.
  intros keep keep' C C' Hw [B G]. split; [exact B|]. intros k cl' Hb H. destruct (G k cl' Hb H) as (cl & H1 & S & P).
  exists cl. auto.
Qed.

(* ---- the three ways the table changes ---- *)
Lemma key_eq_dec : forall a b : key, {a = b} + {a <> b}.
Proof. intros [ai av] [bi bv]. destruct (N.eq_dec ai bi), (N.eq_dec av bv); subst; auto; right; intros H; inversion H; auto. Qed.

Lemma cext_set : forall (keep : key -> Prop) C k cl cl2, sm_get C k = Some cl -> shape_eq cl cl2 -> (keep k -> c_pos cl2 = c_pos cl) ->
  cext keep C (sm_set C k cl2).
Proof.
  intros keep C k cl cl2 Hg Hs Hp. split; [intros k' Hb; apply set_bound_mono; exact Hb|].
  intros k' cl' _ H'. destruct (key_eq_dec k' k) as [->|Hne].
  - rewrite (set_get_same _ _ _ _ Hg) in H'. inversion H'; subst cl'. exists cl. auto.
  - rewrite set_get_other in H' by exact Hne. exists cl'. split; [exact H'|]. split; [apply shape_eq_refl|auto].
Qed.

Lemma clsok_set : forall p C k cl cl2, clsok p C -> sm_get C k = Some cl -> shape_eq cl cl2 -> clsok p (sm_set C k cl2).
Proof.
  intros p C k cl cl2 [Hwf Hsh] Hg Hs. split; [eapply set_wf; eauto|].
  intros k' cl' H'. destruct (key_eq_dec k' k) as [->|Hne].
  - rewrite (set_get_same _ _ _ _ Hg) in H'. inversion H'; subst cl'. eapply shaped_eq; [exact Hs|]. eapply Hsh; eauto.
  - rewrite set_get_other in H' by exact Hne. eapply Hsh; eauto.
Qed.

Lemma cext_insert : forall (keep : key -> Prop) C v, wf C -> cext keep C (fst (sm_insert C v)).
Proof.
  intros keep C v Hwf. split; [intros k Hb; apply insert_bound_mono; exact Hb|].
  intros k cl' Hb H'. assert (Hne : k <> snd (sm_insert C v)).
  { intros ->. eapply insert_new_unbound; eauto. }
  rewrite insert_get_other in H' by assumption. exists cl'. split; [exact H'|]. split; [apply shape_eq_refl|auto].
Qed.

Lemma clsok_insert : forall p C v, clsok p C -> shaped p v -> clsok p (fst (sm_insert C v)).
Proof.
  intros p C v [Hwf Hsh] Hv. split; [apply insert_wf; exact Hwf|].
  intros k cl H. destruct (key_eq_dec k (snd (sm_insert C v))) as [->|Hne].
  - rewrite insert_get_same in H by exact Hwf. inversion H; subst; exact Hv.
  - rewrite insert_get_other in H by assumption. eapply Hsh; eauto.
Qed.

Lemma cext_remove : forall (keep : key -> Prop) C k cl, sm_get C k = Some cl -> cext keep C (fst (sm_remove C k)).
Proof.
  intros keep C k cl Hg. split; [intros k' Hb; apply remove_bound_mono; exact Hb|].
  intros k' cl' _ H'. destruct (key_eq_dec k' k) as [->|Hne].
  - rewrite (remove_get_same _ _ _ Hg) in H'. discriminate.
  - rewrite (remove_get_other _ _ _ _ Hg Hne) in H'. exists cl'. split; [exact H'|]. split; [apply shape_eq_refl|auto].
Qed.

Lemma clsok_remove : forall p C k cl, clsok p C -> sm_get C k = Some cl -> clsok p (fst (sm_remove C k)).
Proof.
  intros p C k cl [Hwf Hsh] Hg. split; [eapply remove_wf; eauto|].
  intros k' cl' H'. destruct (key_eq_dec k' k) as [->|Hne].
  - rewrite (remove_get_same _ _ _ Hg) in H'. discriminate.
  - rewrite (remove_get_other _ _ _ _ Hg Hne) in H'. eapply Hsh; eauto.
Qed.

(* a key that was live once has an odd version; removing a key that is no longer live changes nothing *)
Lemma live_odd : forall (C : smap clos) k cl, wf C -> sm_get C k = Some cl -> N.odd (kver k) = true.
Proof.
  intros C k cl Hwf Hg. destruct (get_occupied _ _ _ Hg) as (s & Hs & Hv & Hsv).
  rewrite slot_at_eq in Hs. rewrite <- Hv. rewrite (wf_par _ Hwf _ _ Hs). unfold occ. rewrite Hsv. reflexivity.
Qed.

Lemma remove_dead : forall (C : smap clos) k, wf C -> N.odd (kver k) = true -> sm_get C k = None -> fst (sm_remove C k) = C.
Proof.
  intros C k Hwf Hodd Hg. unfold sm_remove. destruct (sm_contains C k) eqn:Hc; [|reflexivity]. exfalso.
  unfold sm_contains in Hc. unfold sm_get in Hg. destruct (slot_at C (kidx k)) as [s|] eqn:Hs; [|discriminate].
  rewrite Hc in Hg. apply N.eqb_eq in Hc. rewrite slot_at_eq in Hs.
  pose proof (wf_par _ Hwf _ _ Hs) as Hp. rewrite Hc, Hodd in Hp. unfold occ in Hp. rewrite Hg in Hp. discriminate.
Qed.

(* ---- the machine ---- *)
(* who owns the current state storage: the closure last pushed on states_stack, else global_states *)
Definition owner (x : xmach) : option key := match x_ss x with [] => None | c :: _ => Some c end.

(* x' is a future of x in which every state storage has kept its size and, except for the owner `o` (when given), its
   cursor; the stack of owners is the same *)
Definition xext (o : option (option key)) (x x' : xmach) : Prop :=
  x_ss x' = x_ss x /\
  lenN (m_globals (x_core x')) = lenN (m_globals (x_core x)) /\
  lenN (m_state (x_core x')) = lenN (m_state (x_core x)) /\
  (o <> Some None -> m_pos (x_core x') = m_pos (x_core x)) /\
  cext (fun k => o <> Some (Some k)) (x_cls x) (x_cls x').

Lemma xext_refl : forall o x, xext o x x.
Proof. intros. unfold xext. split; [reflexivity|]. split; [reflexivity|]. split; [reflexivity|]. split; [intros _; reflexivity|apply cext_refl]. Qed.

Lemma xext_trans : forall o x1 x2 x3, xext o x1 x2 -> xext o x2 x3 -> xext o x1 x3.
Proof.
  intros o x1 x2 x3 (A1 & A2 & A3 & A4 & A5) (B1 & B2 & B3 & B4 & B5). unfold xext.
  split; [congruence|]. split; [congruence|]. split; [congruence|]. split.
  - intros H. rewrite (B4 H). apply A4. exact H.
  - eapply cext_trans; eauto.
Qed.

Lemma xext_weaken : forall o x x', xext None x x' -> xext o x x'.
Proof.
  intros o x x' (A1 & A2 & A3 & A4 & A5). unfold xext.
  split; [exact A1|]. split; [exact A2|]. split; [exact A3|]. split.
  - intros _. apply A4. discriminate.
  - eapply cext_weaken; [|exact A5]. intros k _. discriminate.
Qed.

Definition xok (p : program) (x : xmach) : Prop := clsok p (x_cls x).

(* the current storage after a change the table survives *)
Lemma cur_store_ext : forall o x x' s', xext o x x' -> (forall c, owner x = Some c -> bound (x_cls x) c) ->
  cur_store x' = Some s' ->
  exists s, cur_store x = Some s /\ lenN (snd s') = lenN (snd s) /\ (o <> Some (owner x) -> fst s' = fst s).
Proof.
  intros o x x' s' (E1 & E2 & E3 & E4 & [EB EG]) Hb H'. unfold cur_store, owner in *. rewrite E1 in H'.
  destruct (x_ss x) as [|c ss].
  - inversion H'; subst s'. eexists. split; [reflexivity|]. cbn [fst snd]. split; [exact E3|exact E4].
  - destruct (sm_get (x_cls x') c) as [cl'|] eqn:Hg'; [|discriminate]. inversion H'; subst s'.
    destruct (EG c cl' (Hb c eq_refl) Hg') as (cl & Hg & (S1 & S2 & S3) & Hp). rewrite Hg.
    eexists. split; [reflexivity|]. cbn [fst snd]. split; [symmetry; exact S3|]. intros Hne. apply Hp. congruence.
Qed.
