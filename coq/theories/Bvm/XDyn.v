(* Bvm/XDyn.v — the operations of the closure layer (Bvm/XModel.v: drop_closure, release_heap_closure(s),
   release_open_closures, close_upvalues_by_idx, allocate_closure, ...) keep the closure table in shape (`xok`), change
   no state storage's size or cursor (`xext None`), do not touch stack / globals / global state storage, and when they
   stop they stop with a fault of the dynamic class. *)
From Coq Require Import List ZArith NArith Bool Lia Arith.
From Mimium Require Import Heap.Model Heap.SlotMap.
From Mimium Require Import Bvm.Model Bvm.ListLemmas Bvm.XModel Bvm.XInv.
Import ListNotations.
Local Open Scope N_scope.

Definition dgood (p : program) (x : xmach) (r : dres) : Prop :=
  match r with
  | DOk x' => xok p x' /\ xext None x x' /\ x_core x' = x_core x
  | DFault f => is_dyn f = true
  | DFuel => True
  end.

(* a machine that differs in the closure table only *)
Lemma xext_cls : forall x C', cext (fun _ => True) (x_cls x) C' -> xext None x (set_cls x C').
Proof.
  intros x C' H. unfold xext, set_cls; cbn. split; [reflexivity|]. split; [reflexivity|]. split; [reflexivity|].
  split; [intros _; reflexivity|]. eapply cext_weaken; [|exact H]. intros; exact I.
Qed.

Lemma xext_same_cls : forall x x', x_ss x' = x_ss x -> x_core x' = x_core x -> x_cls x' = x_cls x -> xext None x x'.
Proof.
  intros x x' H1 H2 H3. unfold xext. rewrite H1, H2, H3.
  split; [reflexivity|]. split; [reflexivity|]. split; [reflexivity|]. split; [intros _; reflexivity|apply cext_refl].
Qed.

Lemma dgood_ok_same : forall p x x', xok p x -> x_ss x' = x_ss x -> x_core x' = x_core x -> x_cls x' = x_cls x ->
  dgood p x (DOk x').
Proof.
  intros p x x' Hok H1 H2 H3. cbn. split; [unfold xok in *; rewrite H3; exact Hok|]. split; [apply xext_same_cls; auto|exact H2].
Qed.

Lemma dgood_chain : forall p x x1 r, dgood p x (DOk x1) -> dgood p x1 r -> dgood p x r.
Proof.
  intros p x x1 r (O1 & E1 & C1) H. destruct r as [x2|f|]; cbn in *; auto.
  destruct H as (O2 & E2 & C2). split; [exact O2|]. split; [eapply xext_trans; eauto|congruence].
Qed.

(* one closure of the table is rewritten without changing its shape or cursor *)
Lemma dgood_set : forall p x k cl cl2, xok p x -> sm_get (x_cls x) k = Some cl -> shape_eq cl cl2 -> c_pos cl2 = c_pos cl ->
  dgood p x (DOk (set_cls x (sm_set (x_cls x) k cl2))).
Proof.
  intros p x k cl cl2 Hok Hg Hs Hp. cbn. split; [|split; [|reflexivity]].
  - unfold xok, set_cls; cbn. eapply clsok_set; eauto.
  - apply xext_cls. eapply cext_set; eauto.
Qed.

Lemma shape_set_rc : forall cl rc, shape_eq cl (c_set_rc cl rc).
Proof. intros; repeat split. Qed.
Lemma shape_set_closed : forall cl, shape_eq cl (c_set_closed cl).
Proof. intros; repeat split. Qed.

Section Dyn.
  Variable p : program.

  Lemma drop_refs_good : forall (rec : xmach -> key -> dres),
    (forall x k, xok p x -> dgood p x (rec x k)) ->
    forall refs x, xok p x -> dgood p x (xdrop_refs rec x refs).
  Proof.
    intros rec Hrec. induction refs as [|[hk ck] rest IH]; intros x Hok; cbn [xdrop_refs].
    - apply dgood_ok_same; auto.
    - pose proof (Hrec x ck Hok) as H1. destruct (rec x ck) as [x1|f|]; cbn in H1; [|exact H1|exact I].
      eapply dgood_chain; [exact H1|]. destruct H1 as (O1 & _ & _).
      set (x2 := match hk with Some h => set_heap x1 (hrelease (x_heap x1) h) | None => x1 end).
      assert (H2 : dgood p x1 (DOk x2)) by (subst x2; destruct hk; apply dgood_ok_same; auto).
      eapply dgood_chain; [exact H2|]. apply IH. apply H2.
  Qed.

  Lemma drop_closure_good : forall fuel x id, xok p x -> dgood p x (xdrop_closure fuel x id).
  Proof.
    induction fuel as [|k IH]; intros x id Hok; cbn [xdrop_closure]; [exact I|].
    destruct (sm_get (x_cls x) id) as [cl|] eqn:Hg; [|reflexivity].
    destruct (c_rc cl =? 0); [reflexivity|].
    set (x1 := set_cls x (sm_set (x_cls x) id (c_set_rc cl (c_rc cl - 1)))).
    assert (H1 : dgood p x (DOk x1)) by (apply (dgood_set p x id cl); auto; apply shape_set_rc).
    destruct (c_rc cl - 1 =? 0); [|exact H1].
    destruct (if c_closed cl then closed_refs (x_cells x) (c_upv cl) else Some []) as [raws|]; [|reflexivity].
    pose proof (drop_refs_good (xdrop_closure k) (fun x0 k0 H => IH x0 k0 H) (resolve_all x1 raws) x1 (proj1 H1)) as H2.
    destruct (xdrop_refs (xdrop_closure k) x1 (resolve_all x1 raws)) as [x2|f|]; cbn in H2; [|exact H2|exact I].
    eapply dgood_chain; [exact H1|]. eapply dgood_chain; [exact H2|]. destruct H2 as (O2 & _ & _).
    (* closures.remove(id): id is live, or has been removed on the way *)
    destruct (sm_get (x_cls x2) id) as [cl2|] eqn:Hg2.
    - cbn. split; [|split; [|reflexivity]].
      + unfold xok, set_cls; cbn. eapply clsok_remove; eauto.
      + apply xext_cls. eapply cext_remove; eauto.
    - rewrite remove_dead; [|apply O2|eapply live_odd; [apply Hok|exact Hg]|exact Hg2].
      apply dgood_ok_same; auto.
  Qed.

  Lemma release_heap_closure_good : forall fuel x hk, xok p x -> dgood p x (xrelease_heap_closure fuel x hk).
  Proof.
    intros fuel x hk Hok. unfold xrelease_heap_closure.
    assert (Hafter : forall x1, xok p x1 -> dgood p x1 (DOk (set_heap x1 (hrelease (x_heap x1) hk)))).
    { intros x1 H1. apply dgood_ok_same; auto. }
    destruct (sm_get (x_heap x) hk) as [o|]; [|apply Hafter; exact Hok].
    destruct (h_data o) as [|c rest]; [apply Hafter; exact Hok|].
    destruct (sm_get (x_cls x) (kraw c)) as [cl|]; [|reflexivity].
    destruct (negb (c_closed cl) || (h_rc o =? 1)); [|apply Hafter; exact Hok].
    pose proof (drop_closure_good fuel x (kraw c) Hok) as H1.
    destruct (xdrop_closure fuel x (kraw c)) as [x1|f|]; cbn in H1; [|exact H1|exact I].
    eapply dgood_chain; [exact H1|]. apply Hafter. apply H1.
  Qed.

  Lemma release_heap_all_good : forall fuel hs x, xok p x -> dgood p x (xrelease_heap_all fuel x hs).
  Proof.
    intros fuel. induction hs as [|h rest IH]; intros x Hok; cbn [xrelease_heap_all]; [apply dgood_ok_same; auto|].
    pose proof (release_heap_closure_good fuel x h Hok) as H1.
    destruct (xrelease_heap_closure fuel x h) as [x1|f|]; cbn in H1; [|exact H1|exact I].
    eapply dgood_chain; [exact H1|]. apply IH. apply H1.
  Qed.

  Lemma release_open_good : forall fuel cs x, xok p x -> dgood p x (xrelease_open fuel x cs).
  Proof.
    intros fuel. induction cs as [|c rest IH]; intros x Hok; cbn [xrelease_open]; [apply dgood_ok_same; auto|].
    destruct (sm_get (x_cls x) c) as [cl|]; [|reflexivity].
    destruct (c_closed cl); [apply IH; exact Hok|].
    pose proof (drop_closure_good fuel x c Hok) as H1.
    destruct (xdrop_closure fuel x c) as [x1|f|]; cbn in H1; [|exact H1|exact I].
    eapply dgood_chain; [exact H1|]. apply IH. apply H1.
  Qed.

  Lemma retain_refs_good : forall refs x, xok p x -> dgood p x (xretain_refs x refs).
  Proof.
    induction refs as [|[hk ck] rest IH]; intros x Hok; cbn [xretain_refs]; [apply dgood_ok_same; auto|].
    set (x1 := match hk with Some h => set_heap x (hretain (x_heap x) h) | None => x end).
    assert (H1 : dgood p x (DOk x1)) by (subst x1; destruct hk; apply dgood_ok_same; auto).
    destruct (sm_get (x_cls x1) ck) as [cl|] eqn:Hg; [|reflexivity].
    eapply dgood_chain; [exact H1|].
    assert (H2 : dgood p x1 (DOk (set_cls x1 (sm_set (x_cls x1) ck (c_set_rc cl (c_rc cl + 1)))))).
    { apply (dgood_set p x1 ck cl); auto; [apply H1|apply shape_set_rc]. }
    eapply dgood_chain; [exact H2|]. apply IH. apply H2.
  Qed.

  Lemma close_cells_fault : forall stack cbase upv cells cells' raws f,
    close_cells stack cbase cells upv = (cells', raws, Some f) -> is_dyn f = true.
  Proof.
    intros stack cbase. induction upv as [|ci rest IH]; intros cells cells' raws f H; cbn [close_cells] in H; [inversion H|].
    assert (Hstep : forall cells1 raw,
              (let '(cells2, raws0, e) := close_cells stack cbase cells1 rest in
               (cells2, match raw with Some r => r :: raws0 | None => raws0 end, e)) = (cells', raws, Some f) -> is_dyn f = true).
    { intros cells1 raw Hs. destruct (close_cells stack cbase cells1 rest) as [[c2 r0] e] eqn:E. inversion Hs; subst. eapply IH; eauto. }
    destruct (nth_error cells (nn ci)) as [[pos size isc|vs isc]|].
    - destruct (rd_range stack (cbase + pos) size) as [vs|]; [|inversion H; reflexivity].
      destruct isc; [destruct vs as [|v vs]; [inversion H; reflexivity|exact (Hstep _ (Some v) H)]|exact (Hstep _ None H)].
    - destruct isc; [destruct vs as [|v vs]; [inversion H; reflexivity|exact (Hstep _ (Some v) H)]|exact (Hstep _ None H)].
    - exact (Hstep _ None H).
  Qed.

  Lemma close_upvalues_good : forall x c, xok p x -> dgood p x (xclose_upvalues x c).
  Proof.
    intros x c Hok. unfold xclose_upvalues.
    destruct (sm_get (x_cls x) c) as [cl0|]; [|reflexivity].
    destruct (close_cells (x_stack x) (c_base cl0) (x_cells x) (c_upv cl0)) as [[cells' raws] [f|]] eqn:Ec.
    - cbn. eapply close_cells_fault; eauto.
    - set (x1 := set_cells x cells').
      assert (H1 : dgood p x (DOk x1)) by (apply dgood_ok_same; auto).
      pose proof (retain_refs_good (resolve_all x1 raws) x1 (proj1 H1)) as H2.
      destruct (xretain_refs x1 (resolve_all x1 raws)) as [x2|f|]; cbn in H2; [|exact H2|exact I].
      destruct (sm_get (x_cls x2) c) as [cl|] eqn:Hg; [|reflexivity].
      eapply dgood_chain; [exact H1|]. eapply dgood_chain; [exact H2|].
      apply (dgood_set p x2 c cl); auto; [apply H2|apply shape_set_closed].
  Qed.

  Lemma retain_closure_good : forall x c, xok p x -> dgood p x (DOk (xretain_closure x c)).
  Proof.
    intros x c Hok. unfold xretain_closure. destruct (sm_get (x_cls x) c) as [cl|] eqn:Hg; [|apply dgood_ok_same; auto].
    apply (dgood_set p x c cl); auto. apply shape_set_rc.
  Qed.

  (* ---- a closure is made ---- *)
  Lemma make_upvalues_length : forall ups um cells upv um' cells',
    make_upvalues um cells ups = (upv, um', cells') -> lenN upv = lenN ups.
  Proof.
    induction ups as [|ov rest IH]; intros um cells upv um' cells' H; cbn [make_upvalues] in H.
    - inversion H; reflexivity.
    - destruct (get_or_insert um cells ov) as [[ci um1] cells1].
      destruct (make_upvalues um1 cells1 rest) as [[more um2] cells2] eqn:E. inversion H; subst.
      unfold lenN in *. cbn [length]. rewrite !Nat2N.inj_succ. f_equal. eapply IH; eauto.
  Qed.

  Lemma allocate_closure_good : forall x fl base fn_i x1 fl1 k,
    xok p x -> xallocate_closure p x fl base fn_i = Some (x1, fl1, k) ->
    dgood p x (DOk x1) /\ x_heap x1 = x_heap x /\ x_arr x1 = x_arr x.
  Proof.
    intros x fl base fn_i x1 fl1 k Hok H. unfold xallocate_closure in H.
    destruct (rd1 (p_funs p) fn_i) as [g|] eqn:Hg; [|discriminate].
    destruct (make_upvalues (fl_um fl) (x_cells x) (f_up g)) as [[upv um'] cells'] eqn:Em.
    destruct (sm_insert (x_cls x) (mkClos fn_i base false 1 upv 0 (repeat 0%Z (nn (f_ssize g))))) as [cls' k'] eqn:Ei.
    inversion H; subst x1 fl1 k'. clear H.
    assert (Ecls : cls' = fst (sm_insert (x_cls x) (mkClos fn_i base false 1 upv 0 (repeat 0%Z (nn (f_ssize g)))))) by (rewrite Ei; reflexivity).
    split; [|split; reflexivity]. cbn. split; [|split; [|reflexivity]].
    - unfold xok; cbn. rewrite Ecls. apply clsok_insert; [exact Hok|].
      exists g. cbn. split; [exact Hg|]. split; [eapply make_upvalues_length; eauto|]. rewrite lenN_repeat. unfold nn; lia.
    - unfold xext; cbn. split; [reflexivity|]. split; [reflexivity|]. split; [reflexivity|]. split; [intros _; reflexivity|].
      rewrite Ecls. apply cext_insert. apply Hok.
  Qed.
End Dyn.
