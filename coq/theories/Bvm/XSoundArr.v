(* Bvm/XSoundArr.v — the array layer in the soundness proof of Bvm/XVerify.v (instrumented semantics, strict = true):
   GetArrayElem / SetArrayElem with the element width the annotation `f_ew` proposes (checked at run time: DynElemWidth),
   CallExtFun of the array builtins of plugin/builtin_functins.rs and of `_mimium_schedule_at`.  When `xflow` accepts the
   instruction in an abstract state that describes the activation, the step stops with a fault of the dynamic class or
   lands on the successor `xflow` lists in a machine that successor's abstract state describes. *)
From Coq Require Import List ZArith NArith Bool Lia Arith.
From Mimium Require Import Heap.Model Heap.SlotMap.
From Mimium Require Import Bvm.Model Bvm.Verify Bvm.ListLemmas Bvm.SoundAbs Bvm.SoundStep.
From Mimium Require Import Bvm.XModel Bvm.XVerify Bvm.XInv Bvm.XDyn Bvm.XLocal Bvm.XSoundStep.
Import ListNotations.
Local Open Scope N_scope.

(* ---------- the words an array builtin leaves ---------- *)
Lemma arr_sig_cases : forall op ew s, arr_sig op ew = Some s -> In op [0; 1; 2; 3; 4; 11; 12; 13; 14].
Proof.
  intros op ew s H. unfold arr_sig in H. destruct op as [|q]; [cbn; auto|].
  do 4 (try destruct q as [q|q|]); cbn in H; try discriminate H; cbn; auto 12.
Qed.

Lemma div_nonzero_le : forall a e, e <> 0 -> a / e <> 0 -> e <= a.
Proof. intros a e He H. destruct (N.le_gt_cases e a) as [L|G]; [exact L|]. rewrite N.div_small in H by exact G. contradiction. Qed.

Definition abgood (nr : N) (r : abres) : Prop :=
  match r with ABOk rs _ => lenN rs = nr | ABFault e => is_dyn e = true end.

Lemma alloc_good : forall nr (a : smap arr) e data rs,
  (forall key, lenN (rs key) = nr) ->
  abgood nr (let (a', key) := arr_alloc a e data in ABOk (rs key) a').
Proof. intros nr a e data rs H. destruct (arr_alloc a e data) as [a' key]. apply H. Qed.

Section Builtin.
  Variable A : arith.

  (* split_head / split_tail on an array whose element width e is the width the call site expects *)
  Lemma split_good : forall (hf : bool) want (w : Z) (a : smap arr) e,
    match want with Some e' => e = e' | None => e = 1 end ->
    (forall ar, arr_get a w = Some ar -> (w =? 0)%Z = false -> want = None -> ar_ew ar = 1) ->
    abgood (e + 1)
      (if (w =? 0)%Z then ABOk (match want with None => [0%Z; 0%Z] | Some e0 => repeat 0%Z (nn e0 + 1) end) a
       else match arr_get a w with
            | None => ABFault (Dyn DynHandle)
            | Some ar =>
                match arr_len ar with
                | None => ABFault (Dyn DynHandle)
                | Some n =>
                    if match want with Some e' => negb (ar_ew ar =? e') | None => false end then ABFault (Dyn DynHandle)
                    else if n =? 0 then ABFault (Dyn DynHandle)
                    else if hf then
                      let (a', key) := arr_alloc a (ar_ew ar)
                                         (firstn (nn ((n - 1) * ar_ew ar)) (skipn (nn (ar_ew ar)) (ar_data ar) ++ repeat 0%Z (nn ((n - 1) * ar_ew ar)))) in
                      ABOk (firstn (nn (ar_ew ar)) (ar_data ar) ++ [key]) a'
                    else
                      let (a', key) := arr_alloc a (ar_ew ar) (firstn (nn ((n - 1) * ar_ew ar)) (ar_data ar)) in
                      ABOk (key :: firstn (nn (ar_ew ar)) (skipn (nn ((n - 1) * ar_ew ar)) (ar_data ar))) a'
                end
            end).
  Proof.
    intros hf want w a e He Hw. destruct (w =? 0)%Z eqn:Ew.
    - cbn [abgood]. destruct want as [e'|]; subst e; [rewrite lenN_repeat; unfold nn; lia|reflexivity].
    - destruct (arr_get a w) as [ar|] eqn:Ea; [|reflexivity].
      unfold arr_len. destruct (N.eqb_spec (ar_ew ar) 0) as [Hz|Hnz]; [reflexivity|].
      assert (Hee : match want with Some e' => negb (ar_ew ar =? e') | None => false end = false -> ar_ew ar = e).
      { intros H. destruct want as [e'|]; [subst e'; destruct (N.eqb_spec (ar_ew ar) e); [assumption|discriminate]|].
        subst e. apply (Hw ar eq_refl eq_refl eq_refl). }
      destruct (match want with Some e' => negb (ar_ew ar =? e') | None => false end); [reflexivity|].
      specialize (Hee eq_refl).
      destruct (N.eqb_spec (lenN (ar_data ar) / ar_ew ar) 0) as [Hn0|Hn]; [reflexivity|].
      pose proof (div_nonzero_le _ _ Hnz Hn) as Hle.
      pose proof (N.mul_div_le (lenN (ar_data ar)) (ar_ew ar) Hnz) as Hmd.
      set (n := lenN (ar_data ar) / ar_ew ar) in *.
      destruct hf; apply alloc_good; intros key.
      + rewrite lenN_app, lenN_firstn. change (lenN [key]) with 1. lia.
      + rewrite lenN_cons, lenN_firstn. unfold lenN at 1. rewrite skipn_length. unfold lenN, nn in *. nia.
  Qed.

  Lemma extend_good : forall (front : bool) want (w : Z) (a : smap arr) elems,
    abgood 1
      (match arr_get a w with
       | None => ABFault (Dyn DynHandle)
       | Some ar =>
           match arr_len ar with
           | None => ABFault (Dyn DynHandle)
           | Some n =>
               if negb (ar_ew ar =? match want with Some e' => e' | None => 1 end) then ABFault (Dyn DynHandle)
               else let (a', key) := arr_alloc a (ar_ew ar)
                                       (if front then elems ++ firstn (nn (n * ar_ew ar)) (ar_data ar)
                                        else firstn (nn (n * ar_ew ar)) (ar_data ar) ++ elems) in
                    ABOk [key] a'
           end
       end).
  Proof.
    intros front want w a elems. destruct (arr_get a w) as [ar|]; [|reflexivity].
    destruct (arr_len ar) as [n|]; [|reflexivity].
    destruct (negb (ar_ew ar =? match want with Some e' => e' | None => 1 end)); [reflexivity|].
    apply (alloc_good 1 a (ar_ew ar) _ (fun key => [key])). reflexivity.
  Qed.

  Lemma arr_builtin_good : forall op ew st b a na nr,
    arr_sig op ew = Some (na, nr) -> b + na <= lenN st -> abgood nr (arr_builtin A true op ew st b a).
  Proof.
    intros op ew st b a na nr Hsig Hlen.
    assert (Hrd : forall j, j < na -> exists v, rd1 st (b + j) = Some v) by (intros j Hj; apply rd1_lt; lia).
    pose proof (arr_sig_cases _ _ _ Hsig) as Hin. cbn [In] in Hin.
    unfold arr_builtin, arr_width_bad. cbn [andb].
    repeat (destruct Hin as [<-|Hin]); [| | | | | | | | |contradiction]; cbn in Hsig; inversion Hsig; subst na nr; clear Hsig;
      cbn [N.eqb Pos.eqb orb andb].
    - (* len *)
      unfold arr_builtin0. destruct (Hrd 0 ltac:(lia)) as [w Hw]. rewrite N.add_0_r in Hw. rewrite Hw.
      destruct (w =? 0)%Z; [reflexivity|]. destruct (arr_get a w) as [ar|]; [|reflexivity].
      destruct (arr_len ar); reflexivity.
    - (* split_head *)
      destruct (Hrd 0 ltac:(lia)) as [w Hw]. rewrite N.add_0_r in Hw. rewrite Hw.
      destruct (arr_get a w) as [ar|] eqn:Ea.
      + destruct (negb (w =? 0)%Z && negb (ar_ew ar =? 1)) eqn:Ebad; [reflexivity|].
        unfold arr_builtin0. rewrite Hw. rewrite Ea.
        pose proof (split_good true None w a 1 eq_refl) as G. rewrite Ea in G. apply G.
        intros ar0 E0 Ew0 _. inversion E0; subst ar0. rewrite Ew0 in Ebad. cbn in Ebad.
        destruct (N.eqb_spec (ar_ew ar) 1); [assumption|discriminate].
      + unfold arr_builtin0. rewrite Hw, Ea. destruct (w =? 0)%Z; reflexivity.
    - (* split_tail *)
      destruct (Hrd 0 ltac:(lia)) as [w Hw]. rewrite N.add_0_r in Hw. rewrite Hw.
      destruct (arr_get a w) as [ar|] eqn:Ea.
      + destruct (negb (w =? 0)%Z && negb (ar_ew ar =? 1)) eqn:Ebad; [reflexivity|].
        unfold arr_builtin0. rewrite Hw. rewrite Ea.
        pose proof (split_good false None w a 1 eq_refl) as G. rewrite Ea in G. apply G.
        intros ar0 E0 Ew0 _. inversion E0; subst ar0. rewrite Ew0 in Ebad. cbn in Ebad.
        destruct (N.eqb_spec (ar_ew ar) 1); [assumption|discriminate].
      + unfold arr_builtin0. rewrite Hw, Ea. destruct (w =? 0)%Z; reflexivity.
    - (* prepend *)
      unfold arr_builtin0. destruct (Hrd 0 ltac:(lia)) as [el Hel]. rewrite N.add_0_r in Hel.
      destruct (Hrd 1 ltac:(lia)) as [w Hw]. rewrite Hw, Hel. apply (extend_good true None).
    - (* append *)
      unfold arr_builtin0. destruct (Hrd 0 ltac:(lia)) as [w Hw]. rewrite N.add_0_r in Hw.
      destruct (Hrd 1 ltac:(lia)) as [el Hel]. rewrite Hw, Hel. apply (extend_good false None).
    - (* split_head$arityN *)
      unfold arr_builtin0. destruct (Hrd 0 ltac:(lia)) as [w Hw]. rewrite N.add_0_r in Hw. rewrite Hw.
      apply (split_good true (Some ew) w a ew eq_refl). intros; discriminate.
    - (* split_tail$arityN *)
      unfold arr_builtin0. destruct (Hrd 0 ltac:(lia)) as [w Hw]. rewrite N.add_0_r in Hw. rewrite Hw.
      apply (split_good false (Some ew) w a ew eq_refl). intros; discriminate.
    - (* prepend$arityN *)
      unfold arr_builtin0. destruct (Hrd ew ltac:(lia)) as [w Hw]. rewrite Hw.
      destruct (rd_range_ok _ st b ew ltac:(lia)) as [els Hels]. rewrite Hels. apply (extend_good true (Some ew)).
    - (* append$arityN *)
      unfold arr_builtin0. destruct (Hrd 0 ltac:(lia)) as [w Hw]. rewrite N.add_0_r in Hw. rewrite Hw.
      destruct (rd_range_ok _ st (b + 1) ew ltac:(lia)) as [els Hels]. rewrite Hels. apply (extend_good false (Some ew)).
  Qed.
End Builtin.

Section Arr.
  Variable A : arith.
  Variable p : program.
  Variable f : fn.
  Variable fi : N.
  Hypothesis Hfi : rd1 (p_funs p) fi = Some f.
  Variables base p0 pc : N.

  (* an external function returns: the stack is cut at the register that held its index and the result words follow *)
  Lemma ok_extret : forall ci x fl a fr nret x2 rs,
    frs p f fi ci base p0 a x -> xok p x -> rdok a fr 1 = true -> lenN rs = nret -> lite x x2 ->
    x_stack x2 = firstn (nn (base + fr)) (x_stack x) ++ rs ->
    xstep_ok p f fi ci base p0 pc x [(pc + 1, acall a fr nret)] (XNext 1 x2 fl).
  Proof.
    intros ci x fl a fr nret x2 rs F Hok Hrd Hn L Hst.
    pose proof F as (F1 & F2 & F3 & F4 & F5 & F6 & F7 & F8 & F9).
    pose (m := mkMach (x_stack x) [] (p0 + a_pos a) []).
    assert (Hc : conc base p0 a m) by (split; [exact F1|split; [exact F2|reflexivity]]).
    pose proof (rdok_spec _ _ _ _ _ _ Hc Hrd) as Hfr. cbn [m m_stack] in Hfr.
    assert (Hlen2 : lenN (x_stack x2) = base + fr + nret).
    { rewrite Hst, lenN_app, lenN_firstn, Hn. lia. }
    assert (E : xext None x x2) by (eapply xext_lite; [apply xext_refl|exact L]).
    apply xok_next.
    - unfold frs. cbn [acall a_h a_regs a_pos].
      split; [right; lia|].
      split. { rewrite Hst. intros r k' Hl. apply alookup_abelow_Some in Hl. destruct Hl as [Hl Hlt].
               apply rd1_firstn_app; [|lia]. apply F2. exact Hl. }
      split; [exact F3|]. split; [lia|].
      split. { destruct L as (_ & _ & L3 & _). rewrite L3. exact F5. }
      split. { intros s Hs. rewrite (lite_cur _ _ L) in Hs. exact (F6 s Hs). }
      split; [eapply owner_bound_ext; eauto|]. split; [eapply ci_inv_ext; eauto|]. intros _. lia.
    - eapply lite_ok; eauto.
    - apply xext_weaken. exact E.
    - rewrite Hst. apply firstn_firstn_app; unfold nn, lenN in *; lia.
  Qed.

  Lemma xextcall_sound : forall ci a fr nargs nret x fl succs,
    xflow p f pc a (XOld (UExt fr nargs nret)) = Some succs -> frs p f fi ci base p0 a x -> xok p x ->
    xstep_ok p f fi ci base p0 pc x succs (xextcall A p true f base fr nargs nret x fl).
  Proof.
    intros ci a fr nargs nret x fl succs Hflow F Hx. cbn [xflow] in Hflow. unfold xextcall.
    destruct (alookup (a_regs a) fr) as [kx|] eqn:El; [|discriminate].
    rewrite (frs_known _ _ _ _ _ _ _ _ _ _ F El).
    pose proof F as (F1 & F2 & _).
    pose (m := mkMach (x_stack x) [] (p0 + a_pos a) []).
    assert (Hc : conc base p0 a m) by (split; [exact F1|split; [exact F2|reflexivity]]).
    destruct (rd1 (p_ext p) (Z.to_N kx)) as [[code arity| |aop aew|]|] eqn:Ee;
      try (apply (xlocal_sound A p f fi base p0 pc ci a _ x fl succs Hflow I F Hx)).
    - (* an array builtin *)
      destruct (arr_sig aop aew) as [[na nr]|] eqn:Esig; [|discriminate].
      match type of Hflow with (if ?c then _ else _) = _ => destruct c eqn:Econd; [|discriminate] end.
      inversion Hflow; subst succs. clear Hflow.
      apply andb_true_iff in Econd. destruct Econd as [Econd Hnret]. apply N.leb_le in Hnret.
      apply andb_true_iff in Econd. destruct Econd as [Econd Hna]. apply N.leb_le in Hna.
      apply andb_true_iff in Econd. destruct Econd as [Hrd Hargs]. apply N.leb_le in Hargs.
      assert (Hh : a_h a <> 0) by (eapply rdok_nonzero; eauto).
      assert (Hlen : base + a_h a <= lenN (x_stack x)) by (destruct F1 as [F1|F1]; [contradiction|exact F1]).
      assert (Hsnap : (nargs =? 0) || (base + fr + 1 + nargs <=? lenN (x_stack x)) = true).
      { apply orb_true_iff. right. apply N.leb_le. lia. }
      rewrite Hsnap.
      pose proof (arr_builtin_good A aop aew (x_stack x) (base + fr + 1) (x_arr x) na nr Esig ltac:(lia)) as G.
      destruct (arr_builtin A true aop aew (x_stack x) (base + fr + 1) (x_arr x)) as [rs a'|e]; cbn [abgood] in G; [|exact G].
      rewrite G. destruct (N.leb_spec nret nr) as [_|Hgt]; [|lia].
      eapply (ok_extret ci x fl a fr nret _ (firstn (nn nret) rs)); [exact F|exact Hx|exact Hrd| | |reflexivity].
      + rewrite lenN_firstn. lia.
      + eapply lite_trans; [apply lite_xset_stack|apply lite_set_arr].
    - (* _mimium_schedule_at *)
      match type of Hflow with (if ?c then _ else _) = _ => destruct c eqn:Econd; [|discriminate] end.
      inversion Hflow; subst succs. clear Hflow.
      apply andb_true_iff in Econd. destruct Econd as [Econd Hnret]. apply N.eqb_eq in Hnret.
      apply andb_true_iff in Econd. destruct Econd as [Econd Hna]. apply N.leb_le in Hna.
      apply andb_true_iff in Econd. destruct Econd as [Hrd Hargs]. apply N.leb_le in Hargs.
      assert (Hh : a_h a <> 0) by (eapply rdok_nonzero; eauto).
      assert (Hlen : base + a_h a <= lenN (x_stack x)) by (destruct F1 as [F1|F1]; [contradiction|exact F1]).
      assert (Hsnap : (nargs =? 0) || (base + fr + 1 + nargs <=? lenN (x_stack x)) = true).
      { apply orb_true_iff. right. apply N.leb_le. lia. }
      rewrite Hsnap.
      destruct (rd1_lt _ (x_stack x) (base + fr + 1) ltac:(lia)) as [tw Htw]. rewrite Htw.
      destruct (rd1_lt _ (x_stack x) (base + fr + 1 + 1) ltac:(lia)) as [hw Hhw]. rewrite Hhw.
      destruct (sm_get (x_heap x) (kraw hw)) as [[rc [|c rest]]|]; try reflexivity.
      subst nret. cbn [N.eqb].
      eapply (ok_extret ci x fl a fr 0 _ []); [exact F|exact Hx|exact Hrd|reflexivity| |].
      + eapply lite_trans; [apply lite_xset_stack|apply lite_set_tasks].
      + rewrite app_nil_r. reflexivity.
  Qed.

  (* ---------- GetArrayElem / SetArrayElem ---------- *)
  Lemma ew_ok_spec : forall hint ew, ew_ok true hint ew = true -> hint = Some ew.
  Proof.
    intros hint ew H. unfold ew_ok in H. destruct hint as [w|]; [|discriminate]. apply N.eqb_eq in H. congruence.
  Qed.

  Lemma xgetarr_sound : forall ci a d ar i x fl succs,
    xflow p f pc a (XGetArr d ar i) = Some succs -> frs p f fi ci base p0 a x -> xok p x ->
    xstep_ok p f fi ci base p0 pc x succs (xgetarr A true (ew_hint f pc) base d ar i x fl).
  Proof.
    intros ci a d ar i x fl succs Hflow F Hx. cbn [xflow] in Hflow. unfold xgetarr.
    destruct (ew_hint f pc) as [w|] eqn:Eh; [|discriminate].
    destruct (rdok a ar 1) eqn:Er1; [|discriminate]. destruct (rdok a i 1) eqn:Er2; [|discriminate].
    cbn [andb] in Hflow. inversion Hflow; subst succs. clear Hflow.
    destruct (frs_rd1 _ _ _ _ _ _ _ _ _ F Er1) as [aw Haw]. destruct (frs_rd1 _ _ _ _ _ _ _ _ _ F Er2) as [iw Hiw].
    rewrite Haw, Hiw.
    destruct (arr_get (x_arr x) aw) as [adata|]; [|reflexivity].
    destruct (arr_len adata) as [len|]; [|reflexivity].
    destruct (ew_ok true (Some w) (ar_ew adata)) eqn:Eok; cbn [negb]; [|reflexivity].
    apply ew_ok_spec in Eok. inversion Eok as [Hw].
    destruct (len =? 0).
    - eapply ok_dyn_write; [exact F|apply dgood_refl; exact Hx|apply lite_refl|reflexivity|].
      rewrite lenN_repeat. unfold nn. lia.
    - match goal with |- context [rd_range ?l ?s ?n] => destruct (rd_range l s n) as [vs|] eqn:Evs end; [|reflexivity].
      eapply ok_dyn_write; [exact F|apply dgood_refl; exact Hx|apply lite_refl|reflexivity|].
      apply rd_range_Some in Evs. tauto.
  Qed.

  Lemma xsetarr_sound : forall ci a ar i v x fl succs,
    xflow p f pc a (XSetArr ar i v) = Some succs -> frs p f fi ci base p0 a x -> xok p x ->
    xstep_ok p f fi ci base p0 pc x succs (xsetarr A true (ew_hint f pc) base ar i v x fl).
  Proof.
    intros ci a ar i v x fl succs Hflow F Hx. cbn [xflow] in Hflow. unfold xsetarr.
    destruct (ew_hint f pc) as [w|] eqn:Eh; [|discriminate].
    destruct (rdok a ar 1) eqn:Er1; [|discriminate]. destruct (rdok a i 1) eqn:Er2; [|discriminate].
    destruct (rdok a v w) eqn:Er3; [|discriminate].
    cbn [andb] in Hflow. inversion Hflow; subst succs. clear Hflow.
    destruct (frs_rd1 _ _ _ _ _ _ _ _ _ F Er1) as [aw Haw]. destruct (frs_rd1 _ _ _ _ _ _ _ _ _ F Er2) as [iw Hiw].
    rewrite Haw, Hiw.
    destruct (arr_get (x_arr x) aw) as [adata|]; [|reflexivity].
    destruct (arr_len adata) as [len|]; [|reflexivity].
    destruct (ew_ok true (Some w) (ar_ew adata)) eqn:Eok; cbn [negb]; [|reflexivity].
    apply ew_ok_spec in Eok. inversion Eok as [Hw].
    destruct (len =? 0).
    - eapply ok_dyn; [exact F|apply dgood_refl; exact Hx|apply lite_refl|reflexivity].
    - assert (Hww : ar_ew adata = w) by congruence. rewrite Hww.
      destruct (frs_rd _ _ _ _ _ _ _ _ _ _ F Er3) as (vs & Hvs & Hl). rewrite Hvs.
      match goal with |- context [if ?c then _ else _] => destruct c end; [|reflexivity].
      eapply ok_dyn; [exact F|apply dgood_refl; exact Hx|apply lite_set_arr|reflexivity].
  Qed.
End Arr.
