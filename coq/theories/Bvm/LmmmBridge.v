(* Bvm/LmmmBridge.v — the state primitives of the bytecode model are the VM-discipline primitives of the cursor
   machine of Lmmm/Machine.v (about which C05 / C02 / C03_safety are proved): same words, same cursor, same result.
   Lmmm's machine additionally records a trace of accesses, which the bytecode model does not keep. *)
From Coq Require Import List ZArith NArith Bool Lia Arith.
From Mimium Require Import Bvm.Model Bvm.ListLemmas.
From Mimium Require Lmmm.Machine.
Import ListNotations.
Local Open Scope N_scope.

(* the Lmmm machine state that holds the state storage of a bytecode machine *)
Definition lm_of (m : mach) (tr : list (N * N * N)) : Machine.mstate := Machine.mkM (m_state m) (m_pos m) tr.

Lemma set_nth_wr_range : forall (l : list Z) i v, (i < length l)%nat ->
  Machine.set_nth l i v = firstn i (l ++ repeat 0%Z (i - length l)) ++ [v] ++ skipn (i + 1) l.
Proof.
  induction l as [|x l IH]; intros i v Hi; [cbn in Hi; lia|].
  destruct i as [|i]; cbn [Machine.set_nth].
  - cbn. reflexivity.
  - cbn [length] in Hi. specialize (IH i v ltac:(lia)).
    replace (S i - length (x :: l))%nat with (i - length l)%nat by (cbn [length]; lia).
    cbn [app firstn skipn plus]. f_equal. exact IH.
Qed.

(* get_state_mut(1)[0] = v  is Lmmm's `wr` *)
Lemma st_put_wr : forall m off v tr, (m_pos m + off < lenN (m_state m)) ->
  lm_of (st_put m off [v]) tr = Machine.wr (lm_of m tr) (m_pos m + off) v.
Proof.
  intros m off v tr H. unfold lm_of, st_put, set_state, Machine.wr, wr_range, nn.
  cbn [m_state m_pos Machine.m_words Machine.m_pos Machine.m_trace length].
  f_equal. symmetry. apply set_nth_wr_range. unfold lenN in H. lia.
Qed.

Lemma nth_skipn_head : forall (l : list Z) i y ys, skipn i l = y :: ys -> nth i l 0%Z = y.
Proof.
  induction l as [|x l IH]; intros i y ys H; [destruct i; discriminate|].
  destruct i as [|i]; cbn [skipn nth] in *; [congruence|eauto].
Qed.

(* Instruction::Mem: the word read and the storage afterwards are those of Lmmm's mem1 on the VM discipline *)
Lemma mem_agrees : forall m x tr, m_pos m + 1 <= lenN (m_state m) ->
  exists old tr', st_get m 1 = Some [old] /\
    Machine.mem1 Machine.VmD x (lm_of m tr) = Some (old, lm_of (st_put m 0 [x]) tr').
Proof.
  intros m x tr H. unfold st_get. destruct (rd_range_ok _ (m_state m) (m_pos m) 1 H) as [vs Hvs].
  destruct (rd_range_one _ _ _ _ Hvs) as [old ->]. exists old.
  unfold Machine.mem1, Machine.ensure, Machine.tr. cbn [lm_of Machine.m_words Machine.m_pos Machine.m_trace].
  destruct (N.leb_spec (m_pos m + 1) (N.of_nat (length (m_state m)))) as [_|Hc]; [|unfold lenN in H; lia].
  eexists. split; [exact Hvs|]. f_equal. f_equal.
  - unfold rd_range in Hvs. destruct (m_pos m + 1 <=? lenN (m_state m)); [|discriminate].
    inversion Hvs as [Hv]. unfold Machine.rd, nn in *. cbn [Machine.m_words].
    destruct (skipn (N.to_nat (m_pos m)) (m_state m)) as [|y ys] eqn:Es; [discriminate|].
    cbn in Hv. inversion Hv; subst y. eapply nth_skipn_head. exact Es.
  - rewrite (st_put_wr m 0 x _) by lia. replace (m_pos m + 0) with (m_pos m) by lia. reflexivity.
Qed.

(* Instruction::Delay / Ringbuffer::process: same result word, same storage as Lmmm's delay1 on the VM discipline,
   fed with the delay time the arithmetic truncates to *)
Lemma delay_agrees : forall A m n x t tr, m_pos m + 2 + n <= lenN (m_state m) ->
  exists res m' tr', delay_step A m n x t = Some (res, m') /\
    Machine.delay1 Machine.VmD n x (a_trunc A t) (lm_of m tr) = Some (res, lm_of m' tr').
Proof.
  intros A m n x t tr H. unfold delay_step, Machine.delay1, Machine.ensure, Machine.tr.
  cbn [lm_of Machine.m_words Machine.m_pos Machine.m_trace].
  destruct (N.leb_spec (m_pos m + 2 + n) (lenN (m_state m))) as [_|Hc]; [|lia].
  destruct (N.eqb_spec n 0) as [Hz|Hz].
  - destruct (N.leb_spec (m_pos m + 2) (N.of_nat (length (m_state m)))) as [_|Hc]; [|unfold lenN in H; lia].
    do 3 eexists. split; reflexivity.
  - destruct (N.leb_spec (m_pos m + 2 + n) (N.of_nat (length (m_state m)))) as [_|Hc]; [|unfold lenN in H; lia].
    cbv zeta. cbn [Machine.m_pos].
    unfold Machine.rd at 1 2. cbn [Machine.m_words]. unfold Machine.clampZ, clampZ.
    set (l := Z.of_N n). assert (Hl : (0 < l)%Z) by (unfold l; lia).
    set (w := (nth (N.to_nat (m_pos m + 1)) (m_state m) 0 mod l)%Z).
    assert (Hw : (0 <= w < l)%Z) by (apply Z.mod_pos_bound; exact Hl).
    set (r := ((w + l - Z.max 0 (Z.min (a_trunc A t) (l - 1))) mod l)%Z).
    do 3 eexists. split; [unfold nn; fold l; fold w; fold r; reflexivity|].
    f_equal. f_equal.
    set (m1 := st_put m (Z.to_N w + 2) [x]).
    set (m2 := st_put m1 0 [r]).
    assert (P1 : m_pos m1 = m_pos m) by reflexivity.
    assert (L1 : lenN (m_state m1) = lenN (m_state m)).
    { unfold m1, st_put, set_state. cbn [m_state]. rewrite wr_range_length. change (lenN [x]) with 1. unfold l in *. lia. }
    assert (P2 : m_pos m2 = m_pos m) by reflexivity.
    assert (L2 : lenN (m_state m2) = lenN (m_state m)).
    { unfold m2, st_put, set_state. cbn [m_state]. rewrite wr_range_length. change (lenN [r]) with 1. rewrite P1, L1. lia. }
    rewrite (st_put_wr m2 1 _ _) by (rewrite P2, L2; lia). rewrite P2. subst m2.
    rewrite (st_put_wr m1 0 _ _) by (rewrite P1, L1; lia). rewrite P1. subst m1.
    rewrite (st_put_wr m (Z.to_N w + 2) _ _) by (unfold l in *; lia). replace (m_pos m + 0) with (m_pos m) by lia.
    replace (m_pos m + (Z.to_N w + 2)) with (m_pos m + 2 + Z.to_N w) by lia. reflexivity.
Qed.
