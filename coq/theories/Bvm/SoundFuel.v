(* Bvm/SoundFuel.v — arithmetic of the fuel bound of Bvm/Verify.v (`need`, `term_ok`). *)
From Coq Require Import List ZArith NArith Bool Lia Arith.
From Mimium Require Import Bvm.Model Bvm.Verify Bvm.ListLemmas.
Import ListNotations.
Local Open Scope N_scope.

Section Sum.
  Variable w : N -> N.

  Definition ssum (L : list N) (t : N) : N :=
    fold_right (fun q acc => if t <=? q then w q + acc else acc) 0 L.

  Lemma ssum_mono : forall L t t', t <= t' -> ssum L t' <= ssum L t.
  Proof.
    induction L as [|x L IH]; intros t t' H; cbn [ssum fold_right]; [lia|].
    specialize (IH t t' H). unfold ssum in IH.
    destruct (N.leb_spec t' x), (N.leb_spec t x); lia.
  Qed.

  Lemma ssum_step : forall L t t', In t L -> t < t' -> ssum L t' + w t <= ssum L t.
  Proof.
    induction L as [|x L IH]; intros t t' Hin Hlt; [destruct Hin|].
    cbn [ssum fold_right]. destruct Hin as [->|Hin].
    - pose proof (ssum_mono L t t' ltac:(lia)) as Hm. unfold ssum in Hm.
      destruct (N.leb_spec t' t), (N.leb_spec t t); lia.
    - specialize (IH t t' Hin Hlt). unfold ssum in IH.
      destruct (N.leb_spec t' x), (N.leb_spec t x); lia.
  Qed.
End Sum.

Lemma need_ssum : forall C f T pc, need C f T pc = ssum (wcost C f T) (indices (f_code f)) pc.
Proof. reflexivity. Qed.

Lemma indices_In' : forall A (l : list A) pc, pc < lenN l -> In pc (indices l).
Proof.
  intros A l pc H. unfold indices. replace pc with (N.of_nat (N.to_nat pc)) by lia.
  apply in_map. apply in_seq. unfold lenN in H. lia.
Qed.

(* one instruction ahead costs at least its own weight *)
Lemma need_step : forall C f T pc pc', pc < lenN (f_code f) -> pc < pc' ->
  need C f T pc' + wcost C f T pc <= need C f T pc.
Proof. intros. rewrite !need_ssum. apply ssum_step; [apply indices_In'; assumption|assumption]. Qed.

Lemma wcost_pos : forall C f T q, 1 <= wcost C f T q.
Proof. intros. unfold wcost. lia. Qed.

Lemma need_pos : forall C f T pc, pc < lenN (f_code f) -> 1 <= need C f T pc.
Proof.
  intros C f T pc H. pose proof (need_step C f T pc (pc + 1) H ltac:(lia)). pose proof (wcost_pos C f T pc). lia.
Qed.

Lemma term_from_spec : forall p C fs i0, term_from p C fs i0 = true ->
  forall j f, nth_error fs j = Some f -> term_fn p C (i0 + N.of_nat j) f = true.
Proof.
  intros p C fs. induction fs as [|g fs IH]; intros i0 H j f Hj; [destruct j; discriminate|].
  cbn [term_from] in H. apply andb_true_iff in H. destruct H as [Hg Hrest].
  destruct j as [|j]; cbn [nth_error] in Hj.
  - inversion Hj; subst. replace (i0 + N.of_nat 0) with i0 by lia. exact Hg.
  - replace (i0 + N.of_nat (S j)) with (i0 + 1 + N.of_nat j) by lia. apply IH; assumption.
Qed.

Lemma term_ok_fn : forall p C i f, term_ok p C = true -> rd1 (p_funs p) i = Some f -> term_fn p C i f = true.
Proof.
  intros p C i f H Hi. rewrite rd1_nth_error in Hi.
  pose proof (term_from_spec p C (p_funs p) 0 H (nn i) f Hi) as R.
  replace (0 + N.of_nat (nn i)) with i in R by (unfold nn; lia). exact R.
Qed.

Lemma term_fn_fwd : forall p C i f pc a ins succs,
  term_fn p C i f = true -> rd1 (infer p f) pc = Some (Some a) -> rd1 (f_code f) pc = Some ins ->
  flow p f pc a (decode ins) = Some succs -> forall q a', In (q, a') succs -> pc < q.
Proof.
  intros p C i f pc a ins succs H Hpc Hi Hfl q a' Hin. unfold term_fn in H.
  apply andb_true_iff in H. destruct H as [H _]. rewrite forallb_forall in H.
  assert (Hlt : pc < lenN (f_code f)) by (eapply rd1_Some; eauto).
  specialize (H pc (indices_In' _ _ _ Hlt)). unfold fwd_at in H. rewrite Hpc, Hi, Hfl in H.
  rewrite forallb_forall in H. specialize (H (q, a') Hin). cbn [fst] in H. apply N.ltb_lt in H. exact H.
Qed.

Lemma term_fn_cost : forall p C i f, term_fn p C i f = true -> need C f (infer p f) 0 <= cost_of C i.
Proof.
  intros p C i f H. unfold term_fn in H. apply andb_true_iff in H. destruct H as [_ H]. apply N.leb_le in H. exact H.
Qed.
