(* Bvm/XVerify.v — the bytecode verifier of Bvm/Verify.v extended to the closure / upvalue / heap layer of
   Bvm/XModel.v (definitions only; soundness: Bvm/XSound*.v).  Same abstract states, same table-checking scheme.

   What the transfer function asks of the new instructions:
   * Closure / MakeHeapClosure: the function index sits in a register known to hold a CONSTANT that is a valid index;
   * CallCls / CallIndirect: the callee register and the argument words are readable; nothing is known about the
     callee (that is checked at run time by the instrumented semantics: DynSignature, DynReentry);
   * GetUpValue(d, i): i < number of upindexes of the running function;
   * SetUpValue(i, s, n): i < number of upindexes, n words readable;
   * Close / CloseHeapClosure / CloneHeap / Box*: operands readable;
   * Call: the callee expects no upvalues (it is entered without a closure);
   * CloneUserSum / ReleaseUserSum on a type with boxed references: the type is in the table, the words are readable;
   * AllocArray: nothing; GetArrayElem / SetArrayElem: the handle and the index are readable, the annotation `f_ew` gives
     the element width w for this program counter: w words are written at dst / readable at val;
   * CallExtFun of an array builtin (len, split_head, split_tail, prepend, append and their `$arityN` forms) or of
     `_mimium_schedule_at`: the callee index is a known constant, the argument words the builtin reads are inside the
     words the call site prepared, the call site takes no more result words than the builtin leaves. *)
From Coq Require Import List ZArith NArith Bool.
From Mimium Require Import Heap.Model.
From Mimium Require Import Bvm.Model Bvm.Verify Bvm.XModel.
Import ListNotations.
Local Open Scope N_scope.

Definition known_fn (p : program) (a : astate) (fr : N) : option fn :=
  match alookup (a_regs a) fr with
  | Some k => rd1 (p_funs p) (Z.to_N k)
  | None => None
  end.

(* an array builtin of plugin/builtin_functins.rs (Bvm/XModel.v arr_builtin): (argument words it reads, words it leaves) *)
Definition arr_sig (op ew : N) : option (N * N) :=
  match op with
  | 0 => Some (1, 1)                      (* len *)
  | 1 | 2 => Some (1, 2)                  (* split_head / split_tail: one-word elements (DynElemWidth otherwise) *)
  | 11 | 12 => Some (1, ew + 1)           (* split_head$arityN / split_tail$arityN *)
  | 3 | 4 => Some (2, 1)                  (* prepend / append *)
  | 13 | 14 => Some (ew + 1, 1)           (* prepend$arityN / append$arityN *)
  | _ => None
  end.

Definition xflow (p : program) (f : fn) (pc : N) (a : astate) (o : xop) : option (list (N * astate)) :=
  match o with
  | XOld (UExt fr nargs nret) =>
      (* an array builtin / the scheduler call: the words they read lie inside the argument words the call site prepared,
         the words they leave cover what the call site takes *)
      match alookup (a_regs a) fr with
      | Some k =>
          match rd1 (p_ext p) (Z.to_N k) with
          | Some (ExtArr op ew) =>
              match arr_sig op ew with
              | Some (na, nr) =>
                  if rdok a fr 1 && (fr + 1 + nargs <=? a_h a) && (na <=? nargs) && (nret <=? nr)
                  then next1 pc (acall a fr nret) else None
              | None => None
              end
          | Some ExtSched =>
              if rdok a fr 1 && (fr + 1 + nargs <=? a_h a) && (2 <=? nargs) && (nret =? 0)
              then next1 pc (acall a fr nret) else None
          | _ => flow p f pc a (UExt fr nargs nret)
          end
      | None => None
      end
  | XOld (UCall fr nargs nret) =>
      match known_fn p a fr with
      | Some g => match f_up g with [] => flow p f pc a (UCall fr nargs nret) | _ :: _ => None end
      | None => None
      end
  | XOld (USumRc r n t) =>
      (* a sum type with boxed references: the value's words are read, the heap objects they name are retained / released *)
      match rd1 (p_types p) t with
      | Some false => match rd1 (p_tys p) t with Some _ => if rdok a r n then next1 pc a else None | None => None end
      | _ => flow p f pc a (USumRc r n t)
      end
  | XOld u => flow p f pc a u
  | XClosure d fr | XMakeHeap d fr =>
      match known_fn p a fr with
      | Some _ => if rdok a fr 1 then next1 pc (awrite a d 1) else None
      | None => None
      end
  | XClose s | XCloseHeap s | XCloneHeap s | XBoxClone s | XBoxRelease s => if rdok a s 1 then next1 pc a else None
  | XCallCls fr nargs nret | XCallInd fr nargs nret =>
      if rdok a fr 1 && ((nargs =? 0) || (fr + 1 + nargs <=? a_h a)) then next1 pc (acall a fr nret) else None
  | XGetUp d i =>
      match rd1 (f_up f) i with
      | Some u => next1 pc (awrite a d (u_size u))
      | None => None
      end
  | XSetUp i s n =>
      match rd1 (f_up f) i with
      | Some _ => if rdok a s n then next1 pc a else None
      | None => None
      end
  | XBoxAlloc d s n => if rdok a s n then next1 pc (awrite a d 1) else None
  | XBoxLoad d s n => if rdok a s 1 then next1 pc (awrite a d n) else None
  | XBoxStore d s n => if rdok a d 1 && rdok a s n then next1 pc a else None
  (* arrays: the width of an element is a run-time fact (elem_word_size of the array the handle names); the annotation
     `f_ew` proposes it, the instrumented semantics checks it (DynElemWidth) *)
  | XAllocArr d _ _ => next1 pc (awrite a d 1)
  | XGetArr d ar i =>
      match ew_hint f pc with
      | Some w => if rdok a ar 1 && rdok a i 1 then next1 pc (awrite a d w) else None
      | None => None
      end
  | XSetArr ar i v =>
      match ew_hint f pc with
      | Some w => if rdok a ar 1 && rdok a i 1 && rdok a v w then next1 pc a else None
      | None => None
      end
  end.

Definition xcheck_at (p : program) (f : fn) (T : table) (pc : N) : bool :=
  match rd1 T pc with
  | Some None => true
  | Some (Some a) =>
      match rd1 (f_code f) pc with
      | Some i =>
          match xflow p f pc a (xdecode i) with
          | Some succs =>
              forallb (fun s => match rd1 T (fst s) with Some (Some b) => sub (snd s) b | _ => false end) succs
          | None => false
          end
      | None => false
      end
  | None => false
  end.

Definition xcheck_fn (p : program) (f : fn) (T : table) : bool :=
  (lenN T =? lenN (f_code f)) &&
  match T with Some a0 :: _ => sub (entry f) a0 | _ => false end &&
  forallb (xcheck_at p f T) (indices (f_code f)).

(* table inference (untrusted) *)
Fixpoint xinfer_loop (p : program) (f : fn) (pcs : list N) (T : table) : table :=
  match pcs with
  | [] => T
  | pc :: rest =>
      let T' := match rd1 T pc, rd1 (f_code f) pc with
                | Some (Some a), Some i =>
                    match xflow p f pc a (xdecode i) with
                    | Some succs => fold_left merge succs T
                    | None => T
                    end
                | _, _ => T
                end in
      xinfer_loop p f rest T'
  end.

Definition xinfer (p : program) (f : fn) : table :=
  xinfer_loop p f (indices (f_code f))
              (match f_code f with [] => [] | _ :: r => Some (entry f) :: map (fun _ => None) r end).

Definition xverify_fn (p : program) (f : fn) : bool := xcheck_fn p f (xinfer p f).

(* main and dsp are entered without a closure: no parameter words for main, no upvalues for either *)
Definition no_up (f : fn) : bool := match f_up f with [] => true | _ :: _ => false end.

Definition xverify (p : program) : bool :=
  forallb (xverify_fn p) (p_funs p) &&
  match rd1 (p_funs p) 0 with Some f0 => (f_pwords f0 =? 0) && no_up f0 | None => false end &&
  match p_dsp p with Some di => match rd1 (p_funs p) di with Some fd => no_up fd | None => false end | None => false end.

(* diagnostics: first (function, pc) whose check fails *)
Definition xfirst_bad_fn (p : program) (f : fn) : option N :=
  let T := xinfer p f in
  if negb ((lenN T =? lenN (f_code f)) && match T with Some a0 :: _ => sub (entry f) a0 | _ => false end)
  then Some (lenN (f_code f))
  else find (fun pc => negb (xcheck_at p f T pc)) (indices (f_code f)).

Fixpoint xfirst_bad_from (p : program) (fs : list fn) (i : N) : option (N * N) :=
  match fs with
  | [] => None
  | f :: rest => match xfirst_bad_fn p f with Some pc => Some (i, pc) | None => xfirst_bad_from p rest (i + 1) end
  end.

Definition xfirst_bad (p : program) : option (N * N) := xfirst_bad_from p (p_funs p) 0.

(* a program of the old subset: no instruction of the closure layer anywhere, no sum type with boxed references, no
   array builtin *)
Definition old_instr (i : instr) : bool := match xdecode i with XOld _ => true | _ => false end.
Definition closure_free (p : program) : bool :=
  forallb (fun f => forallb old_instr (f_code f)) (p_funs p) && forallb (fun b => b) (p_types p) &&
  forallb (fun e => match e with ExtArr _ _ | ExtSched => false | _ => true end) (p_ext p).
