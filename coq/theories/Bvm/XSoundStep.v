(* Bvm/XSoundStep.v — one instruction of the extended machine that neither calls nor returns, in the instrumented
   semantics (strict = true): when `xflow` accepts it in an abstract state that describes the activation (`frs`), the
   step either stops with a fault of the dynamic class or lands on a successor `xflow` lists, in a machine the
   successor's abstract state describes; the closure table keeps its shape and no state storage other than the
   current one moves its cursor. *)
From Coq Require Import List ZArith NArith Bool Lia Arith.
From Mimium Require Import Heap.Model Heap.SlotMap.
From Mimium Require Import Bvm.Model Bvm.Verify Bvm.ListLemmas Bvm.SoundAbs Bvm.SoundStep.
From Mimium Require Import Bvm.XModel Bvm.XVerify Bvm.XInv Bvm.XDyn Bvm.XLocal.
Import ListNotations.
Local Open Scope N_scope.

(* the closure an activation runs in: issued once; while it lives it is a closure of the running function *)
Definition ci_inv (f : fn) (fi : N) (ci : option key) (x : xmach) : Prop :=
  match ci with
  | None => f_up f = []
  | Some c => bound (x_cls x) c /\ forall cl, sm_get (x_cls x) c = Some cl -> c_fn cl = fi
  end.

(* what holds throughout one activation of function f (index fi) in closure ci with base pointer `base`, whose
   state cursor was p0 at entry *)
Definition frs (p : program) (f : fn) (fi : N) (ci : option key) (base p0 : N) (a : astate) (x : xmach) : Prop :=
  stack_ok base (a_h a) (x_stack x) /\ regs_ok base (a_regs a) (x_stack x) /\
  1 <= base /\ base <= lenN (x_stack x) + 1 /\ lenN (m_globals (x_core x)) = p_gsize p /\
  (forall s, cur_store x = Some s -> fst s = p0 + a_pos a /\ p0 + f_ssize f <= lenN (snd s)) /\
  (forall c, owner x = Some c -> bound (x_cls x) c) /\
  ci_inv f fi ci x /\ (ci <> None -> base <= lenN (x_stack x)).

Definition xstep_ok (p : program) (f : fn) (fi : N) (ci : option key) (base p0 pc : N) (x : xmach)
    (succs : list (N * astate)) (r : xlres) : Prop :=
  match r with
  | XLFault e => is_dyn e = true
  | XLUnsup _ => False
  | XLFuel => True
  | XNext inc x' _ =>
      exists pc' a', next_pc pc inc = Some pc' /\ In (pc', a') succs /\
        frs p f fi ci base p0 a' x' /\ xok p x' /\ xext (Some (owner x)) x x' /\
        firstn (nn (base - 1)) (x_stack x') = firstn (nn (base - 1)) (x_stack x)
  end.

(* ---- machines that differ in stack / heap / cells / arrays / queued tasks only ---- *)
Definition lite (x1 x' : xmach) : Prop :=
  x_ss x' = x_ss x1 /\ x_cls x' = x_cls x1 /\ m_globals (x_core x') = m_globals (x_core x1) /\
  m_pos (x_core x') = m_pos (x_core x1) /\ m_state (x_core x') = m_state (x_core x1).

Lemma lite_refl : forall x, lite x x.
Proof. intros; repeat split. Qed.

Lemma lite_cur : forall x1 x', lite x1 x' -> cur_store x' = cur_store x1.
Proof. intros x1 x' (L1 & L2 & L3 & L4 & L5). unfold cur_store. rewrite L1, L2, L4, L5. reflexivity. Qed.

Lemma lite_owner : forall x1 x', lite x1 x' -> owner x' = owner x1.
Proof. intros x1 x' (L1 & _). unfold owner. rewrite L1. reflexivity. Qed.

Lemma lite_ok : forall p x1 x', lite x1 x' -> xok p x1 -> xok p x'.
Proof. intros p x1 x' (L1 & L2 & _) H. unfold xok in *. rewrite L2. exact H. Qed.

Lemma xext_lite : forall o x x1 x', xext o x x1 -> lite x1 x' -> xext o x x'.
Proof.
  intros o x x1 x' (E1 & E2 & E3 & E4 & E5) (L1 & L2 & L3 & L4 & L5). unfold xext. rewrite L1, L2, L3, L4, L5. auto.
Qed.

Lemma lite_xsput : forall base x d vs, lite x (xsput base x d vs).
Proof. intros; repeat split. Qed.
Lemma lite_set_heap : forall x h, lite x (set_heap x h).
Proof. intros; repeat split. Qed.
Lemma lite_set_cells : forall x c, lite x (set_cells x c).
Proof. intros; repeat split. Qed.
Lemma lite_set_arr : forall x a, lite x (set_arr x a).
Proof. intros; repeat split. Qed.
Lemma lite_set_tasks : forall x t, lite x (set_tasks x t).
Proof. intros; repeat split. Qed.
Lemma lite_trans : forall x1 x2 x3, lite x1 x2 -> lite x2 x3 -> lite x1 x3.
Proof. intros x1 x2 x3 (A1 & A2 & A3 & A4 & A5) (B1 & B2 & B3 & B4 & B5). repeat split; congruence. Qed.

(* ---- the activation's facts survive ---- *)
Lemma ci_inv_ext : forall f fi ci o x x', xext o x x' -> ci_inv f fi ci x -> ci_inv f fi ci x'.
Proof.
  intros f fi ci o x x' (_ & _ & _ & _ & [EB EG]) H. destruct ci as [c|]; [|exact H]. destruct H as [Hb Hf].
  split; [apply EB; exact Hb|]. intros cl' Hg'. destruct (EG c cl' Hb Hg') as (cl & Hg & (S1 & _) & _).
  rewrite <- S1. apply Hf. exact Hg.
Qed.

Lemma owner_bound_ext : forall o x x', xext o x x' -> (forall c, owner x = Some c -> bound (x_cls x) c) ->
  forall c, owner x' = Some c -> bound (x_cls x') c.
Proof.
  intros o x x' (E1 & _ & _ & _ & [EB _]) H c Hc. unfold owner in *. rewrite E1 in Hc. apply EB. apply H. exact Hc.
Qed.

(* the table moved on (no cursor moved), stack and globals are those of x *)
Lemma frs_ext : forall p f fi ci base p0 a x x',
  frs p f fi ci base p0 a x -> xext None x x' -> x_stack x' = x_stack x ->
  frs p f fi ci base p0 a x'.
Proof.
  intros p f fi ci base p0 a x x' (F1 & F2 & F3 & F4 & F5 & F6 & F7 & F8 & F9) E Hst. unfold frs. rewrite Hst.
  split; [exact F1|]. split; [exact F2|]. split; [exact F3|]. split; [exact F4|].
  split; [destruct E as (_ & E2 & _); unfold lenN in *; congruence|].
  split; [|split; [eapply owner_bound_ext; eauto|split; [eapply ci_inv_ext; eauto|exact F9]]].
  intros s' Hs'. destruct (cur_store_ext None x x' s' E F7 Hs') as (s & Hs & Hl & Hp).
  destruct (F6 s Hs) as [P1 P2]. rewrite Hl, (Hp ltac:(discriminate)). auto.
Qed.

(* n words written at register d *)
Lemma frs_write : forall p f fi ci base p0 a x d n vs,
  frs p f fi ci base p0 a x -> lenN vs = n -> frs p f fi ci base p0 (awrite a d n) (xsput base x d vs).
Proof.
  intros p f fi ci base p0 a x d n vs (F1 & F2 & F3 & F4 & F5 & F6 & F7 & F8 & F9) Hn.
  pose (m := mkMach (x_stack x) [] (p0 + a_pos a) []).
  assert (Hc : conc base p0 a m) by (split; [exact F1|split; [exact F2|reflexivity]]).
  destruct (conc_write base p0 a m d n vs Hc Hn) as (C1 & C2 & _).
  assert (Hst : x_stack (xsput base x d vs) = m_stack (sput base m d vs)) by reflexivity.
  unfold frs. rewrite Hst. split; [exact C1|]. split; [exact C2|]. split; [exact F3|].
  rewrite sput_stack, wr_range_length. cbn [m_stack m]. split; [lia|]. split; [exact F5|].
  split; [intros s Hs; rewrite (lite_cur x _ (lite_xsput base x d vs)) in Hs; exact (F6 s Hs)|].
  split; [exact F7|]. split; [exact F8|]. intros H. specialize (F9 H). lia.
Qed.

Lemma frs_lite_stack : forall p f fi ci base p0 a x x', frs p f fi ci base p0 a x -> lite x x' -> x_stack x' = x_stack x ->
  frs p f fi ci base p0 a x'.
Proof.
  intros p f fi ci base p0 a x x' F L Hst. apply (frs_ext p f fi ci base p0 a x x' F); [|exact Hst].
  eapply xext_lite; [apply xext_refl|exact L].
Qed.

(* reads *)
Lemma frs_rd : forall p f fi ci base p0 a x r n, frs p f fi ci base p0 a x -> rdok a r n = true ->
  exists vs, xsget_range base x r n = Some vs /\ lenN vs = n.
Proof.
  intros p f fi ci base p0 a x r n (F1 & F2 & _) H.
  pose (m := mkMach (x_stack x) [] (p0 + a_pos a) []).
  assert (Hc : conc base p0 a m) by (split; [exact F1|split; [exact F2|reflexivity]]).
  exact (rdok_sget_range base p0 a m r n Hc H).
Qed.

Lemma frs_rd1 : forall p f fi ci base p0 a x r, frs p f fi ci base p0 a x -> rdok a r 1 = true ->
  exists v, xsget base x r = Some v.
Proof.
  intros p f fi ci base p0 a x r (F1 & F2 & _) H.
  pose (m := mkMach (x_stack x) [] (p0 + a_pos a) []).
  assert (Hc : conc base p0 a m) by (split; [exact F1|split; [exact F2|reflexivity]]).
  exact (rdok_sget base p0 a m r Hc H).
Qed.

Lemma frs_known : forall p f fi ci base p0 a x r k, frs p f fi ci base p0 a x -> alookup (a_regs a) r = Some k ->
  xsget base x r = Some k.
Proof. intros p f fi ci base p0 a x r k (_ & F2 & _) H. unfold xsget, sget. apply F2. exact H. Qed.

(* the stack grows by zero words at its end *)
Lemma lite_xset_stack : forall x st, lite x (xset_stack x st).
Proof. intros; repeat split. Qed.

Lemma frs_grow : forall p f fi ci base p0 a x zs,
  frs p f fi ci base p0 a x -> frs p f fi ci base p0 a (xset_stack x (x_stack x ++ zs)).
Proof.
  intros p f fi ci base p0 a x zs (F1 & F2 & F3 & F4 & F5 & F6 & F7 & F8 & F9).
  assert (Hst : x_stack (xset_stack x (x_stack x ++ zs)) = x_stack x ++ zs) by reflexivity.
  unfold frs, stack_ok in *. rewrite Hst, lenN_app.
  split. { destruct F1 as [F1|F1]; [left; exact F1|right; lia]. }
  split. { intros r k Hl. specialize (F2 r k Hl). rewrite rd1_nth_error in *.
           rewrite nth_error_app1; [exact F2|]. apply nth_error_Some. congruence. }
  split; [exact F3|]. split; [lia|]. split; [exact F5|].
  split; [intros s Hs; rewrite (lite_cur x _ (lite_xset_stack x _)) in Hs; exact (F6 s Hs)|].
  split; [exact F7|]. split; [exact F8|]. intros H. specialize (F9 H). lia.
Qed.

Lemma rd1_nil : forall T (i : N), rd1 (@nil T) i = None.
Proof. intros. unfold rd1. destruct (i <? lenN []); [destruct (nn i); reflexivity|reflexivity]. Qed.

Section Step.
  Variable A : arith.
  Variable p : program.
  Variable f : fn.
  Variable fi : N.
  Hypothesis Hfi : rd1 (p_funs p) fi = Some f.
  Variables base p0 pc : N.

  Lemma xok_next : forall ci x fl a' x',
    frs p f fi ci base p0 a' x' -> xok p x' -> xext (Some (owner x)) x x' ->
    firstn (nn (base - 1)) (x_stack x') = firstn (nn (base - 1)) (x_stack x) ->
    xstep_ok p f fi ci base p0 pc x [(pc + 1, a')] (XNext 1 x' fl).
  Proof.
    intros ci x fl a' x' H1 H2 H3 H4. exists (pc + 1), a'. split; [apply next_pc_1|]. split; [left; reflexivity|]. auto.
  Qed.

  Lemma xsput_firstn : forall ci x a d vs, frs p f fi ci base p0 a x ->
    firstn (nn (base - 1)) (x_stack (xsput base x d vs)) = firstn (nn (base - 1)) (x_stack x).
  Proof.
    intros ci x a d vs (_ & _ & F3 & F4 & _). unfold xsput, x_stack; cbn. apply wr_range_firstn; unfold nn, lenN, x_stack in *; lia.
  Qed.

  (* a dynamic operation (table moved on, core untouched) followed by a write of n words at register d *)
  Lemma ok_dyn_write : forall ci x fl a x1 x2 d n vs,
    frs p f fi ci base p0 a x -> dgood p x (DOk x1) -> lite x1 x2 -> x_stack x2 = x_stack x -> lenN vs = n ->
    xstep_ok p f fi ci base p0 pc x [(pc + 1, awrite a d n)] (XNext 1 (xsput base x2 d vs) fl).
  Proof.
    intros ci x fl a x1 x2 d n vs F (O1 & E1 & C1) L Hst Hn.
    assert (E2 : xext None x x2) by (eapply xext_lite; eauto).
    assert (F2 : frs p f fi ci base p0 a x2) by (eapply frs_ext; eauto).
    apply xok_next.
    - apply frs_write; assumption.
    - eapply lite_ok; [apply lite_xsput|]. eapply lite_ok; eauto.
    - apply xext_weaken. eapply xext_lite; [exact E2|apply lite_xsput].
    - rewrite (xsput_firstn ci x2 a d vs F2). rewrite Hst. reflexivity.
  Qed.

  (* a dynamic operation that leaves the stack alone *)
  Lemma ok_dyn : forall ci x fl a x1 x2,
    frs p f fi ci base p0 a x -> dgood p x (DOk x1) -> lite x1 x2 -> x_stack x2 = x_stack x ->
    xstep_ok p f fi ci base p0 pc x [(pc + 1, a)] (XNext 1 x2 fl).
  Proof.
    intros ci x fl a x1 x2 F (O1 & E1 & C1) L Hst.
    assert (E2 : xext None x x2) by (eapply xext_lite; eauto).
    apply xok_next.
    - eapply frs_ext; eauto.
    - eapply lite_ok; eauto.
    - apply xext_weaken. exact E2.
    - rewrite Hst. reflexivity.
  Qed.

  (* the stack grows at its end, then n words are written at register d *)
  Lemma ok_grow_write : forall ci x fl a zs d n vs,
    frs p f fi ci base p0 a x -> xok p x -> lenN vs = n ->
    xstep_ok p f fi ci base p0 pc x [(pc + 1, awrite a d n)]
      (XNext 1 (xsput base (xset_stack x (x_stack x ++ zs)) d vs) fl).
  Proof.
    intros ci x fl a zs d n vs F Hx Hn.
    set (x1 := xset_stack x (x_stack x ++ zs)).
    assert (F1 : frs p f fi ci base p0 a x1) by (apply frs_grow; exact F).
    assert (L : lite x (xsput base x1 d vs)) by (eapply lite_trans; [apply lite_xset_stack|apply lite_xsput]).
    apply xok_next.
    - apply frs_write; assumption.
    - eapply lite_ok; eauto.
    - apply xext_weaken. eapply xext_lite; [apply xext_refl|exact L].
    - rewrite (xsput_firstn ci x1 a d vs F1). destruct F as (_ & _ & G3 & G4 & _).
      change (x_stack x1) with (x_stack x ++ zs). rewrite firstn_app.
      replace (nn (base - 1) - length (x_stack x))%nat with O by (unfold nn, lenN in *; lia).
      rewrite firstn_O, app_nil_r. reflexivity.
  Qed.

  Lemma dgood_refl : forall x, xok p x -> dgood p x (DOk x).
  Proof. intros x H. apply dgood_ok_same; auto. Qed.

  (* ---------- the instructions of Bvm/Model.v on the view ---------- *)
  Lemma xlocal_sound : forall ci a u x fl succs,
    flow p f pc a u = Some succs -> local u -> frs p f fi ci base p0 a x -> xok p x ->
    xstep_ok p f fi ci base p0 pc x succs (xlocal A p f base u x fl).
  Proof.
    intros ci a u x fl succs Hflow Hloc F Hok.
    destruct F as (F1 & F2 & F3 & F4 & F5 & F6 & F7 & F8 & F9).
    (* the storage the abstract state talks about: the current one, or a phantom when its owner is gone *)
    set (s := match cur_store x with Some s => s | None => (p0 + a_pos a, repeat 0%Z (nn (p0 + f_ssize f))) end).
    assert (Hs : fst s = p0 + a_pos a /\ p0 + f_ssize f <= lenN (snd s)).
    { unfold s. destruct (cur_store x) as [s0|] eqn:E; [apply F6; reflexivity|]. cbn. split; [reflexivity|].
      rewrite lenN_repeat. unfold nn. lia. }
    assert (Hc : conc base p0 a (view x s)) by (split; [exact F1|split; [exact F2|apply Hs]]).
    assert (Hf : finv p f base p0 (view x s)) by (unfold finv; cbn; repeat split; auto; apply Hs).
    pose proof (lstep_sound A p f base p0 pc a u (view x s) succs Hflow Hloc Hc Hf) as Hstep.
    destruct Hstep as (inc & m' & pc' & a' & E1 & E2 & E3 & E4 & E5 & E6 & E7).
    (* what the machine after the write-back satisfies, given the view m2 that was written back *)
    assert (Hafter : forall m2, m_stack m2 = m_stack m' -> m_globals m2 = m_globals m' ->
              (forall s0, cur_store x = Some s0 -> m_pos m2 = m_pos m' /\ m_state m2 = m_state m') ->
              xstep_ok p f fi ci base p0 pc x succs (XNext inc (put_view x m2) fl)).
    { intros m2 M1 M2 M3. exists pc', a'. split; [exact E2|]. split; [exact E3|].
      destruct E4 as (C1 & C2 & C3). destruct E5 as (G1 & G2 & G3 & G4).
      assert (Hext : xext (Some (owner x)) x (put_view x m2)).
      { apply put_view_ext; [rewrite M2; unfold lenN in *; congruence| |auto].
        intros s0 Hs0. destruct (M3 s0 Hs0) as [_ ->]. rewrite E7. unfold s. rewrite Hs0. reflexivity. }
      split; [|split; [|split; [exact Hext|]]].
      - unfold frs. rewrite put_view_stack, put_view_globals, M1, M2.
        split; [exact C1|]. split; [exact C2|]. split; [exact G1|]. split; [exact G2|]. split; [exact G4|].
        split; [|split; [eapply owner_bound_ext; eauto|split; [eapply ci_inv_ext; eauto|]]].
        + intros s' Hs'. rewrite cur_put_view in Hs'. destruct (cur_store x) as [s0|] eqn:Ec; [|discriminate].
          inversion Hs'; subst s'. cbn [fst snd]. destruct (M3 s0 eq_refl) as [-> ->]. split; [exact C3|exact G3].
        + intros Hn. specialize (F9 Hn).
          assert (Hk := lstep_keeps_base A p f base u (view x s) inc m' E1 F9). exact Hk.
      - destruct (cur_store x) as [s0|] eqn:Ec.
        + eapply put_view_ok; [exact Hok|exact Ec|]. destruct (M3 s0 eq_refl) as [_ ->]. rewrite E7. unfold s. reflexivity.
        + unfold xok, put_view, cur_store in *. destruct (x_ss x) as [|c ss]; [discriminate|].
          destruct (sm_get (x_cls x) c); [discriminate|exact Hok].
      - rewrite put_view_stack, M1. exact E6. }
    unfold xlocal. destruct (cur_store x) as [s0|] eqn:Ec.
    - unfold s in E1. rewrite E1. apply Hafter; auto.
    - destruct (uses_state u) eqn:Eu; [reflexivity|].
      assert (Hv : view x (0, []) = mkMach (m_stack (x_core x)) (m_globals (x_core x)) 0 []) by reflexivity.
      rewrite Hv. rewrite (lstep_nostate A p f base u _ _ (fst s) (snd s) 0 [] Eu).
      change (mkMach (m_stack (x_core x)) (m_globals (x_core x)) (fst s) (snd s)) with (view x s). rewrite E1.
      apply Hafter; [reflexivity|reflexivity|intros s0 H0; discriminate].
  Qed.

  (* ---------- the instructions of the closure layer ---------- *)
  Definition xlocal_op (o : xop) : Prop :=
    match o with XOld _ | XCallCls _ _ _ | XCallInd _ _ _ | XGetArr _ _ _ | XSetArr _ _ _ => False | _ => True end.

  Lemma known_fn_spec : forall ci a x fr g, frs p f fi ci base p0 a x -> known_fn p a fr = Some g ->
    exists k, xsget base x fr = Some k /\ rd1 (p_funs p) (Z.to_N k) = Some g.
  Proof.
    intros ci a x fr g F H. unfold known_fn in H. destruct (alookup (a_regs a) fr) as [k|] eqn:El; [|discriminate].
    exists k. split; [eapply frs_known; eauto|exact H].
  Qed.

  Lemma allocate_some : forall x fl fn_i g, rd1 (p_funs p) fn_i = Some g ->
    exists x1 fl1 k, xallocate_closure p x fl base fn_i = Some (x1, fl1, k).
  Proof.
    intros x fl fn_i g Hg. unfold xallocate_closure. rewrite Hg.
    destruct (make_upvalues (fl_um fl) (x_cells x) (f_up g)) as [[upv um'] cells'].
    destruct (sm_insert (x_cls x) _) as [cls' k']. eauto.
  Qed.

  Lemma dres_step : forall ci x fl a r,
    frs p f fi ci base p0 a x -> dgood p x r ->
    xstep_ok p f fi ci base p0 pc x [(pc + 1, a)]
      (match r with DOk x1 => XNext 1 x1 fl | DFault e => XLFault e | DFuel => XLFault (Dyn DynHandle) end).
  Proof.
    intros ci x fl a r F H. destruct r as [x1|e|]; [|exact H|reflexivity].
    eapply ok_dyn; [exact F|exact H|apply lite_refl|]. destruct H as (_ & _ & Hc). unfold x_stack. rewrite Hc. reflexivity.
  Qed.

  Lemma xstep_sound : forall ci a o x fl succs,
    xflow p f pc a o = Some succs -> xlocal_op o -> frs p f fi ci base p0 a x -> xok p x ->
    xstep_ok p f fi ci base p0 pc x succs (xstep p true f base ci o x fl).
  Proof.
    intros ci a o x fl succs Hflow Hloc F Hok.
    destruct o; cbn [xlocal_op] in Hloc; try contradiction; cbn [xflow] in Hflow; cbn [xstep].
    - (* XClosure *)
      rename f0 into fr. destruct (known_fn p a fr) as [g|] eqn:Ek; [|discriminate].
      destruct (rdok a fr 1); [|discriminate]. inversion Hflow; subst succs.
      destruct (known_fn_spec _ _ _ _ _ F Ek) as (k & Hk & Hg). rewrite Hk.
      destruct (allocate_some x fl (Z.to_N k) g Hg) as (x1 & fl1 & key & Hal). rewrite Hal.
      destruct (allocate_closure_good p x fl base (Z.to_N k) x1 fl1 key Hok Hal) as (Hd & _ & _).
      eapply ok_dyn_write; [exact F|exact Hd|apply lite_refl| |reflexivity].
      destruct Hd as (_ & _ & Hc). unfold x_stack. rewrite Hc. reflexivity.
    - (* XClose *)
      destruct (rdok a s 1) eqn:Er; [|discriminate]. inversion Hflow; subst succs.
      destruct (frs_rd1 _ _ _ _ _ _ _ _ _ F Er) as [v Hv]. rewrite Hv.
      apply dres_step; [exact F|]. apply close_upvalues_good. exact Hok.
    - (* XMakeHeap *)
      rename f0 into fr. destruct (known_fn p a fr) as [g|] eqn:Ek; [|discriminate].
      destruct (rdok a fr 1); [|discriminate]. inversion Hflow; subst succs.
      destruct (known_fn_spec _ _ _ _ _ F Ek) as (k & Hk & Hg). rewrite Hk.
      destruct (allocate_some x fl (Z.to_N k) g Hg) as (x1 & fl1 & key & Hal). rewrite Hal.
      destruct (allocate_closure_good p x fl base (Z.to_N k) x1 fl1 key Hok Hal) as (Hd & _ & _).
      destruct (sm_insert (x_heap x1) (mkHobj 1 [rawk key])) as [h' hk].
      eapply ok_dyn_write; [exact F|exact Hd|apply lite_set_heap| |reflexivity].
      destruct Hd as (_ & _ & Hc). unfold x_stack, set_heap; cbn. rewrite Hc. reflexivity.
    - (* XCloseHeap *)
      destruct (rdok a s 1) eqn:Er; [|discriminate]. inversion Hflow; subst succs.
      destruct (frs_rd1 _ _ _ _ _ _ _ _ _ F Er) as [v Hv]. rewrite Hv.
      match goal with |- context [match ?T with Some c => _ | None => XNext 1 x fl end] => destruct T as [c|] end.
      + apply dres_step; [exact F|]. apply close_upvalues_good. exact Hok.
      + eapply ok_dyn; [exact F|apply dgood_refl; exact Hok|apply lite_refl|reflexivity].
    - (* XCloneHeap *)
      destruct (rdok a s 1) eqn:Er; [|discriminate]. inversion Hflow; subst succs.
      destruct (frs_rd1 _ _ _ _ _ _ _ _ _ F Er) as [v Hv]. rewrite Hv.
      assert (Hplain : xstep_ok p f fi ci base p0 pc x [(pc + 1, a)]
                (if sm_contains (x_cls x) (kraw v) then XNext 1 (xretain_closure x (kraw v)) fl else XNext 1 x fl)).
      { destruct (sm_contains (x_cls x) (kraw v)).
        - pose proof (retain_closure_good p x (kraw v) Hok) as Hd.
          eapply ok_dyn; [exact F|exact Hd|apply lite_refl|]. destruct Hd as (_ & _ & Hc). unfold x_stack. rewrite Hc. reflexivity.
        - eapply ok_dyn; [exact F|apply dgood_refl; exact Hok|apply lite_refl|reflexivity]. }
      destruct (sm_get (x_heap x) (kraw v)) as [[rc [|c rest]]|]; [exact Hplain| |exact Hplain].
      set (x0 := set_heap x (hretain (x_heap x) (kraw v))).
      assert (H0 : dgood p x (DOk x0)) by (apply dgood_ok_same; [exact Hok|reflexivity|reflexivity|reflexivity]).
      pose proof (retain_closure_good p x0 (kraw c) (proj1 H0)) as Hd.
      eapply ok_dyn; [exact F|eapply dgood_chain; [exact H0|exact Hd]|apply lite_refl|].
      destruct Hd as (_ & _ & Hc). unfold x_stack. rewrite Hc. reflexivity.
    - (* XGetUp *)
      destruct (rd1 (f_up f) i) as [u|] eqn:Eu; [|discriminate].
      inversion Hflow; subst succs. clear Hflow.
      destruct F as (F1 & F2 & F3 & F4 & F5 & F6 & F7 & F8 & F9).
      destruct ci as [c|]; [|cbn in F8; rewrite F8, rd1_nil in Eu; discriminate].
      destruct F8 as [Hb Hfn].
      case_eq (sm_get (x_cls x) c); [intros cl Hg|reflexivity].
      destruct (proj2 Hok c cl Hg) as (g & G1 & G2 & G3). rewrite (Hfn cl Hg), Hfi in G1. inversion G1; subst g.
      destruct (rd1_lt _ (c_upv cl) i) as [cell Hcell]; [rewrite G2; eapply rd1_Some; eauto|]. rewrite Hcell.
      assert (F : frs p f fi (Some c) base p0 a x).
      { unfold frs. repeat (split; [assumption|]). split; [split; assumption|]. exact F9. }
      destruct (nth_error (x_cells x) (nn cell)) as [[pos size isc|vs isc]|]; [| |reflexivity].
      + unfold width_ok. rewrite Eu. destruct (N.eqb_spec size (u_size u)) as [Hw|Hw]; [|reflexivity]. cbn [negb].
        apply ok_grow_write; [exact F|exact Hok|]. subst size.
        unfold lenN, nn. rewrite firstn_length, skipn_length, app_length, repeat_length. lia.
      + unfold width_ok. rewrite Eu. destruct (N.eqb_spec (lenN vs) (u_size u)) as [Hw|Hw]; [|reflexivity]. cbn [negb].
        eapply ok_dyn_write; [exact F|apply dgood_refl; exact Hok|apply lite_refl|reflexivity|exact Hw].
    - (* XSetUp *)
      destruct (rd1 (f_up f) i) as [u|] eqn:Eu; [|discriminate].
      destruct (rdok a s n) eqn:Er; [|discriminate]. inversion Hflow; subst succs. clear Hflow.
      destruct (frs_rd _ _ _ _ _ _ _ _ _ _ F Er) as (v & Hv & Hl).
      destruct F as (F1 & F2 & F3 & F4 & F5 & F6 & F7 & F8 & F9).
      destruct ci as [c|]; [|cbn in F8; rewrite F8, rd1_nil in Eu; discriminate].
      destruct F8 as [Hb Hfn].
      case_eq (sm_get (x_cls x) c); [intros cl Hg|reflexivity]. rewrite Hv.
      destruct (proj2 Hok c cl Hg) as (g & G1 & G2 & G3). rewrite (Hfn cl Hg), Hfi in G1. inversion G1; subst g.
      destruct (rd1_lt _ (c_upv cl) i) as [cell Hcell]; [rewrite G2; eapply rd1_Some; eauto|]. rewrite Hcell.
      assert (F : frs p f fi (Some c) base p0 a x).
      { unfold frs. repeat (split; [assumption|]). split; [split; assumption|]. exact F9. }
      destruct (nth_error (x_cells x) (nn cell)) as [[pos size isc|uv isc]|]; [reflexivity| |reflexivity].
      destruct (lenN uv =? n); [|reflexivity].
      eapply ok_dyn; [exact F|apply dgood_refl; exact Hok|apply lite_set_cells|reflexivity].
    - (* XBoxAlloc *)
      destruct (rdok a s n) eqn:Er; [|discriminate]. inversion Hflow; subst succs.
      destruct (frs_rd _ _ _ _ _ _ _ _ _ _ F Er) as (vs & Hv & Hl). rewrite Hv.
      destruct (sm_insert (x_heap x) (mkHobj 1 vs)) as [h' hk].
      eapply ok_dyn_write; [exact F|apply dgood_refl; exact Hok|apply lite_set_heap|reflexivity|reflexivity].
    - (* XBoxLoad *)
      destruct (rdok a s 1) eqn:Er; [|discriminate]. inversion Hflow; subst succs.
      destruct (frs_rd1 _ _ _ _ _ _ _ _ _ F Er) as [v Hv]. rewrite Hv.
      destruct (sm_get (x_heap x) (kraw v)) as [o|]; [|reflexivity].
      destruct (N.leb_spec n (lenN (h_data o))) as [Hle|Hgt]; [|reflexivity].
      eapply ok_dyn_write; [exact F|apply dgood_refl; exact Hok|apply lite_refl|reflexivity|].
      rewrite lenN_firstn. lia.
    - (* XBoxClone *)
      destruct (rdok a s 1) eqn:Er; [|discriminate]. inversion Hflow; subst succs.
      destruct (frs_rd1 _ _ _ _ _ _ _ _ _ F Er) as [v Hv]. rewrite Hv.
      eapply ok_dyn; [exact F|apply dgood_refl; exact Hok|apply lite_set_heap|reflexivity].
    - (* XBoxRelease *)
      destruct (rdok a s 1) eqn:Er; [|discriminate]. inversion Hflow; subst succs.
      destruct (frs_rd1 _ _ _ _ _ _ _ _ _ F Er) as [v Hv]. rewrite Hv.
      eapply ok_dyn; [exact F|apply dgood_refl; exact Hok|apply lite_set_heap|reflexivity].
    - (* XBoxStore *)
      destruct (rdok a d 1) eqn:Er1; [|discriminate]. destruct (rdok a s n) eqn:Er2; [|discriminate].
      cbn [andb] in Hflow. inversion Hflow; subst succs.
      destruct (frs_rd1 _ _ _ _ _ _ _ _ _ F Er1) as [v Hv]. destruct (frs_rd _ _ _ _ _ _ _ _ _ _ F Er2) as (vs & Hvs & Hl).
      rewrite Hv, Hvs.
      destruct (sm_get (x_heap x) (kraw v)) as [o|]; [|reflexivity].
      destruct (n <=? lenN (h_data o)); [|reflexivity].
      eapply ok_dyn; [exact F|apply dgood_refl; exact Hok|apply lite_set_heap|reflexivity].
    - (* XAllocArr *)
      inversion Hflow; subst succs.
      destruct (arr_alloc (x_arr x) es (repeat 0%Z (nn (len * es)))) as [a' key].
      eapply ok_dyn_write; [exact F|apply dgood_refl; exact Hok|apply lite_set_arr|reflexivity|reflexivity].
  Qed.
End Step.
