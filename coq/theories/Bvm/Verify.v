(* Bvm/Verify.v — a bytecode verifier for the programs of Bvm/Model.v (definitions only; soundness: Bvm/Sound*.v).

   Per function a table gives every program counter an abstract state (None = unreachable):
     a_h    lower bound of (stack length - base pointer): registers below it may be read;
     a_regs registers known to hold a CONSTANT word (bytecodegen loads the callee's function index, the external
            function's index and the ring-buffer size of a Delay with MoveConst and forwards them with Move);
     a_pos  state cursor relative to its value at function entry.
   `flow` is the transfer function of one instruction (None = the instruction is unsafe in that abstract state);
   `check_fn` CHECKS a table: the entry state fits, every reachable instruction is safe and each successor's table
   entry subsumes the transferred state.  The soundness proof is about `check_fn` only; `infer` (one forward pass
   that merges at join points) merely proposes the table and needs no proof. *)
From Coq Require Import List ZArith NArith Bool.
From Mimium Require Import Bvm.Model.
Import ListNotations.
Local Open Scope N_scope.

Record astate := mkA { a_h : N; a_regs : list (N * Z); a_pos : N }.

Definition alookup (regs : list (N * Z)) (r : N) : option Z :=
  match find (fun e => fst e =? r) regs with Some e => Some (snd e) | None => None end.
(* forget the registers d .. d+n-1 *)
Definition akill (regs : list (N * Z)) (d n : N) : list (N * Z) :=
  filter (fun e => negb ((d <=? fst e) && (fst e <? d + n))) regs.
(* keep the registers below f *)
Definition abelow (regs : list (N * Z)) (f : N) : list (N * Z) := filter (fun e => fst e <? f) regs.

(* n words written at register d *)
Definition awrite (a : astate) (d n : N) : astate := mkA (N.max (a_h a) (d + n)) (akill (a_regs a) d n) (a_pos a).
(* the known word k written at register d *)
Definition awritec (a : astate) (d : N) (k : Z) : astate :=
  mkA (N.max (a_h a) (d + 1)) ((d, k) :: akill (a_regs a) d 1) (a_pos a).
Definition awrite_opt (a : astate) (d : N) (k : option Z) : astate :=
  match k with Some k => awritec a d k | None => awrite a d 1 end.
(* after a call through register f that left n words *)
Definition acall (a : astate) (f n : N) : astate := mkA (f + n) (abelow (a_regs a) f) (a_pos a).
Definition apos (a : astate) (q : N) : astate := mkA (a_h a) (a_regs a) q.

(* n words readable at register r; get_stack_range(r, 0) still needs base + r <= stack length (bytecodegen emits
   zero-word moves for unit-valued tuple elements), which a_h = 0 does not promise *)
Definition rdok (a : astate) (r n : N) : bool := (r + n <=? a_h a) && ((1 <=? n) || (1 <=? a_h a)).

Definition next1 (pc : N) (a : astate) : option (list (N * astate)) := Some [(pc + 1, a)].

Fixpoint targets (pc : N) (a : astate) (offs : list Z) : option (list (N * astate)) :=
  match offs with
  | [] => Some []
  | o :: rest =>
      match next_pc pc o, targets pc a rest with
      | Some q, Some l => Some ((q, a) :: l)
      | _, _ => None
      end
  end.

Definition flow (p : program) (f : fn) (pc : N) (a : astate) (u : uop) : option (list (N * astate)) :=
  match u with
  | UMove d s => if rdok a s 1 then next1 pc (awrite_opt a d (alookup (a_regs a) s)) else None
  | UConst d c => match rd1 (f_consts f) c with Some k => next1 pc (awritec a d k) | None => None end
  | UImm d _ => next1 pc (awrite a d 1)
  | UMoveRange d s n => if rdok a s n then next1 pc (awrite a d n) else None
  | UBin _ d x y => if rdok a x 1 && rdok a y 1 then next1 pc (awrite a d 1) else None
  | UUn _ d x => if rdok a x 1 then next1 pc (awrite a d 1) else None
  | UExt fr nargs nret =>
      match alookup (a_regs a) fr with
      | Some k =>
          match rd1 (p_ext p) (Z.to_N k) with
          | Some (ExtPure _ arity) =>
              if rdok a fr 1 && ((nargs =? 0) || (fr + 1 + nargs <=? a_h a)) && (arity <=? nargs) && (nret <=? 1)
              then next1 pc (acall a fr nret) else None
          | _ => None
          end
      | None => None
      end
  | UJmp off => targets pc a [off]
  | UJmpIfNeg c off => if rdok a c 1 then targets pc a [1%Z; off] else None
  | UJmpTable s t =>
      if rdok a s 1 then
        match rd1 (f_jt f) t with
        | Some tb => match jt_offsets tb with [] => None | _ => targets pc a (jt_offsets tb) end
        | None => None
        end
      else None
  | UGetGlobal d g n => if g + n <=? p_gsize p then next1 pc (awrite a d n) else None
  | USetGlobal g s n => if rdok a s n && (g + n <=? p_gsize p) then next1 pc a else None
  | UGetState d n => if a_pos a + n <=? f_ssize f then next1 pc (awrite a d n) else None
  | USetState s n => if rdok a s n && (a_pos a + n <=? f_ssize f) then next1 pc a else None
  | UPush k => next1 pc (apos a (a_pos a + k))
  | UPop k => if k <=? a_pos a then next1 pc (apos a (a_pos a - k)) else None
  | UDelay d s t =>
      match alookup (a_regs a) d with
      | Some sz =>
          if rdok a s 1 && rdok a t 1 && rdok a d 1 && (a_pos a + 2 + Z.to_N sz <=? f_ssize f)
          then next1 pc (awrite a d 1) else None
      | None => None
      end
  | UMem d s => if rdok a s 1 && (a_pos a + 1 <=? f_ssize f) then next1 pc (awrite a d 1) else None
  | USumRc r n t => match rd1 (p_types p) t with Some true => if rdok a r n then next1 pc a else None | _ => None end
  | UCall fr nargs nret =>
      match alookup (a_regs a) fr with
      | Some k =>
          match rd1 (p_funs p) (Z.to_N k) with
          | Some g =>
              if rdok a fr 1 && ((nargs =? 0) || (fr + 1 + nargs <=? a_h a)) && (f_pwords g <=? nargs)
                 && (nret =? f_nret g) && (a_pos a + f_ssize g <=? f_ssize f)
              then next1 pc (acall a fr nret) else None
          | None => None
          end
      | None => None
      end
  | URet0 => if (a_pos a =? 0) && (f_nret f =? 0) then Some [] else None
  | URet r n => if rdok a r n && (a_pos a =? 0) && (n =? f_nret f) then Some [] else None
  | UUnsupported => None
  end.

(* b may stand for a': it promises no more *)
Definition sub (a' b : astate) : bool :=
  (a_h b <=? a_h a') && (a_pos b =? a_pos a') &&
  forallb (fun e => match alookup (a_regs a') (fst e) with Some k' => Z.eqb (snd e) k' | None => false end) (a_regs b).

Definition entry (f : fn) : astate := mkA (f_pwords f) [] 0.

Definition table := list (option astate).

Definition indices {A} (l : list A) : list N := map N.of_nat (seq 0 (length l)).

Definition check_at (p : program) (f : fn) (T : table) (pc : N) : bool :=
  match rd1 T pc with
  | Some None => true
  | Some (Some a) =>
      match rd1 (f_code f) pc with
      | Some i =>
          match flow p f pc a (decode i) with
          | Some succs =>
              forallb (fun s => match rd1 T (fst s) with Some (Some b) => sub (snd s) b | _ => false end) succs
          | None => false
          end
      | None => false
      end
  | None => false
  end.

Definition check_fn (p : program) (f : fn) (T : table) : bool :=
  (lenN T =? lenN (f_code f)) &&
  match T with Some a0 :: _ => sub (entry f) a0 | _ => false end &&
  forallb (check_at p f T) (indices (f_code f)).

(* ---------- table inference (untrusted) ---------- *)
Definition join (b a' : astate) : astate :=
  mkA (N.min (a_h b) (a_h a'))
      (filter (fun e => match alookup (a_regs a') (fst e) with Some k' => Z.eqb (snd e) k' | None => false end) (a_regs b))
      (a_pos b).

Fixpoint upd {A} (l : list A) (i : nat) (v : A) : list A :=
  match l, i with
  | [], _ => []
  | _ :: r, O => v :: r
  | x :: r, S j => x :: upd r j v
  end.

Definition merge (T : table) (s : N * astate) : table :=
  match rd1 T (fst s) with
  | Some (Some b) => upd T (nn (fst s)) (Some (join b (snd s)))
  | Some None => upd T (nn (fst s)) (Some (snd s))
  | None => T
  end.

Fixpoint infer_loop (p : program) (f : fn) (pcs : list N) (T : table) : table :=
  match pcs with
  | [] => T
  | pc :: rest =>
      let T' := match rd1 T pc, rd1 (f_code f) pc with
                | Some (Some a), Some i =>
                    match flow p f pc a (decode i) with
                    | Some succs => fold_left merge succs T
                    | None => T
                    end
                | _, _ => T
                end in
      infer_loop p f rest T'
  end.

Definition infer (p : program) (f : fn) : table :=
  infer_loop p f (indices (f_code f))
             (match f_code f with [] => [] | _ :: r => Some (entry f) :: map (fun _ => None) r end).

(* ---------- the verifier ---------- *)
Definition verify_fn (p : program) (f : fn) : bool := check_fn p f (infer p f).

(* main (function 0, run by execute_main on an empty stack) takes no parameter words; dsp exists *)
Definition verify (p : program) : bool :=
  forallb (verify_fn p) (p_funs p) &&
  match rd1 (p_funs p) 0 with Some f0 => f_pwords f0 =? 0 | None => false end &&
  match p_dsp p with Some di => match rd1 (p_funs p) di with Some _ => true | None => false end | None => false end.

(* ---------- an explicit fuel bound (no backward jump, no recursion) ---------- *)
(* the callee of the call at pc, as the table knows it *)
Definition callee_at (f : fn) (T : table) (pc : N) : option N :=
  match rd1 T pc, rd1 (f_code f) pc with
  | Some (Some a), Some i =>
      match decode i with
      | UCall fr _ _ => match alookup (a_regs a) fr with Some k => Some (Z.to_N k) | None => None end
      | _ => None
      end
  | _, _ => None
  end.

Definition cost_of (C : list N) (k : N) : N := match rd1 C k with Some c => c | None => 0 end.

(* fuel the instruction at q may use: itself, and the whole callee when it is a call *)
Definition wcost (C : list N) (f : fn) (T : table) (q : N) : N :=
  1 + match callee_at f T q with Some k => cost_of C k | None => 0 end.

(* fuel that suffices from program counter pc to the return when every jump goes forward *)
Definition need (C : list N) (f : fn) (T : table) (pc : N) : N :=
  fold_right (fun q acc => if pc <=? q then wcost C f T q + acc else acc) 0 (indices (f_code f)).

Definition fwd_at (p : program) (f : fn) (T : table) (pc : N) : bool :=
  match rd1 T pc with
  | Some (Some a) =>
      match rd1 (f_code f) pc with
      | Some i => match flow p f pc a (decode i) with
                  | Some succs => forallb (fun s => pc <? fst s) succs
                  | None => false
                  end
      | None => false
      end
  | _ => true
  end.

(* C is a consistent cost assignment: every successor lies ahead and the cost of a function covers its whole body
   including the costs of its callees (which rules out recursion: the costs are finite) *)
Definition term_fn (p : program) (C : list N) (i : N) (f : fn) : bool :=
  forallb (fwd_at p f (infer p f)) (indices (f_code f)) && (need C f (infer p f) 0 <=? cost_of C i).

Fixpoint term_from (p : program) (C : list N) (fs : list fn) (i : N) : bool :=
  match fs with
  | [] => true
  | f :: r => term_fn p C i f && term_from p C r (i + 1)
  end.

Definition term_ok (p : program) (C : list N) : bool := term_from p C (p_funs p) 0.

(* a candidate assignment (untrusted; callees are expected before their callers, as the compiler orders them) *)
Fixpoint costs_from (p : program) (fs : list fn) (i : nat) (C : list N) : list N :=
  match fs with
  | [] => C
  | f :: r => costs_from p r (S i) (upd C i (need C f (infer p f) 0))
  end.

Definition costs (p : program) : list N := costs_from p (p_funs p) 0 (map (fun _ => 0) (p_funs p)).

(* fuel for one dsp call / for main *)
Definition fuel_dsp (p : program) : N := match p_dsp p with Some di => cost_of (costs p) di | None => 0 end.
Definition fuel_main (p : program) : N := cost_of (costs p) 0.

(* diagnostics (not used by any theorem): first (function, pc) whose check fails; pc = length of the code when the
   header of the table is wrong *)
Definition first_bad_fn (p : program) (f : fn) : option N :=
  let T := infer p f in
  if negb ((lenN T =? lenN (f_code f)) && match T with Some a0 :: _ => sub (entry f) a0 | _ => false end)
  then Some (lenN (f_code f))
  else find (fun pc => negb (check_at p f T pc)) (indices (f_code f)).

Fixpoint first_bad_from (p : program) (fs : list fn) (i : N) : option (N * N) :=
  match fs with
  | [] => None
  | f :: rest => match first_bad_fn p f with Some pc => Some (i, pc) | None => first_bad_from p rest (i + 1) end
  end.

Definition first_bad (p : program) : option (N * N) := first_bad_from p (p_funs p) 0.
