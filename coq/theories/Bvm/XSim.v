(* Bvm/XSim.v — on a program without any instruction of the closure layer the extended machine (Bvm/XModel.v, with
   or without the instrumentation) IS the machine of Bvm/Model.v: closures, heap, cells and arrays are never
   touched, states_stack stays empty, and outcome and core state are those of `run`.  So the theorems about `run`
   (Bvm/Sound*.v: C03_bvm_verified_safe, _main_safe, _session_safe, _fuel) hold for the extended model the check
   extracts and runs. *)
From Coq Require Import List ZArith NArith Bool Lia Arith.
From Mimium Require Import Heap.Model.
From Mimium Require Import Bvm.Model Bvm.Verify Bvm.XModel Bvm.XVerify.
Import ListNotations.
Local Open Scope N_scope.

Section Sim.
  Variable A : arith.
  Variable p : program.
  Variable strict : bool.
  (* the parts of the machine a closure-free program never touches *)
  Variable C : smap clos.
  Variable H : smap hobj.
  Variable ce : list upval.
  Variable ar : smap arr.
  Variable tk : list (Z * Z).

  Definition xm (m : mach) : xmach := mkX m C H ce [] ar tk.

  Definition lift (o : outcome) : xoutcome :=
    match o with
    | Ret n m => XRet n (xm m)
    | Fault e => XFault e
    | OutOfFuel => XOutOfFuel
    | Unsupported u => XUnsupported u
    end.

  Lemma mach_eta : forall m, mkMach (m_stack m) (m_globals m) (m_pos m) (m_state m) = m.
  Proof. intros []; reflexivity. Qed.

  Lemma xlocal_xm : forall f base u m,
    xlocal A p f base u (xm m) fl0 =
    match lstep A p f base u m with
    | LNext inc m' => XNext inc (xm m') fl0
    | LFault e => XLFault e
    | LUnsup e => XLUnsup e
    end.
  Proof.
    intros f base u m. unfold xlocal, cur_store, view, xm; cbn. rewrite mach_eta.
    destruct (lstep A p f base u m); reflexivity.
  Qed.

  Lemma scope_exit_fl0 : forall k x n, scope_exit k x fl0 n = XRet n x.
  Proof. reflexivity. Qed.

  Hypothesis Hfree : closure_free p = true.

  Lemma free_decode : forall fi f pc i, rd1 (p_funs p) fi = Some f -> rd1 (f_code f) pc = Some i -> xdecode i = XOld (decode i).
  Proof.
    intros fi f pc i Hf Hi. unfold closure_free in Hfree. apply andb_true_iff in Hfree. destruct Hfree as [Hfree' _].
    apply andb_true_iff in Hfree'. destruct Hfree' as [Hfree' _].
    rename Hfree' into Hfr. rewrite forallb_forall in Hfr.
    assert (Hin : In f (p_funs p)) by (unfold rd1 in Hf; destruct (fi <? lenN (p_funs p)); [eapply nth_error_In; eauto|discriminate]).
    specialize (Hfr f Hin). rewrite forallb_forall in Hfr.
    assert (Hini : In i (f_code f)) by (unfold rd1 in Hi; destruct (pc <? lenN (f_code f)); [eapply nth_error_In; eauto|discriminate]).
    specialize (Hfr i Hini). unfold old_instr in Hfr.
    destruct i; cbn [xdecode] in *; try reflexivity; discriminate.
  Qed.

  Lemma free_plain : forall t, rd1 (p_types p) t <> Some false.
  Proof.
    intros t E. unfold closure_free in Hfree. apply andb_true_iff in Hfree. destruct Hfree as [Hfree' _].
    apply andb_true_iff in Hfree'. destruct Hfree' as [_ Hp].
    rewrite forallb_forall in Hp. unfold rd1 in E. destruct (t <? lenN (p_types p)); [|discriminate].
    apply nth_error_In in E. specialize (Hp false E). discriminate.
  Qed.

  Lemma free_ext : forall k, match rd1 (p_ext p) k with Some (ExtArr _ _) | Some ExtSched => False | _ => True end.
  Proof.
    intros k. destruct (rd1 (p_ext p) k) as [[code arity| |op ew|]|] eqn:E; try exact I.
    all: unfold closure_free in Hfree; apply andb_true_iff in Hfree; destruct Hfree as [_ Hp];
      rewrite forallb_forall in Hp; unfold rd1 in E; destruct (k <? lenN (p_ext p)); [|discriminate];
      apply nth_error_In in E; specialize (Hp _ E); discriminate.
  Qed.

  Lemma free_ext_old : forall k op ew, rd1 (p_ext p) k <> Some (ExtArr op ew).
  Proof.
    intros k op ew E. unfold closure_free in Hfree. apply andb_true_iff in Hfree. destruct Hfree as [_ Hp].
    rewrite forallb_forall in Hp. unfold rd1 in E. destruct (k <? lenN (p_ext p)); [|discriminate].
    apply nth_error_In in E. specialize (Hp _ E). discriminate.
  Qed.

  Theorem xrun_old : forall fuel fi base pc m,
    xrun A p strict fuel fi None base pc (xm m) fl0 = lift (run A p fuel fi base pc m).
  Proof.
    induction fuel as [|k IH]; intros fi base pc m; [reflexivity|].
    cbn [xrun run]. destruct (rd1 (p_funs p) fi) as [f|] eqn:Hf; [|reflexivity].
    destruct (rd1 (f_code f) pc) as [i|] eqn:Hi; [|reflexivity].
    rewrite (free_decode fi f pc i Hf Hi).
    assert (Hloc : forall u,
              xcontinue (fun pc' x' fl' => xrun A p strict k fi None base pc' x' fl') pc (xlocal A p f base u (xm m) fl0) =
              lift (match lstep A p f base u m with
                    | LNext inc m' => match next_pc pc inc with Some pc' => run A p k fi base pc' m' | None => Fault JumpOOB end
                    | LFault e => Fault e
                    | LUnsup e => Unsupported e
                    end)).
    { intros u. rewrite xlocal_xm. destruct (lstep A p f base u m) as [inc m'|e|e]; cbn [xcontinue lift]; try reflexivity.
      destruct (next_pc pc inc); [apply IH|reflexivity]. }
    destruct (decode i) eqn:Ed; try (apply Hloc).
    - (* UCall *)
      unfold xsget, xm; cbn [x_core]. destruct (sget base m f0) as [fv|]; [|reflexivity].
      unfold xcall, x_stack; cbn [x_core]. fold (xm m).
      destruct ((nargs =? 0) || (base + f0 + 1 + nargs <=? lenN (m_stack m))); [|reflexivity].
      rewrite IH. destruct (run A p k (Z.to_N fv) (base + f0 + 1) 0 m) as [n m1| | |]; cbn [lift]; try reflexivity.
      destruct (nret <=? n); [|destruct ((n =? 1) && (nret <=? nargs)); reflexivity].
      apply (IH fi base (pc + 1) (set_stack m1 (firstn (nn (base + f0 + 1 + nret)) (m_stack m1)))).
    - (* UExt *)
      unfold xextcall. unfold xsget at 1. unfold xm at 1. cbn [x_core].
      pose proof (Hloc (UExt f0 nargs nret)) as H0. cbn [lstep] in H0.
      destruct (sget base m f0) as [iv|] eqn:Eiv.
      + pose proof (free_ext (Z.to_N iv)) as Hx.
        destruct (rd1 (p_ext p) (Z.to_N iv)) as [[code arity| |aop aew|]|] eqn:Ee; try (apply Hloc); contradiction.
      + cbn [xcontinue lstep]. rewrite Eiv. reflexivity.
    - (* URet0 *)
      destruct (base =? 0); reflexivity.
    - (* URet *)
      destruct (base =? 0); [reflexivity|]. unfold xsget_range, xm; cbn [x_core].
      destruct (sget_range base m r n); reflexivity.
    - (* USumRc *)
      unfold xsumrc. pose proof (free_plain t) as Hp. destruct (rd1 (p_types p) t) as [[|]|]; try apply Hloc. congruence.
    - (* UUnsupported *)
      reflexivity.
  Qed.

  Theorem xexec_dsp_old : forall fuel inputs m, xexec_dsp A p strict fuel inputs (xm m) = lift (exec_dsp A p fuel inputs m).
  Proof.
    intros fuel inputs m. unfold xexec_dsp, exec_dsp. destruct (p_dsp p) as [di|]; [|reflexivity].
    destruct (rd1 (p_funs p) di) as [f|]; [|reflexivity]. unfold xm at 1; cbn [x_core set_core].
    destruct (f_code f); [reflexivity|]. apply xrun_old.
  Qed.

  Theorem xexec_main_old : forall fuel m, xexec_main A p strict fuel (xm m) = lift (exec_main A p fuel m).
  Proof.
    intros fuel m. unfold xexec_main, exec_main. destruct (rd1 (p_funs p) 0) as [f|]; [|reflexivity].
    unfold xm at 1 2 3; cbn [x_core set_core].
    change (mkX (mkMach (m_stack m) (m_globals m) 0 (repeat 0%Z (nn (f_ssize f)))) C H ce [] ar tk)
      with (xm (mkMach (m_stack m) (m_globals m) 0 (repeat 0%Z (nn (f_ssize f))))).
    rewrite xrun_old. destruct (run A p fuel 0 1 0 _) as [n m'| | |]; reflexivity.
  Qed.
End Sim.
