(* Bvm/XBridge.v — the instrumented semantics (strict = true) and the transcription of vm.rs (strict = false) of
   Bvm/XModel.v agree until one of the extra checks fires: either the instrumented run stops with a fault that only it
   raises (DynSignature, DynReentry, DynOpenWrite, DynCellWidth, DynElemWidth), or both runs have the same outcome. *)
From Coq Require Import List ZArith NArith Bool Lia Arith.
From Mimium Require Import Heap.Model.
From Mimium Require Import Bvm.Model Bvm.XModel.
Import ListNotations.
Local Open Scope N_scope.

Definition strict_stop (o : xoutcome) : Prop := exists d, o = XFault (Dyn d) /\ strict_only d = true.

(* o1: outcome of the transcription, o2: outcome of the instrumented semantics *)
Definition agree (o1 o2 : xoutcome) : Prop := strict_stop o2 \/ o1 = o2.

Definition lagree (r1 r2 : xlres) : Prop := (exists d, r2 = XLFault (Dyn d) /\ strict_only d = true) \/ r1 = r2.

Section Bridge.
  Variable A : arith.
  Variable p : program.

  Lemma xstep_agree : forall f base ci o x fl, lagree (xstep p false f base ci o x fl) (xstep p true f base ci o x fl).
  Proof.
    intros f base ci o x fl. destruct o; try (right; reflexivity); cbn [xstep].
    - (* XGetUp *)
      destruct ci as [c|]; [|right; reflexivity]. destruct (sm_get (x_cls x) c) as [cl|]; [|right; reflexivity].
      destruct (rd1 (c_upv cl) i) as [cell|]; [|right; reflexivity].
      destruct (nth_error (x_cells x) (nn cell)) as [[pos size isc|vs isc]|]; [| |right; reflexivity].
      + destruct (width_ok true f i size) eqn:E; cbn [negb]; [right; reflexivity|left; exists DynCellWidth; auto].
      + destruct (width_ok true f i (lenN vs)) eqn:E; cbn [negb]; [right; reflexivity|left; exists DynCellWidth; auto].
    - (* XSetUp *)
      destruct ci as [c|]; [|right; reflexivity]. destruct (sm_get (x_cls x) c) as [cl|]; [|right; reflexivity].
      destruct (xsget_range base x s n); [|right; reflexivity].
      destruct (rd1 (c_upv cl) i) as [cell|]; [|right; reflexivity].
      destruct (nth_error (x_cells x) (nn cell)) as [[pos size isc|vs isc]|]; [|right; reflexivity|right; reflexivity].
      left. exists DynOpenWrite. auto.
  Qed.

  (* the array instructions: the instrumentation checks the element width against the annotation *)
  Lemma xgetarr_agree : forall hint base d ar i x fl,
    lagree (xgetarr A false hint base d ar i x fl) (xgetarr A true hint base d ar i x fl).
  Proof.
    intros hint base d ar i x fl. unfold xgetarr.
    destruct (xsget base x ar); [|right; reflexivity]. destruct (xsget base x i); [|right; reflexivity].
    destruct (arr_get (x_arr x) z) as [adata|]; [|right; reflexivity].
    destruct (arr_len adata) as [len|]; [|right; reflexivity].
    change (ew_ok false hint (ar_ew adata)) with true. cbn [negb].
    destruct (ew_ok true hint (ar_ew adata)); cbn [negb]; [right; reflexivity|left; exists DynElemWidth; auto].
  Qed.

  Lemma xsetarr_agree : forall hint base ar i v x fl,
    lagree (xsetarr A false hint base ar i v x fl) (xsetarr A true hint base ar i v x fl).
  Proof.
    intros hint base ar i v x fl. unfold xsetarr.
    destruct (xsget base x ar); [|right; reflexivity]. destruct (xsget base x i); [|right; reflexivity].
    destruct (arr_get (x_arr x) z) as [adata|]; [|right; reflexivity].
    destruct (arr_len adata) as [len|]; [|right; reflexivity].
    change (ew_ok false hint (ar_ew adata)) with true. cbn [negb].
    destruct (ew_ok true hint (ar_ew adata)); cbn [negb]; [right; reflexivity|left; exists DynElemWidth; auto].
  Qed.

  (* CallExtFun: only the unspecialised split_head / split_tail are instrumented *)
  Lemma xextcall_agree : forall f base fr nargs nret x fl,
    lagree (xextcall A p false f base fr nargs nret x fl) (xextcall A p true f base fr nargs nret x fl).
  Proof.
    intros f base fr nargs nret x fl. unfold xextcall. destruct (xsget base x fr) as [iv|]; [|right; reflexivity].
    destruct (rd1 (p_ext p) (Z.to_N iv)) as [[code arity| |op ew|]|]; try (right; reflexivity).
    destruct ((nargs =? 0) || (base + fr + 1 + nargs <=? lenN (x_stack x))); [|right; reflexivity].
    unfold arr_builtin. cbn [andb].
    destruct (arr_width_bad op (x_stack x) (base + fr + 1) (x_arr x)); cbn [andb]; [left; exists DynElemWidth; auto|right; reflexivity].
  Qed.

  Lemma strict_ok_only : forall x g c nargs nret d, strict_ok p true x g c nargs nret = Some d -> strict_only d = true.
  Proof.
    intros x g c nargs nret d H. unfold strict_ok in H. destruct (rd1 (p_funs p) g) as [gf|]; [|discriminate].
    destruct (negb ((f_pwords gf <=? nargs) && (nret =? f_nret gf))); [inversion H; reflexivity|].
    destruct c as [k|].
    - destruct (sm_get (x_cls x) k) as [cl|]; [|discriminate]. destruct (c_pos cl =? 0); [discriminate|inversion H; reflexivity].
    - destruct (f_up gf); [|inversion H; reflexivity]. destruct (cur_store x) as [s|]; [|discriminate].
      destruct (fst s + f_ssize gf <=? lenN (snd s)); [discriminate|inversion H; reflexivity].
  Qed.

  Lemma xcontinue_agree : forall rec1 rec2 pc r1 r2,
    (forall pc' x' fl', agree (rec1 pc' x' fl') (rec2 pc' x' fl')) -> lagree r1 r2 ->
    agree (xcontinue rec1 pc r1) (xcontinue rec2 pc r2).
  Proof.
    intros rec1 rec2 pc r1 r2 Hrec [(d & -> & Hd) | ->].
    - left. exists d. auto.
    - destruct r2 as [inc x' fl'|e|e|]; cbn [xcontinue]; [|right; reflexivity|right; reflexivity|right; reflexivity].
      destruct (next_pc pc inc); [apply Hrec|right; reflexivity].
  Qed.

  Lemma xcall_agree : forall rec1 rec2 cont1 cont2 base x fr nargs nret g c,
    (forall g' c' b pc' x' fl', agree (rec1 g' c' b pc' x' fl') (rec2 g' c' b pc' x' fl')) ->
    (forall x', agree (cont1 x') (cont2 x')) ->
    agree (xcall rec1 cont1 base x fr nargs nret g c) (xcall rec2 cont2 base x fr nargs nret g c).
  Proof.
    intros rec1 rec2 cont1 cont2 base x fr nargs nret g c Hrec Hcont. unfold xcall.
    destruct ((nargs =? 0) || (base + fr + 1 + nargs <=? lenN (x_stack x))); [|right; reflexivity].
    set (x0 := match c with Some ck => set_ss x (ck :: x_ss x) | None => x end).
    destruct (Hrec g c (base + fr + 1) 0 x0 fl0) as [(d & E & Hd)|E].
    - rewrite E. left. exists d. auto.
    - rewrite E. destruct (rec2 g c (base + fr + 1) 0 x0 fl0) as [n x1| | |]; try (right; reflexivity).
      destruct (nret <=? n); [apply Hcont|right; reflexivity].
  Qed.

  Lemma xicall_agree : forall call1 call2 x fr nargs nret callee,
    (forall g c, agree (call1 fr nargs nret g c) (call2 fr nargs nret g c)) ->
    agree (xicall p false call1 x fr nargs nret callee) (xicall p true call2 x fr nargs nret callee).
  Proof.
    intros call1 call2 x fr nargs nret callee H. unfold xicall. destruct callee as [[g c]|]; [|right; reflexivity].
    change (strict_ok p false x g c nargs nret) with (@None dynfault).
    destruct (strict_ok p true x g c nargs nret) as [d|] eqn:E; [|apply H].
    left. exists d. split; [reflexivity|eapply strict_ok_only; eauto].
  Qed.

  Theorem xrun_agree : forall fuel fi ci base pc x fl,
    agree (xrun A p false fuel fi ci base pc x fl) (xrun A p true fuel fi ci base pc x fl).
  Proof.
    induction fuel as [|k IH]; intros fi ci base pc x fl; [right; reflexivity|].
    cbn [xrun]. destruct (rd1 (p_funs p) fi) as [f|]; [|right; reflexivity].
    destruct (rd1 (f_code f) pc) as [i|]; [|right; reflexivity].
    assert (Hcont : forall r1 r2, lagree r1 r2 ->
              agree (xcontinue (fun pc' x' fl' => xrun A p false k fi ci base pc' x' fl') pc r1)
                    (xcontinue (fun pc' x' fl' => xrun A p true k fi ci base pc' x' fl') pc r2)).
    { intros r1 r2 H. apply xcontinue_agree; [intros; apply IH|exact H]. }
    assert (Hcall : forall fr nargs nret g c,
              agree (xcall (xrun A p false k) (fun x' => xrun A p false k fi ci base (pc + 1) x' fl) base x fr nargs nret g c)
                    (xcall (xrun A p true k) (fun x' => xrun A p true k fi ci base (pc + 1) x' fl) base x fr nargs nret g c)).
    { intros. apply xcall_agree; intros; apply IH. }
    destruct (xdecode i) as [u|d fr|s|fr nargs nret|d fr|s|s|fr nargs nret|d iu|iu s n|d s n|d s n|s|s|d s n|d l e|d ar ix|ar ix v];
      try (apply Hcont; apply xstep_agree).
    - destruct u; try (apply Hcont; apply xextcall_agree); try (apply Hcont; right; reflexivity); try (right; reflexivity).
      destruct (xsget base x f0); [apply Hcall|right; reflexivity].
    - destruct (xsget base x fr); [|right; reflexivity]. apply xicall_agree. intros; apply Hcall.
    - destruct (xsget base x fr); [|right; reflexivity]. apply xicall_agree. intros; apply Hcall.
    - apply Hcont. apply xgetarr_agree.
    - apply Hcont. apply xsetarr_agree.
  Qed.

  Theorem xexec_dsp_agree : forall fuel inputs x, agree (xexec_dsp A p false fuel inputs x) (xexec_dsp A p true fuel inputs x).
  Proof.
    intros fuel inputs x. unfold xexec_dsp. destruct (p_dsp p) as [di|]; [|right; reflexivity].
    destruct (rd1 (p_funs p) di) as [f|]; [|right; reflexivity]. destruct (f_code f); [right; reflexivity|apply xrun_agree].
  Qed.

  Theorem xexec_main_agree : forall fuel x, agree (xexec_main A p false fuel x) (xexec_main A p true fuel x).
  Proof.
    intros fuel x. unfold xexec_main. destruct (rd1 (p_funs p) 0) as [f|]; [|right; reflexivity].
    match goal with |- agree (match ?o1 with _ => _ end) (match ?o2 with _ => _ end) =>
      destruct (xrun_agree fuel 0 None 1 0 (set_core x (mkMach (m_stack (x_core x)) (m_globals (x_core x)) 0 (repeat 0%Z (nn (f_ssize f))))) fl0)
        as [(d & E & Hd)|E] end.
    - rewrite E. left. exists d. auto.
    - rewrite E. right. reflexivity.
  Qed.
End Bridge.
