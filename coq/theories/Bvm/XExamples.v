(* Bvm/XExamples.v — concrete programs with closures for the Examples of Props/C03_bvm.v.
   ex_counter and ex_tuple_escape are REAL dumps (harness bc_dump of the sources quoted below, printed by a script);
   ex_bad_upvalue is hand-made.  `toy` (Bvm/Examples.v) is the arithmetic used to run them. *)
From Coq Require Import List ZArith NArith Bool.
From Mimium Require Import Heap.Model.
From Mimium Require Import Bvm.Model Bvm.Verify Bvm.Examples Bvm.XModel Bvm.XVerify.
Import ListNotations.
Local Open Scope N_scope.

(* source:
fn counter(){ let c = 0.0
 | | { c = c + 1.0
 c } }
let k = counter()
fn dsp(){ k() + k() }
*)
Definition ex_counter : program :=
  mkProg [
    (* _mimium_global *)
    mkFn 0 0 0
      [MoveConst 0 0; Move 1 0; Call 1 0 1; CloseHeapClosure 1; SetGlobal 0 1 1; Return0]
      [1%Z] [] 0 [];
    (* counter *)
    mkFn 0 0 1
      [MoveImmF 0 0%Z; Move 1 0; MoveConst 2 0; MakeHeapClosure 2 2 64; CloseHeapClosure 2; CloneHeap 2; Return 2 1]
      [2%Z] [] 0 [];
    (* lambda_0 *)
    mkFn 0 0 1
      [GetUpValue 0 0 1; MoveImmF 1 4607182418800017408%Z; AddF 0 0 1; SetUpValue 0 0 1; GetUpValue 0 0 1; Return 0 1]
      [] [] 0 [mkUp 1 1 false];
    (* dsp *)
    mkFn 0 0 1
      [GetGlobal 0 0 1; CallIndirect 0 0 1; Move 0 0; GetGlobal 1 0 1; CallIndirect 1 0 1; Move 1 1; AddF 0 0 1; Return 0 1]
      [] [] 0 []]
    1 [] (Some 3) [] [].
(* real VM: main {"ncls": 1, "nheap": 1, "pos": 0, "rc": 0, "words": []} ; samples [{"ncls": 1, "nheap": 1, "out": ["4008000000000000"], "pos": 0, "rc": 1, "words": []}, {"ncls": 1, "nheap": 1, "out": ["401c000000000000"], "pos": 0, "rc": 1, "words": []}, {"ncls": 1, "nheap": 1, "out": ["4026000000000000"], "pos": 0, "rc": 1, "words": []}] *)

(* source:
// @test {"times":2,"stereo":false,"expected":[44.0, 44.0],"web":true}
//modified from closure_closed.mmm expect:45-4+3 = 44
fn test(x:float){
    let y = (5.0,4.0)
    let f = | | { 
        let z = 3.0
        let ff = | |{ 
            let a = x
            //todo! if we capture with this let pattern, the test fails only on macOS.
            //weirdly the result becomes 48 only on the time 0, 44 otherwise.
            // let (b1,b2) = y
            let b1 = y.0
            let b2 = y.1
            let c = z
            a*b1 - b2 + c 
            }
         ff()
        }
    f
}
fn dsp(){
    let f2 = test(9.0)
    f2()
}
*)
Definition ex_tuple_escape : program :=
  mkProg [
    (* _mimium_global *)
    mkFn 0 0 0
      [Return0]
      [] [] 0 [];
    (* test *)
    mkFn 1 1 1
      [MoveImmF 3 4617315517961601024%Z; Move 1 3; MoveImmF 3 4616189618054758400%Z; Move 2 3; MoveRange 3 1 2; MoveConst 5 0; MakeHeapClosure 5 5 64; Move 6 5; Move 7 6; Move 8 6; CloseHeapClosure 8; CloseHeapClosure 7; CloneHeap 7; Return 7 1]
      [2%Z] [] 0 [];
    (* f *)
    mkFn 0 0 1
      [MoveImmF 0 4613937818241073152%Z; Move 1 0; GetUpValue 2 0 1; GetUpValue 3 1 2; GetUpValue 5 1 2; MoveConst 7 0; MakeHeapClosure 7 7 64; Move 8 7; Move 9 8; CallIndirect 9 0 1; Move 9 9; Move 10 8; CloseHeapClosure 10; Return 9 1]
      [3%Z] [] 0 [mkUp 0 1 false; mkUp 3 2 false];
    (* ff *)
    mkFn 0 0 1
      [GetUpValue 0 0 1; Move 1 0; GetUpValue 2 1 2; Move 4 2; GetUpValue 5 2 2; Move 7 6; GetUpValue 8 3 1; Move 9 8; Move 10 1; Move 11 4; MulF 10 10 11; Move 11 7; SubF 10 10 11; Move 11 9; AddF 10 10 11; Return 10 1]
      [] [] 0 [mkUp 2 1 false; mkUp 3 2 false; mkUp 5 2 false; mkUp 1 1 false];
    (* dsp *)
    mkFn 0 0 1
      [MoveImmF 0 4621256167635550208%Z; MoveConst 1 0; Move 2 1; Move 3 0; Call 2 1 1; Move 3 2; Move 4 3; CallIndirect 4 0 1; Move 4 4; Move 5 3; CloseHeapClosure 5; Return 4 1]
      [1%Z] [] 0 []]
    0 [] (Some 4) [] [].
(* real VM: main {"ncls": 0, "nheap": 0, "pos": 0, "rc": 0, "words": []} ; samples [{"ncls": 1, "nheap": 1, "out": ["4046000000000000"], "pos": 0, "rc": 1, "words": []}, {"ncls": 2, "nheap": 2, "out": ["4046000000000000"], "pos": 0, "rc": 1, "words": []}] *)

(* GetUpValue 5 in a function with one upindex *)
Definition ex_bad_upvalue : program :=
  mkProg [mkFn 0 0 0 [Return0] [] [] 0 [];
          mkFn 0 0 1 [MoveImmF 0 0%Z; MoveConst 1 0; MakeHeapClosure 1 1 0; Move 2 1; CallIndirect 2 0 1; Return 2 1] [2%Z] [] 0 [];
          mkFn 0 0 1 [GetUpValue 0 5 1; Return 0 1] [] [] 0 [mkUp 0 1 false]]
    0 [] (Some 1) [] [].

(* the machine after Machine::new and execute_main (instrumented semantics) *)
Definition xafter_main (strict : bool) (p : program) : option xmach :=
  match xexec_main toy p strict 200 (xmach0 p) with XRet _ x => Some x | _ => None end.

(* n samples; the summary of each: (words returned, state cursor, closures.len(), heap.len()) *)
Fixpoint xsamples (strict : bool) (p : program) (n : nat) (x : xmach) : list (option (N * N * N * N)) :=
  match n with
  | O => []
  | S k => match xexec_dsp toy p strict 400 [] x with
           | XRet w x' => Some (w, m_pos (x_core x'), x_ncls x', x_nheap x') :: xsamples strict p k x'
           | _ => [None]
           end
  end.
