(* Bvm/XExamples.v — concrete programs with closures for the Examples of Props/C03_bvm.v.
   ex_counter and ex_tuple_escape are REAL dumps (harness bc_dump of the sources quoted below, printed by a script);
   ex_bad_upvalue and ex_array_wide_store are hand-made; ex_array is a real dump too.  `toy` (Bvm/Examples.v) is the arithmetic used to run them. *)
From Coq Require Import List ZArith NArith Bool.
From Mimium Require Import Heap.Model.
From Mimium Require Import Bvm.Model Bvm.Verify Bvm.Examples Bvm.XModel Bvm.XVerify.
Import ListNotations.
Local Open Scope N_scope.

(* a function without array accesses: no element-width annotation *)
Definition mkFnX pw np nr code consts jt ss up : fn := mkFn pw np nr code consts jt ss up [].

(* source:
fn counter(){ let c = 0.0
 | | { c = c + 1.0
 c } }
let k = counter()
fn dsp(){ k() + k() }
*)
Definition ex_counter : program :=
  mkProg [
    (* _mimium_global *)
    mkFnX 0 0 0
      [MoveConst 0 0; Move 1 0; Call 1 0 1; CloseHeapClosure 1; SetGlobal 0 1 1; Return0]
      [1%Z] [] 0 [];
    (* counter *)
    mkFnX 0 0 1
      [MoveImmF 0 0%Z; Move 1 0; MoveConst 2 0; MakeHeapClosure 2 2 64; CloseHeapClosure 2; CloneHeap 2; Return 2 1]
      [2%Z] [] 0 [];
    (* lambda_0 *)
    mkFnX 0 0 1
      [GetUpValue 0 0 1; MoveImmF 1 4607182418800017408%Z; AddF 0 0 1; SetUpValue 0 0 1; GetUpValue 0 0 1; Return 0 1]
      [] [] 0 [mkUp 1 1 false];
    (* dsp *)
    mkFnX 0 0 1
      [GetGlobal 0 0 1; CallIndirect 0 0 1; Move 0 0; GetGlobal 1 0 1; CallIndirect 1 0 1; Move 1 1; AddF 0 0 1; Return 0 1]
      [] [] 0 []]
    1 [] (Some 3) [] [].
(* real VM: main {"ncls": 1, "nheap": 1, "pos": 0, "rc": 0, "words": []} ; samples [{"ncls": 1, "nheap": 1, "out": ["4008000000000000"], "pos": 0, "rc": 1, "words": []}, {"ncls": 1, "nheap": 1, "out": ["401c000000000000"], "pos": 0, "rc": 1, "words": []}, {"ncls": 1, "nheap": 1, "out": ["4026000000000000"], "pos": 0, "rc": 1, "words": []}] *)

(* source:
// @test {"times":2,"stereo":false,"expected":[44.0, 44.0],"web":true}
//modified from closure_closed.mmm expect:45-4+3 = 44
fn test(x:float){
    let y = (5.0,4.0)
    let f = | | { 
        let z = 3.0
        let ff = | |{ 
            let a = x
            //todo! if we capture with this let pattern, the test fails only on macOS.
            //weirdly the result becomes 48 only on the time 0, 44 otherwise.
            // let (b1,b2) = y
            let b1 = y.0
            let b2 = y.1
            let c = z
            a*b1 - b2 + c 
            }
         ff()
        }
    f
}
fn dsp(){
    let f2 = test(9.0)
    f2()
}
*)
Definition ex_tuple_escape : program :=
  mkProg [
    (* _mimium_global *)
    mkFnX 0 0 0
      [Return0]
      [] [] 0 [];
    (* test *)
    mkFnX 1 1 1
      [MoveImmF 3 4617315517961601024%Z; Move 1 3; MoveImmF 3 4616189618054758400%Z; Move 2 3; MoveRange 3 1 2; MoveConst 5 0; MakeHeapClosure 5 5 64; Move 6 5; Move 7 6; Move 8 6; CloseHeapClosure 8; CloseHeapClosure 7; CloneHeap 7; Return 7 1]
      [2%Z] [] 0 [];
    (* f *)
    mkFnX 0 0 1
      [MoveImmF 0 4613937818241073152%Z; Move 1 0; GetUpValue 2 0 1; GetUpValue 3 1 2; GetUpValue 5 1 2; MoveConst 7 0; MakeHeapClosure 7 7 64; Move 8 7; Move 9 8; CallIndirect 9 0 1; Move 9 9; Move 10 8; CloseHeapClosure 10; Return 9 1]
      [3%Z] [] 0 [mkUp 0 1 false; mkUp 3 2 false];
    (* ff *)
    mkFnX 0 0 1
      [GetUpValue 0 0 1; Move 1 0; GetUpValue 2 1 2; Move 4 2; GetUpValue 5 2 2; Move 7 6; GetUpValue 8 3 1; Move 9 8; Move 10 1; Move 11 4; MulF 10 10 11; Move 11 7; SubF 10 10 11; Move 11 9; AddF 10 10 11; Return 10 1]
      [] [] 0 [mkUp 2 1 false; mkUp 3 2 false; mkUp 5 2 false; mkUp 1 1 false];
    (* dsp *)
    mkFnX 0 0 1
      [MoveImmF 0 4621256167635550208%Z; MoveConst 1 0; Move 2 1; Move 3 0; Call 2 1 1; Move 3 2; Move 4 3; CallIndirect 4 0 1; Move 4 4; Move 5 3; CloseHeapClosure 5; Return 4 1]
      [1%Z] [] 0 []]
    0 [] (Some 4) [] [].
(* real VM: main {"ncls": 0, "nheap": 0, "pos": 0, "rc": 0, "words": []} ; samples [{"ncls": 1, "nheap": 1, "out": ["4046000000000000"], "pos": 0, "rc": 1, "words": []}, {"ncls": 2, "nheap": 2, "out": ["4046000000000000"], "pos": 0, "rc": 1, "words": []}] *)

(* GetUpValue 5 in a function with one upindex *)
Definition ex_bad_upvalue : program :=
  mkProg [mkFnX 0 0 0 [Return0] [] [] 0 [];
          mkFnX 0 0 1 [MoveImmF 0 0%Z; MoveConst 1 0; MakeHeapClosure 1 1 0; Move 2 1; CallIndirect 2 0 1; Return 2 1] [2%Z] [] 0 [];
          mkFnX 0 0 1 [GetUpValue 0 5 1; Return 0 1] [] [] 0 [mkUp 0 1 false]]
    0 [] (Some 1) [] [].

(* ---- arrays (a REAL dump: array literals of one-word and two-word elements, indexing, split_head$arity1, len; the last
        component of every function is the element-width annotation f_ew computed by checks/bvm_part.py) ---- *)
(* source:
fn dsp(){
  let a = [1.0, 2.0, 3.0]
  let b = [(1.0, 2.0), (3.0, 4.0)]
  let (h, t) = split_head(a)
  let (p, q) = b[now]
  a[now] + len(t) + p + q + h
}
*)
Definition ex_array : program :=
  mkProg [
    (* _mimium_global *)
    mkFn 0 0 0
      [Return0]
      [] [] 0 [] [];
    (* dsp *)
    mkFn 0 0 1
      [MoveImmF 0 4607182418800017408%Z; MoveImmF 1 4611686018427387904%Z; MoveImmF 2 4613937818241073152%Z; AllocArray 3 3 1; MoveImmF 4 0%Z; SetArrayElem 3 4 0; MoveImmF 4 4607182418800017408%Z; SetArrayElem 3 4 1; MoveImmF 4 4611686018427387904%Z; SetArrayElem 3 4 2; Move 4 3; MoveImmF 7 4607182418800017408%Z; Move 5 7; MoveImmF 7 4611686018427387904%Z; Move 6 7; MoveImmF 9 4613937818241073152%Z; Move 7 9; MoveImmF 9 4616189618054758400%Z; Move 8 9; AllocArray 9 2 2; MoveImmF 10 0%Z; SetArrayElem 9 10 5; MoveImmF 10 4607182418800017408%Z; SetArrayElem 9 10 7; Move 10 9; Move 11 4; MoveConst 12 0; Move 13 11; CallExtFun 12 1 2; MoveRange 14 12 2; Move 16 10; MoveConst 17 1; CallExtFun 17 0 1; GetArrayElem 16 16 17; MoveRange 18 16 2; Move 20 4; MoveConst 21 1; CallExtFun 21 0 1; GetArrayElem 20 20 21; Move 21 15; MoveConst 22 2; Move 23 21; CallExtFun 22 1 1; AddF 20 20 22; Move 21 18; AddF 20 20 21; Move 21 19; AddF 20 20 21; Move 21 14; AddF 20 20 21; Return 20 1]
      [0%Z; 1%Z; 2%Z] [] 0 [] [(5, 1); (7, 1); (9, 1); (21, 2); (23, 2); (33, 2); (38, 1)]]
    0 [ExtArr 11 1; ExtPure 0 0; ExtArr 0 0] (Some 1) [] [].
(* ext: ['split_head$arity1', '_mimium_getnow', 'len'] *)
(* real VM: main {"ncls": 0, "nheap": 0, "pos": 0, "rc": 0, "words": []} ; samples [{"ncls": 0, "nheap": 0, "out": ["401c000000000000"], "pos": 0, "rc": 1, "words": []}, {"ncls": 0, "nheap": 0, "out": ["4028000000000000"], "pos": 0, "rc": 1, "words": []}] *)

(* hand-made: a three-word element is stored from register 1 although only registers 0 and 1 have been written *)
Definition ex_array_wide_store (hint : N) : program :=
  mkProg [mkFnX 0 0 0 [Return0] [] [] 0 [];
          mkFn 0 0 1 [AllocArray 0 1 3; MoveImmF 1 0%Z; SetArrayElem 0 1 1; Return 1 1] [] [] 0 [] [(2, hint)]]
    0 [] (Some 1) [] [].

(* the machine after Machine::new and execute_main (instrumented semantics) *)
Definition xafter_main (strict : bool) (p : program) : option xmach :=
  match xexec_main toy p strict 200 (xmach0 p) with XRet _ x => Some x | _ => None end.

(* n samples; the summary of each: (words returned, state cursor, closures.len(), heap.len()) *)
Fixpoint xsamples (strict : bool) (p : program) (n : nat) (x : xmach) : list (option (N * N * N * N)) :=
  match n with
  | O => []
  | S k => match xexec_dsp toy p strict 400 [] x with
           | XRet w x' => Some (w, m_pos (x_core x'), x_ncls x', x_nheap x') :: xsamples strict p k x'
           | _ => [None]
           end
  end.
