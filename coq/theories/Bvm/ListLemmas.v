(* Bvm/ListLemmas.v — facts about the list primitives of Bvm/Model.v (rd1, rd_range, wr_range, lenN). *)
From Coq Require Import List ZArith NArith Bool Lia Arith.
From Mimium Require Import Bvm.Model.
Import ListNotations.
Local Open Scope N_scope.

Lemma lenN_nil : forall A, lenN (@nil A) = 0.
Proof. reflexivity. Qed.

Lemma lenN_cons : forall A (x : A) l, lenN (x :: l) = lenN l + 1.
Proof. intros. unfold lenN. cbn [length]. lia. Qed.

Lemma lenN_app : forall A (l1 l2 : list A), lenN (l1 ++ l2) = lenN l1 + lenN l2.
Proof. intros. unfold lenN. rewrite app_length. lia. Qed.

Lemma lenN_firstn : forall A (l : list A) n, lenN (firstn (nn n) l) = N.min n (lenN l).
Proof. intros. unfold lenN, nn. rewrite firstn_length. lia. Qed.

Lemma lenN_repeat : forall A (x : A) n, lenN (repeat x n) = N.of_nat n.
Proof. intros. unfold lenN. rewrite repeat_length. reflexivity. Qed.

(* ---------- nth_error of firstn / skipn ---------- *)
Lemma nth_error_firstn_lt : forall A (l : list A) n j, (j < n)%nat -> nth_error (firstn n l) j = nth_error l j.
Proof.
  intros A l. induction l as [|x l IH]; intros n j Hj.
  - rewrite firstn_nil. reflexivity.
  - destruct n as [|n]; [lia|]. destruct j as [|j]; cbn [firstn nth_error]; [reflexivity|]. apply IH. lia.
Qed.

Lemma nth_error_skipn_add : forall A (l : list A) n j, nth_error (skipn n l) j = nth_error l (n + j).
Proof.
  intros A l. induction l as [|x l IH]; intros n j.
  - rewrite skipn_nil. destruct j, n; reflexivity.
  - destruct n as [|n]; cbn [skipn plus nth_error]; [reflexivity|]. apply IH.
Qed.

Lemma firstn_eq_nth_error : forall A (l1 l2 : list A) c j,
  firstn c l1 = firstn c l2 -> (j < c)%nat -> nth_error l1 j = nth_error l2 j.
Proof.
  intros A l1 l2 c j H Hj. rewrite <- (nth_error_firstn_lt A l1 c j Hj), <- (nth_error_firstn_lt A l2 c j Hj).
  rewrite H. reflexivity.
Qed.

(* ---------- rd1 ---------- *)
Lemma rd1_nth_error : forall A (l : list A) i, rd1 l i = nth_error l (nn i).
Proof.
  intros. unfold rd1. destruct (N.ltb_spec i (lenN l)) as [Hlt|Hge]; [reflexivity|].
  symmetry. apply nth_error_None. unfold lenN, nn in *. lia.
Qed.

Lemma rd1_Some : forall A (l : list A) i v, rd1 l i = Some v -> i < lenN l.
Proof.
  intros A l i v H. unfold rd1 in H. destruct (N.ltb_spec i (lenN l)) as [Hlt|Hge]; [exact Hlt|discriminate].
Qed.

Lemma rd1_lt : forall A (l : list A) i, i < lenN l -> exists v, rd1 l i = Some v.
Proof.
  intros A l i H. rewrite rd1_nth_error. destruct (nth_error l (nn i)) eqn:E; [eauto|].
  apply nth_error_None in E. unfold lenN, nn in *. lia.
Qed.

Lemma rd1_In : forall A (l : list A) i v, rd1 l i = Some v -> In v l.
Proof. intros A l i v H. rewrite rd1_nth_error in H. eapply nth_error_In; eauto. Qed.

(* ---------- rd_range ---------- *)
Lemma rd_range_Some : forall A (l : list A) i n vs,
  rd_range l i n = Some vs -> i + n <= lenN l /\ lenN vs = n.
Proof.
  intros A l i n vs H. unfold rd_range in H. destruct (N.leb_spec (i + n) (lenN l)) as [Hle|Hgt]; [|discriminate].
  inversion H; subst. split; [exact Hle|]. unfold lenN, nn in *. rewrite firstn_length, skipn_length. lia.
Qed.

Lemma rd_range_ok : forall A (l : list A) i n, i + n <= lenN l -> exists vs, rd_range l i n = Some vs.
Proof. intros A l i n H. unfold rd_range. destruct (N.leb_spec (i + n) (lenN l)); [eauto|lia]. Qed.

Lemma rd_range_one : forall A (l : list A) i vs, rd_range l i 1 = Some vs -> exists v, vs = [v].
Proof.
  intros A l i vs H. apply rd_range_Some in H. destruct H as [_ H]. unfold lenN in H.
  destruct vs as [|v [|w vs]]; cbn [length] in H; try lia. eauto.
Qed.

(* ---------- wr_range ---------- *)
Lemma wr_range_length : forall A (d : A) l i vs,
  lenN (wr_range d l i vs) = N.max (lenN l) (i + lenN vs).
Proof.
  intros. unfold wr_range, lenN, nn. rewrite !app_length, firstn_length, app_length, repeat_length, skipn_length. lia.
Qed.

Lemma wr_range_head_length : forall A (d : A) l i,
  length (firstn (nn i) (l ++ repeat d (nn i - length l))) = nn i.
Proof. intros. rewrite firstn_length, app_length, repeat_length. lia. Qed.

(* a word outside the written range keeps its value *)
Lemma wr_range_nth_out : forall A (d : A) l i vs j v,
  nth_error l j = Some v -> (j < nn i \/ nn i + length vs <= j)%nat ->
  nth_error (wr_range d l i vs) j = Some v.
Proof.
  intros A d l i vs j v Hn Hj. unfold wr_range.
  assert (Hjl : (j < length l)%nat) by (apply nth_error_Some; congruence).
  destruct Hj as [Hj|Hj].
  - rewrite nth_error_app1 by (rewrite wr_range_head_length; exact Hj).
    rewrite nth_error_firstn_lt by exact Hj. rewrite nth_error_app1 by exact Hjl. exact Hn.
  - rewrite nth_error_app2 by (rewrite wr_range_head_length; lia). rewrite wr_range_head_length.
    rewrite nth_error_app2 by lia. rewrite nth_error_skipn_add. rewrite <- Hn. f_equal. lia.
Qed.

(* the written words *)
Lemma wr_range_nth_in : forall A (d : A) l i vs t,
  (t < length vs)%nat -> nth_error (wr_range d l i vs) (nn i + t) = nth_error vs t.
Proof.
  intros A d l i vs t Ht. unfold wr_range.
  rewrite nth_error_app2 by (rewrite wr_range_head_length; lia). rewrite wr_range_head_length.
  rewrite nth_error_app1 by lia. f_equal. lia.
Qed.

Lemma wr_range_firstn : forall A (d : A) l i vs c,
  (c <= nn i)%nat -> (c <= length l)%nat -> firstn c (wr_range d l i vs) = firstn c l.
Proof.
  intros A d l i vs c Hc Hl. unfold wr_range.
  rewrite firstn_app. rewrite wr_range_head_length. replace (c - nn i)%nat with O by lia.
  rewrite firstn_O, app_nil_r. rewrite firstn_firstn. rewrite Nat.min_l by exact Hc.
  rewrite firstn_app. replace (c - length l)%nat with O by lia. rewrite firstn_O, app_nil_r. reflexivity.
Qed.

Lemma rd1_wr_range_out : forall A (d : A) l i vs j v,
  rd1 l j = Some v -> (j < i \/ i + lenN vs <= j) -> rd1 (wr_range d l i vs) j = Some v.
Proof.
  intros A d l i vs j v H Hj. rewrite rd1_nth_error in *. apply wr_range_nth_out; [exact H|].
  unfold lenN, nn in *. lia.
Qed.

Lemma rd1_wr_range_one : forall A (d : A) l i v, rd1 (wr_range d l i [v]) i = Some v.
Proof.
  intros. rewrite rd1_nth_error. replace (nn i) with (nn i + 0)%nat by lia.
  rewrite wr_range_nth_in by (cbn; lia). reflexivity.
Qed.

Lemma firstn_all_ge : forall A (l : list A) n, (length l <= n)%nat -> firstn n l = l.
Proof. intros. apply firstn_all2. assumption. Qed.
