(* Bvm/XSoundTop.v — from `xverify p = true` to the entry points of the VM on the extended machine, in the
   instrumented semantics: execute_main, one dsp call (set_input + execute_idx), whole sessions. *)
From Coq Require Import List ZArith NArith Bool Lia Arith.
From Mimium Require Import Heap.Model Heap.SlotMap Heap.Lemmas.
From Mimium Require Import Bvm.Model Bvm.Verify Bvm.ListLemmas Bvm.SoundAbs Bvm.SoundStep Bvm.SoundRun Bvm.SoundTop.
From Mimium Require Import Bvm.XModel Bvm.XVerify Bvm.XInv Bvm.XDyn Bvm.XLocal Bvm.XSoundStep Bvm.XSoundRun.
Import ListNotations.
Local Open Scope N_scope.

(* between calls: the globals have the declared size, the global state cursor is home, no closure's storage is
   selected and the closure table is in shape *)
Definition xminv (p : program) (x : xmach) : Prop :=
  lenN (m_globals (x_core x)) = p_gsize p /\ m_pos (x_core x) = 0 /\ x_ss x = [] /\ xok p x.

Lemma xverify_prog_ok : forall p, xverify p = true -> xprog_ok p.
Proof.
  intros p H. unfold xverify in H. apply andb_true_iff in H. destruct H as [H _].
  apply andb_true_iff in H. destruct H as [H _]. rewrite forallb_forall in H. exact H.
Qed.

Lemma no_up_spec : forall f, no_up f = true -> f_up f = [].
Proof. intros f H. unfold no_up in H. destruct (f_up f); [reflexivity|discriminate]. Qed.

Lemma xverify_main : forall p, xverify p = true ->
  exists f0, rd1 (p_funs p) 0 = Some f0 /\ f_pwords f0 = 0 /\ f_up f0 = [].
Proof.
  intros p H. unfold xverify in H. apply andb_true_iff in H. destruct H as [H _].
  apply andb_true_iff in H. destruct H as [_ H]. destruct (rd1 (p_funs p) 0) as [f0|]; [|discriminate].
  apply andb_true_iff in H. destruct H as [H1 H2]. exists f0. split; [reflexivity|]. split; [apply N.eqb_eq; exact H1|apply no_up_spec; exact H2].
Qed.

Lemma xverify_dsp : forall p, xverify p = true ->
  exists di f, p_dsp p = Some di /\ rd1 (p_funs p) di = Some f /\ f_up f = [].
Proof.
  intros p H. unfold xverify in H. apply andb_true_iff in H. destruct H as [_ H].
  destruct (p_dsp p) as [di|]; [|discriminate]. destruct (rd1 (p_funs p) di) as [f|] eqn:E; [|discriminate].
  exists di, f. split; [reflexivity|]. split; [exact E|apply no_up_spec; exact H].
Qed.

Lemma xchecked_code_nonempty : forall p f, xcheck_fn p f (xinfer p f) = true -> f_code f <> [].
Proof.
  intros p f H. destruct (xcheck_fn_entry _ _ H) as (a0 & Ha0 & _).
  unfold xcheck_fn in H. apply andb_true_iff in H. destruct H as [H _]. apply andb_true_iff in H. destruct H as [Hlen _].
  apply N.eqb_eq in Hlen. apply rd1_Some in Ha0. intros E. rewrite E in Hlen. unfold lenN in *. cbn in Hlen. lia.
Qed.

(* an activation entered from outside (no closure, base pointer 1, cursor 0) *)
Lemma frs_top : forall p f fi a0 x,
  sub (entry f) a0 = true -> f_up f = [] -> x_ss x = [] ->
  (f_pwords f = 0 \/ 1 + f_pwords f <= lenN (x_stack x)) ->
  lenN (m_globals (x_core x)) = p_gsize p -> m_pos (x_core x) = 0 -> f_ssize f <= lenN (m_state (x_core x)) ->
  frs p f fi None 1 0 a0 x.
Proof.
  intros p f fi a0 x Hsub Hup Hss Hst Hg Hp Hs. eapply frs_sub; [|exact Hsub].
  unfold frs, ci_inv, cur_store, owner. rewrite Hss. cbn [entry a_h a_regs a_pos].
  split; [exact Hst|]. split; [intros r k H; discriminate|]. split; [lia|]. split; [lia|]. split; [exact Hg|].
  split; [intros s H; inversion H; subst; cbn; lia|]. split; [intros c H; discriminate|]. split; [exact Hup|].
  intros H; contradiction.
Qed.

Section Top.
  Variable p : program.
  Hypothesis Hv : xverify p = true.

  Definition top_ok (f : fn) (o : xoutcome) : Prop :=
    match o with
    | XRet n x' => n = f_nret f /\ lenN (x_stack x') = n /\ xminv p x'
    | XOutOfFuel => True
    | XFault e => is_dyn e = true
    | XUnsupported _ => False
    end.

  (* xrun from an outside entry *)
  Lemma xrun_top : forall A fuel fi f x,
    rd1 (p_funs p) fi = Some f -> f_up f = [] -> xminv p x ->
    (f_pwords f = 0 \/ 1 + f_pwords f <= lenN (x_stack x)) -> f_ssize f <= lenN (m_state (x_core x)) ->
    match xrun A p true fuel fi None 1 0 x fl0 with
    | XRet n x' => n = f_nret f /\ lenN (x_stack x') = n /\ xminv p x' /\
                   lenN (m_state (x_core x')) = lenN (m_state (x_core x))
    | XOutOfFuel => True
    | XFault e => is_dyn e = true
    | XUnsupported _ => False
    end.
  Proof.
    intros A fuel fi f x Hfi Hup (Hg & Hp & Hss & Hx) Hst Hs.
    assert (Hck : xcheck_fn p f (xinfer p f) = true) by (apply xverify_prog_ok; [exact Hv|eapply rd1_In; eauto]).
    destruct (xcheck_fn_entry _ _ Hck) as (a0 & Ha0 & Hsub).
    pose proof (frs_top p f fi a0 x Hsub Hup Hss Hst Hg Hp Hs) as F.
    pose proof (xrun_sound A p (xverify_prog_ok p Hv) fuel fi f None 1 0 x fl0 a0 0 Hfi Ha0 F Hx) as R.
    destruct (xrun A p true fuel fi None 1 0 x fl0) as [n x'| | |]; cbn [xret_ok] in R; auto.
    destruct R as (R1 & R2 & (E1 & E2 & E3 & E4 & E5) & R4 & R5 & R6).
    split; [exact R1|]. split; [rewrite R5; lia|]. split; [|exact E3].
    unfold xminv. split; [unfold lenN in *; congruence|]. split; [|split; [congruence|exact R2]].
    specialize (R4 (m_pos (x_core x'), m_state (x_core x'))). unfold cur_store in R4. rewrite E1, Hss in R4.
    apply (R4 eq_refl).
  Qed.

  (* execute_main *)
  Theorem xexec_main_safe : forall A fuel x, xminv p x -> x_stack x = [] ->
    match xexec_main A p true fuel x with
    | XRet n x' => xminv p x' /\ lenN (x_stack x') = n
    | XOutOfFuel => True
    | XFault e => is_dyn e = true
    | XUnsupported _ => False
    end.
  Proof.
    intros A fuel x (Hg & Hp & Hss & Hx) Hst. destruct (xverify_main p Hv) as (f0 & Hf0 & Hpw & Hup).
    unfold xexec_main. rewrite Hf0.
    set (m1 := mkMach (m_stack (x_core x)) (m_globals (x_core x)) 0 (repeat 0%Z (nn (f_ssize f0)))).
    pose proof (xrun_top A fuel 0 f0 (set_core x m1) Hf0 Hup) as R.
    assert (Hm : xminv p (set_core x m1)) by (unfold xminv, set_core; cbn; auto).
    assert (S4 : f_ssize f0 <= lenN (m_state (x_core (set_core x m1)))) by (cbn; rewrite lenN_repeat; unfold nn; lia).
    specialize (R Hm (or_introl Hpw) S4).
    destruct (xrun A p true fuel 0 None 1 0 (set_core x m1) fl0) as [n x'| | |]; auto.
    destruct R as (R1 & R2 & (G1 & G2 & G3 & G4) & R4). split; [|exact R2].
    unfold xminv, set_core; cbn. auto.
  Qed.

  (* one sample: set_input + execute_idx(dsp) *)
  Theorem xexec_dsp_safe : forall A fuel inputs x f, dsp_fn p = Some f -> xminv p x -> f_pwords f <= lenN inputs ->
    match xexec_dsp A p true fuel inputs x with
    | XRet n x' => n = f_nret f /\ lenN (x_stack x') = f_nret f /\ lenN (m_state (x_core x')) = f_ssize f /\ xminv p x'
    | XOutOfFuel => True
    | XFault e => is_dyn e = true
    | XUnsupported _ => False
    end.
  Proof.
    intros A fuel inputs x f Hd (Hg & Hp & Hss & Hx) Hin. unfold dsp_fn in Hd. unfold xexec_dsp.
    destruct (xverify_dsp p Hv) as (di & f' & Hdi & Hf' & Hup). rewrite Hdi in Hd |- *. rewrite Hd in Hf' |- *. inversion Hf'; subst f'.
    assert (Hck : xcheck_fn p f (xinfer p f) = true) by (apply xverify_prog_ok; [exact Hv|eapply rd1_In; eauto]).
    pose proof (xchecked_code_nonempty _ _ Hck) as Hne.
    destruct (f_code f) as [|i0 code] eqn:Ecode; [congruence|]. clear Hne.
    set (m1 := match inputs with [] => x_core x | _ :: _ => sput 1 (x_core x) 0 inputs end).
    assert (H1 : (f_pwords f = 0 \/ 1 + f_pwords f <= lenN (m_stack m1)) /\ m_pos m1 = 0 /\ m_globals m1 = m_globals (x_core x)).
    { unfold m1. destruct inputs as [|v inputs].
      - unfold lenN in Hin. cbn [length] in Hin. split; [left; lia|]. split; [exact Hp|reflexivity].
      - rewrite sput_stack, wr_range_length. cbn [sput set_stack m_pos m_globals].
        split; [right; lia|]. split; [exact Hp|reflexivity]. }
    destruct H1 as (S1 & S2 & S3).
    set (m2 := set_state m1 (resize0 (m_state m1) (f_ssize f))).
    set (m3 := match m_stack m2 with [] => m2 | _ :: rest => set_stack m2 (0%Z :: rest) end).
    assert (H3 : lenN (m_stack m3) = lenN (m_stack m1) /\ m_pos m3 = 0 /\ m_globals m3 = m_globals (x_core x) /\
                 lenN (m_state m3) = f_ssize f).
    { destruct (zero_head_frame m2) as (Z1 & Z2 & Z3 & Z4). fold m3 in Z1, Z2, Z3, Z4.
      rewrite Z1, Z2, Z3, Z4. unfold m2. cbn [set_state m_stack m_pos m_globals m_state].
      rewrite lenN_resize0. repeat split; auto. }
    destruct H3 as (T1 & T2 & T3 & T4).
    pose proof (xrun_top A fuel di f (set_core x m3) Hd Hup) as R.
    assert (Hm : xminv p (set_core x m3)) by (unfold xminv, set_core; cbn; rewrite T3; auto).
    assert (Hst : f_pwords f = 0 \/ 1 + f_pwords f <= lenN (x_stack (set_core x m3))) by (unfold x_stack; cbn; rewrite T1; exact S1).
    assert (Hs : f_ssize f <= lenN (m_state (x_core (set_core x m3)))) by (cbn; lia).
    specialize (R Hm Hst Hs).
    destruct (xrun A p true fuel di None 1 0 (set_core x m3) fl0) as [n x'| | |]; auto.
    destruct R as (R1 & R2 & R3 & R4). split; [exact R1|]. split; [congruence|]. split; [cbn in R4; congruence|exact R3].
  Qed.

  (* a whole session after main *)
  Theorem xrun_session_safe : forall fuel f steps x, dsp_fn p = Some f -> xminv p x ->
    Forall (fun s => f_pwords f <= lenN (snd s)) steps ->
    Forall (fun o => match o with
                     | XRet n x' => n = f_nret f /\ lenN (x_stack x') = f_nret f /\ lenN (m_state (x_core x')) = f_ssize f /\
                                    m_pos (x_core x') = 0
                     | XOutOfFuel => True
                     | XFault e => is_dyn e = true
                     | XUnsupported _ => False
                     end) (xrun_session p true fuel steps x).
  Proof.
    intros fuel f steps. induction steps as [|[A r] steps IH]; intros x Hd Hm Hall; [constructor|].
    inversion Hall as [|s l Hs Hrest]; subst. cbn [snd] in Hs. cbn [xrun_session].
    pose proof (xexec_dsp_safe A fuel r x f Hd Hm Hs) as R.
    destruct (xexec_dsp A p true fuel r x) as [n x'|e| |u].
    - destruct R as (R1 & R2 & R3 & R4). constructor; [destruct R4 as (_ & ? & _); auto|]. apply IH; auto.
    - constructor; [exact R|constructor].
    - constructor; [exact I|constructor].
    - contradiction.
  Qed.
End Top.

Lemma xminv_mach0 : forall p, xminv p (xmach0 p).
Proof.
  intros p. unfold xminv, xmach0. cbn. split; [rewrite lenN_repeat; unfold nn; lia|]. split; [reflexivity|]. split; [reflexivity|].
  unfold xok. cbn. split; [apply wf_new|]. intros k cl H. rewrite sm_new_get in H. discriminate.
Qed.

Theorem xexec_main_fresh_safe : forall (p : program), xverify p = true ->
  forall (A : arith) (fuel : nat),
  match xexec_main A p true fuel (xmach0 p) with
  | XRet n x' => xminv p x' /\ lenN (x_stack x') = n
  | XOutOfFuel => True
  | XFault e => is_dyn e = true
  | XUnsupported _ => False
  end.
Proof. intros p Hv A fuel. exact (xexec_main_safe p Hv A fuel (xmach0 p) (xminv_mach0 p) eq_refl). Qed.
