(* Bvm/XModel.v — the bytecode VM with its closure / upvalue / heap layer (runtime/vm.rs `Machine::execute`,
   xallocate_closure, allocate_heap_closure, xclose_upvalues, xdrop_closure, xrelease_heap_closure(s),
   xrelease_open, get_current_state, call_function; runtime/vm/heap.rs heap_retain / heap_release).
   Definitions only.  Extends Bvm/Model.v: the instructions Model.v gives a meaning to run through its `lstep`
   on a VIEW (value stack, globals, the CURRENT state storage) of the extended machine.

   * Machine.closures / Machine.heap / Machine.arrays are slot maps with generational keys: the definitions of
     Heap/Model.v (slotmap 1.0.7 basic.rs) are reused, not copied.
   * Rc<RefCell<UpValue>> becomes an index into a store of cells (`x_cells`, never freed): sibling closures made by
     one activation share the cell of a captured variable (LocalUpValueMap::get_or_insert).
   * every closure carries its own state storage (pos, rawdata) sized from its function's skeleton; `x_ss` is
     Machine.states_stack (head = last pushed): get_current_state = the storage of its head, else global_states.
   * local_closures / local_heap_closures / upv_map are locals of one `execute` activation: `flocal`.
   * CloneUserSum / ReleaseUserSum on types with boxed references walk the type (Bvm/Model.v `ty`, the program's type
     table) as clone_usersum_recursive / release_usersum_recursive do; AllocArray / GetArrayElem / SetArrayElem and the
     array builtins of plugin/builtin_functins.rs (len, split_head, split_tail, prepend, append, `$arityN`) work on
     Machine.arrays (`x_arr`).  Bvm/XMach.v holds the machine record and the operations that need no program.
   * `_mimium_schedule_at` (the scheduler plugin) reads its two arguments, resolves the closure and records the task in
     `x_tasks`; the task queue and the execution of due tasks before a sample are not modelled (C11's subject).
   * `strict` adds run-time checks the real VM does NOT make (DynSignature, DynReentry, DynOpenWrite, DynCellWidth,
     DynElemWidth; see
     Bvm/Model.v `dynfault`); with strict = false this is a transcription of vm.rs and is what the correspondence check
     runs.  The compiler no longer emits Closure / Close / CallCls (mirgen lowers every lambda to MakeHeapClosure /
     CloseHeapClosure / CallIndirect): their semantics is transcribed but not exercised by the correspondence. *)
From Coq Require Import List ZArith NArith Bool.
From Mimium Require Import Heap.Model.
From Mimium Require Import Bvm.Model.
From Mimium Require Export Bvm.XMach.
Import ListNotations.
Local Open Scope N_scope.

Section XExec.
  Variable A : arith.
  Variable p : program.
  Variable strict : bool.

  (* ---- drop_closure ---- *)
  (* refs.iter().for_each(|(heap_idx, clsi)| { self.drop_closure(clsi); heap_release(heap_idx) }) *)
  Fixpoint xdrop_refs (rec : xmach -> key -> dres) (x : xmach) (refs : list (option key * key)) : dres :=
    match refs with
    | [] => DOk x
    | (hk, ck) :: rest =>
        match rec x ck with
        | DOk x1 =>
            let x2 := match hk with Some h => set_heap x1 (hrelease (x_heap x1) h) | None => x1 end in
            xdrop_refs rec x2 rest
        | o => o
        end
    end.

  (* closures.get_mut(id).unwrap(); refcount -= 1; at 0: a CLOSED closure releases what its cells hold, then remove *)
  Fixpoint xdrop_closure (fuel : nat) (x : xmach) (id : key) : dres :=
    match fuel with
    | O => DFuel
    | S k =>
        match sm_get (x_cls x) id with
        | None => DFault (Dyn DynHandle)
        | Some cl =>
            if c_rc cl =? 0 then DFault (Dyn DynHandle)          (* `refcount -= 1` overflows *)
            else
              let rc' := c_rc cl - 1 in
              let x1 := set_cls x (sm_set (x_cls x) id (c_set_rc cl rc')) in
              if rc' =? 0 then
                match (if c_closed cl then closed_refs (x_cells x) (c_upv cl) else Some []) with
                | None => DFault (Dyn DynUpvalue)
                | Some raws =>
                    match xdrop_refs (xdrop_closure k) x1 (resolve_all x1 raws) with
                    | DOk x2 => DOk (set_cls x2 (fst (sm_remove (x_cls x2) id)))
                    | o => o
                    end
                end
              else DOk x1
        end
    end.

  (* release_heap_closure *)
  Definition xrelease_heap_closure (fuel : nat) (x : xmach) (hk : key) : dres :=
    let after (x1 : xmach) := DOk (set_heap x1 (hrelease (x_heap x1) hk)) in
    match sm_get (x_heap x) hk with
    | Some o =>
        match h_data o with
        | c :: _ =>
            match sm_get (x_cls x) (kraw c) with
            | None => DFault (Dyn DynHandle)                      (* get_closure on a stale key *)
            | Some cl =>
                if negb (c_closed cl) || (h_rc o =? 1) then
                  match xdrop_closure fuel x (kraw c) with DOk x1 => after x1 | o' => o' end
                else after x
            end
        | [] => after x
        end
    | None => after x
    end.

  Fixpoint xrelease_heap_all (fuel : nat) (x : xmach) (hs : list key) : dres :=
    match hs with
    | [] => DOk x
    | h :: rest => match xrelease_heap_closure fuel x h with DOk x1 => xrelease_heap_all fuel x1 rest | o => o end
    end.

  (* release_open_closures *)
  Fixpoint xrelease_open (fuel : nat) (x : xmach) (cs : list key) : dres :=
    match cs with
    | [] => DOk x
    | c :: rest =>
        match sm_get (x_cls x) c with
        | None => DFault (Dyn DynHandle)
        | Some cl =>
            if c_closed cl then xrelease_open fuel x rest
            else match xdrop_closure fuel x c with DOk x1 => xrelease_open fuel x1 rest | o => o end
        end
    end.

  (* Return / Return0 after the stack has been cut: release_open_closures, release_heap_closures *)
  Definition scope_exit (fuel : nat) (x : xmach) (fl : flocal) (n : N) : xoutcome :=
    match xrelease_open fuel x (fl_lc fl) with
    | DOk x1 =>
        match xrelease_heap_all fuel x1 (fl_lh fl) with
        | DOk x2 => XRet n x2
        | DFault f => XFault f
        | DFuel => XOutOfFuel
        end
    | DFault f => XFault f
    | DFuel => XOutOfFuel
    end.

  (* ---- closures are made ---- *)
  (* LocalUpValueMap::get_or_insert (the register is stored `as Reg`, i.e. modulo 256) *)
  Definition get_or_insert (um : list (N * N)) (cells : list upval) (ov : upidx) : N * list (N * N) * list upval :=
    match find (fun e => u_pos ov =? fst e) um with
    | Some e => (snd e, um, cells)
    | None => (lenN cells, um ++ [(u_pos ov mod 256, lenN cells)], cells ++ [UOpen (u_pos ov) (u_size ov) (u_isc ov)])
    end.

  Fixpoint make_upvalues (um : list (N * N)) (cells : list upval) (ups : list upidx) : list N * list (N * N) * list upval :=
    match ups with
    | [] => ([], um, cells)
    | ov :: rest =>
        let '(ci, um1, cells1) := get_or_insert um cells ov in
        let '(more, um2, cells2) := make_upvalues um1 cells1 rest in
        (ci :: more, um2, cells2)
    end.

  (* allocate_closure = closures.insert(Closure::new(prog, base_pointer, fn_i, upv_map)); None = global_fn_table[fn_i] *)
  Definition xallocate_closure (x : xmach) (fl : flocal) (base fn_i : N) : option (xmach * flocal * key) :=
    match rd1 (p_funs p) fn_i with
    | None => None
    | Some g =>
        let '(upv, um', cells') := make_upvalues (fl_um fl) (x_cells x) (f_up g) in
        let cl := mkClos fn_i base false 1 upv 0 (repeat 0%Z (nn (f_ssize g))) in
        let (cls', k) := sm_insert (x_cls x) cl in
        Some (set_cells (set_cls x cls') cells', mkFl (fl_lc fl) (fl_lh fl) um', k)
    end.

  (* ---- upvalues are closed ---- *)
  (* first half of close_upvalues_by_idx: every Open cell takes the words of the stack; collects the closure-typed words.
     None in the middle component = a fault *)
  Fixpoint close_cells (stack : list Z) (cbase : N) (cells : list upval) (upv : list N) : list upval * list Z * option fault :=
    match upv with
    | [] => (cells, [], None)
    | ci :: rest =>
        let step (cells1 : list upval) (raw : option Z) :=
          let '(cells2, raws, e) := close_cells stack cbase cells1 rest in
          (cells2, match raw with Some r => r :: raws | None => raws end, e) in
        match nth_error cells (nn ci) with
        | Some (UOpen pos size isc) =>
            match rd_range stack (cbase + pos) size with
            | None => (cells, [], Some (Dyn DynUpvalue))
            | Some vs =>
                let cells1 := upd_nth cells (nn ci) (UClosed vs isc) in
                if isc then match vs with v :: _ => step cells1 (Some v) | [] => (cells, [], Some (Dyn DynUpvalue)) end
                else step cells1 None
            end
        | Some (UClosed vs isc) =>
            if isc then match vs with v :: _ => step cells (Some v) | [] => (cells, [], Some (Dyn DynUpvalue)) end
            else step cells None
        | None => step cells None                                   (* unreachable: cells are never freed *)
        end
    end.

  (* heap_retain(heap_idx); get_closure_mut(closure_idx).refcount += 1 *)
  Fixpoint xretain_refs (x : xmach) (refs : list (option key * key)) : dres :=
    match refs with
    | [] => DOk x
    | (hk, ck) :: rest =>
        let x1 := match hk with Some h => set_heap x (hretain (x_heap x) h) | None => x end in
        match sm_get (x_cls x1) ck with
        | None => DFault (Dyn DynHandle)
        | Some cl => xretain_refs (set_cls x1 (sm_set (x_cls x1) ck (c_set_rc cl (c_rc cl + 1)))) rest
        end
    end.

  Definition xclose_upvalues (x : xmach) (c : key) : dres :=
    match sm_get (x_cls x) c with
    | None => DFault (Dyn DynHandle)
    | Some cl0 =>
        match close_cells (x_stack x) (c_base cl0) (x_cells x) (c_upv cl0) with
        | (_, _, Some f) => DFault f
        | (cells', raws, None) =>
            let x1 := set_cells x cells' in
            match xretain_refs x1 (resolve_all x1 raws) with
            | DOk x2 =>
                match sm_get (x_cls x2) c with
                | None => DFault (Dyn DynHandle)
                | Some cl => DOk (set_cls x2 (sm_set (x_cls x2) c (c_set_closed cl)))
                end
            | o => o
            end
        end
    end.

  (* `if let Some(closure) = self.closures.get_mut(closure_idx.0) { closure.refcount += 1 }` *)
  Definition xretain_closure (x : xmach) (c : key) : xmach :=
    match sm_get (x_cls x) c with
    | Some cl => set_cls x (sm_set (x_cls x) c (c_set_rc cl (c_rc cl + 1)))
    | None => x
    end.

  Definition xsget (base : N) (x : xmach) (r : N) : option Z := sget base (x_core x) r.
  Definition xsget_range (base : N) (x : xmach) (r n : N) : option (list Z) := sget_range base (x_core x) r n.
  Definition xsput (base : N) (x : xmach) (r : N) (vs : list Z) : xmach := set_core x (sput base (x_core x) r vs).

  (* one instruction of the closure layer that neither calls nor returns; `ci` = the closure this activation runs in *)
  (* strict: the cell is as wide as the running function declares for upvalue i *)
  Definition width_ok (f : fn) (i w : N) : bool :=
    if strict then match rd1 (f_up f) i with Some u => w =? u_size u | None => true end else true.

  Definition xstep (f : fn) (base : N) (ci : option key) (o : xop) (x : xmach) (fl : flocal) : xlres :=
    match o with
    | XClosure d fr =>
        match xsget base x fr with
        | None => XLFault StackReadOOB
        | Some fv =>
            match xallocate_closure x fl base (Z.to_N fv) with
            | None => XLFault FnIndexOOB
            | Some (x1, fl1, k) => XNext 1 (xsput base x1 d [rawk k]) (mkFl (fl_lc fl1 ++ [k]) (fl_lh fl1) (fl_um fl1))
            end
        end
    | XClose s =>
        match xsget base x s with
        | None => XLFault StackReadOOB
        | Some v => match xclose_upvalues x (kraw v) with
                    | DOk x1 => XNext 1 x1 fl | DFault f => XLFault f | DFuel => XLFault (Dyn DynHandle)
                    end
        end
    | XMakeHeap d fr =>
        match xsget base x fr with
        | None => XLFault StackReadOOB
        | Some fv =>
            match xallocate_closure x fl base (Z.to_N fv) with
            | None => XLFault FnIndexOOB
            | Some (x1, fl1, k) =>
                (* heap.insert(HeapObject::with_data(vec![to_value(closure_idx)])) *)
                let (h', hk) := sm_insert (x_heap x1) (mkHobj 1 [rawk k]) in
                XNext 1 (xsput base (set_heap x1 h') d [rawk hk]) (mkFl (fl_lc fl1) (fl_lh fl1 ++ [hk]) (fl_um fl1))
            end
        end
    | XCloseHeap s =>
        match xsget base x s with
        | None => XLFault StackReadOOB
        | Some v =>
            let direct := if sm_contains (x_cls x) (kraw v) then Some (kraw v) else None in
            let target := match sm_get (x_heap x) (kraw v) with
                          | Some o => match h_data o with c :: _ => Some (kraw c) | [] => direct end
                          | None => direct
                          end in
            match target with
            | Some c => match xclose_upvalues x c with
                        | DOk x1 => XNext 1 x1 fl | DFault f => XLFault f | DFuel => XLFault (Dyn DynHandle)
                        end
            | None => XNext 1 x fl
            end
        end
    | XCloneHeap s =>
        match xsget base x s with
        | None => XLFault StackReadOOB
        | Some v =>
            match sm_get (x_heap x) (kraw v) with
            | Some (mkHobj _ (c :: _)) => XNext 1 (xretain_closure (set_heap x (hretain (x_heap x) (kraw v))) (kraw c)) fl
            | _ => if sm_contains (x_cls x) (kraw v) then XNext 1 (xretain_closure x (kraw v)) fl else XNext 1 x fl
            end
        end
    | XGetUp d i =>
        match ci with
        | None => XLFault NoClosureEnv
        | Some c =>
            match sm_get (x_cls x) c with
            | None => XLFault (Dyn DynHandle)
            | Some cl =>
                match rd1 (c_upv cl) i with
                | None => XLFault UpvalueIndexOOB
                | Some cell =>
                    match nth_error (x_cells x) (nn cell) with
                    | Some (UOpen pos size _) =>
                        (* move_stack_range(dst, the upvalue's range): the stack is first grown (zero filled) to hold the
                           source range, then the destination range, then the words move inside it *)
                        if negb (width_ok f i size) then XLFault (Dyn DynCellWidth) else
                        let st1 := x_stack x ++ repeat 0%Z (nn (c_base cl + pos + size) - length (x_stack x)) in
                        let vs := firstn (nn size) (skipn (nn (c_base cl + pos)) st1) in
                        XNext 1 (xsput base (xset_stack x st1) d vs) fl
                    | Some (UClosed vs _) =>
                        if negb (width_ok f i (lenN vs)) then XLFault (Dyn DynCellWidth) else XNext 1 (xsput base x d vs) fl
                    | None => XLFault (Dyn DynHandle)                (* unreachable: cells are never freed *)
                    end
                end
            end
        end
    | XSetUp i s n =>
        match ci with
        | None => XLFault NoClosureEnv
        | Some c =>
            match sm_get (x_cls x) c with
            | None => XLFault (Dyn DynHandle)
            | Some cl =>
                match xsget_range base x s n with
                | None => XLFault StackReadOOB
                | Some v =>
                    match rd1 (c_upv cl) i with
                    | None => XLFault UpvalueIndexOOB
                    | Some cell =>
                        match nth_error (x_cells x) (nn cell) with
                        | Some (UOpen pos size _) =>
                            if strict then XLFault (Dyn DynOpenWrite) else
                            match xsget_range base x s size with
                            | None => XLFault StackReadOOB
                            | Some vs =>
                                (* copy_within(range, upper_base + pos) inside the stack *)
                                if c_base cl + pos + size <=? lenN (x_stack x)
                                then XNext 1 (xset_stack x (wr_range 0%Z (x_stack x) (c_base cl + pos) vs)) fl
                                else XLFault (Dyn DynUpvalue)
                            end
                        | Some (UClosed uv isc) =>
                            if lenN uv =? n
                            then XNext 1 (set_cells x (upd_nth (x_cells x) (nn cell) (UClosed v isc))) fl
                            else XLFault (Dyn DynUpvalue)
                        | None => XLFault (Dyn DynHandle)
                        end
                    end
                end
            end
        end
    | XBoxAlloc d s n =>
        match xsget_range base x s n with
        | None => XLFault StackReadOOB
        | Some vs =>
            let (h', hk) := sm_insert (x_heap x) (mkHobj 1 vs) in
            XNext 1 (xsput base (set_heap x h') d [rawk hk]) fl
        end
    | XBoxLoad d s n =>
        match xsget base x s with
        | None => XLFault StackReadOOB
        | Some v =>
            match sm_get (x_heap x) (kraw v) with
            | None => XLFault (Dyn DynHandle)
            | Some o => if n <=? lenN (h_data o) then XNext 1 (xsput base x d (firstn (nn n) (h_data o))) fl
                        else XLFault (Dyn DynHandle)
            end
        end
    | XBoxClone s =>
        match xsget base x s with
        | None => XLFault StackReadOOB
        | Some v => XNext 1 (set_heap x (hretain (x_heap x) (kraw v))) fl
        end
    | XBoxRelease s =>
        match xsget base x s with
        | None => XLFault StackReadOOB
        | Some v => XNext 1 (set_heap x (hrelease (x_heap x) (kraw v))) fl
        end
    | XBoxStore d s n =>
        match xsget base x d, xsget_range base x s n with
        | Some v, Some vs =>
            match sm_get (x_heap x) (kraw v) with
            | None => XLFault (Dyn DynHandle)
            | Some o => if n <=? lenN (h_data o)
                        then XNext 1 (set_heap x (sm_set (x_heap x) (kraw v) (mkHobj (h_rc o) (vs ++ skipn (nn n) (h_data o))))) fl
                        else XLFault (Dyn DynHandle)
            end
        | _, _ => XLFault StackReadOOB
        end
    | XAllocArr d len es =>
        let (a', key) := arr_alloc (x_arr x) es (repeat 0%Z (nn (len * es))) in
        XNext 1 (xsput base (set_arr x a') d [key]) fl
    | XOld _ | XCallCls _ _ _ | XCallInd _ _ _ | XGetArr _ _ _ | XSetArr _ _ _ => XLUnsup UnsupInstr
    end.

  (* strict: the array's elem_word_size is the width the annotation gives for this program counter *)
  Definition ew_ok (hint : option N) (ew : N) : bool :=
    if strict then match hint with Some w => ew =? w | None => false end else true.

  (* GetArrayElem(dst, arr, idx): the element (elem_word_size words, a run-time fact) is written at dst; the index is
     clamped to the array (`as i64` saturates, then clamp(0, len - 1)) *)
  Definition xgetarr (hint : option N) (base d ar i : N) (x : xmach) (fl : flocal) : xlres :=
    match xsget base x ar, xsget base x i with
    | Some aw, Some iw =>
        match arr_get (x_arr x) aw with
        | None => XLFault (Dyn DynHandle)
        | Some adata =>
            match arr_len adata with
            | None => XLFault (Dyn DynHandle)
            | Some len =>
                if negb (ew_ok hint (ar_ew adata)) then XLFault (Dyn DynElemWidth) else
                if len =? 0 then
                  (* an empty array reads as the zero element *)
                  XNext 1 (xsput base x d (repeat 0%Z (nn (ar_ew adata)))) fl
                else
                  let idx := Z.to_N (clampZ (a_trunc A iw) 0 (Z.of_N (len - 1))) in
                  match rd_range (ar_data adata) (idx * ar_ew adata) (ar_ew adata) with
                  | Some vs => XNext 1 (xsput base x d vs) fl
                  | None => XLFault (Dyn DynHandle)
                  end
            end
        end
    | _, _ => XLFault StackReadOOB
    end.

  (* SetArrayElem(arr, idx, val): elem_word_size words are read at val *)
  Definition xsetarr (hint : option N) (base ar i v : N) (x : xmach) (fl : flocal) : xlres :=
    match xsget base x ar, xsget base x i with
    | Some aw, Some iw =>
        match arr_get (x_arr x) aw with
        | None => XLFault (Dyn DynHandle)
        | Some adata =>
            match arr_len adata with
            | None => XLFault (Dyn DynHandle)
            | Some len =>
                if negb (ew_ok hint (ar_ew adata)) then XLFault (Dyn DynElemWidth) else
                if len =? 0 then XNext 1 x fl                       (* nothing to write into an empty array *)
                else
                  let idx := Z.to_N (clampZ (a_trunc A iw) 0 (Z.of_N (len - 1))) in
                  match xsget_range base x v (ar_ew adata) with
                  | None => XLFault StackReadOOB
                  | Some vs =>
                      if idx * ar_ew adata + ar_ew adata <=? lenN (ar_data adata)
                      then XNext 1 (set_arr x (sm_set (x_arr x) (kffi aw)
                                                 (mkArr (ar_ew adata) (wr_range 0%Z (ar_data adata) (idx * ar_ew adata) vs)))) fl
                      else XLFault (Dyn DynHandle)
                  end
            end
        end
    | _, _ => XLFault StackReadOOB
    end.

  (* an instruction of Bvm/Model.v on the view of the current activation *)
  Definition xlocal (f : fn) (base : N) (u : uop) (x : xmach) (fl : flocal) : xlres :=
    match cur_store x with
    | None =>
        if uses_state u then XLFault (Dyn DynHandle)                (* get_closure_mut of a stale key *)
        else match lstep A p f base u (view x (0, [])) with
             | LNext inc m' => XNext inc (put_view x m') fl
             | LFault e => XLFault e
             | LUnsup e => XLUnsup e
             end
    | Some s =>
        match lstep A p f base u (view x s) with
        | LNext inc m' => XNext inc (put_view x m') fl
        | LFault e => XLFault e
        | LUnsup e => XLUnsup e
        end
    end.

  (* what an indirect callee is: (function, closure to run in).  CallIndirect tries a heap-backed closure, a direct
     closure key (from_ffi), then a plain function index. *)
  Definition callee_cls (x : xmach) (v : Z) : option (N * option key) :=
    match sm_get (x_cls x) (kraw v) with Some cl => Some (c_fn cl, Some (kraw v)) | None => None end.

  Definition callee_ind (x : xmach) (v : Z) : option (N * option key) :=
    let via_heap :=
      match sm_get (x_heap x) (kraw v) with
      | Some o => match h_data o with c :: _ => if sm_contains (x_cls x) (kraw c) then Some (kraw c) else None | [] => None end
      | None => None
      end in
    match via_heap with
    | Some c => match sm_get (x_cls x) c with Some cl => Some (c_fn cl, Some c) | None => None end
    | None =>
        if sm_contains (x_cls x) (kffi v)
        then match sm_get (x_cls x) (kffi v) with Some cl => Some (c_fn cl, Some (kffi v)) | None => None end
        else if Z.to_N v <? lenN (p_funs p) then Some (Z.to_N v, None) else None
    end.

  (* the checks of the instrumented semantics at an indirect call (the real VM makes none of them) *)
  Definition strict_ok (x : xmach) (g : N) (c : option key) (nargs nret : N) : option dynfault :=
    if strict then
      match rd1 (p_funs p) g with
      | None => None
      | Some gf =>
          if negb ((f_pwords gf <=? nargs) && (nret =? f_nret gf)) then Some DynSignature
          else match c with
               | Some k => match sm_get (x_cls x) k with
                           | Some cl => if c_pos cl =? 0 then None else Some DynReentry
                           | None => None
                           end
               | None =>
                   (* a plain function: no upvalues, and its state fits what the current storage has left *)
                   match f_up gf with
                   | _ :: _ => Some DynSignature
                   | [] => match cur_store x with
                           | Some s => if fst s + f_ssize gf <=? lenN (snd s) then None else Some DynSignature
                           | None => None
                           end
                   end
               end
      end
    else None.

  (* call_function(fr, nargs, nret_req, execute(g, c)) with states_stack.push / pop around it when the callee is a
     closure; `rec` runs the callee, `cont` the rest of the caller *)
  Definition xcall (rec : N -> option key -> N -> N -> xmach -> flocal -> xoutcome) (cont : xmach -> xoutcome)
      (base : N) (x : xmach) (fr nargs nret_req g : N) (c : option key) : xoutcome :=
    let base' := base + fr + 1 in
    if (nargs =? 0) || (base' + nargs <=? lenN (x_stack x)) then
      let x0 := match c with Some ck => set_ss x (ck :: x_ss x) | None => x end in
      match rec g c base' 0 x0 fl0 with
      | XRet n x1 =>
          let x1' := match c with Some _ => set_ss x1 (tl (x_ss x1)) | None => x1 end in
          if nret_req <=? n then cont (xset_stack x1' (firstn (nn (base' + nret_req)) (x_stack x1')))
          else if (n =? 1) && (nret_req <=? nargs) then XUnsupported UnsupNretFallback
          else XFault BadNret
      | o => o
      end
    else XFault StackReadOOB.

  (* an indirect call: the callee is resolved at run time; the instrumented semantics checks that it fits *)
  Definition xicall (call : N -> N -> N -> N -> option key -> xoutcome) (x : xmach) (fr nargs nret_req : N)
      (callee : option (N * option key)) : xoutcome :=
    match callee with
    | Some (g, c) =>
        match strict_ok x g c nargs nret_req with
        | Some d => XFault (Dyn d)
        | None => call fr nargs nret_req g c
        end
    | None => XFault (Dyn DynHandle)
    end.

  (* plugin/builtin_functins.rs: len (0) split_head (1) split_tail (2) prepend (3) append (4) and the specialisations
     split_head$arityN (11) split_tail$arityN (12) prepend$arityN (13) append$arityN (14); `st` is the stack, `b` the base
     pointer of the builtin's frame.  Every panic of these functions depends on the value of a handle: Dyn DynHandle. *)
  Definition arr_builtin0 (op ew : N) (st : list Z) (b : N) (a : smap arr) : abres :=
    let dyn := ABFault (Dyn DynHandle) in
    let with_arr (w : Z) (k : arr -> N -> abres) : abres :=
      match arr_get a w with
      | None => dyn
      | Some ar => match arr_len ar with None => dyn | Some n => k ar n end
      end in
    let split (head_first : bool) (want : option N) (w : Z) : abres :=
      if (w =? 0)%Z then
        (* the zero handle stands for an uninitialised array-valued state *)
        ABOk (match want with
              | None => [0%Z; 0%Z]
              | Some e => repeat 0%Z (nn e + 1)
              end) a
      else with_arr w (fun ar n =>
        let e := ar_ew ar in
        if match want with Some e' => negb (e =? e') | None => false end then dyn
        else if n =? 0 then dyn
        else
          let d := ar_data ar in
          let cl := (n - 1) * e in
          if head_first then
            let (a', key) := arr_alloc a e (firstn (nn cl) (skipn (nn e) d ++ repeat 0%Z (nn cl))) in
            ABOk (firstn (nn e) d ++ [key]) a'
          else
            let (a', key) := arr_alloc a e (firstn (nn cl) d) in
            ABOk (key :: firstn (nn e) (skipn (nn cl) d)) a') in
    let extend (front : bool) (want : option N) (w : Z) (elems : list Z) : abres :=
      with_arr w (fun ar n =>
        let e := ar_ew ar in
        if negb (e =? match want with Some e' => e' | None => 1 end) then dyn
        else
          let old := firstn (nn (n * e)) (ar_data ar) in
          let (a', key) := arr_alloc a e (if front then elems ++ old else old ++ elems) in
          ABOk [key] a') in
    match op with
    | 0 => match rd1 st b with
           | None => ABFault StackReadOOB
           | Some w => if (w =? 0)%Z then ABOk [a_un A OCastItoF 0%Z] a
                       else with_arr w (fun _ n => ABOk [a_un A OCastItoF (Z.of_N n)] a)
           end
    | 1 => match rd1 st b with None => ABFault StackReadOOB | Some w => split true None w end
    | 2 => match rd1 st b with None => ABFault StackReadOOB | Some w => split false None w end
    | 11 => match rd1 st b with None => ABFault StackReadOOB | Some w => split true (Some ew) w end
    | 12 => match rd1 st b with None => ABFault StackReadOOB | Some w => split false (Some ew) w end
    | 3 => match rd1 st (b + 1), rd1 st b with
           | Some w, Some el => extend true None w [el]
           | _, _ => ABFault StackReadOOB
           end
    | 4 => match rd1 st b, rd1 st (b + 1) with
           | Some w, Some el => extend false None w [el]
           | _, _ => ABFault StackReadOOB
           end
    | 13 => match rd1 st (b + ew), rd_range st b ew with
            | Some w, Some els => extend true (Some ew) w els
            | _, _ => ABFault StackReadOOB
            end
    | 14 => match rd1 st b, rd_range st (b + 1) ew with
            | Some w, Some els => extend false (Some ew) w els
            | _, _ => ABFault StackReadOOB
            end
    | _ => ABFault (Dyn DynHandle)
    end.

  (* the unspecialised split_head / split_tail leave 1 + elem_word_size words; their type promises two: true when the
     array they are about to split has elements of another width than one word *)
  Definition arr_width_bad (op : N) (st : list Z) (b : N) (a : smap arr) : bool :=
    ((op =? 1) || (op =? 2)) &&
    match rd1 st b with
    | Some w => match arr_get a w with Some ar => negb (w =? 0)%Z && negb (ar_ew ar =? 1) | None => false end
    | None => false
    end.

  (* strict: that width is checked *)
  Definition arr_builtin (op ew : N) (st : list Z) (b : N) (a : smap arr) : abres :=
    if strict && arr_width_bad op st b a then ABFault (Dyn DynElemWidth) else arr_builtin0 op ew st b a.

  (* CallExtFun of an array builtin: call_function around it, then the results move one register down *)
  Definition xextcall (f : fn) (base fr nargs nret : N) (x : xmach) (fl : flocal) : xlres :=
    match xsget base x fr with
    | None => XLFault StackReadOOB
    | Some iv =>
        match rd1 (p_ext p) (Z.to_N iv) with
        | Some (ExtArr op ew) =>
            let b := base + fr + 1 in
            if (nargs =? 0) || (b + nargs <=? lenN (x_stack x)) then
              match arr_builtin op ew (x_stack x) b (x_arr x) with
              | ABFault e => XLFault e
              | ABOk rs a' =>
                  if nret <=? lenN rs
                  then XNext 1 (set_arr (xset_stack x (firstn (nn (base + fr)) (x_stack x) ++ firstn (nn nret) rs)) a') fl
                  else if (lenN rs =? 1) && (nret <=? nargs) then XLUnsup UnsupNretFallback
                  else XLFault BadNret
              end
            else XLFault StackReadOOB
        | Some ExtSched =>
            (* SimpleScheduler::schedule_at: get_arg_f64(0), get_arg_raw(1), resolve_closure (get_closure_idx_from_heap:
               heap.get(idx).expect(..), data[0]), the task is queued; no word is returned *)
            let b := base + fr + 1 in
            if (nargs =? 0) || (b + nargs <=? lenN (x_stack x)) then
              match rd1 (x_stack x) b, rd1 (x_stack x) (b + 1) with
              | Some tw, Some hw =>
                  match sm_get (x_heap x) (kraw hw) with
                  | Some (mkHobj _ (c :: _)) =>
                      if nret =? 0
                      then XNext 1 (set_tasks (xset_stack x (firstn (nn (base + fr)) (x_stack x))) (x_tasks x ++ [(tw, c)])) fl
                      else XLFault BadNret
                  | _ => XLFault (Dyn DynHandle)
                  end
              | _, _ => XLFault StackReadOOB
              end
            else XLFault StackReadOOB
        | _ => xlocal f base (UExt fr nargs nret) x fl
        end
    end.

  (* CloneUserSum / ReleaseUserSum: on a type without boxed references as in Bvm/Model.v; else the heap objects the value
     refers to are retained / released *)
  Definition xsumrc (fuel : nat) (i : instr) (f : fn) (base r n t : N) (x : xmach) (fl : flocal) : xlres :=
    match rd1 (p_types p) t with
    | Some false =>
        match rd1 (p_tys p) t with
        | None => XLFault TypeTableOOB
        | Some tyv =>
            match xsget_range base x r n with
            | None => XLFault StackReadOOB
            | Some vs =>
                if is_release i then
                  match sum_release fuel (p_tys p) (x_heap x) tyv vs with
                  | Some h' => XNext 1 (set_heap x h') fl
                  | None => XLFuel
                  end
                else XNext 1 (set_heap x (sum_clone (x_heap x) tyv vs)) fl
            end
        end
    | _ => xlocal f base (USumRc r n t) x fl
    end.

  (* after an instruction that neither calls nor returns: pcounter += increment *)
  Definition xcontinue (rec : N -> xmach -> flocal -> xoutcome) (pc : N) (r : xlres) : xoutcome :=
    match r with
    | XNext inc x' fl' =>
        match next_pc pc inc with
        | Some pc' => rec pc' x' fl'
        | None => XFault JumpOOB
        end
    | XLFault e => XFault e
    | XLUnsup e => XUnsupported e
    | XLFuel => XOutOfFuel
    end.

  (* Machine::execute(fi, ci) from program counter pc with base pointer `base` *)
  Fixpoint xrun (fuel : nat) (fi : N) (ci : option key) (base pc : N) (x : xmach) (fl : flocal) {struct fuel} : xoutcome :=
    match fuel with
    | O => XOutOfFuel
    | S k =>
        match rd1 (p_funs p) fi with
        | None => XFault FnIndexOOB
        | Some f =>
            match rd1 (f_code f) pc with
            | None => XFault JumpOOB
            | Some i =>
                let continue := xcontinue (fun pc' x' fl' => xrun k fi ci base pc' x' fl') pc in
                let call := xcall (xrun k) (fun x' => xrun k fi ci base (pc + 1) x' fl) base x in
                match xdecode i with
                | XOld UUnsupported => XUnsupported UnsupInstr
                | XOld URet0 =>
                    if base =? 0 then XFault BaseUnderflow
                    else scope_exit k (xset_stack x (firstn (nn (base - 1)) (x_stack x))) fl 0
                | XOld (URet r n) =>
                    if base =? 0 then XFault BaseUnderflow
                    else match xsget_range base x r n with
                         | Some vs => scope_exit k (xset_stack x (firstn (nn (base - 1)) (x_stack x) ++ vs)) fl n
                         | None => XFault StackReadOOB
                         end
                | XOld (UCall fr nargs nret_req) =>
                    match xsget base x fr with
                    | None => XFault StackReadOOB
                    | Some fv => call fr nargs nret_req (Z.to_N fv) None
                    end
                | XCallCls fr nargs nret_req =>
                    match xsget base x fr with
                    | None => XFault StackReadOOB
                    | Some fv => xicall call x fr nargs nret_req (callee_cls x fv)
                    end
                | XCallInd fr nargs nret_req =>
                    match xsget base x fr with
                    | None => XFault StackReadOOB
                    | Some fv => xicall call x fr nargs nret_req (callee_ind x fv)
                    end
                | XOld (USumRc r n t) => continue (xsumrc k i f base r n t x fl)
                | XOld (UExt fr nargs nret) => continue (xextcall f base fr nargs nret x fl)
                | XOld u => continue (xlocal f base u x fl)
                | XGetArr d ar ix => continue (xgetarr (ew_hint f pc) base d ar ix x fl)
                | XSetArr ar ix v => continue (xsetarr (ew_hint f pc) base ar ix v x fl)
                | o => continue (xstep f base ci o x fl)
                end
            end
        end
    end.

  (* Machine::execute_main: the initialiser runs on a global state storage of its own; dsp's is put back afterwards *)
  Definition xexec_main (fuel : nat) (x : xmach) : xoutcome :=
    match rd1 (p_funs p) 0 with
    | None => XFault FnIndexOOB
    | Some f =>
        let m := x_core x in
        match xrun fuel 0 None 1 0 (set_core x (mkMach (m_stack m) (m_globals m) 0 (repeat 0%Z (nn (f_ssize f))))) fl0 with
        | XRet n x' => XRet n (set_core x' (mkMach (x_stack x') (m_globals (x_core x')) (m_pos m) (m_state m)))
        | o => o
        end
    end.

  (* VmDspRuntime::set_input then Machine::execute_idx(dsp) *)
  Definition xexec_dsp (fuel : nat) (inputs : list Z) (x : xmach) : xoutcome :=
    match p_dsp p with
    | None => XFault FnIndexOOB
    | Some di =>
        match rd1 (p_funs p) di with
        | None => XFault FnIndexOOB
        | Some f =>
            let m := x_core x in
            let m := match inputs with [] => m | _ => sput 1 m 0 inputs end in
            match f_code f with
            | [] => XRet 0 (set_core x m)
            | _ =>
                let m := set_state m (resize0 (m_state m) (f_ssize f)) in
                let m := match m_stack m with [] => m | _ :: rest => set_stack m (0%Z :: rest) end in
                xrun fuel di None 1 0 (set_core x m) fl0
            end
        end
    end.
End XExec.

(* Machine::new *)
Definition xmach0 (p : program) : xmach := mkX (mach0 p) sm_new sm_new [] [] sm_new [].

(* closures.len(), heap.len() *)
Definition x_ncls (x : xmach) : N := sm_len (x_cls x).
Definition x_nheap (x : xmach) : N := sm_len (x_heap x).

(* a session after main: one dsp call per step (its own arithmetic and input words); stops at the first outcome that is
   not a return *)
Fixpoint xrun_session (p : program) (strict : bool) (fuel : nat) (steps : list (arith * list Z)) (x : xmach) : list xoutcome :=
  match steps with
  | [] => []
  | (A, r) :: rest =>
      match xexec_dsp A p strict fuel r x with
      | XRet n x' => XRet n x' :: xrun_session p strict fuel rest x'
      | o => [o]
      end
  end.
