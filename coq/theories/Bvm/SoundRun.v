(* Bvm/SoundRun.v — soundness of the bytecode verifier: in a program whose every function passes `check_fn`,
   `run` started in a machine state described by the table never faults and never meets an unsupported
   instruction; when it returns, it returns the declared number of words, the state cursor is back at its entry
   value, the storages kept their sizes and the caller's part of the stack is untouched. *)
From Coq Require Import List ZArith NArith Bool Lia Arith.
From Mimium Require Import Bvm.Model Bvm.Verify Bvm.ListLemmas Bvm.SoundAbs Bvm.SoundStep Bvm.SoundFuel.
Import ListNotations.
Local Open Scope N_scope.

Definition prog_ok (p : program) : Prop := forall f, In f (p_funs p) -> check_fn p f (infer p f) = true.

Lemma indices_In : forall A (l : list A) pc, pc < lenN l -> In pc (indices l).
Proof.
  intros A l pc H. unfold indices. replace pc with (N.of_nat (N.to_nat pc)) by lia.
  apply in_map. apply in_seq. unfold lenN in H. lia.
Qed.

(* what a checked table says at a reachable program counter *)
Lemma check_fn_at : forall p f pc a,
  check_fn p f (infer p f) = true -> rd1 (infer p f) pc = Some (Some a) ->
  exists i succs, rd1 (f_code f) pc = Some i /\ flow p f pc a (decode i) = Some succs /\
    forall q a', In (q, a') succs -> exists b, rd1 (infer p f) q = Some (Some b) /\ sub a' b = true.
Proof.
  intros p f pc a Hck Hpc. unfold check_fn in Hck.
  apply andb_true_iff in Hck. destruct Hck as [Hck Hall]. apply andb_true_iff in Hck. destruct Hck as [Hlen _].
  apply N.eqb_eq in Hlen. rewrite forallb_forall in Hall.
  assert (Hlt : pc < lenN (f_code f)) by (rewrite <- Hlen; eapply rd1_Some; eauto).
  specialize (Hall pc (indices_In _ _ _ Hlt)). unfold check_at in Hall. rewrite Hpc in Hall.
  destruct (rd1 (f_code f) pc) as [i|] eqn:Ei; [|discriminate].
  destruct (flow p f pc a (decode i)) as [succs|] eqn:Efl; [|discriminate].
  exists i, succs. split; [reflexivity|]. split; [exact Efl|].
  intros q a' Hin. rewrite forallb_forall in Hall. specialize (Hall (q, a') Hin). cbn [fst snd] in Hall.
  destruct (rd1 (infer p f) q) as [[b|]|]; try discriminate. exists b. auto.
Qed.

Lemma check_fn_entry : forall p f, check_fn p f (infer p f) = true ->
  exists a0, rd1 (infer p f) 0 = Some (Some a0) /\ sub (entry f) a0 = true.
Proof.
  intros p f Hck. unfold check_fn in Hck.
  apply andb_true_iff in Hck. destruct Hck as [Hck _]. apply andb_true_iff in Hck. destruct Hck as [_ Hent].
  destruct (infer p f) as [|[a0|] T]; try discriminate. exists a0. split; [reflexivity|exact Hent].
Qed.

Lemma firstn_le_eq : forall A (l1 l2 : list A) c c2,
  firstn c2 l1 = firstn c2 l2 -> (c <= c2)%nat -> firstn c l1 = firstn c l2.
Proof.
  intros A l1 l2 c c2 H Hc.
  replace c with (Nat.min c c2) by lia. rewrite <- !firstn_firstn. rewrite H. reflexivity.
Qed.

Lemma conc_entry : forall base p0 g m,
  (f_pwords g = 0 \/ base + f_pwords g <= lenN (m_stack m)) -> m_pos m = p0 -> conc base p0 (entry g) m.
Proof.
  intros base p0 g m Hs Hp. split; [exact Hs|]. split; [intros r k Hl; discriminate|]. cbn [entry a_pos]. lia.
Qed.

Definition ret_ok (p : program) (f : fn) (base p0 : N) (m : mach) (o : outcome) : Prop :=
  match o with
  | Fault _ => False
  | Unsupported _ => False
  | OutOfFuel => True
  | Ret n m' =>
      n = f_nret f /\ m_pos m' = p0 /\ lenN (m_state m') = lenN (m_state m) /\
      lenN (m_globals m') = p_gsize p /\ lenN (m_stack m') = base - 1 + n /\
      firstn (nn (base - 1)) (m_stack m') = firstn (nn (base - 1)) (m_stack m)
  end.

Section Run.
  Variable A : arith.
  Variable p : program.
  Hypothesis Hok : prog_ok p.
  (* any cost assignment; the second half of the theorem applies when it passes `term_ok` *)
  Variable C : list N.

  Theorem run_sound_fuel : forall fuel fi f base pc m a p0,
    rd1 (p_funs p) fi = Some f -> rd1 (infer p f) pc = Some (Some a) ->
    conc base p0 a m -> finv p f base p0 m ->
    ret_ok p f base p0 m (run A p fuel fi base pc m) /\
    (term_ok p C = true -> need C f (infer p f) pc <= N.of_nat fuel -> run A p fuel fi base pc m <> OutOfFuel).
  Proof.
    induction fuel as [|k IH]; intros fi f base pc m a p0 Hfi Hpc Hc Hf.
    { split; [exact I|]. intros _ Hn. exfalso.
      assert (Hck : check_fn p f (infer p f) = true) by (apply Hok; eapply rd1_In; eauto).
      destruct (check_fn_at _ _ _ _ Hck Hpc) as (i & succs & Hi & _).
      pose proof (need_pos C f (infer p f) pc ltac:(eapply rd1_Some; eauto)). cbn in Hn. lia. }
    assert (Hck : check_fn p f (infer p f) = true) by (apply Hok; eapply rd1_In; eauto).
    destruct (check_fn_at _ _ _ _ Hck Hpc) as (i & succs & Hi & Hflow & Hsucc).
    assert (Hlt : pc < lenN (f_code f)) by (eapply rd1_Some; eauto).
    assert (Hfwd : term_ok p C = true -> forall q a', In (q, a') succs -> pc < q).
    { intros Ht q a' Hin. eapply term_fn_fwd; eauto. eapply term_ok_fn; eauto. }
    assert (Hahead : forall q, pc < q -> need C f (infer p f) pc <= N.of_nat (S k) -> need C f (infer p f) q <= N.of_nat k).
    { intros q Hq Hn. pose proof (need_step C f (infer p f) pc q Hlt Hq). pose proof (wcost_pos C f (infer p f) pc). lia. }
    cbn [run]. rewrite Hfi, Hi.
    assert (Hlocal : forall u, decode i = u -> local u ->
              let R := match lstep A p f base u m with
                       | LNext inc m' => match next_pc pc inc with
                                         | Some pc' => run A p k fi base pc' m'
                                         | None => Fault JumpOOB
                                         end
                       | LFault x => Fault x
                       | LUnsup x => Unsupported x
                       end in
              ret_ok p f base p0 m R /\
              (term_ok p C = true -> need C f (infer p f) pc <= N.of_nat (S k) -> R <> OutOfFuel)).
    { intros u Eu Hloc R. subst R. rewrite Eu in Hflow.
      destruct (lstep_sound A p f base p0 pc a u m succs Hflow Hloc Hc Hf)
        as (inc & m' & pc' & a' & E1 & E2 & E3 & E4 & E5 & E6 & E7).
      rewrite E1, E2. destruct (Hsucc _ _ E3) as (b & Hb & Hsub).
      assert (Hc' : conc base p0 b m') by (eapply conc_sub; eauto).
      destruct (IH fi f base pc' m' b p0 Hfi Hb Hc' E5) as [IHa IHb]. split.
      - destruct (run A p k fi base pc' m') as [n m''| | |]; cbn [ret_ok] in *; auto.
        destruct IHa as (R1 & R2 & R3 & R4 & R5 & R6). repeat split; auto; congruence.
      - intros Ht Hn. apply IHb; [exact Ht|]. apply Hahead; [eapply Hfwd; eauto|exact Hn]. }
    destruct (decode i) as [d s|d c|d v|d s n|o d x y|o d x|fr nargs nret|fr nargs nret| |r n|off|c off|s t|d g n|g s n|d n|s n|q|q|d s t|d s|r n t|] eqn:Eu;
      try (apply (Hlocal _ eq_refl I)).
    - (* UCall *)
      cbn [flow] in Hflow.
      destruct (alookup (a_regs a) fr) as [kf|] eqn:El; [|discriminate].
      destruct (rd1 (p_funs p) (Z.to_N kf)) as [g|] eqn:Eg; [|discriminate].
      match type of Hflow with (if ?c then _ else _) = _ => destruct c eqn:Econd; [|discriminate] end.
      inversion Hflow; subst succs. clear Hflow.
      apply andb_true_iff in Econd. destruct Econd as [Econd Hss]. apply N.leb_le in Hss.
      apply andb_true_iff in Econd. destruct Econd as [Econd Hnr]. apply N.eqb_eq in Hnr.
      apply andb_true_iff in Econd. destruct Econd as [Econd Hpw]. apply N.leb_le in Hpw.
      apply andb_true_iff in Econd. destruct Econd as [Hrd Hargs].
      rewrite (alookup_sget _ _ _ _ _ _ Hc El).
      pose proof (rdok_spec _ _ _ _ _ _ Hc Hrd) as Hfr.
      assert (Hh : a_h a <> 0) by (eapply rdok_nonzero; eauto).
      assert (Hlen : base + a_h a <= lenN (m_stack m)) by (destruct Hc as ([Hc|Hc] & _); [contradiction|exact Hc]).
      assert (Hsnap : (nargs =? 0) || (base + fr + 1 + nargs <=? lenN (m_stack m)) = true).
      { apply orb_true_iff in Hargs. destruct Hargs as [Hz|Hle]; apply orb_true_iff; [left; exact Hz|right].
        apply N.leb_le in Hle. apply N.leb_le. lia. }
      rewrite Hsnap.
      assert (Hpos : m_pos m = p0 + a_pos a) by apply Hc.
      (* fuel: the weight of this instruction covers the callee *)
      assert (Hw : wcost C f (infer p f) pc = 1 + cost_of C (Z.to_N kf)).
      { unfold wcost, callee_at. rewrite Hpc, Hi, Eu, El. reflexivity. }
      assert (Hcallee_fuel : term_ok p C = true -> need C f (infer p f) pc <= N.of_nat (S k) ->
                             need C g (infer p g) 0 <= N.of_nat k).
      { intros Ht Hn. pose proof (term_fn_cost _ _ _ _ (term_ok_fn _ _ _ _ Ht Eg)).
        pose proof (need_step C f (infer p f) pc (pc + 1) Hlt ltac:(lia)). lia. }
      destruct Hf as (F1 & F2 & F3 & F4).
      (* the callee *)
      assert (Hckg : check_fn p g (infer p g) = true) by (apply Hok; eapply rd1_In; eauto).
      destruct (check_fn_entry _ _ Hckg) as (a0 & Ha0 & Hsub0).
      assert (Hcg : conc (base + fr + 1) (m_pos m) a0 m).
      { eapply conc_sub; [|exact Hsub0]. apply conc_entry; [|reflexivity].
        apply orb_true_iff in Hargs. destruct Hargs as [Hz|Hle]; [apply N.eqb_eq in Hz; left; lia|].
        apply N.leb_le in Hle. destruct (N.eq_dec (f_pwords g) 0); [left; assumption|right; lia]. }
      assert (Hfg : finv p g (base + fr + 1) (m_pos m) m) by (unfold finv; repeat split; auto; lia).
      destruct (IH (Z.to_N kf) g (base + fr + 1) 0 m a0 (m_pos m) Eg Ha0 Hcg Hfg) as [Hcallee Hcfuel].
      destruct (run A p k (Z.to_N kf) (base + fr + 1) 0 m) as [n m1| | |] eqn:Ecal; cbn [ret_ok] in Hcallee; try contradiction.
      2:{ split; [exact I|]. intros Ht Hn. exfalso. apply (Hcfuel Ht); [apply Hcallee_fuel; assumption|reflexivity]. }
      destruct Hcallee as (C1 & C2 & C3 & C4 & C5 & C6).
      subst n. subst nret. set (n := f_nret g) in *.
      cbv beta iota. rewrite N.leb_refl.
      replace (base + fr + 1 - 1) with (base + fr) in * by lia.
      assert (Hid : firstn (nn (base + fr + 1 + n)) (m_stack m1) = m_stack m1).
      { apply firstn_all_ge. unfold lenN, nn in *. lia. }
      rewrite Hid.
      assert (Hm2 : set_stack m1 (m_stack m1) = m1) by (destruct m1; reflexivity). rewrite Hm2.
      (* continue after the call *)
      destruct (Hsucc (pc + 1) (acall a fr n) (or_introl eq_refl)) as (b & Hb & Hsubb).
      assert (Hc1 : conc base p0 b m1).
      { eapply conc_sub; [|exact Hsubb]. split; [|split]; cbn [acall a_h a_regs a_pos].
        - right. lia.
        - intros r k' Hl. apply alookup_abelow_Some in Hl. destruct Hl as [Hl Hlt'].
          destruct Hc as (_ & Hr & _). specialize (Hr r k' Hl). rewrite rd1_nth_error in *.
          rewrite <- Hr. apply (firstn_eq_nth_error _ _ _ (nn (base + fr))); [exact C6|unfold nn; lia].
        - lia. }
      assert (Hf1 : finv p f base p0 m1) by (unfold finv; repeat split; auto; lia).
      destruct (IH fi f base (pc + 1) m1 b p0 Hfi Hb Hc1 Hf1) as [IHa IHb]. split.
      + destruct (run A p k fi base (pc + 1) m1) as [n' m'| | |]; cbn [ret_ok] in *; auto.
        destruct IHa as (R1 & R2 & R3 & R4 & R5 & R6). repeat split; auto; try congruence.
        rewrite R6. apply (firstn_le_eq _ _ _ _ (nn (base + fr))); [exact C6|unfold nn; lia].
      + intros Ht Hn. apply IHb; [exact Ht|]. apply Hahead; [lia|exact Hn].
    - (* URet0 *)
      cbn [flow] in Hflow.
      match type of Hflow with (if ?c then _ else _) = _ => destruct c eqn:Econd; [|discriminate] end.
      apply andb_true_iff in Econd. destruct Econd as [Hp0 Hnr]. apply N.eqb_eq in Hp0. apply N.eqb_eq in Hnr.
      destruct Hf as (F1 & F2 & F3 & F4). destruct (N.eqb_spec base 0); [lia|].
      split; [|intros _ _; discriminate].
      cbn [ret_ok set_stack m_stack m_pos m_state m_globals].
      assert (Hpos : m_pos m = p0 + a_pos a) by apply Hc.
      repeat split; auto; try lia.
      + rewrite lenN_firstn. lia.
      + rewrite firstn_firstn. rewrite Nat.min_id. reflexivity.
    - (* URet *)
      cbn [flow] in Hflow.
      match type of Hflow with (if ?c then _ else _) = _ => destruct c eqn:Econd; [|discriminate] end.
      apply andb_true_iff in Econd. destruct Econd as [Econd Hnr]. apply N.eqb_eq in Hnr.
      apply andb_true_iff in Econd. destruct Econd as [Hrd Hp0]. apply N.eqb_eq in Hp0.
      destruct (rdok_sget_range _ _ _ _ _ _ Hc Hrd) as (vs & Hvs & Hn).
      destruct Hf as (F1 & F2 & F3 & F4). destruct (N.eqb_spec base 0); [lia|]. rewrite Hvs.
      split; [|intros _ _; discriminate].
      cbn [ret_ok set_stack m_stack m_pos m_state m_globals].
      assert (Hpos : m_pos m = p0 + a_pos a) by apply Hc.
      repeat split; auto; try lia.
      + rewrite lenN_app, lenN_firstn. lia.
      + apply firstn_firstn_app; unfold nn, lenN in *; lia.
    - (* UUnsupported *)
      cbn [flow] in Hflow. discriminate.
  Qed.
End Run.

(* the two halves separately *)
Theorem run_sound : forall A p, prog_ok p -> forall fuel fi f base pc m a p0,
  rd1 (p_funs p) fi = Some f -> rd1 (infer p f) pc = Some (Some a) ->
  conc base p0 a m -> finv p f base p0 m ->
  ret_ok p f base p0 m (run A p fuel fi base pc m).
Proof. intros A p Hok fuel fi f base pc m a p0 H1 H2 H3 H4. exact (proj1 (run_sound_fuel A p Hok [] fuel fi f base pc m a p0 H1 H2 H3 H4)). Qed.

Theorem run_enough_fuel : forall A p C, prog_ok p -> term_ok p C = true -> forall fuel fi f base pc m a p0,
  rd1 (p_funs p) fi = Some f -> rd1 (infer p f) pc = Some (Some a) ->
  conc base p0 a m -> finv p f base p0 m ->
  need C f (infer p f) pc <= N.of_nat fuel -> run A p fuel fi base pc m <> OutOfFuel.
Proof.
  intros A p C Hok Ht fuel fi f base pc m a p0 H1 H2 H3 H4 Hn.
  exact (proj2 (run_sound_fuel A p Hok C fuel fi f base pc m a p0 H1 H2 H3 H4) Ht Hn).
Qed.
