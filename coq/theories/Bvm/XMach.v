(* Bvm/XMach.v — the extended machine of Bvm/XModel.v: keys, upvalue cells, closures, heap objects, arrays, the machine
   record, and the operations that need neither the program nor the arithmetic (heap.rs heap_retain / heap_release,
   the resolution of closure references, clone_usersum_recursive / release_usersum_recursive, ArrayStorage).
   Definitions only; see the header of Bvm/XModel.v. *)
From Coq Require Import List ZArith NArith Bool.
(* Heap.Model first: Bvm.Model's `mach`, `outcome`, `OutOfFuel` are the ones meant below *)
From Mimium Require Import Heap.Model.
From Mimium Require Import Bvm.Model.
Import ListNotations.
Local Open Scope N_scope.

(* Machine::get_as::<ClosureIdx / HeapIdx>(w) and to_value(key): transmute of KeyData { idx: u32, version } *)
Definition kraw (w : Z) : key := key_of_raw (Z.to_N w).
Definition rawk (k : key) : Z := Z.of_N (raw_of_key k).
(* KeyData::from_ffi / as_ffi (CallIndirect's second attempt, ArrayStorage): index low, version high and forced odd *)
Definition kffi (w : Z) : key := mkKey (N.land (Z.to_N w) 4294967295) (N.lor (N.shiftr (Z.to_N w) 32) 1).
Definition ffik (k : key) : Z := Z.of_N (N.lor (N.shiftl (kver k) 32) (kidx k)).

(* vm.rs UpValue: Open(OpenUpValue { pos, size, is_closure }) | Closed(Vec<RawVal>, is_closure) *)
Inductive upval := UOpen (pos size : N) (isc : bool) | UClosed (vs : list Z) (isc : bool).

(* vm.rs Closure { fn_proto_pos, base_ptr, is_closed, refcount, upvalues, state_storage { pos, rawdata } } *)
Record clos := mkClos { c_fn : N; c_base : N; c_closed : bool; c_rc : N; c_upv : list N; c_pos : N; c_data : list Z }.
(* heap.rs HeapObject { refcount, data } *)
Record hobj := mkHobj { h_rc : N; h_data : list Z }.
(* vm.rs ArrayHeap { elem_word_size, data } *)
Record arr := mkArr { ar_ew : N; ar_data : list Z }.

(* Machine: stack, global_vals, global_states (= the `mach` of Bvm/Model.v), closures, heap, the upvalue cells,
   states_stack, arrays; `x_tasks` is NOT part of Machine: the (time word, closure word) pairs `_mimium_schedule_at` has
   handed to the scheduler plugin (SimpleScheduler's task queue), oldest first; nothing in the model reads it *)
Record xmach := mkX { x_core : mach; x_cls : smap clos; x_heap : smap hobj; x_cells : list upval;
                      x_ss : list key; x_arr : smap arr; x_tasks : list (Z * Z) }.

Definition set_core (x : xmach) (m : mach) : xmach := mkX m (x_cls x) (x_heap x) (x_cells x) (x_ss x) (x_arr x) (x_tasks x).
Definition set_cls (x : xmach) (c : smap clos) : xmach := mkX (x_core x) c (x_heap x) (x_cells x) (x_ss x) (x_arr x) (x_tasks x).
Definition set_heap (x : xmach) (h : smap hobj) : xmach := mkX (x_core x) (x_cls x) h (x_cells x) (x_ss x) (x_arr x) (x_tasks x).
Definition set_cells (x : xmach) (c : list upval) : xmach := mkX (x_core x) (x_cls x) (x_heap x) c (x_ss x) (x_arr x) (x_tasks x).
Definition set_ss (x : xmach) (s : list key) : xmach := mkX (x_core x) (x_cls x) (x_heap x) (x_cells x) s (x_arr x) (x_tasks x).
Definition set_arr (x : xmach) (a : smap arr) : xmach := mkX (x_core x) (x_cls x) (x_heap x) (x_cells x) (x_ss x) a (x_tasks x).
Definition set_tasks (x : xmach) (t : list (Z * Z)) : xmach := mkX (x_core x) (x_cls x) (x_heap x) (x_cells x) (x_ss x) (x_arr x) t.

Definition x_stack (x : xmach) : list Z := m_stack (x_core x).
Definition xset_stack (x : xmach) (s : list Z) : xmach := set_core x (set_stack (x_core x) s).

(* the locals of one `execute` activation: local_closures, local_heap_closures, upv_map (register, cell) *)
Record flocal := mkFl { fl_lc : list key; fl_lh : list key; fl_um : list (N * N) }.
Definition fl0 : flocal := mkFl [] [] [].

Definition c_set_rc (c : clos) (rc : N) : clos := mkClos (c_fn c) (c_base c) (c_closed c) rc (c_upv c) (c_pos c) (c_data c).
Definition c_set_closed (c : clos) : clos := mkClos (c_fn c) (c_base c) true (c_rc c) (c_upv c) (c_pos c) (c_data c).
Definition c_set_state (c : clos) (pos : N) (d : list Z) : clos :=
  mkClos (c_fn c) (c_base c) (c_closed c) (c_rc c) (c_upv c) pos d.

(* ---------- the current state storage ---------- *)
(* get_current_state: global_states when states_stack is empty, else the storage of the closure last pushed
   (get_closure_mut: None = the key is stale) *)
Definition cur_store (x : xmach) : option (N * list Z) :=
  match x_ss x with
  | [] => Some (m_pos (x_core x), m_state (x_core x))
  | c :: _ => match sm_get (x_cls x) c with Some cl => Some (c_pos cl, c_data cl) | None => None end
  end.

(* what one activation sees: stack, globals and a state storage *)
Definition view (x : xmach) (s : N * list Z) : mach :=
  mkMach (m_stack (x_core x)) (m_globals (x_core x)) (fst s) (snd s).

(* write a view back: stack, globals, and the current storage where it lives *)
Definition put_view (x : xmach) (m : mach) : xmach :=
  match x_ss x with
  | [] => set_core x m
  | c :: _ =>
      let x1 := set_core x (mkMach (m_stack m) (m_globals m) (m_pos (x_core x)) (m_state (x_core x))) in
      match sm_get (x_cls x) c with
      | Some cl => set_cls x1 (sm_set (x_cls x) c (c_set_state cl (m_pos m) (m_state m)))
      | None => x1
      end
  end.

Definition uses_state (u : uop) : bool :=
  match u with UGetState _ _ | USetState _ _ | UPush _ | UPop _ | UDelay _ _ _ | UMem _ _ => true | _ => false end.

(* ---------- heap.rs ---------- *)
(* heap_retain (an invalid index only logs a warning) *)
Definition hretain (h : smap hobj) (k : key) : smap hobj :=
  match sm_get h k with Some o => sm_set h k (mkHobj (h_rc o + 1) (h_data o)) | None => h end.
(* heap_release: decrement, remove at 0 *)
Definition hrelease (h : smap hobj) (k : key) : smap hobj :=
  match sm_get h k with
  | Some o =>
      let h1 := sm_set h k (mkHobj (h_rc o - 1) (h_data o)) in
      if h_rc o - 1 =? 0 then fst (sm_remove h1 k) else h1
  | None => h
  end.

(* ---------- the instructions of the closure layer ---------- *)
Inductive xop : Type :=
| XOld (u : uop)                      (* an instruction of Bvm/Model.v *)
| XClosure (d f : N) | XClose (s : N) | XCallCls (f nargs nret : N)
| XMakeHeap (d f : N) | XCloseHeap (s : N) | XCloneHeap (s : N) | XCallInd (f nargs nret : N)
| XGetUp (d i : N) | XSetUp (i s n : N)
| XBoxAlloc (d s n : N) | XBoxLoad (d s n : N) | XBoxClone (s : N) | XBoxRelease (s : N) | XBoxStore (d s n : N)
| XAllocArr (d len es : N) | XGetArr (d a i : N) | XSetArr (a i v : N).

Definition xdecode (i : instr) : xop :=
  match i with
  | Closure d f => XClosure d f | Close s => XClose s | CallCls f a r => XCallCls f a r
  | MakeHeapClosure d f _ => XMakeHeap d f | CloseHeapClosure s => XCloseHeap s | CloneHeap s => XCloneHeap s
  | CallIndirect f a r => XCallInd f a r
  | GetUpValue d i _ => XGetUp d i | SetUpValue i s n => XSetUp i s n
  | BoxAlloc d s n => XBoxAlloc d s n | BoxLoad d s n => XBoxLoad d s n | BoxClone s => XBoxClone s
  | BoxRelease s => XBoxRelease s | BoxStore d s n => XBoxStore d s n
  | AllocArray d l e => XAllocArr d l e | GetArrayElem d a i => XGetArr d a i | SetArrayElem a i v => XSetArr a i v
  | _ => XOld (decode i)
  end.

(* result of an operation of the closure layer that may panic *)
Inductive dres := DOk (x : xmach) | DFault (f : fault) | DFuel.

Inductive xlres := XNext (inc : Z) (x : xmach) (fl : flocal) | XLFault (f : fault) | XLUnsup (u : unsup) | XLFuel.

Inductive xoutcome := XRet (n : N) (x : xmach) | XFault (f : fault) | XOutOfFuel | XUnsupported (u : unsup).

(* l[i] := v *)
Fixpoint upd_nth {T} (l : list T) (i : nat) (v : T) : list T :=
  match l, i with
  | [], _ => []
  | _ :: r, O => v :: r
  | a :: r, S j => a :: upd_nth r j v
  end.

(* try_get_heap_backed_closure(raw).or_else(try_get_direct_closure(raw)): (Some heap_idx, closure) | (None, closure) *)
Definition resolve1 (x : xmach) (raw : Z) : option (option key * key) :=
  let direct := if sm_contains (x_cls x) (kraw raw) then Some (None, kraw raw) else None in
  match sm_get (x_heap x) (kraw raw) with
  | Some o => match h_data o with c :: _ => Some (Some (kraw raw), kraw c) | [] => direct end
  | None => direct
  end.

Fixpoint resolve_all (x : xmach) (raws : list Z) : list (option key * key) :=
  match raws with
  | [] => []
  | r :: rest => match resolve1 x r with Some e => e :: resolve_all x rest | None => resolve_all x rest end
  end.

(* drop_closure's `filter_map(Closed(data, true) => Some(data[0]))` over the cells of a closure; None = data[0] panics *)
Fixpoint closed_refs (cells : list upval) (upv : list N) : option (list Z) :=
  match upv with
  | [] => Some []
  | ci :: rest =>
      match closed_refs cells rest with
      | None => None
      | Some more =>
          match nth_error cells (nn ci) with
          | Some (UClosed (v :: _) true) => Some (v :: more)
          | Some (UClosed [] true) => None
          | _ => Some more
          end
      end
  end.

(* ---------- vm.rs ArrayStorage ---------- *)
(* alloc_array(len, elem_size): zero filled; the register gets key.data().as_ffi() *)
Definition arr_alloc (a : smap arr) (ew : N) (data : list Z) : smap arr * Z :=
  let (a', k) := sm_insert a (mkArr ew data) in (a', ffik k).
(* get_array(raw): data.get(from_ffi(raw)) *)
Definition arr_get (a : smap arr) (w : Z) : option arr := sm_get a (kffi w).
(* get_length_array: data.len() / elem_word_size (None: division by zero) *)
Definition arr_len (ar : arr) : option N := if ar_ew ar =? 0 then None else Some (lenN (ar_data ar) / ar_ew ar).
(* f64::is_finite on a bit pattern *)
Definition is_finite_bits (w : Z) : bool := negb ((Z.shiftr w 52 mod 2048 =? 2047)%Z).

(* result of an array builtin: the words it leaves at the base of its frame (the count is what it returns) and the
   arrays afterwards *)
Inductive abres := ABOk (rs : list Z) (ar : smap arr) | ABFault (f : fault).

(* ---------- boxed references inside sum-typed values ---------- *)
(* clone_usersum_recursive: heap_retain of every boxed reference the value holds *)
Fixpoint sum_clone (h : smap hobj) (t : ty) (data : list Z) {struct t} : smap hobj :=
  match t with
  | TPrim => h
  | TBoxed _ | TAlias _ => match data with v :: _ => hretain h (kraw v) | [] => h end
  | TSum _ vs =>
      match data with
      | [] => h
      | tag :: payload =>
          if Z.to_N tag <? lenN vs then
            (fix pick (vs : list (option ty)) (i : nat) {struct vs} : smap hobj :=
               match vs, i with
               | Some pt :: _, O => sum_clone h pt payload
               | _ :: r, S j => pick r j
               | _, _ => h
               end) vs (N.to_nat (Z.to_N tag))
          else h
      end
  | TTuple es =>
      (fix go (es : list (N * ty)) (off : N) (h : smap hobj) {struct es} : smap hobj :=
         match es with
         | [] => h
         | (sz, et) :: r =>
             let h' := if off + sz <=? lenN data then sum_clone h et (firstn (nn sz) (skipn (nn off) data)) else h in
             go r (off + sz) h'
         end) es 0 h
  end.

(* type_table.iter().find(UserSum with this name) *)
Fixpoint find_sum (tys : list ty) (name : N) : option ty :=
  match tys with
  | [] => None
  | TSum n vs :: r => if n =? name then Some (TSum n vs) else find_sum r name
  | _ :: r => find_sum r name
  end.

(* release_usersum_recursive: a box about to lose its last reference releases what it holds first; None = out of fuel *)
Fixpoint sum_release (fuel : nat) (tys : list ty) (h : smap hobj) (t : ty) (data : list Z) {struct fuel} : option (smap hobj) :=
  match fuel with
  | O => None
  | S k =>
      let boxed (inner : option ty) :=
        match data with
        | [] => Some h
        | v :: _ =>
            let idx := kraw v in
            let h1 :=
              match sm_get h idx, inner with
              | Some o, Some it => if h_rc o <=? 1 then sum_release k tys h it (h_data o) else Some h
              | _, _ => Some h
              end in
            match h1 with Some h1 => Some (hrelease h1 idx) | None => None end
        end in
      match t with
      | TPrim => Some h
      | TBoxed inner => boxed (Some inner)
      | TAlias name => boxed (find_sum tys name)
      | TSum _ vs =>
          match data with
          | [] => Some h
          | tag :: payload =>
              match rd1 vs (Z.to_N tag) with
              | Some (Some pt) => sum_release k tys h pt payload
              | _ => Some h
              end
          end
      | TTuple es =>
          (fix go (es : list (N * ty)) (off : N) (h : smap hobj) {struct es} : option (smap hobj) :=
             match es with
             | [] => Some h
             | (sz, et) :: r =>
                 let h' := if off + sz <=? lenN data then sum_release k tys h et (firstn (nn sz) (skipn (nn off) data)) else Some h in
                 match h' with Some h' => go r (off + sz) h' | None => None end
             end) es 0 h
      end
  end.

Definition is_release (i : instr) : bool := match i with ReleaseUserSum _ _ _ => true | _ => false end.

