(* Bvm/SoundStep.v — one instruction that neither calls nor returns: when `flow` accepts it in an abstract state
   that describes the machine, `lstep` does not fault, lands on one of the successors `flow` lists, and the new
   machine state is described by that successor's abstract state. *)
From Coq Require Import List ZArith NArith Bool Lia Arith.
From Mimium Require Import Bvm.Model Bvm.Verify Bvm.ListLemmas Bvm.SoundAbs.
Import ListNotations.
Local Open Scope N_scope.

Ltac bools :=
  repeat match goal with
         | H : (_ && _) = true |- _ => apply andb_true_iff in H; destruct H
         | H : (_ <=? _) = true |- _ => apply N.leb_le in H
         | H : (_ <? _) = true |- _ => apply N.ltb_lt in H
         | H : (_ =? _) = true |- _ => apply N.eqb_eq in H
         end.

Definition local (u : uop) : Prop :=
  match u with UCall _ _ _ | URet0 | URet _ _ | UUnsupported => False | _ => True end.

Definition step_ok (p : program) (f : fn) (base p0 pc : N) (m : mach) (succs : list (N * astate)) (r : lres) : Prop :=
  exists inc m' pc' a',
    r = LNext inc m' /\ next_pc pc inc = Some pc' /\ In (pc', a') succs /\
    conc base p0 a' m' /\ finv p f base p0 m' /\
    firstn (nn (base - 1)) (m_stack m') = firstn (nn (base - 1)) (m_stack m) /\
    lenN (m_state m') = lenN (m_state m).

Section Step.
  Variable A : arith.
  Variable p : program.
  Variable f : fn.
  Variables base p0 pc : N.

  Lemma ok_next : forall m a' m',
    conc base p0 a' m' -> finv p f base p0 m' ->
    firstn (nn (base - 1)) (m_stack m') = firstn (nn (base - 1)) (m_stack m) ->
    lenN (m_state m') = lenN (m_state m) ->
    step_ok p f base p0 pc m [(pc + 1, a')] (LNext 1 m').
  Proof.
    intros m a' m' Hc Hf Hfr Hs. exists 1%Z, m', (pc + 1), a'.
    split; [reflexivity|]. split; [apply next_pc_1|]. split; [left; reflexivity|].
    split; [exact Hc|]. split; [exact Hf|]. split; [exact Hfr|exact Hs].
  Qed.

  Lemma ok_write : forall a m d n vs,
    conc base p0 a m -> finv p f base p0 m -> lenN vs = n ->
    step_ok p f base p0 pc m [(pc + 1, awrite a d n)] (LNext 1 (sput base m d vs)).
  Proof.
    intros a m d n vs Hc Hf Hn. apply ok_next.
    - apply conc_write; assumption.
    - apply finv_sput. assumption.
    - eapply sput_firstn. eassumption.
    - reflexivity.
  Qed.

  Lemma ok_writec : forall a m d k,
    conc base p0 a m -> finv p f base p0 m ->
    step_ok p f base p0 pc m [(pc + 1, awritec a d k)] (LNext 1 (sput base m d [k])).
  Proof.
    intros a m d k Hc Hf. apply ok_next.
    - apply conc_writec; assumption.
    - apply finv_sput. assumption.
    - eapply sput_firstn. eassumption.
    - reflexivity.
  Qed.

  Lemma targets_In : forall a offs l o, targets pc a offs = Some l -> In o offs ->
    exists q, next_pc pc o = Some q /\ In (q, a) l.
  Proof.
    intros a offs. induction offs as [|o1 offs IH]; intros l o H Hin; [destruct Hin|].
    cbn [targets] in H. destruct (next_pc pc o1) as [q1|] eqn:E1; [|discriminate].
    destruct (targets pc a offs) as [l1|] eqn:E2; [|discriminate]. inversion H; subst l. clear H.
    destruct Hin as [->|Hin].
    - exists q1. split; [exact E1|left; reflexivity].
    - destruct (IH l1 o eq_refl Hin) as (q & Hq & Hi). exists q. split; [exact Hq|right; exact Hi].
  Qed.

  Lemma ok_jump : forall a m offs l o,
    conc base p0 a m -> finv p f base p0 m -> targets pc a offs = Some l -> In o offs ->
    step_ok p f base p0 pc m l (LNext o m).
  Proof.
    intros a m offs l o Hc Hf Ht Hin. destruct (targets_In _ _ _ _ Ht Hin) as (q & Hq & Hi).
    exists o, m, q, a.
    split; [reflexivity|]. split; [exact Hq|]. split; [exact Hi|].
    split; [exact Hc|]. split; [exact Hf|]. split; reflexivity.
  Qed.

  Lemma last_In : forall (l : list Z) d, l <> [] -> In (last l d) l.
  Proof.
    induction l as [|x l IH]; intros d Hne; [congruence|].
    destruct l as [|y l]; [left; reflexivity|]. right. apply IH. discriminate.
  Qed.

  (* ---------- the delay line ---------- *)
  Lemma st_put_frame : forall m off vs, m_pos m + off + lenN vs <= lenN (m_state m) ->
    m_stack (st_put m off vs) = m_stack m /\ m_pos (st_put m off vs) = m_pos m /\
    m_globals (st_put m off vs) = m_globals m /\ lenN (m_state (st_put m off vs)) = lenN (m_state m).
  Proof.
    intros m off vs H. unfold st_put, set_state. cbn. repeat split. rewrite wr_range_length. lia.
  Qed.

  Lemma wr_range_length_inplace' : forall l i vs, i + lenN vs <= lenN l -> lenN (wr_range 0%Z l i vs) = lenN l.
  Proof. intros. rewrite wr_range_length. lia. Qed.

  Lemma st_put3_frame : forall m o1 v1 o2 v2 o3 v3,
    m_pos m + o1 + 1 <= lenN (m_state m) -> m_pos m + o2 + 1 <= lenN (m_state m) ->
    m_pos m + o3 + 1 <= lenN (m_state m) ->
    let m' := st_put (st_put (st_put m o1 [v1]) o2 [v2]) o3 [v3] in
    m_stack m' = m_stack m /\ m_pos m' = m_pos m /\ m_globals m' = m_globals m /\
    lenN (m_state m') = lenN (m_state m).
  Proof.
    intros m o1 v1 o2 v2 o3 v3 H1 H2 H3 m'. subst m'.
    destruct (st_put_frame m o1 [v1]) as (A1 & A2 & A3 & A4); [change (lenN [v1]) with 1; lia|].
    destruct (st_put_frame (st_put m o1 [v1]) o2 [v2]) as (B1 & B2 & B3 & B4);
      [change (lenN [v2]) with 1; rewrite A2, A4; lia|].
    destruct (st_put_frame (st_put (st_put m o1 [v1]) o2 [v2]) o3 [v3]) as (C1 & C2 & C3 & C4);
      [change (lenN [v3]) with 1; rewrite B2, B4, A2, A4; lia|].
    repeat split; congruence.
  Qed.

  Lemma delay_step_frame : forall m len x t res m',
    delay_step A m len x t = Some (res, m') ->
    m_stack m' = m_stack m /\ m_pos m' = m_pos m /\ m_globals m' = m_globals m /\
    lenN (m_state m') = lenN (m_state m).
  Proof.
    intros m len x t res m' H. unfold delay_step in H.
    destruct (N.leb_spec (m_pos m + 2 + len) (lenN (m_state m))) as [Hb|Hb]; [|discriminate].
    destruct (N.eqb_spec len 0) as [Hz|Hz]; [injection H as _ Hm; subst m'; auto|].
    cbv zeta in H. injection H as _ Hm. subst m'.
    match goal with |- context [Z.to_N (?X mod Z.of_N len)] =>
      pose proof (Z.mod_pos_bound X (Z.of_N len) ltac:(lia)) as Hw; set (w := (X mod Z.of_N len)%Z) in * end.
    clearbody w. apply st_put3_frame; lia.
  Qed.

  Lemma delay_step_ok : forall m len x t, m_pos m + 2 + len <= lenN (m_state m) ->
    exists res m', delay_step A m len x t = Some (res, m').
  Proof.
    intros m len x t H. unfold delay_step. destruct (N.leb_spec (m_pos m + 2 + len) (lenN (m_state m))); [|lia].
    destruct (len =? 0); eauto.
  Qed.

  Lemma finv_same : forall m m', m_stack m' = m_stack m -> lenN (m_state m') = lenN (m_state m) ->
    lenN (m_globals m') = lenN (m_globals m) -> finv p f base p0 m -> finv p f base p0 m'.
  Proof. intros m m' H1 H2 H3 (F1 & F2 & F3 & F4). unfold finv. rewrite H1, H2, H3. auto. Qed.

  (* ---------- the theorem of this file ---------- *)
  Lemma lstep_sound : forall a u m succs,
    flow p f pc a u = Some succs -> local u -> conc base p0 a m -> finv p f base p0 m ->
    step_ok p f base p0 pc m succs (lstep A p f base u m).
  Proof.
    intros a u m succs Hflow Hloc Hc Hf.
    destruct u; cbn [local] in Hloc; try contradiction; cbn [flow] in Hflow; cbn [lstep].
    - (* UMove *)
      destruct (rdok a s 1) eqn:Er; [|discriminate]. inversion Hflow; subst succs. clear Hflow.
      destruct (rdok_sget _ _ _ _ _ Hc Er) as [v Hv].
      destruct (alookup (a_regs a) s) as [k|] eqn:El; cbn [awrite_opt].
      + rewrite (alookup_sget _ _ _ _ _ _ Hc El). apply ok_writec; assumption.
      + rewrite Hv. apply ok_write; auto.
    - (* UConst *)
      destruct (rd1 (f_consts f) c) as [k|]; [|discriminate]. inversion Hflow; subst succs.
      apply ok_writec; assumption.
    - (* UImm *)
      inversion Hflow; subst succs. apply ok_write; auto.
    - (* UMoveRange *)
      destruct (rdok a s n) eqn:Er; [|discriminate]. inversion Hflow; subst succs.
      destruct (rdok_sget_range _ _ _ _ _ _ Hc Er) as (vs & Hvs & Hn). rewrite Hvs. apply ok_write; auto.
    - (* UBin *)
      destruct (rdok a a0 1) eqn:Er1; [|discriminate]. destruct (rdok a b 1) eqn:Er2; [|discriminate].
      cbn [andb] in Hflow. inversion Hflow; subst succs.
      destruct (rdok_sget _ _ _ _ _ Hc Er1) as [x Hx]. destruct (rdok_sget _ _ _ _ _ Hc Er2) as [y Hy].
      rewrite Hx, Hy. apply ok_write; auto.
    - (* UUn *)
      destruct (rdok a a0 1) eqn:Er1; [|discriminate]. inversion Hflow; subst succs.
      destruct (rdok_sget _ _ _ _ _ Hc Er1) as [x Hx]. rewrite Hx. apply ok_write; auto.
    - (* UExt *)
      rename f0 into fr.
      destruct (alookup (a_regs a) fr) as [k|] eqn:El; [|discriminate].
      destruct (rd1 (p_ext p) (Z.to_N k)) as [[code arity| |aop aew|]|] eqn:Ee; try discriminate.
      match type of Hflow with (if ?c then _ else _) = _ => destruct c eqn:Econd; [|discriminate] end.
      inversion Hflow; subst succs. clear Hflow.
      apply andb_true_iff in Econd. destruct Econd as [Econd Hnret].
      apply andb_true_iff in Econd. destruct Econd as [Econd Har].
      apply andb_true_iff in Econd. destruct Econd as [Hrd Hargs].
      apply N.leb_le in Hnret. apply N.leb_le in Har.
      rewrite (alookup_sget _ _ _ _ _ _ Hc El), Ee.
      pose proof (rdok_spec _ _ _ _ _ _ Hc Hrd) as Hfr.
      assert (Hh : a_h a <> 0) by (eapply rdok_nonzero; eauto).
      assert (Hlen : base + a_h a <= lenN (m_stack m)) by (destruct Hc as ([Hc|Hc] & _); [contradiction|exact Hc]).
      assert (Hsnap : (nargs =? 0) || (base + fr + 1 + nargs <=? lenN (m_stack m)) = true).
      { apply orb_true_iff in Hargs. destruct Hargs as [Hz|Hle]; apply orb_true_iff; [left; exact Hz|right].
        apply N.leb_le in Hle. apply N.leb_le. lia. }
      rewrite Hsnap.
      assert (Hargs' : base + fr + 1 + arity <= lenN (m_stack m)).
      { apply orb_true_iff in Hargs. destruct Hargs as [Hz|Hle]; [apply N.eqb_eq in Hz; lia|apply N.leb_le in Hle; lia]. }
      destruct (rd_range_ok _ (m_stack m) (base + fr + 1) arity Hargs') as [args Hargsv]. rewrite Hargsv.
      destruct Hf as (F1 & F2 & F3 & F4).
      assert (Hpre : forall t, firstn (nn (base - 1)) (firstn (nn (base + fr)) (m_stack m) ++ t) = firstn (nn (base - 1)) (m_stack m)).
      { intros t. apply firstn_firstn_app; unfold nn, lenN in *; lia. }
      assert (Hregs : forall t, regs_ok base (abelow (a_regs a) fr) (firstn (nn (base + fr)) (m_stack m) ++ t)).
      { intros t r k' Hl. apply alookup_abelow_Some in Hl. destruct Hl as [Hl Hlt].
        apply rd1_firstn_app; [|lia]. destruct Hc as (_ & Hr & _). apply Hr. exact Hl. }
      assert (Hcases : nret = 1 \/ nret = 0) by lia. destruct Hcases as [-> | ->]; cbn [N.eqb Pos.eqb].
      + apply ok_next.
        * split; [|split]; cbn [acall a_h a_regs a_pos set_stack m_stack m_pos].
          -- right. rewrite lenN_app, lenN_firstn. change (lenN [_]) with 1. lia.
          -- apply Hregs.
          -- apply Hc.
        * unfold finv. cbn [set_stack m_stack m_state m_globals]. rewrite lenN_app, lenN_firstn. change (lenN [_]) with 1.
          repeat split; auto; lia.
        * cbn [set_stack m_stack]. apply Hpre.
        * reflexivity.
      + apply ok_next.
        * split; [|split]; cbn [acall a_h a_regs a_pos set_stack m_stack m_pos].
          -- right. rewrite lenN_firstn. lia.
          -- rewrite <- (app_nil_r (firstn _ _)). apply Hregs.
          -- apply Hc.
        * unfold finv. cbn [set_stack m_stack m_state m_globals]. rewrite lenN_firstn. repeat split; auto; lia.
        * cbn [set_stack m_stack]. rewrite <- (app_nil_r (firstn (nn (base + fr)) _)). apply Hpre.
        * reflexivity.
    - (* UJmp *)
      eapply ok_jump; eauto. left. reflexivity.
    - (* UJmpIfNeg *)
      destruct (rdok a c 1) eqn:Er; [|discriminate].
      destruct (rdok_sget _ _ _ _ _ Hc Er) as [v Hv]. rewrite Hv.
      eapply ok_jump; eauto. destruct (a_truthy A v); [left|right; left]; reflexivity.
    - (* UJmpTable *)
      destruct (rdok a s 1) eqn:Er; [|discriminate].
      destruct (rdok_sget _ _ _ _ _ Hc Er) as [v Hv]. rewrite Hv.
      destruct (rd1 (f_jt f) t) as [tb|]; [|discriminate].
      destruct (jt_offsets tb) as [|o0 rest] eqn:Eo; [discriminate|].
      eapply ok_jump; eauto.
      match goal with |- In (if ?c then _ else _) _ => destruct c eqn:Ec end.
      + apply nth_In. apply andb_true_iff in Ec. destruct Ec as [Ec0 Ec1]. apply Z.leb_le in Ec0. apply Z.ltb_lt in Ec1. lia.
      + apply last_In. discriminate.
    - (* UGetGlobal *)
      destruct (N.leb_spec (g + n) (p_gsize p)) as [Hg|Hg]; [|discriminate]. inversion Hflow; subst succs.
      assert (Hgl : g + n <= lenN (m_globals m)) by (destruct Hf as (_ & _ & _ & F4); lia).
      destruct (rd_range_ok _ (m_globals m) g n Hgl) as [vs Hvs]. rewrite Hvs.
      apply ok_write; auto. apply rd_range_Some in Hvs. tauto.
    - (* USetGlobal *)
      match type of Hflow with (if ?c then _ else _) = _ => destruct c eqn:Econd; [|discriminate] end.
      inversion Hflow; subst succs. apply andb_true_iff in Econd. destruct Econd as [Er Hg]. apply N.leb_le in Hg.
      destruct (rdok_sget_range _ _ _ _ _ _ Hc Er) as (vs & Hvs & Hn). rewrite Hvs.
      assert (Hgl : g + n <= lenN (m_globals m)) by (destruct Hf as (_ & _ & _ & F4); lia).
      destruct (N.leb_spec (g + n) (lenN (m_globals m))); [|lia].
      apply ok_next; try reflexivity.
      + eapply conc_same; [| |exact Hc]; reflexivity.
      + eapply finv_same; [| | |exact Hf]; try reflexivity. cbn [set_globals m_globals].
        apply wr_range_length_inplace'. lia.
    - (* UGetState *)
      destruct (N.leb_spec (a_pos a + n) (f_ssize f)) as [Hg|Hg]; [|discriminate]. inversion Hflow; subst succs.
      assert (Hpos : m_pos m = p0 + a_pos a) by apply Hc.
      assert (Hsl : m_pos m + n <= lenN (m_state m)) by (destruct Hf as (_ & _ & F3 & _); lia).
      unfold st_get. destruct (rd_range_ok _ (m_state m) (m_pos m) n Hsl) as [vs Hvs]. rewrite Hvs.
      apply ok_write; auto. apply rd_range_Some in Hvs. tauto.
    - (* USetState *)
      match type of Hflow with (if ?c then _ else _) = _ => destruct c eqn:Econd; [|discriminate] end.
      inversion Hflow; subst succs. apply andb_true_iff in Econd. destruct Econd as [Er Hg]. apply N.leb_le in Hg.
      destruct (rdok_sget_range _ _ _ _ _ _ Hc Er) as (vs & Hvs & Hn). rewrite Hvs.
      assert (Hpos : m_pos m = p0 + a_pos a) by apply Hc.
      assert (Hsl : m_pos m + n <= lenN (m_state m)) by (destruct Hf as (_ & _ & F3 & _); lia).
      destruct (N.leb_spec (m_pos m + n) (lenN (m_state m))); [|lia].
      destruct (st_put_frame m 0 vs) as (S1 & S2 & S3 & S4); [lia|].
      apply ok_next; try (rewrite S1; reflexivity); try exact S4.
      + eapply conc_same; [exact S1|exact S2|exact Hc].
      + eapply finv_same; [exact S1|exact S4|rewrite S3; reflexivity|exact Hf].
    - (* UPush *)
      inversion Hflow; subst succs.
      assert (Hpos : m_pos m = p0 + a_pos a) by apply Hc.
      replace (m_pos m + k) with (p0 + (a_pos a + k)) by lia.
      apply ok_next; try reflexivity.
      + apply conc_pos. exact Hc.
      + eapply finv_same; [| | |exact Hf]; reflexivity.
    - (* UPop *)
      destruct (N.leb_spec k (a_pos a)) as [Hk|Hk]; [|discriminate]. inversion Hflow; subst succs.
      assert (Hpos : m_pos m = p0 + a_pos a) by apply Hc.
      destruct (N.leb_spec k (m_pos m)); [|lia].
      replace (m_pos m - k) with (p0 + (a_pos a - k)) by lia.
      apply ok_next; try reflexivity.
      + apply conc_pos. exact Hc.
      + eapply finv_same; [| | |exact Hf]; reflexivity.
    - (* UDelay *)
      destruct (alookup (a_regs a) d) as [sz|] eqn:El; [|discriminate].
      match type of Hflow with (if ?c then _ else _) = _ => destruct c eqn:Econd; [|discriminate] end.
      inversion Hflow; subst succs. clear Hflow.
      apply andb_true_iff in Econd. destruct Econd as [Econd Hsz]. apply N.leb_le in Hsz.
      apply andb_true_iff in Econd. destruct Econd as [Econd Erd].
      apply andb_true_iff in Econd. destruct Econd as [Ers Ert].
      destruct (rdok_sget _ _ _ _ _ Hc Ers) as [x Hx]. destruct (rdok_sget _ _ _ _ _ Hc Ert) as [tv Htv].
      rewrite Hx, Htv, (alookup_sget _ _ _ _ _ _ Hc El).
      assert (Hpos : m_pos m = p0 + a_pos a) by apply Hc.
      assert (Hsl : m_pos m + 2 + Z.to_N sz <= lenN (m_state m)) by (destruct Hf as (_ & _ & F3 & _); lia).
      destruct (delay_step_ok m (Z.to_N sz) x tv Hsl) as (res & m' & Hd). rewrite Hd.
      destruct (delay_step_frame _ _ _ _ _ _ Hd) as (D1 & D2 & D3 & D4).
      assert (Hc' : conc base p0 a m') by (eapply conc_same; [exact D1|exact D2|exact Hc]).
      assert (Hf' : finv p f base p0 m') by (eapply finv_same; [exact D1|exact D4|rewrite D3; reflexivity|exact Hf]).
      destruct (ok_write a m' d 1 [res] Hc' Hf' eq_refl) as (inc & m2 & pc' & a' & E1 & E2 & E3 & E4 & E5 & E6 & E7).
      exists inc, m2, pc', a'.
      split; [exact E1|]. split; [exact E2|]. split; [exact E3|]. split; [exact E4|]. split; [exact E5|].
      split; congruence.
    - (* UMem *)
      match type of Hflow with (if ?c then _ else _) = _ => destruct c eqn:Econd; [|discriminate] end.
      inversion Hflow; subst succs. apply andb_true_iff in Econd. destruct Econd as [Er Hg]. apply N.leb_le in Hg.
      destruct (rdok_sget _ _ _ _ _ Hc Er) as [x Hx]. rewrite Hx.
      assert (Hpos : m_pos m = p0 + a_pos a) by apply Hc.
      assert (Hsl : m_pos m + 1 <= lenN (m_state m)) by (destruct Hf as (_ & _ & F3 & _); lia).
      unfold st_get. destruct (rd_range_ok _ (m_state m) (m_pos m) 1 Hsl) as [vs Hvs]. rewrite Hvs.
      destruct (rd_range_one _ _ _ _ Hvs) as [old ->].
      set (m1 := sput base m d [old]).
      assert (Hc1 : conc base p0 (awrite a d 1) m1) by (apply conc_write; auto).
      assert (Hf1 : finv p f base p0 m1) by (apply finv_sput; exact Hf).
      destruct (st_put_frame m1 0 [x]) as (S1 & S2 & S3 & S4); [change (lenN [x]) with 1; cbn [m1 sput set_stack m_pos m_state]; lia|].
      apply ok_next.
      + eapply conc_same; [exact S1|exact S2|exact Hc1].
      + eapply finv_same; [exact S1|exact S4|rewrite S3; reflexivity|exact Hf1].
      + rewrite S1. eapply sput_firstn. exact Hf.
      + rewrite S4. reflexivity.
    - (* USumRc *)
      destruct (rd1 (p_types p) t) as [[|]|]; try discriminate.
      destruct (rdok a r n) eqn:Er; [|discriminate]. inversion Hflow; subst succs.
      destruct (rdok_sget_range _ _ _ _ _ _ Hc Er) as (vs & Hvs & Hn). rewrite Hvs.
      apply ok_next; auto.
  Qed.
End Step.
