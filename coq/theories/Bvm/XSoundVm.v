(* Bvm/XSoundVm.v — what the soundness of Bvm/XVerify.v says about the TRANSCRIPTION of vm.rs (Bvm/XModel.v with
   strict = false, the semantics the check runs against the real VM): soundness of the instrumented semantics
   (Bvm/XSoundTop.v) and the agreement of the two semantics (Bvm/XBridge.v) combined.  On accepted bytecode either one of
   the checks only the instrumentation makes fires (DynSignature, DynReentry, DynOpenWrite, DynCellWidth, DynElemWidth), or
   the transcription itself returns as declared / runs out of fuel / stops with a fault of the dynamic class. *)
From Coq Require Import List ZArith NArith Bool Lia Arith.
From Mimium Require Import Heap.Model.
From Mimium Require Import Bvm.Model Bvm.Verify Bvm.SoundTop.
From Mimium Require Import Bvm.XModel Bvm.XVerify Bvm.XInv Bvm.XSoundTop Bvm.XBridge.
Import ListNotations.
Local Open Scope N_scope.

Theorem xexec_dsp_vm_safe : forall (p : program), xverify p = true ->
  forall (A : arith) (fuel : nat) (inputs : list Z) (x : xmach) (f : fn),
  dsp_fn p = Some f -> xminv p x -> f_pwords f <= lenN inputs ->
  (exists d, xexec_dsp A p true fuel inputs x = XFault (Dyn d) /\ strict_only d = true) \/
  match xexec_dsp A p false fuel inputs x with
  | XRet n x' => n = f_nret f /\ lenN (x_stack x') = f_nret f /\ lenN (m_state (x_core x')) = f_ssize f /\ xminv p x'
  | XOutOfFuel => True
  | XFault e => is_dyn e = true
  | XUnsupported _ => False
  end.
Proof.
  intros p Hv A fuel inputs x f Hd Hm Hin.
  destruct (xexec_dsp_agree A p fuel inputs x) as [Hs|E]; [left; exact Hs|right].
  rewrite E. exact (xexec_dsp_safe p Hv A fuel inputs x f Hd Hm Hin).
Qed.

Theorem xexec_main_vm_safe : forall (p : program), xverify p = true ->
  forall (A : arith) (fuel : nat),
  (exists d, xexec_main A p true fuel (xmach0 p) = XFault (Dyn d) /\ strict_only d = true) \/
  match xexec_main A p false fuel (xmach0 p) with
  | XRet n x' => xminv p x' /\ lenN (x_stack x') = n
  | XOutOfFuel => True
  | XFault e => is_dyn e = true
  | XUnsupported _ => False
  end.
Proof.
  intros p Hv A fuel.
  destruct (xexec_main_agree A p fuel (xmach0 p)) as [Hs|E]; [left; exact Hs|right].
  rewrite E. exact (xexec_main_fresh_safe p Hv A fuel).
Qed.
