(* Lmmx/Examples.v — concrete closure programs evaluated by the reference semantics (the corpus cases of the same names
   in corpus/lmmx/cases.json run on the real backends). *)
From Coq Require Import List ZArith NArith Bool.
From Mimium Require Import Lmmm.Syntax Lmmm.Ref Lmmm.Examples Lmmx.Syntax Lmmx.Ref Lmmx.Conserv Lmmx.ConservProg Lmmx.MatchSelf.
Import ListNotations.
Local Open Scope N_scope.

(* | | { c = c + step ; c } *)
Definition counter_lam (c : ident) (step : Z) : xexpr :=
  XLam [] (XSeq (XAssign c (XBin OAdd (XVar c) (XLit step))) (XVar c)).

(* fn f1(){ let v2 = 0  | | { v2 = v2 + 1  v2 } }   let v3 = f1()   fn dsp(){ v3() } *)
Definition ex_counter : xprogram :=
  mkXProg [GFun 1 [] (XLet (PVar 2) (XLit 0) (counter_lam 2 1)); GLet (PVar 3) (XApp (XVar 1) [])]
          [] [] [XApp (XVar 3) []].

(* two counters made by one maker are independent (finding W9: not so on the WASM backend) *)
Definition ex_two_counters : xprogram :=
  mkXProg [GFun 1 [] (XLet (PVar 2) (XLit 0) (counter_lam 2 1)); GLet (PVar 3) (XApp (XVar 1) []); GLet (PVar 4) (XApp (XVar 1) [])]
          [] [] [XBin OAdd (XBin OMul (XApp (XVar 3) []) (XLit 100)) (XApp (XVar 4) [])].

(* fn f1(){ self + 1 }  fn f2(v3){ | | { v3() + v3() } }  let v4 = f2(f1)  let v5 = f2(f1)  fn dsp(){ v4() * 100 + v5() } *)
Definition ex_hof_stateful : xprogram :=
  mkXProg [GFun 1 [] (XBin OAdd XSelf (XLit 1));
           GFun 2 [(3, None)] (XLam [] (XBin OAdd (XApp (XVar 3) []) (XApp (XVar 3) [])));
           GLet (PVar 4) (XApp (XVar 2) [XVar 1]); GLet (PVar 5) (XApp (XVar 2) [XVar 1])]
          [] [] [XBin OAdd (XBin OMul (XApp (XVar 4) []) (XLit 100)) (XApp (XVar 5) [])].

(* the same stateful function passed on every sample: the instance is new every sample (finding X4: not so on WASM) *)
Definition ex_instance_per_sample : xprogram :=
  mkXProg [GFun 1 [] (XBin OAdd XSelf (XLit 1)); GFun 2 [(3, None)] (XApp (XVar 3) [])]
          [] [] [XApp (XVar 2) [XVar 1]].

(* an assignment from a lambda two levels down reaches the variable (finding X1: lost on both backends) *)
Definition ex_nested_assign : xprogram :=
  mkXProg [] [] []
    [XLet (PVar 1) (XLit 0)
       (XLet (PVar 2) (XLam [] (XLet (PVar 3) (counter_lam 1 1) (XApp (XVar 3) [])))
          (XLet (PVar 4) (XApp (XVar 2) []) (XBin OAdd (XBin OMul (XVar 4) (XLit 10)) (XVar 1))))].

(* a closure passed as an argument keeps sharing the variable with its frame (finding X2: not so on the VM) *)
Definition ex_shared_after_passing : xprogram :=
  mkXProg [GFun 9 [(8, None)] (XApp (XVar 8) [])] [] []
    [XLet (PVar 1) (XLit 0) (XLet (PVar 2) (counter_lam 1 1)
       (XLet (PVar 3) (XApp (XVar 9) [XVar 2]) (XLet (PVar 4) (XVar 1) (XLet (PVar 5) (XApp (XVar 2) []) (XLet (PVar 6) (XVar 1)
          (XBin OAdd (XBin OAdd (XBin OMul (XVar 3) (XLit 1000)) (XBin OMul (XVar 4) (XLit 100)))
                     (XBin OAdd (XBin OMul (XVar 5) (XLit 10)) (XVar 6))))))))].

(* fn f2(v3, v4 = 7){ v3 * 10 + v4 }   fn dsp(){ (f2({v3 = 1}), f2({v3 = 2, v4 = 5}), 3 |> (|v5| v5 + 100)) } *)
Definition ex_defaults_pipe : xprogram :=
  mkXProg [GFun 2 [(3, None); (4, Some (XLit 7))] (XBin OAdd (XBin OMul (XVar 3) (XLit 10)) (XVar 4))] [] []
    [XCallNamed 2 [(3, XLit 1)]; XCallNamed 2 [(3, XLit 2); (4, XLit 5)]; XPipe (XLit 3) (XLam [5] (XBin OAdd (XVar 5) (XLit 100)))].

Definition rows4 : list (list Z) := [[]; []; []; []].

Lemma ex_counter_run : xrun 20 ex_counter rows4 = Ok [[1]; [2]; [3]; [4]]%Z.
Proof. vm_compute. reflexivity. Qed.
Lemma ex_two_counters_run : xrun 20 ex_two_counters rows4 = Ok [[101]; [202]; [303]; [404]]%Z.
Proof. vm_compute. reflexivity. Qed.
Lemma ex_hof_stateful_run : xrun 20 ex_hof_stateful rows4 = Ok [[303]; [707]; [1111]; [1515]]%Z.
Proof. vm_compute. reflexivity. Qed.
Lemma ex_instance_per_sample_run : xrun 20 ex_instance_per_sample rows4 = Ok [[1]; [1]; [1]; [1]]%Z.
Proof. vm_compute. reflexivity. Qed.
Lemma ex_nested_assign_run : xrun 20 ex_nested_assign [[]] = Ok [[11]]%Z.
Proof. vm_compute. reflexivity. Qed.
Lemma ex_shared_after_passing_run : xrun 20 ex_shared_after_passing [[]] = Ok [[1122]]%Z.
Proof. vm_compute. reflexivity. Qed.
Lemma ex_defaults_pipe_run : xrun 20 ex_defaults_pipe [[]] = Ok [[17; 25; 103]]%Z.
Proof. vm_compute. reflexivity. Qed.

(* an instance of conservativity: the Lmmm example program, embedded, gives the stream of Lmmm's reference semantics *)
Lemma ex_embed_prog2_run :
  xrun 30 (embed_prog ex_prog2) [[1]; [2]; [3]; [4]]%Z = Ok [[0; 1]; [1; 5]; [4; 12]; [9; 20]]%Z /\
  option_map fst (ref_run ex_prog2 0 [[1]; [2]; [3]; [4]]%Z st0) = Some [[0; 1]; [1; 5]; [4; 12]; [9; 20]]%Z.
Proof. vm_compute. split; reflexivity. Qed.

(* too little fuel is reported as such, never as a wrong answer *)
Lemma ex_counter_fuel : xrun 2 ex_counter rows4 = OutOfFuel.
Proof. vm_compute. reflexivity. Qed.

(* ---- sum types, match, wide self (the corpus cases of the same names run on the real backends) ---- *)
(* type T = K0((float, float)) | K1(float) | K2        (self of f1 starts as K0((0, 0)))
   fn f1(x) -> T { let p = match self { K0((a, b)) => a * 7 + b, K1(a) => a, K2 => 1000 }
                   if (x > 2) K2 else if (x > 0) K1(p + x) else K0((p, x + 1)) }
   fn dsp(){ match f1(now) { K0((a, b)) => a * 7 + b, K1(a) => a, K2 => 1000 } } *)
Definition sh_T : shape := SSum 50 [Some (STup [SNum; SNum]); Some SNum; None].
Definition red_T (e : xexpr) : xexpr :=
  XMatch e [(MCon 0 (Some (PTup [PVar 4; PVar 5])), XBin OAdd (XBin OMul (XVar 4) (XLit 7)) (XVar 5));
            (MCon 1 (Some (PVar 4)), XVar 4); (MCon 2 None, XLit 1000)].
Definition ex_sum_self : xprogram :=
  mkXProg [GFun 1 [(2, None)]
             (XLet (PVar 3) (red_T (XSelfS sh_T))
                (XIf (XBin OGt (XVar 2) (XLit 2)) (XCon 50 2 None)
                   (XIf (XBin OGt (XVar 2) (XLit 0)) (XCon 50 1 (Some (XBin OAdd (XVar 3) (XVar 2))))
                      (XCon 50 0 (Some (XTuple [XVar 3; XBin OAdd (XVar 2) (XLit 1)]))))))]
          [] [] [red_T (XApp (XVar 1) [XNow])].
Lemma ex_sum_self_run : xrun 20 ex_sum_self rows4 = Ok [[1]; [2]; [4]; [1000]]%Z.
Proof. vm_compute. reflexivity. Qed.

(* fn f1(x){ let (a, b) = self  (a + x, b + a) }   fn dsp(){ let (p, q) = f1(1)  p * 100 + q } *)
Definition ex_tuple_self : xprogram :=
  mkXProg [GFun 1 [(2, None)] (XLet (PTup [PVar 3; PVar 4]) (XSelfS (STup [SNum; SNum]))
                                 (XTuple [XBin OAdd (XVar 3) (XVar 2); XBin OAdd (XVar 4) (XVar 3)]))]
          [] [] [XLet (PTup [PVar 5; PVar 6]) (XApp (XVar 1) [XLit 1]) (XBin OAdd (XBin OMul (XVar 5) (XLit 100)) (XVar 6))].
Lemma ex_tuple_self_run : xrun 20 ex_tuple_self rows4 = Ok [[100]; [201]; [303]; [406]]%Z.
Proof. vm_compute. reflexivity. Qed.

(* fn cnt(i){ self + i }   fn dsp(){ match (now - 3 * (now > 2)) { 0 => cnt(1), 1 => 200, _ => cnt(10) } }: each arm keeps its state *)
Definition ex_match_arm_state : xprogram :=
  mkXProg [GFun 1 [(2, None)] (XBin OAdd XSelf (XVar 2))] [] []
    [XMatch (XBin OSub XNow (XBin OMul (XLit 3) (XBin OGt XNow (XLit 2))))
       [(MLit 0, XApp (XVar 1) [XLit 1]); (MLit 1, XLit 200); (MWild, XApp (XVar 1) [XLit 10])]].
Lemma ex_match_arm_state_run :
  xrun 20 ex_match_arm_state [[]; []; []; []; []; []] = Ok [[1]; [200]; [10]; [2]; [200]; [20]]%Z.
Proof. vm_compute. reflexivity. Qed.

(* first-match order: the reference takes the `_` arm (finding M1: the real backends give 10, 20, 30) *)
Definition ex_match_wild_first : xprogram :=
  mkXProg [] [] [] [XMatch XNow [(MWild, XLit 30); (MLit 0, XLit 10); (MLit 1, XLit 20)]].
Lemma ex_match_wild_first_run : xrun 20 ex_match_wild_first [[]; []; []] = Ok [[30]; [30]; [30]]%Z.
Proof. vm_compute. reflexivity. Qed.

(* a match without a matching arm is stuck, not a wrong answer *)
Lemma ex_no_arm_stuck : xrun 20 (mkXProg [] [] [] [XMatch XNow [(MLit 0, XLit 10)]]) [[]; []] = Stuck E_NOMATCH.
Proof. vm_compute. reflexivity. Qed.

(* encoding / decoding of the feedback cell *)
Local Close Scope N_scope.
Lemma ex_dec_enc : Lmmx.Syntax.dec sh_T (Lmmx.Syntax.enc (VCon 0 (VTup [VNum 5; VNum 6]))) = VCon 0 (VTup [VNum 5; VNum 6]) /\
                   has_shape sh_T (VCon 0 (VTup [VNum 5; VNum 6])) /\ Lmmx.Syntax.dec sh_T st0 = VCon 0 (VTup [VNum 0; VNum 0]).
Proof. vm_compute. repeat split. Qed.
