(* Lmmx/Syntax.v — the core language of C02 beyond the first-order fragment Lmmm: tuples, records, let with tuple /
   record patterns, lambda, application of an arbitrary expression, assignment to (captured or local) variables,
   sequencing, pipes, default arguments (named-argument calls), function names used as values.
   Numbers are integers (exactly representable f64 values), as in Lmmm; operators, state cells and the delay
   read function are Lmmm's (Lmmm/Syntax.v, Lmmm/Ref.v).  Definitions only. *)
From Coq Require Import List ZArith NArith Bool.
From Mimium Require Import Lmmm.Syntax Lmmm.Ref.
Import ListNotations.

(* let patterns:  x   _   (p1, .., pn)   {f1 = p1, .., fn = pn} *)
Inductive pat : Type :=
| PVar (x : ident)
| PWild
| PTup (ps : list pat)
| PRec (fs : list (ident * pat)).

Inductive xexpr : Type :=
| XLit (z : Z)
| XVar (x : ident)                       (* a variable, or a function name used as a value *)
| XNow
| XSr
| XSelf
| XBin (op : binop) (a b : xexpr)
| XNeg (a : xexpr)
| XLet (p : pat) (a b : xexpr)            (* let p = a  b   (b sees the binders of p) *)
| XIf (c t e : xexpr)
| XMem (a : xexpr)
| XDelay (n : N) (a t : xexpr)
| XTuple (es : list xexpr)
| XProj (e : xexpr) (i : nat)             (* e.i *)
| XRecord (fs : list (ident * xexpr))     (* fields in CANONICAL order (sorted by field name): the evaluation order *)
| XField (e : xexpr) (f : ident)          (* e.f *)
| XLam (ps : list ident) (body : xexpr)   (* |p1, .., pn| body *)
| XApp (f : xexpr) (args : list xexpr)    (* f(a1, .., an) *)
| XCallNamed (f : ident) (fs : list (ident * xexpr))   (* f({x1 = a1, ..}): missing parameters take their defaults *)
| XPipe (a f : xexpr)                     (* a |> f *)
| XAssign (x : ident) (e : xexpr)         (* x = e *)
| XSeq (a b : xexpr).                     (* a ; b  (newline) *)

(* global declarations, in source order *)
Inductive gdecl : Type :=
| GFun (name : ident) (params : list (ident * option xexpr)) (body : xexpr)   (* fn name(p1, p2 = d2, ..){ body } *)
| GLet (p : pat) (e : xexpr).                                                 (* let p = e   at top level *)

(* fn dsp(inputs){ let p1 = e1 ... ; (out1, ..., outk) }   (same shape as Lmmm.program) *)
Record xprogram := mkXProg {
  x_globals : list gdecl;
  x_inputs : list ident;
  x_lets : list (pat * xexpr);
  x_outs : list xexpr }.

(* ---- values, environment, world ---- *)
Inductive val : Type :=
| VNum (z : Z)
| VTup (vs : list val)
| VRec (fs : list (ident * val))
| VClo (id : nat)                        (* reference to a closure INSTANCE of the world *)
| VUnit.

Inductive binding := BLoc (l : nat) | BFun (k : nat).   (* variable cell of the store / entry of the function table *)
Definition xenv := list (ident * binding).

Fixpoint xlookup (x : ident) (r : xenv) : option binding :=
  match r with
  | [] => None
  | (y, b) :: r' => if N.eqb x y then Some b else xlookup x r'
  end.

(* a closure instance: code, captured environment (variable CELLS, by reference) and the instance's own state *)
Record cinst := mkC { ci_params : list ident; ci_body : xexpr; ci_env : xenv; ci_state : stree }.

(* a named function: parameters with optional defaults, body, the environment at its definition (itself included) *)
Record fentry := mkF { fe_params : list (ident * option xexpr); fe_body : xexpr; fe_env : xenv }.

Record world := mkW { w_vars : list val; w_clos : list cinst }.
Definition w0 : world := mkW [] [].

Inductive res (A : Type) : Type :=
| Ok (a : A)
| OutOfFuel
| Stuck (code : nat).
Arguments Ok {A} a.
Arguments OutOfFuel {A}.
Arguments Stuck {A} code.

(* stuck codes (dynamic type / scope errors; never reached by well-typed programs) *)
Definition E_UNBOUND := 1%nat.
Definition E_NOTNUM := 2%nat.
Definition E_NOTTUP := 3%nat.
Definition E_NOTREC := 4%nat.
Definition E_NOTFUN := 5%nat.
Definition E_ARITY := 6%nat.
Definition E_PAT := 7%nat.
Definition E_ASSIGN := 8%nat.
Definition E_NODEFAULT := 9%nat.
Definition E_DANGLING := 10%nat.

Fixpoint set_nth {A} (l : list A) (i : nat) (v : A) : list A :=
  match l, i with
  | [], _ => []
  | _ :: t, O => v :: t
  | h :: t, S i' => h :: set_nth t i' v
  end.

Fixpoint rlookup {A} (f : ident) (fs : list (ident * A)) : option A :=
  match fs with
  | [] => None
  | (g, v) :: fs' => if N.eqb f g then Some v else rlookup f fs'
  end.

Definition alloc (v : val) (w : world) : nat * world :=
  (length (w_vars w), mkW (w_vars w ++ [v]) (w_clos w)).

Definition new_inst (c : cinst) (w : world) : nat * world :=
  (length (w_clos w), mkW (w_vars w) (w_clos w ++ [c])).

(* bind the binders of a pattern to fresh cells holding the corresponding parts of the value (call by value: copies) *)
Fixpoint bind_pat (p : pat) (v : val) (r : xenv) (w : world) {struct p} : res (xenv * world) :=
  match p with
  | PVar x => let '(l, w') := alloc v w in Ok ((x, BLoc l) :: r, w')
  | PWild => Ok (r, w)
  | PTup ps =>
      match v with
      | VTup vs =>
          (fix go (ps : list pat) (vs : list val) (r : xenv) (w : world) : res (xenv * world) :=
             match ps, vs with
             | [], [] => Ok (r, w)
             | p :: ps', v :: vs' =>
                 match bind_pat p v r w with
                 | Ok (r', w') => go ps' vs' r' w'
                 | OutOfFuel => OutOfFuel
                 | Stuck c => Stuck c
                 end
             | _, _ => Stuck E_PAT
             end) ps vs r w
      | _ => Stuck E_PAT
      end
  | PRec fps =>
      match v with
      | VRec fvs =>
          (fix go (fps : list (ident * pat)) (r : xenv) (w : world) : res (xenv * world) :=
             match fps with
             | [] => Ok (r, w)
             | (f, p) :: fps' =>
                 match rlookup f fvs with
                 | Some v' =>
                     match bind_pat p v' r w with
                     | Ok (r', w') => go fps' r' w'
                     | OutOfFuel => OutOfFuel
                     | Stuck c => Stuck c
                     end
                 | None => Stuck E_PAT
                 end
             end) fps r w
      | _ => Stuck E_PAT
      end
  end.

(* parameters are fresh cells too (a callee may assign its parameters; the caller never sees it);
   as in Lmmm.bind_params the FIRST of two equally named parameters is the visible one *)
Fixpoint bind_params_x (ps : list ident) (vs : list val) (r : xenv) (w : world) : res (xenv * world) :=
  match ps, vs with
  | [], [] => Ok (r, w)
  | p :: ps', v :: vs' =>
      let '(l, w') := alloc v w in
      match bind_params_x ps' vs' r w' with
      | Ok (r', w'') => Ok ((p, BLoc l) :: r', w'')
      | OutOfFuel => OutOfFuel
      | Stuck c => Stuck c
      end
  | _, _ => Stuck E_ARITY
  end.
