(* Lmmx/Syntax.v — the core language of C02 beyond the first-order fragment Lmmm: tuples, records, let with tuple /
   record patterns, lambda, application of an arbitrary expression, assignment to (captured or local) variables,
   sequencing, pipes, default arguments (named-argument calls), function names used as values; user sum types
   (constructor application, `match` with literal / wildcard / constructor / tuple patterns) and `self` of any
   first-order data type (the SHAPE the feedback cell is read at).
   Numbers are integers (exactly representable f64 values), as in Lmmm; operators, state cells and the delay
   read function are Lmmm's (Lmmm/Syntax.v, Lmmm/Ref.v).  Definitions only. *)
From Coq Require Import List ZArith NArith Bool.
From Mimium Require Import Lmmm.Syntax Lmmm.Ref.
Import ListNotations.

(* let patterns:  x   _   (p1, .., pn)   {f1 = p1, .., fn = pn} *)
Inductive pat : Type :=
| PVar (x : ident)
| PWild
| PTup (ps : list pat)
| PRec (fs : list (ident * pat)).

(* first-order data shapes (the type a multi-word `self` is read at): number, tuple, record (fields in canonical order),
   declared sum type (name; per constructor the payload shape, None = no payload; the position is the run-time tag) *)
Inductive shape : Type :=
| SNum
| STup (shs : list shape)
| SRec (fs : list (ident * shape))
| SSum (name : ident) (cs : list (option shape)).

(* match patterns (cst_parser.rs parse_match_pattern):  0  1.0   _   Ctor  Ctor(x)  Ctor(_)  Ctor((x, (y, _)))   (m1, .., mn)
   the payload of a constructor pattern is a BINDING pattern (variables, `_`, tuples of them): it always matches *)
Inductive mpat : Type :=
| MLit (z : Z)
| MWild
| MCon (tag : nat) (p : option pat)
| MTup (ms : list mpat).

Inductive xexpr : Type :=
| XLit (z : Z)
| XVar (x : ident)                       (* a variable, or a function name used as a value *)
| XNow
| XSr
| XSelf
| XBin (op : binop) (a b : xexpr)
| XNeg (a : xexpr)
| XLet (p : pat) (a b : xexpr)            (* let p = a  b   (b sees the binders of p) *)
| XIf (c t e : xexpr)
| XMem (a : xexpr)
| XDelay (n : N) (a t : xexpr)
| XTuple (es : list xexpr)
| XProj (e : xexpr) (i : nat)             (* e.i *)
| XRecord (fs : list (ident * xexpr))     (* fields in CANONICAL order (sorted by field name): the evaluation order *)
| XField (e : xexpr) (f : ident)          (* e.f *)
| XLam (ps : list ident) (body : xexpr)   (* |p1, .., pn| body *)
| XApp (f : xexpr) (args : list xexpr)    (* f(a1, .., an) *)
| XCallNamed (f : ident) (fs : list (ident * xexpr))   (* f({x1 = a1, ..}): missing parameters take their defaults *)
| XPipe (a f : xexpr)                     (* a |> f *)
| XAssign (x : ident) (e : xexpr)         (* x = e *)
| XSeq (a b : xexpr)                      (* a ; b  (newline) *)
| XSelfS (sh : shape)                     (* `self` in a function whose return type has the shape sh (XSelf = XSelfS SNum) *)
| XCon (tn : ident) (tag : nat) (arg : option xexpr)   (* constructor number `tag` of the declared sum type tn:  A   B(e) *)
| XMatch (scrut : xexpr) (arms : list (mpat * xexpr)). (* match scrut { m1 => e1, .. }: the FIRST arm that matches *)

(* global declarations, in source order *)
Inductive gdecl : Type :=
| GFun (name : ident) (params : list (ident * option xexpr)) (body : xexpr)   (* fn name(p1, p2 = d2, ..){ body } *)
| GLet (p : pat) (e : xexpr).                                                 (* let p = e   at top level *)

(* fn dsp(inputs){ let p1 = e1 ... ; (out1, ..., outk) }   (same shape as Lmmm.program) *)
Record xprogram := mkXProg {
  x_globals : list gdecl;
  x_inputs : list ident;
  x_lets : list (pat * xexpr);
  x_outs : list xexpr }.

(* ---- values, environment, world ---- *)
Inductive val : Type :=
| VNum (z : Z)
| VTup (vs : list val)
| VRec (fs : list (ident * val))
| VClo (id : nat)                        (* reference to a closure INSTANCE of the world *)
| VUnit
| VCon (tag : nat) (v : val).            (* value of a sum type: constructor number and payload (VUnit when there is none) *)

Inductive binding := BLoc (l : nat) | BFun (k : nat).   (* variable cell of the store / entry of the function table *)
Definition xenv := list (ident * binding).

Fixpoint xlookup (x : ident) (r : xenv) : option binding :=
  match r with
  | [] => None
  | (y, b) :: r' => if N.eqb x y then Some b else xlookup x r'
  end.

(* a closure instance: code, captured environment (variable CELLS, by reference) and the instance's own state *)
Record cinst := mkC { ci_params : list ident; ci_body : xexpr; ci_env : xenv; ci_state : stree }.

(* a named function: parameters with optional defaults, body, the environment at its definition (itself included) *)
Record fentry := mkF { fe_params : list (ident * option xexpr); fe_body : xexpr; fe_env : xenv }.

Record world := mkW { w_vars : list val; w_clos : list cinst }.
Definition w0 : world := mkW [] [].

Inductive res (A : Type) : Type :=
| Ok (a : A)
| OutOfFuel
| Stuck (code : nat).
Arguments Ok {A} a.
Arguments OutOfFuel {A}.
Arguments Stuck {A} code.

(* stuck codes (dynamic type / scope errors; never reached by well-typed programs) *)
Definition E_UNBOUND := 1%nat.
Definition E_NOTNUM := 2%nat.
Definition E_NOTTUP := 3%nat.
Definition E_NOTREC := 4%nat.
Definition E_NOTFUN := 5%nat.
Definition E_ARITY := 6%nat.
Definition E_PAT := 7%nat.
Definition E_ASSIGN := 8%nat.
Definition E_NODEFAULT := 9%nat.
Definition E_DANGLING := 10%nat.
Definition E_NOMATCH := 11%nat.          (* no arm of a match applies (exhaustiveness is the type checker's business) *)

Fixpoint set_nth {A} (l : list A) (i : nat) (v : A) : list A :=
  match l, i with
  | [], _ => []
  | _ :: t, O => v :: t
  | h :: t, S i' => h :: set_nth t i' v
  end.

Fixpoint rlookup {A} (f : ident) (fs : list (ident * A)) : option A :=
  match fs with
  | [] => None
  | (g, v) :: fs' => if N.eqb f g then Some v else rlookup f fs'
  end.

Definition alloc (v : val) (w : world) : nat * world :=
  (length (w_vars w), mkW (w_vars w ++ [v]) (w_clos w)).

Definition new_inst (c : cinst) (w : world) : nat * world :=
  (length (w_clos w), mkW (w_vars w) (w_clos w ++ [c])).

(* bind the binders of a pattern to fresh cells holding the corresponding parts of the value (call by value: copies) *)
Fixpoint bind_pat (p : pat) (v : val) (r : xenv) (w : world) {struct p} : res (xenv * world) :=
  match p with
  | PVar x => let '(l, w') := alloc v w in Ok ((x, BLoc l) :: r, w')
  | PWild => Ok (r, w)
  | PTup ps =>
      match v with
      | VTup vs =>
          (fix go (ps : list pat) (vs : list val) (r : xenv) (w : world) : res (xenv * world) :=
             match ps, vs with
             | [], [] => Ok (r, w)
             | p :: ps', v :: vs' =>
                 match bind_pat p v r w with
                 | Ok (r', w') => go ps' vs' r' w'
                 | OutOfFuel => OutOfFuel
                 | Stuck c => Stuck c
                 end
             | _, _ => Stuck E_PAT
             end) ps vs r w
      | _ => Stuck E_PAT
      end
  | PRec fps =>
      match v with
      | VRec fvs =>
          (fix go (fps : list (ident * pat)) (r : xenv) (w : world) : res (xenv * world) :=
             match fps with
             | [] => Ok (r, w)
             | (f, p) :: fps' =>
                 match rlookup f fvs with
                 | Some v' =>
                     match bind_pat p v' r w with
                     | Ok (r', w') => go fps' r' w'
                     | OutOfFuel => OutOfFuel
                     | Stuck c => Stuck c
                     end
                 | None => Stuck E_PAT
                 end
             end) fps r w
      | _ => Stuck E_PAT
      end
  end.

(* parameters are fresh cells too (a callee may assign its parameters; the caller never sees it);
   as in Lmmm.bind_params the FIRST of two equally named parameters is the visible one *)
Fixpoint bind_params_x (ps : list ident) (vs : list val) (r : xenv) (w : world) : res (xenv * world) :=
  match ps, vs with
  | [], [] => Ok (r, w)
  | p :: ps', v :: vs' =>
      let '(l, w') := alloc v w in
      match bind_params_x ps' vs' r w' with
      | Ok (r', w'') => Ok ((p, BLoc l) :: r', w'')
      | OutOfFuel => OutOfFuel
      | Stuck c => Stuck c
      end
  | _, _ => Stuck E_ARITY
  end.

(* ---- match ---- *)
(* does the value match the pattern? (literals compare numbers, constructors compare tags, tuples componentwise left to right) *)
Fixpoint mtest (m : mpat) (v : val) {struct m} : res bool :=
  match m with
  | MLit z => match v with VNum z' => Ok (Z.eqb z z') | _ => Stuck E_PAT end
  | MWild => Ok true
  | MCon tag _ => match v with VCon tag' _ => Ok (Nat.eqb tag tag') | _ => Stuck E_PAT end
  | MTup ms =>
      match v with
      | VTup vs =>
          (fix go (ms : list mpat) (vs : list val) : res bool :=
             match ms, vs with
             | [], [] => Ok true
             | m :: ms', v :: vs' =>
                 match mtest m v with
                 | Ok true => go ms' vs'
                 | Ok false => Ok false
                 | OutOfFuel => OutOfFuel
                 | Stuck c => Stuck c
                 end
             | _, _ => Stuck E_PAT
             end) ms vs
      | _ => Stuck E_PAT
      end
  end.

(* the binders of a pattern that matched: the payload patterns of its constructor patterns, left to right *)
Fixpoint mbind (m : mpat) (v : val) (r : xenv) (w : world) {struct m} : res (xenv * world) :=
  match m with
  | MLit _ | MWild => Ok (r, w)
  | MCon _ None => Ok (r, w)
  | MCon _ (Some p) => match v with VCon _ pv => bind_pat p pv r w | _ => Stuck E_PAT end
  | MTup ms =>
      match v with
      | VTup vs =>
          (fix go (ms : list mpat) (vs : list val) (r : xenv) (w : world) : res (xenv * world) :=
             match ms, vs with
             | [], [] => Ok (r, w)
             | m :: ms', v :: vs' =>
                 match mbind m v r w with
                 | Ok (r', w') => go ms' vs' r' w'
                 | OutOfFuel => OutOfFuel
                 | Stuck c => Stuck c
                 end
             | _, _ => Stuck E_PAT
             end) ms vs r w
      | _ => Stuck E_PAT
      end
  end.

(* the first arm (counting from i) whose pattern matches *)
Fixpoint find_arm (arms : list (mpat * xexpr)) (v : val) (i : nat) : res (nat * mpat * xexpr) :=
  match arms with
  | [] => Stuck E_NOMATCH
  | (m, body) :: rest =>
      match mtest m v with
      | Ok true => Ok (i, m, body)
      | Ok false => find_arm rest v (S i)
      | OutOfFuel => OutOfFuel
      | Stuck c => Stuck c
      end
  end.

(* the state subtrees of the arms j, j+1, .., j+n-1 of a match after arm i ran and left kb: arm a owns child 1 + a of the
   match node; the arms that were not taken keep theirs *)
Fixpoint arm_kids (s : stree) (n j i : nat) (kb : stree) : list stree :=
  match n with
  | O => []
  | S n' => (if Nat.eqb j i then kb else kid s (S j)) :: arm_kids s n' (S j) i kb
  end.

(* ---- the feedback cell of a call site / instance holds a VALUE ----
   A data value is laid out over a state subtree like over machine words: a number is one cell, a tuple / record is the
   sequence of its components, a sum is its tag cell followed by the payload.  `dec sh` reads a subtree back at a shape;
   the never-touched subtree st0 reads as the all-zero value: 0, tuples / records of zero values, the FIRST constructor
   with a zero payload.  (A tag that is not a constructor of the shape reads as the first constructor: never written by `enc`.) *)
Definition self_of (s : stree) : Z := match cell_of s with CSelf z => z | _ => 0%Z end.

Fixpoint enc (v : val) : stree :=
  match v with
  | VNum z => ST (CSelf z) []
  | VTup vs => ST CNone (map enc vs)
  | VRec fs => ST CNone (map (fun fv => enc (snd fv)) fs)
  | VCon tag p => ST (CSelf (Z.of_nat tag)) [enc p]
  | VClo _ | VUnit => st0
  end.

Fixpoint dec (sh : shape) (s : stree) {struct sh} : val :=
  match sh with
  | SNum => VNum (self_of s)
  | STup shs =>
      VTup ((fix go (l : list shape) (i : nat) : list val :=
               match l with [] => [] | x :: l' => dec x (kid s i) :: go l' (S i) end) shs O)
  | SRec fs =>
      VRec ((fix go (l : list (ident * shape)) (i : nat) : list (ident * val) :=
               match l with [] => [] | fx :: l' => (fst fx, dec (snd fx) (kid s i)) :: go l' (S i) end) fs O)
  | SSum _ cs =>
      let t := Z.to_nat (self_of s) in
      let tag := if Nat.ltb t (length cs) then t else O in
      VCon tag ((fix pick (l : list (option shape)) (n : nat) : val :=
                   match l, n with
                   | [], _ => VUnit
                   | o :: _, O => match o with Some x => dec x (kid s 0) | None => VUnit end
                   | _ :: l', S n' => pick l' n'
                   end) cs tag)
  end.

(* the state of a call site / instance: the encoding of the value it returned last, with the state subtree of the body
   as first child (for a number z: ST (CSelf z) [kb], as in Lmmm.ref_call) *)
Definition self_node (v : val) (kb : stree) : stree := let '(ST c ks) := enc v in ST c (kb :: ks).
Definition self_part (s : stree) : stree := let '(ST c ks) := s in ST c (tl ks).
