(* Lmmx/MatchSelf.v — facts about rules M and S of Ref.v.
   M: a match takes the FIRST arm whose pattern matches the value of the scrutinee; the arms that are not taken keep their
      state subtrees.
   S: the feedback cell of a call site / instance holds the value the site returned last (encoded over the state tree like over
      machine words); `self` read at the shape of that value gives it back; the never-touched cell reads as the zero value of
      the shape (0, tuples / records of zero values, the first constructor with a zero payload). *)
From Coq Require Import List ZArith NArith Bool Lia.
From Mimium Require Import Lmmm.Syntax Lmmm.Ref Lmmx.Syntax Lmmx.Ref Lmmx.Mono.
Import ListNotations.

(* ---- rule M ---- *)
Lemma find_arm_spec : forall arms v i0 i m body,
  find_arm arms v i0 = Ok (i, m, body) ->
  exists k, i = i0 + k /\ nth_error arms k = Some (m, body) /\ mtest m v = Ok true /\
            forall j mj bj, j < k -> nth_error arms j = Some (mj, bj) -> mtest mj v = Ok false.
Proof.
  induction arms as [|[m0 b0] arms IH]; intros v i0 i m body H; cbn [find_arm] in H; [discriminate|].
  destruct (mtest m0 v) as [[|]| |c] eqn:E; try discriminate.
  - inversion H; subst. exists 0. split; [lia|]. split; [reflexivity|]. split; [exact E|]. intros j mj bj Hj. lia.
  - destruct (IH _ _ _ _ _ H) as (k & Hi & Hn & Ht & Hlt). exists (S k). split; [lia|]. split; [exact Hn|]. split; [exact Ht|].
    intros [|j] mj bj Hj Hnth; cbn in Hnth.
    + inversion Hnth; subst. exact E.
    + eapply Hlt; [|exact Hnth]. lia.
Qed.

Lemma arm_kids_nth : forall s n j0 i kb j, j < n ->
  nth j (arm_kids s n j0 i kb) st0 = if Nat.eqb (j0 + j) i then kb else kid s (S (j0 + j)).
Proof.
  induction n as [|n IH]; intros j0 i kb j Hj; [lia|]. cbn [arm_kids]. destruct j as [|j].
  - cbn [nth]. now rewrite Nat.add_0_r.
  - cbn [nth]. rewrite IH by lia. replace (S j0 + j) with (j0 + S j) by lia. reflexivity.
Qed.

(* the first arm that matches is taken: its payload binders are bound, its body runs on ITS state subtree (child 1 + i of the
   match node) and leaves its new state there; every other arm keeps its subtree *)
Theorem match_first_arm : forall n ft now sv r sc arms s w v s' w',
  xeval (S n) ft now sv r (XMatch sc arms) s w = Ok (v, s', w') ->
  exists vs k0 w1 i m body r' w2 kb,
    xeval n ft now sv r sc (kid s 0) w = Ok (vs, k0, w1) /\
    nth_error arms i = Some (m, body) /\ mtest m vs = Ok true /\
    (forall j mj bj, j < i -> nth_error arms j = Some (mj, bj) -> mtest mj vs = Ok false) /\
    mbind m vs r w1 = Ok (r', w2) /\
    xeval n ft now sv r' body (kid s (S i)) w2 = Ok (v, kb, w') /\
    kid s' 0 = k0 /\ kid s' (S i) = kb /\
    (forall j, j < length arms -> j <> i -> kid s' (S j) = kid s (S j)).
Proof.
  intros n ft now sv r sc arms s w v s' w' H. cbn [xeval xstep] in H.
  destruct (xeval n ft now sv r sc (kid s 0) w) as [[[vs k0] w1]| |c] eqn:E1; cbn [rbind] in H; try discriminate.
  destruct (find_arm arms vs 0) as [[[i m] body]| |c] eqn:E2; cbn [rbind] in H; try discriminate.
  destruct (mbind m vs r w1) as [[r' w2]| |c] eqn:E3; cbn [rbind] in H; try discriminate.
  destruct (xeval n ft now sv r' body (kid s (S i)) w2) as [[[vb kb] w3]| |c] eqn:E4; cbn [rbind] in H; try discriminate.
  inversion H; subst; clear H.
  destruct (find_arm_spec _ _ _ _ _ _ E2) as (k & Hi & Hn & Ht & Hlt). cbn in Hi. subst k.
  assert (Hlen : i < length arms) by (apply nth_error_Some; congruence).
  exists vs, k0, w1, i, m, body, r', w2, kb. repeat split; auto.
  - cbn [kid nth]. rewrite (arm_kids_nth s (length arms) 0 i kb i Hlen). cbn. now rewrite Nat.eqb_refl.
  - intros j Hj Hne. cbn [kid nth]. rewrite (arm_kids_nth s (length arms) 0 i kb j Hj). cbn.
    destruct (Nat.eqb_spec j i); [contradiction|reflexivity].
Qed.

(* ---- rule S ---- *)
Section ShapeInd.
  Variable P : shape -> Prop.
  Hypothesis HNum : P SNum.
  Hypothesis HTup : forall shs, Forall P shs -> P (STup shs).
  Hypothesis HRec : forall fs, Forall (fun fx => P (snd fx)) fs -> P (SRec fs).
  Definition optP (o : option shape) : Prop := match o with Some x => P x | None => True end.
  Hypothesis HSum : forall nm cs, Forall optP cs -> P (SSum nm cs).
  Fixpoint shape_ind' (sh : shape) : P sh :=
    match sh with
    | SNum => HNum
    | STup shs => HTup shs ((fix go (l : list shape) : Forall P l :=
                               match l with [] => Forall_nil _ | x :: l' => Forall_cons _ (shape_ind' x) (go l') end) shs)
    | SRec fs => HRec fs ((fix go (l : list (ident * shape)) : Forall (fun fx => P (snd fx)) l :=
                             match l with [] => Forall_nil _ | x :: l' => Forall_cons _ (shape_ind' (snd x)) (go l') end) fs)
    | SSum nm cs =>
        HSum nm cs ((fix go (l : list (option shape)) : Forall optP l :=
                       match l with
                       | [] => Forall_nil optP
                       | o :: l' => @Forall_cons _ optP o l' (match o as o' return optP o' with
                                                              | Some x => shape_ind' x
                                                              | None => I
                                                              end) (go l')
                       end) cs)
    end.
End ShapeInd.

(* a value of a shape *)
Fixpoint has_shape (sh : shape) (v : val) {struct sh} : Prop :=
  match sh, v with
  | SNum, VNum _ => True
  | STup shs, VTup vs =>
      (fix go (shs : list shape) (vs : list val) : Prop :=
         match shs, vs with
         | [], [] => True
         | x :: shs', v :: vs' => has_shape x v /\ go shs' vs'
         | _, _ => False
         end) shs vs
  | SRec fs, VRec fvs =>
      (fix go (fs : list (ident * shape)) (fvs : list (ident * val)) : Prop :=
         match fs, fvs with
         | [], [] => True
         | fx :: fs', fv :: fvs' => fst fx = fst fv /\ has_shape (snd fx) (snd fv) /\ go fs' fvs'
         | _, _ => False
         end) fs fvs
  | SSum _ cs, VCon tag p =>
      (fix pick (cs : list (option shape)) (n : nat) : Prop :=
         match cs, n with
         | [], _ => False
         | o :: _, O => match o with Some x => has_shape x p | None => p = VUnit end
         | _ :: cs', S n' => pick cs' n'
         end) cs tag
  | _, _ => False
  end.

(* the all-zero value of a shape *)
Fixpoint zero_val (sh : shape) : val :=
  match sh with
  | SNum => VNum 0
  | STup shs => VTup (map zero_val shs)
  | SRec fs => VRec (map (fun fx => (fst fx, zero_val (snd fx))) fs)
  | SSum _ cs => VCon 0 (match cs with Some x :: _ => zero_val x | _ => VUnit end)
  end.

Definition dec_tup (s : stree) :=
  fix go (l : list shape) (i : nat) : list val :=
    match l with [] => [] | x :: l' => dec x (kid s i) :: go l' (S i) end.
Definition dec_rec (s : stree) :=
  fix go (l : list (ident * shape)) (i : nat) : list (ident * val) :=
    match l with [] => [] | fx :: l' => (fst fx, dec (snd fx) (kid s i)) :: go l' (S i) end.
Definition dec_pick (s : stree) :=
  fix pick (l : list (option shape)) (n : nat) : val :=
    match l, n with
    | [], _ => VUnit
    | o :: _, O => match o with Some x => dec x (kid s 0) | None => VUnit end
    | _ :: l', S n' => pick l' n'
    end.

Lemma kid_st0 : forall i, kid st0 i = st0.
Proof. intros [|i]; reflexivity. Qed.

(* zero-initialised = all words zero = the zero value *)
Lemma dec_st0 : forall sh, dec sh st0 = zero_val sh.
Proof.
  induction sh as [|shs IH|fs IH|nm cs IH] using shape_ind'; cbn [dec zero_val].
  - reflexivity.
  - f_equal. change (dec_tup st0 shs 0 = map zero_val shs). generalize 0 as i.
    induction IH as [|x l Hx _ IHl]; intros i; cbn [dec_tup map]; [reflexivity|].
    rewrite kid_st0, Hx. f_equal. apply IHl.
  - f_equal. change (dec_rec st0 fs 0 = map (fun fx => (fst fx, zero_val (snd fx))) fs). generalize 0 as i.
    induction IH as [|x l Hx _ IHl]; intros i; cbn [dec_rec map]; [reflexivity|].
    rewrite kid_st0, Hx. f_equal. apply IHl.
  - change (self_of st0) with 0%Z. cbn [Z.to_nat].
    assert (Ht : (if Nat.ltb 0 (length cs) then 0 else 0) = 0) by (destruct (Nat.ltb 0 (length cs)); reflexivity).
    rewrite Ht. f_equal. destruct IH as [|[x|] l Hx _]; cbn; [reflexivity| |reflexivity].
    rewrite Hx. reflexivity.
Qed.

Lemma kid_cons : forall c k ks i, kid (ST c (k :: ks)) (S i) = kid (ST c ks) i.
Proof. reflexivity. Qed.

(* reading back what was written: dec sh (enc v) = v for every value of the shape *)
Lemma dec_enc : forall sh v, has_shape sh v -> dec sh (enc v) = v.
Proof.
  induction sh as [|shs IH|fs IH|nm cs IH] using shape_ind'; intros v Hv; destruct v as [z|vs|fvs|id| |tag p]; cbn [has_shape] in Hv;
    try contradiction.
  - reflexivity.
  - cbn [dec enc]. f_equal.
    (* the components sit at the children i, i+1, .. of the node *)
    assert (G : forall pre, dec_tup (ST CNone (pre ++ map enc vs)) shs (length pre) = vs).
    { revert vs Hv. induction IH as [|x l Hx _ IHl]; intros vs Hv pre; destruct vs as [|v vs]; try contradiction; [reflexivity|].
      destruct Hv as [Hv1 Hv2]. cbn [dec_tup map]. f_equal.
      - unfold kid. rewrite app_nth2 by lia. rewrite Nat.sub_diag. cbn [nth]. apply Hx. exact Hv1.
      - specialize (IHl vs Hv2 (pre ++ [enc v])). rewrite <- app_assoc in IHl. cbn [app] in IHl.
        rewrite app_length in IHl. cbn [length] in IHl. rewrite Nat.add_1_r in IHl. exact IHl. }
    exact (G []).
  - cbn [dec enc]. f_equal.
    assert (G : forall pre, dec_rec (ST CNone (pre ++ map (fun fv => enc (snd fv)) fvs)) fs (length pre) = fvs).
    { revert fvs Hv. induction IH as [|x l Hx _ IHl]; intros fvs Hv pre; destruct fvs as [|fv fvs]; try contradiction; [reflexivity|].
      destruct Hv as (Hf & Hv1 & Hv2). cbn [dec_rec map]. f_equal.
      - unfold kid. rewrite app_nth2 by lia. rewrite Nat.sub_diag. cbn [nth]. rewrite Hf, (Hx _ Hv1). destruct fv; reflexivity.
      - specialize (IHl fvs Hv2 (pre ++ [enc (snd fv)])). rewrite <- app_assoc in IHl. cbn [app] in IHl.
        rewrite app_length in IHl. cbn [length] in IHl. rewrite Nat.add_1_r in IHl. exact IHl. }
    exact (G []).
  - cbn [dec enc]. change (self_of (ST (CSelf (Z.of_nat tag)) [enc p])) with (Z.of_nat tag). rewrite Nat2Z.id.
    assert (Hlt : tag < length cs).
    { revert tag Hv. clear IH. induction cs as [|o cs IHcs]; intros tag Hv; [contradiction|]. destruct tag; cbn [length]; [lia|].
      specialize (IHcs tag Hv). lia. }
    apply Nat.ltb_lt in Hlt. rewrite Hlt. f_equal.
    change (dec_pick (ST (CSelf (Z.of_nat tag)) [enc p]) cs tag = p).
    revert tag Hv Hlt. induction IH as [|o l Ho _ IHl]; intros tag Hv Hlt; [contradiction|].
    destruct tag as [|tag]; cbn [dec_pick].
    + destruct o as [x|]; [|symmetry; exact Hv]. cbn [kid nth]. apply Ho. exact Hv.
    + apply (IHl tag Hv). apply Nat.ltb_lt. apply Nat.ltb_lt in Hlt. cbn [length] in Hlt. lia.
Qed.

(* the state node of a site after it returned v: the feedback part is the encoding of v *)
Lemma self_part_node : forall v kb, self_part (self_node v kb) = enc v.
Proof. intros v kb. unfold self_node, self_part. destruct (enc v) as [c ks]. reflexivity. Qed.

Lemma kid0_node : forall v kb, kid (self_node v kb) 0 = kb.
Proof. intros v kb. unfold self_node. destruct (enc v) as [c ks]. reflexivity. Qed.

Lemma self_part_st0 : self_part st0 = st0.
Proof. reflexivity. Qed.

(* `self` of a number-valued function is the special case SNum *)
Lemma xself_is_selfs_num : forall n ft now sv r s w,
  xeval (S n) ft now sv r XSelf s w = xeval (S n) ft now sv r (XSelfS SNum) s w.
Proof. reflexivity. Qed.

(* a direct call (rule D) leaves the value it returned in the feedback cell of its site; the body of the NEXT call at that site
   runs with exactly this cell, and reads the value back with `self` *)
Theorem call_fun_feedback : forall ft rec k vs inst w v inst' w',
  call_fun ft rec k vs inst w = Ok (v, inst', w') -> self_part inst' = enc v.
Proof.
  intros ft rec k vs inst w v inst' w' H. unfold call_fun in H. destruct (nth_error ft k) as [fe|]; [|discriminate].
  destruct (bind_params_x (map fst (fe_params fe)) vs (fe_env fe) w) as [[r w1]| |c]; cbn [rbind] in H; try discriminate.
  destruct (rec (self_part inst) r (fe_body fe) (kid inst 0) w1) as [[[v0 kb] w2]| |c]; cbn [rbind] in H; try discriminate.
  inversion H; subst. apply self_part_node.
Qed.

Theorem call_fun_body_sees_cell : forall ft rec k vs inst w fe,
  nth_error ft k = Some fe ->
  call_fun ft rec k vs inst w =
  (do (r, w1) <- bind_params_x (map fst (fe_params fe)) vs (fe_env fe) w;
   do (v, kb, w2) <- rec (self_part inst) r (fe_body fe) (kid inst 0) w1;
   Ok (v, self_node v kb, w2)).
Proof. intros ft rec k vs inst w fe H. unfold call_fun. rewrite H. reflexivity. Qed.

(* the same for an instance (rule I) *)
Theorem call_inst_feedback : forall rec id vs w v w' c,
  nth_error (w_clos w) id = Some c ->
  call_inst rec id vs w = Ok (v, w') ->
  exists r w1 kb w2, bind_params_x (ci_params c) vs (ci_env c) w = Ok (r, w1) /\
    rec (self_part (ci_state c)) r (ci_body c) (kid (ci_state c) 0) w1 = Ok (v, kb, w2) /\
    w' = set_clo_state w2 id (self_node v kb).
Proof.
  intros rec id vs w v w' c Hc H. unfold call_inst in H. rewrite Hc in H.
  destruct (bind_params_x (ci_params c) vs (ci_env c) w) as [[r w1]| |e]; cbn [rbind] in H; try discriminate.
  destruct (rec (self_part (ci_state c)) r (ci_body c) (kid (ci_state c) 0) w1) as [[[v0 kb] w2]| |e] eqn:E; cbn [rbind] in H; try discriminate.
  inversion H; subst. exists r, w1, kb, w2. repeat split; auto.
Qed.

(* what `self` evaluates to *)
Theorem selfs_reads_cell : forall n ft now sv r sh s w,
  xeval (S n) ft now sv r (XSelfS sh) s w = Ok (dec sh sv, st0, w).
Proof. reflexivity. Qed.

(* "`self` is the function's previous return value at that site": two consecutive calls at one site *)
Theorem self_is_previous_value : forall n ft now k fe vs1 vs2 inst w v1 inst1 w1 sh,
  nth_error ft k = Some fe ->
  call_fun ft (xeval n ft now) k vs1 inst w = Ok (v1, inst1, w1) ->
  has_shape sh v1 ->
  (* the next call at this site runs the body with the feedback cell enc v1 ... *)
  call_fun ft (xeval n ft now) k vs2 inst1 w1 =
    (do (r, w2) <- bind_params_x (map fst (fe_params fe)) vs2 (fe_env fe) w1;
     do (v, kb, w3) <- xeval n ft now (enc v1) r (fe_body fe) (kid inst1 0) w2;
     Ok (v, self_node v kb, w3)) /\
  (* ... in which `self` at the shape of the return value IS v1 *)
  (forall m r s w0, xeval (S m) ft now (enc v1) r (XSelfS sh) s w0 = Ok (v1, st0, w0)).
Proof.
  intros n ft now k fe vs1 vs2 inst w v1 inst1 w1 sh Hk H1 Hsh. split.
  - rewrite (call_fun_body_sees_cell _ _ _ _ _ _ _ Hk). rewrite (call_fun_feedback _ _ _ _ _ _ _ _ _ H1). reflexivity.
  - intros m r s w0. cbn [xeval xstep]. rewrite (dec_enc sh v1 Hsh). reflexivity.
Qed.

(* the first call at a site (never-touched cell): `self` is the zero value of the shape *)
Theorem self_is_zero_first : forall n ft now k fe vs w sh,
  nth_error ft k = Some fe ->
  call_fun ft (xeval n ft now) k vs st0 w =
    (do (r, w1) <- bind_params_x (map fst (fe_params fe)) vs (fe_env fe) w;
     do (v, kb, w2) <- xeval n ft now st0 r (fe_body fe) st0 w1;
     Ok (v, self_node v kb, w2)) /\
  (forall m r s w0, xeval (S m) ft now st0 r (XSelfS sh) s w0 = Ok (zero_val sh, st0, w0)).
Proof.
  intros n ft now k fe vs w sh Hk. split.
  - rewrite (call_fun_body_sees_cell _ _ _ _ _ _ _ Hk). reflexivity.
  - intros m r s w0. cbn [xeval xstep]. rewrite dec_st0. reflexivity.
Qed.
