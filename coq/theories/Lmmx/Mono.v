(* Lmmx/Mono.v — fuel monotonicity of the reference interpreter: more fuel never changes a defined result.
   `xeval (S n) = xstep (xeval n)` and xstep is monotone in its evaluator argument. *)
From Coq Require Import List ZArith NArith Bool Lia.
From Mimium Require Import Lmmm.Syntax Lmmm.Ref Lmmx.Syntax Lmmx.Ref.
Import ListNotations.

Definition ev_le (e1 e2 : evaluator) : Prop :=
  forall sv r e s w x, e1 sv r e s w = Ok x -> e2 sv r e s w = Ok x.

Lemma rbind_ok : forall A B (m : res A) (k : A -> res B) x,
  rbind m k = Ok x -> exists a, m = Ok a /\ k a = Ok x.
Proof. intros A B [a| |c] k x H; cbn in H; try discriminate. eauto. Qed.

(* one monadic step of a goal  `rbind m1 k1 = Ok x -> rbind m2 k2 = Ok x`  where m2 is m1 or its image under `tac` *)
Ltac mstep tac :=
  match goal with
  | |- rbind ?m1 _ = Ok _ -> _ =>
      let E := fresh "E" in
      destruct m1 as [?a| |?c] eqn:E; cbn [rbind]; [ | discriminate | discriminate ];
      try (tac E; rewrite E; cbn [rbind]);
      repeat match goal with p : (_ * _)%type |- _ => destruct p end
  end.

Section Mono.
  Variable ft : list fentry.
  Variable now : Z.
  Variables rec1 rec2 : evaluator.
  Hypothesis Hle : ev_le rec1 rec2.

  Ltac use_rec E := apply Hle in E.

  Lemma eval_list_mono : forall es sv r s i w x,
    eval_list rec1 sv r es s i w = Ok x -> eval_list rec2 sv r es s i w = Ok x.
  Proof.
    induction es as [|e es IH]; intros sv r s i w x; cbn [eval_list]; [auto|].
    mstep use_rec.
    mstep ltac:(fun E => apply IH in E).
    auto.
  Qed.

  Lemma eval_fields_mono : forall fs sv r s i w x,
    eval_fields rec1 sv r fs s i w = Ok x -> eval_fields rec2 sv r fs s i w = Ok x.
  Proof.
    induction fs as [|[f e] fs IH]; intros sv r s i w x; cbn [eval_fields]; [auto|].
    mstep use_rec.
    mstep ltac:(fun E => apply IH in E).
    auto.
  Qed.

  Lemma call_inst_mono : forall id vs w x,
    call_inst rec1 id vs w = Ok x -> call_inst rec2 id vs w = Ok x.
  Proof.
    intros id vs w x. unfold call_inst. destruct (nth_error (w_clos w) id); [|auto].
    mstep ltac:(fun E => idtac).
    mstep use_rec.
    auto.
  Qed.

  Lemma call_fun_mono : forall k vs inst w x,
    call_fun ft rec1 k vs inst w = Ok x -> call_fun ft rec2 k vs inst w = Ok x.
  Proof.
    intros k vs inst w x. unfold call_fun. destruct (nth_error ft k); [|auto].
    mstep ltac:(fun E => idtac).
    mstep use_rec.
    auto.
  Qed.

  Lemma fill_defaults_mono : forall fe ps given w x,
    fill_defaults rec1 fe ps given w = Ok x -> fill_defaults rec2 fe ps given w = Ok x.
  Proof.
    induction ps as [|[p d] ps IH]; intros given w x; cbn [fill_defaults]; [auto|].
    destruct (rlookup p given).
    - mstep ltac:(fun E => apply IH in E). auto.
    - destruct d; [|auto].
      mstep use_rec.
      mstep ltac:(fun E => apply IH in E). auto.
  Qed.

  Lemma apply_x_mono : forall sv r f args s w x,
    apply_x ft rec1 sv r f args s w = Ok x -> apply_x ft rec2 sv r f args s w = Ok x.
  Proof.
    intros sv r f args s w x. unfold apply_x. destruct (direct_target r f).
    - mstep ltac:(fun E => apply eval_list_mono in E).
      mstep ltac:(fun E => apply call_fun_mono in E).
      auto.
    - mstep use_rec.
      match goal with v : val |- _ => destruct v; auto end.
      mstep ltac:(fun E => apply eval_list_mono in E).
      mstep ltac:(fun E => apply call_inst_mono in E).
      auto.
  Qed.

  Lemma xstep_mono : ev_le (xstep ft now rec1) (xstep ft now rec2).
  Proof.
    intros sv r e s w x. destruct e; cbn [xstep]; auto.
    - (* XBin *) mstep use_rec. mstep use_rec. auto.
    - (* XNeg *) mstep use_rec. auto.
    - (* XLet *) mstep use_rec. mstep ltac:(fun E => idtac). mstep use_rec. auto.
    - (* XIf *) mstep use_rec. mstep ltac:(fun E => idtac).
      match goal with |- context [if ?c then _ else _] => destruct c end; mstep use_rec; auto.
    - (* XMem *) mstep use_rec. auto.
    - (* XDelay *) mstep use_rec. mstep use_rec. auto.
    - (* XTuple *) mstep ltac:(fun E => apply eval_list_mono in E). auto.
    - (* XProj *) mstep use_rec. auto.
    - (* XRecord *) mstep ltac:(fun E => apply eval_fields_mono in E). auto.
    - (* XField *) mstep use_rec. auto.
    - (* XApp *) apply apply_x_mono.
    - (* XCallNamed *)
      destruct (xlookup f r) as [[l|k]|]; auto.
      destruct (nth_error ft k); auto.
      mstep ltac:(fun E => apply eval_fields_mono in E).
      mstep ltac:(fun E => apply fill_defaults_mono in E).
      mstep ltac:(fun E => apply call_fun_mono in E).
      auto.
    - (* XPipe *) apply apply_x_mono.
    - (* XAssign *) mstep use_rec. auto.
    - (* XSeq *) mstep use_rec. mstep use_rec. auto.
    - (* XCon *) destruct arg; auto. mstep use_rec. auto.
    - (* XMatch *)
      mstep use_rec. mstep ltac:(fun E => idtac). mstep ltac:(fun E => idtac). mstep use_rec. auto.
  Qed.
End Mono.

Lemma xeval_S_mono : forall ft now n, ev_le (xeval n ft now) (xeval (S n) ft now).
Proof.
  intros ft now. induction n as [|n IH].
  - intros sv r e s w x H. cbn in H. discriminate.
  - change (ev_le (xstep ft now (xeval n ft now)) (xstep ft now (xeval (S n) ft now))).
    apply xstep_mono. exact IH.
Qed.

Lemma xeval_mono : forall ft now n m, n <= m -> ev_le (xeval n ft now) (xeval m ft now).
Proof.
  intros ft now n m Hnm. induction Hnm as [|m Hnm IH].
  - intros sv r e s w x H. exact H.
  - intros sv r e s w x H. apply xeval_S_mono. apply IH. exact H.
Qed.

(* two runs with different fuel that are both defined agree *)
Lemma xeval_deterministic : forall ft now n m sv r e s w x y,
  xeval n ft now sv r e s w = Ok x -> xeval m ft now sv r e s w = Ok y -> x = y.
Proof.
  intros ft now n m sv r e s w x y Hx Hy.
  destruct (Nat.le_ge_cases n m) as [H|H].
  - apply (xeval_mono ft now n m H) in Hx. congruence.
  - apply (xeval_mono ft now m n H) in Hy. congruence.
Qed.

(* ---- whole programs ---- *)
Lemma xinit_mono : forall n m gs r ft w x, n <= m ->
  xinit n gs r ft w = Ok x -> xinit m gs r ft w = Ok x.
Proof.
  intros n m gs. induction gs as [|[name params body|p e] gs IH]; intros r ft w x Hnm; cbn [xinit]; auto.
  mstep ltac:(fun E => apply (xeval_mono ft 0%Z n m Hnm) in E).
  mstep ltac:(fun E => idtac).
  auto.
Qed.

Lemma xlets_mono : forall ev1 ev2, ev_le ev1 ev2 -> forall lets r s i w x,
  xlets ev1 r lets s i w = Ok x -> xlets ev2 r lets s i w = Ok x.
Proof.
  intros ev1 ev2 Hle. induction lets as [|[p e] lets IH]; intros r s i w x; cbn [xlets]; auto.
  mstep ltac:(fun E => apply Hle in E).
  mstep ltac:(fun E => idtac).
  mstep ltac:(fun E => apply IH in E).
  auto.
Qed.

Lemma xouts_mono : forall ev1 ev2, ev_le ev1 ev2 -> forall outs r s i w x,
  xouts ev1 r outs s i w = Ok x -> xouts ev2 r outs s i w = Ok x.
Proof.
  intros ev1 ev2 Hle. induction outs as [|e outs IH]; intros r s i w x; cbn [xouts]; auto.
  mstep ltac:(fun E => apply Hle in E).
  mstep ltac:(fun E => idtac).
  mstep ltac:(fun E => apply IH in E).
  auto.
Qed.

Lemma xsample_mono : forall n m p genv ft now inputs s w x, n <= m ->
  xsample n p genv ft now inputs s w = Ok x -> xsample m p genv ft now inputs s w = Ok x.
Proof.
  intros n m p genv ft now inputs s w x Hnm. unfold xsample.
  mstep ltac:(fun E => idtac).
  mstep ltac:(fun E => apply (xlets_mono _ _ (xeval_mono ft now n m Hnm)) in E).
  mstep ltac:(fun E => apply (xouts_mono _ _ (xeval_mono ft now n m Hnm)) in E).
  auto.
Qed.

Lemma xsamples_mono : forall n m p genv ft rows t0 s w x, n <= m ->
  xsamples n p genv ft t0 rows s w = Ok x -> xsamples m p genv ft t0 rows s w = Ok x.
Proof.
  intros n m p genv ft rows. induction rows as [|i rows IH]; intros t0 s w x Hnm; cbn [xsamples]; auto.
  mstep ltac:(fun E => apply (xsample_mono n m) in E; [|exact Hnm]).
  mstep ltac:(fun E => apply IH in E; [|exact Hnm]).
  auto.
Qed.

Lemma xrun_full_mono : forall n m p rows x, n <= m ->
  xrun_full n p rows = Ok x -> xrun_full m p rows = Ok x.
Proof.
  intros n m p rows x Hnm. unfold xrun_full.
  mstep ltac:(fun E => apply (xinit_mono n m) in E; [|exact Hnm]).
  apply xsamples_mono. exact Hnm.
Qed.

Theorem xrun_mono : forall n m p rows outs, n <= m ->
  xrun n p rows = Ok outs -> xrun m p rows = Ok outs.
Proof.
  intros n m p rows outs Hnm. unfold xrun.
  mstep ltac:(fun E => apply (xrun_full_mono n m) in E; [|exact Hnm]).
  auto.
Qed.

Theorem xrun_deterministic : forall n m p rows o1 o2,
  xrun n p rows = Ok o1 -> xrun m p rows = Ok o2 -> o1 = o2.
Proof.
  intros n m p rows o1 o2 H1 H2.
  destruct (Nat.le_ge_cases n m) as [H|H].
  - apply (xrun_mono n m _ _ _ H) in H1. congruence.
  - apply (xrun_mono m n _ _ _ H) in H2. congruence.
Qed.
