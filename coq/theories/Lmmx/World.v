(* Lmmx/World.v — invariants of the world (rule I / rule V of Ref.v made precise): evaluation never removes a variable
   cell or an instance, never changes the CODE or the CAPTURED ENVIRONMENT of an existing instance (only its state), and
   identifies instances by stable ids. *)
From Coq Require Import List ZArith NArith Bool Lia.
From Mimium Require Import Lmmm.Syntax Lmmm.Ref Lmmx.Syntax Lmmx.Ref Lmmx.Mono.
Import ListNotations.

Definition same_code (c c' : cinst) : Prop :=
  ci_params c' = ci_params c /\ ci_body c' = ci_body c /\ ci_env c' = ci_env c.

Definition wext (w w' : world) : Prop :=
  length (w_vars w) <= length (w_vars w') /\
  forall id c, nth_error (w_clos w) id = Some c -> exists c', nth_error (w_clos w') id = Some c' /\ same_code c c'.

Lemma same_code_refl : forall c, same_code c c.
Proof. intros c. repeat split. Qed.
Lemma same_code_trans : forall a b c, same_code a b -> same_code b c -> same_code a c.
Proof. intros a b c (A1 & A2 & A3) (B1 & B2 & B3). repeat split; congruence. Qed.

Lemma wext_refl : forall w, wext w w.
Proof. intros w. split; [lia|]. intros id c H. exists c. split; [exact H|apply same_code_refl]. Qed.
Lemma wext_trans : forall a b c, wext a b -> wext b c -> wext a c.
Proof.
  intros a b c [L1 H1] [L2 H2]. split; [lia|]. intros id x Hx.
  destruct (H1 id x Hx) as (y & Hy & Sy). destruct (H2 id y Hy) as (z & Hz & Sz).
  exists z. split; [exact Hz|eapply same_code_trans; eauto].
Qed.

Lemma wext_alloc : forall v w, wext w (snd (alloc v w)).
Proof.
  intros v w. unfold alloc. cbn [snd]. split; [cbn [w_vars]; rewrite app_length; lia|].
  intros id c H. exists c. split; [exact H|apply same_code_refl].
Qed.

Lemma wext_new_inst : forall c w, wext w (snd (new_inst c w)).
Proof.
  intros c w. unfold new_inst. cbn [snd]. split; [cbn [w_vars]; lia|].
  intros id x H. exists x. split; [|apply same_code_refl]. cbn [w_clos].
  rewrite nth_error_app1; [exact H|]. apply nth_error_Some. congruence.
Qed.

Lemma set_nth_length : forall A (l : list A) i v, length (set_nth l i v) = length l.
Proof. induction l as [|h t IH]; intros [|i] v; cbn; auto. Qed.

Lemma nth_error_set_nth_same : forall A (l : list A) i v x, nth_error l i = Some x -> nth_error (set_nth l i v) i = Some v.
Proof. induction l as [|h t IH]; intros [|i] v x H; cbn in *; try discriminate; eauto. Qed.
Lemma nth_error_set_nth_other : forall A (l : list A) i j v, i <> j -> nth_error (set_nth l i v) j = nth_error l j.
Proof. induction l as [|h t IH]; intros [|i] [|j] v H; cbn; auto; try congruence. Qed.

Lemma wext_set_var : forall w l v, wext w (mkW (set_nth (w_vars w) l v) (w_clos w)).
Proof.
  intros w l v. split; [cbn; rewrite set_nth_length; lia|].
  intros id c H. exists c. split; [exact H|apply same_code_refl].
Qed.

Lemma wext_set_clo_state : forall w id s, wext w (set_clo_state w id s).
Proof.
  intros w id s. unfold set_clo_state. destruct (nth_error (w_clos w) id) as [c|] eqn:E; [|apply wext_refl].
  split; [cbn; lia|]. intros j x Hx. cbn [w_clos]. destruct (Nat.eq_dec id j) as [->|Hne].
  - rewrite (nth_error_set_nth_same _ _ _ _ _ E). eexists. split; [reflexivity|].
    rewrite E in Hx. inversion Hx; subst. repeat split.
  - rewrite nth_error_set_nth_other by exact Hne. exists x. split; [exact Hx|apply same_code_refl].
Qed.

(* patterns: an induction principle that reaches the sub-patterns *)
Section PatInd.
  Variable P : pat -> Prop.
  Hypothesis HVar : forall x, P (PVar x).
  Hypothesis HWild : P PWild.
  Hypothesis HTup : forall ps, Forall P ps -> P (PTup ps).
  Hypothesis HRec : forall fs, Forall (fun fp => P (snd fp)) fs -> P (PRec fs).
  Fixpoint pat_ind' (p : pat) : P p :=
    match p with
    | PVar x => HVar x
    | PWild => HWild
    | PTup ps => HTup ps ((fix go (l : list pat) : Forall P l :=
                             match l with [] => Forall_nil P | x :: xs => Forall_cons x (pat_ind' x) (go xs) end) ps)
    | PRec fs => HRec fs ((fix go (l : list (ident * pat)) : Forall (fun fp => P (snd fp)) l :=
                             match l with
                             | [] => Forall_nil _
                             | x :: xs => Forall_cons x (pat_ind' (snd x)) (go xs)
                             end) fs)
    end.
End PatInd.

Lemma bind_pat_wext : forall p v r w r' w', bind_pat p v r w = Ok (r', w') -> wext w w'.
Proof.
  induction p as [x| |ps IH|fs IH] using pat_ind'; intros v r w r' w' H; cbn [bind_pat] in H.
  - unfold alloc in H. inversion H; subst. exact (wext_alloc v w).
  - inversion H; subst. apply wext_refl.
  - destruct v as [|vs| | | |]; try discriminate.
    revert vs r w H. induction IH as [|p ps Hp Hps IHps]; intros vs r w H; destruct vs as [|v vs]; try discriminate.
    + inversion H; subst. apply wext_refl.
    + destruct (bind_pat p v r w) as [[r1 w1]| |c] eqn:E; try discriminate.
      eapply wext_trans; [eapply Hp; eauto|]. eapply IHps; eauto.
  - destruct v as [| |fvs| | |]; try discriminate.
    revert r w H. induction IH as [|[f p] fs Hp Hfs IHfs]; intros r w H.
    + inversion H; subst. apply wext_refl.
    + destruct (rlookup f fvs) as [v'|]; try discriminate.
      destruct (bind_pat p v' r w) as [[r1 w1]| |c] eqn:E; try discriminate.
      eapply wext_trans; [eapply Hp; eauto|]. eapply IHfs; eauto.
Qed.

Lemma bind_params_x_wext : forall ps vs r w r' w', bind_params_x ps vs r w = Ok (r', w') -> wext w w'.
Proof.
  induction ps as [|p ps IH]; intros vs r w r' w' H; destruct vs as [|v vs]; cbn [bind_params_x] in H; try discriminate.
  - inversion H; subst. apply wext_refl.
  - unfold alloc in H.
    destruct (bind_params_x ps vs r (mkW (w_vars w ++ [v]) (w_clos w))) as [[r1 w1]| |c] eqn:E; try discriminate.
    inversion H; subst. eapply wext_trans; [exact (wext_alloc v w)|]. eapply IH; eauto.
Qed.

(* match patterns: an induction principle that reaches the sub-patterns *)
Section MpatInd.
  Variable P : mpat -> Prop.
  Hypothesis HLit : forall z, P (MLit z).
  Hypothesis HWild : P MWild.
  Hypothesis HCon : forall tag p, P (MCon tag p).
  Hypothesis HTup : forall ms, Forall P ms -> P (MTup ms).
  Fixpoint mpat_ind' (m : mpat) : P m :=
    match m with
    | MLit z => HLit z
    | MWild => HWild
    | MCon tag p => HCon tag p
    | MTup ms => HTup ms ((fix go (l : list mpat) : Forall P l :=
                             match l with [] => Forall_nil P | x :: xs => Forall_cons x (mpat_ind' x) (go xs) end) ms)
    end.
End MpatInd.

Lemma mbind_wext : forall m v r w r' w', mbind m v r w = Ok (r', w') -> wext w w'.
Proof.
  induction m as [z| |tag p|ms IH] using mpat_ind'; intros v r w r' w' H; cbn [mbind] in H.
  - inversion H; subst. apply wext_refl.
  - inversion H; subst. apply wext_refl.
  - destruct p as [p|]; [|inversion H; subst; apply wext_refl].
    destruct v; try discriminate. eapply bind_pat_wext; eauto.
  - destruct v as [|vs| | | |]; try discriminate.
    revert vs r w H. induction IH as [|m ms Hm Hms IHms]; intros vs r w H; destruct vs as [|v vs]; try discriminate.
    + inversion H; subst. apply wext_refl.
    + destruct (mbind m v r w) as [[r1 w1]| |c] eqn:E; try discriminate.
      eapply wext_trans; [eapply Hm; eauto|]. eapply IHms; eauto.
Qed.

Definition ev_wext (ev : evaluator) : Prop :=
  forall sv r e s w v s' w', ev sv r e s w = Ok (v, s', w') -> wext w w'.

(* invert one monadic step of a hypothesis *)
Ltac inv_bind H :=
  let a := fresh "a" in let E := fresh "E" in
  apply rbind_ok in H; destruct H as (a & E & H);
  repeat match goal with p : (_ * _)%type |- _ => destruct p end.

Section Pres.
  Variable ft : list fentry.
  Variable now : Z.
  Variable rec : evaluator.
  Hypothesis Hrec : ev_wext rec.

  Lemma eval_list_wext : forall es sv r s i w vs ks w',
    eval_list rec sv r es s i w = Ok (vs, ks, w') -> wext w w'.
  Proof.
    induction es as [|e es IH]; intros sv r s i w vs ks w' H; cbn [eval_list] in H.
    - inversion H; subst. apply wext_refl.
    - inv_bind H. inv_bind H. inversion H; subst.
      eapply wext_trans; [eapply Hrec; eauto|]. eapply IH; eauto.
  Qed.

  Lemma eval_fields_wext : forall fs sv r s i w vs ks w',
    eval_fields rec sv r fs s i w = Ok (vs, ks, w') -> wext w w'.
  Proof.
    induction fs as [|[f e] fs IH]; intros sv r s i w vs ks w' H; cbn [eval_fields] in H.
    - inversion H; subst. apply wext_refl.
    - inv_bind H. inv_bind H. inversion H; subst.
      eapply wext_trans; [eapply Hrec; eauto|]. eapply IH; eauto.
  Qed.

  Lemma call_inst_wext : forall id vs w v w', call_inst rec id vs w = Ok (v, w') -> wext w w'.
  Proof.
    intros id vs w v w' H. unfold call_inst in H. destruct (nth_error (w_clos w) id); [|discriminate].
    inv_bind H. inv_bind H. inversion H; subst.
    eapply wext_trans; [eapply bind_params_x_wext; eauto|].
    eapply wext_trans; [eapply Hrec; eauto|]. apply wext_set_clo_state.
  Qed.

  Lemma call_fun_wext : forall k vs inst w v s' w', call_fun ft rec k vs inst w = Ok (v, s', w') -> wext w w'.
  Proof.
    intros k vs inst w v s' w' H. unfold call_fun in H. destruct (nth_error ft k); [|discriminate].
    inv_bind H. inv_bind H. inversion H; subst.
    eapply wext_trans; [eapply bind_params_x_wext; eauto|]. eapply Hrec; eauto.
  Qed.

  Lemma fill_defaults_wext : forall fe ps given w vs w', fill_defaults rec fe ps given w = Ok (vs, w') -> wext w w'.
  Proof.
    induction ps as [|[p d] ps IH]; intros given w vs w' H; cbn [fill_defaults] in H.
    - inversion H; subst. apply wext_refl.
    - destruct (rlookup p given).
      + inv_bind H. inversion H; subst. eapply IH; eauto.
      + destruct d; [|discriminate]. inv_bind H. inv_bind H. inversion H; subst.
        eapply wext_trans; [eapply Hrec; eauto|]. eapply IH; eauto.
  Qed.

  Lemma apply_x_wext : forall sv r f args s w v s' w', apply_x ft rec sv r f args s w = Ok (v, s', w') -> wext w w'.
  Proof.
    intros sv r f args s w v s' w' H. unfold apply_x in H. destruct (direct_target r f).
    - inv_bind H. inv_bind H. inversion H; subst.
      eapply wext_trans; [eapply eval_list_wext; eauto|]. eapply call_fun_wext; eauto.
    - inv_bind H. match goal with v0 : val |- _ => destruct v0; try discriminate end.
      inv_bind H. inv_bind H. inversion H; subst.
      eapply wext_trans; [eapply Hrec; eauto|].
      eapply wext_trans; [eapply eval_list_wext; eauto|]. eapply call_inst_wext; eauto.
  Qed.

  Lemma xstep_wext : ev_wext (xstep ft now rec).
  Proof.
    intros sv r e s w v s' w' H. destruct e; cbn [xstep] in H.
    - inversion H; subst. apply wext_refl.
    - destruct (xlookup x r) as [[l|k]|]; try discriminate.
      + destruct (nth_error (w_vars w) l); inversion H; subst. apply wext_refl.
      + destruct (nth_error ft k) as [fe|]; try discriminate. unfold new_inst in H. inversion H; subst.
        exact (wext_new_inst _ w).
    - inversion H; subst. apply wext_refl.
    - inversion H; subst. apply wext_refl.
    - inversion H; subst. apply wext_refl.
    - inv_bind H. inv_bind H. inv_bind H. inv_bind H. inversion H; subst.
      eapply wext_trans; eapply Hrec; eauto.
    - inv_bind H. inv_bind H. inversion H; subst. eapply Hrec; eauto.
    - inv_bind H. inv_bind H. inv_bind H. inversion H; subst.
      eapply wext_trans; [eapply Hrec; eauto|]. eapply wext_trans; [eapply bind_pat_wext; eauto|]. eapply Hrec; eauto.
    - inv_bind H. inv_bind H.
      match type of H with context [if ?c then _ else _] => destruct c end; inv_bind H; inversion H; subst;
        (eapply wext_trans; eapply Hrec; eauto).
    - inv_bind H. inv_bind H. inversion H; subst. eapply Hrec; eauto.
    - inv_bind H. inv_bind H. inv_bind H. inv_bind H. inversion H; subst. eapply wext_trans; eapply Hrec; eauto.
    - inv_bind H. inversion H; subst. eapply eval_list_wext; eauto.
    - inv_bind H. match goal with v0 : val |- _ => destruct v0; try discriminate end.
      destruct (nth_error vs i); inversion H; subst. eapply Hrec; eauto.
    - inv_bind H. inversion H; subst. eapply eval_fields_wext; eauto.
    - inv_bind H. match goal with v0 : val |- _ => destruct v0; try discriminate end.
      destruct (rlookup f fs); inversion H; subst. eapply Hrec; eauto.
    - unfold new_inst in H. inversion H; subst. exact (wext_new_inst _ w).
    - eapply apply_x_wext; eauto.
    - destruct (xlookup f r) as [[l|k]|]; try discriminate. destruct (nth_error ft k); try discriminate.
      inv_bind H. inv_bind H. inv_bind H. inversion H; subst.
      eapply wext_trans; [eapply eval_fields_wext; eauto|].
      eapply wext_trans; [eapply fill_defaults_wext; eauto|]. eapply call_fun_wext; eauto.
    - eapply apply_x_wext; eauto.
    - inv_bind H. destruct (xlookup x r) as [[l|k]|]; try discriminate.
      match type of H with context [if ?c then _ else _] => destruct c end; inversion H; subst.
      eapply wext_trans; [eapply Hrec; eauto|]. apply wext_set_var.
    - inv_bind H. inv_bind H. inversion H; subst. eapply wext_trans; eapply Hrec; eauto.
    - inversion H; subst. apply wext_refl.
    - destruct arg as [a|]; [|inversion H; subst; apply wext_refl].
      inv_bind H. inversion H; subst. eapply Hrec; eauto.
    - inv_bind H. inv_bind H. inv_bind H. inv_bind H. inversion H; subst.
      eapply wext_trans; [eapply Hrec; eauto|]. eapply wext_trans; [eapply mbind_wext; eauto|]. eapply Hrec; eauto.
  Qed.
End Pres.

Theorem xeval_wext : forall n ft now, ev_wext (xeval n ft now).
Proof.
  induction n as [|n IH]; intros ft now.
  - intros sv r e s w v s' w' H. cbn in H. discriminate.
  - change (ev_wext (xstep ft now (xeval n ft now))). apply xstep_wext. apply IH.
Qed.

(* a lambda captures the ENVIRONMENT (the variable cells, by reference), starts from zero state, touches no cell *)
Theorem lam_creates_instance : forall n ft now sv r ps body s w,
  xeval (S n) ft now sv r (XLam ps body) s w =
  Ok (VClo (length (w_clos w)), st0, mkW (w_vars w) (w_clos w ++ [mkC ps body r st0])).
Proof. reflexivity. Qed.

(* call by value: binding parameters allocates fresh cells; no existing cell changes *)
Lemma bind_params_x_fresh : forall ps vs r w r' w', bind_params_x ps vs r w = Ok (r', w') ->
  w_clos w' = w_clos w /\ exists l, w_vars w' = w_vars w ++ l.
Proof.
  induction ps as [|p ps IH]; intros vs r w r' w' H; destruct vs as [|v vs]; cbn [bind_params_x] in H; try discriminate.
  - inversion H; subst. split; [reflexivity|]. exists []. now rewrite app_nil_r.
  - unfold alloc in H.
    destruct (bind_params_x ps vs r (mkW (w_vars w ++ [v]) (w_clos w))) as [[r1 w1]| |c] eqn:E; try discriminate.
    inversion H; subst. destruct (IH _ _ _ _ _ E) as (C & l & V). cbn in C, V. split; [exact C|].
    exists ([v] ++ l). rewrite V. now rewrite app_assoc.
Qed.
