(* Lmmx/ConservProg.v — conservativity for whole programs: on the embedding of an Lmmm program with pairwise distinct
   function names, with enough fuel, xrun_full computes the output stream AND the final state tree of Lmmm.ref_run. *)
From Coq Require Import List ZArith NArith Bool Lia.
From Mimium Require Import Lmmm.Syntax Lmmm.Ref Lmmm.Base Lmmx.Syntax Lmmx.Ref Lmmx.Mono Lmmx.Conserv.
Import ListNotations.

Definition embed_params (ps : list ident) : list (ident * option xexpr) := map (fun x => (vid x, None)) ps.
Definition embed_fun (fd : fundef) : gdecl := GFun (fid (f_name fd)) (embed_params (f_params fd)) (embed (f_body fd)).
Definition embed_let (xe : ident * expr) : pat * xexpr := (PVar (vid (fst xe)), embed (snd xe)).
Definition embed_prog (p : program) : xprogram :=
  mkXProg (map embed_fun (p_funs p)) (map vid (p_inputs p)) (map embed_let (p_lets p)) (map embed (p_outs p)).

Definition fun_entry (fd : fundef) (r' : xenv) : fentry := mkF (embed_params (f_params fd)) (embed (f_body fd)) r'.

(* what xinit does on embedded function definitions (no evaluation takes place) *)
Fixpoint ginit (fs : list fundef) (r : xenv) (ft : list fentry) : xenv * list fentry :=
  match fs with
  | [] => (r, ft)
  | fd :: fs' =>
      let r' := (fid (f_name fd), BFun (length ft)) :: r in
      ginit fs' r' (ft ++ [fun_entry fd r'])
  end.

Lemma xinit_embed : forall n fs r ft w,
  xinit n (map embed_fun fs) r ft w = Ok (fst (ginit fs r ft), snd (ginit fs r ft), w).
Proof.
  intros n fs. induction fs as [|fd fs IH]; intros r ft w; cbn [map xinit ginit embed_fun].
  - reflexivity.
  - apply IH.
Qed.

Lemma ginit_table : forall fs r ft, exists l, snd (ginit fs r ft) = ft ++ l.
Proof.
  induction fs as [|fd fs IH]; intros r ft; cbn [ginit].
  - exists []. now rewrite app_nil_r.
  - destruct (IH ((fid (f_name fd), BFun (length ft)) :: r) (ft ++ [fun_entry fd ((fid (f_name fd), BFun (length ft)) :: r)])) as (l & Hl).
    rewrite Hl. rewrite <- app_assoc. eexists. reflexivity.
Qed.

Definition kf_of (rho : xenv) (f : ident) : option nat :=
  match xlookup (fid f) rho with Some (BFun k) => Some k | _ => None end.

Lemma fun_ok_kf_of : forall rho, fun_ok (kf_of rho) rho.
Proof.
  intros rho f k. unfold kf_of. destruct (xlookup (fid f) rho) as [[l|k']|]; try discriminate.
  intros H. inversion H. reflexivity.
Qed.

(* parameters *)
Lemma bind_params_sim : forall ps vs r, bind_params ps vs = Some r ->
  forall rho w, exists rho' w',
    bind_params_x (map vid ps) (map VNum vs) rho w = Ok (rho', w') /\ ext w w' /\ env_ok r rho' w' /\
    (forall kf, fun_ok kf rho -> fun_ok kf rho').
Proof.
  induction ps as [|p ps IH]; intros vs r H rho w; destruct vs as [|v vs]; cbn in H; try discriminate.
  - inversion H; subst. exists rho, w. cbn. split; [reflexivity|]. split; [apply ext_refl|]. split; [|auto].
    intros x z Hx. cbn in Hx. discriminate.
  - destruct (bind_params ps vs) as [r1|] eqn:E; [|discriminate]. inversion H; subst; clear H.
    cbn [map bind_params_x]. unfold alloc at 1.
    destruct (IH vs r1 E rho (mkW (w_vars w ++ [VNum v]) (w_clos w))) as (rho1 & w2 & E2 & X2 & Hok & Hf).
    rewrite E2. eexists. exists w2. split; [reflexivity|].
    assert (X : ext w w2).
    { eapply ext_trans; [|exact X2]. exact (ext_alloc (VNum v) w). }
    split; [exact X|]. split.
    + intros y zy Hy. cbn [lookup] in Hy. cbn [xlookup]. rewrite vid_eqb. destruct (N.eqb y p).
      * inversion Hy; subst. eexists. split; [reflexivity|].
        destruct X2 as [_ [l V]]. rewrite V. cbn [w_vars]. rewrite <- app_assoc.
        rewrite nth_error_app2 by lia. rewrite Nat.sub_diag. reflexivity.
      * exact (Hok y zy Hy).
    + intros kf Hk f k Hfk. cbn [xlookup]. rewrite fid_vid_eqb. exact (Hf kf Hk f k Hfk).
Qed.

Section Prog.
  Variable FT : list fentry.

  Lemma ref_fenv_names : forall now done f fn, ref_fenv now done f = Some fn -> In f (map f_name done).
  Proof.
    intros now. induction done as [|fd done IH]; intros f fn H; cbn [ref_fenv] in H.
    - discriminate.
    - cbn [map In]. destruct (N.eqb_spec f (f_name fd)) as [->|Hne]; [now left|]. right. eapply IH; eauto.
  Qed.

  (* a function of the table simulates ref_call *)
  Lemma ref_call_sim : forall now kf fe fd k rho,
    fenv_rel FT now kf fe ->
    nth_error FT k = Some (fun_entry fd rho) ->
    fun_ok kf rho ->
    fn_sim FT now (ref_call fe now fd) k.
  Proof.
    intros now kf fe fd k rho Hfe Hnth Hrho vs inst v inst' H.
    unfold ref_call in H.
    destruct (bind_params (f_params fd) vs) as [r|] eqn:Eb; [|discriminate].
    destruct (ref_eval fe now (match cell_of inst with CSelf z => z | _ => 0%Z end) r (f_body fd) (kid inst 0))
      as [[v0 kb]|] eqn:Ee; [|discriminate].
    inversion H; subst; clear H.
    destruct (embed_sim FT now kf fe Hfe (f_body fd) _ _ _ _ _ Ee) as (n0 & H0).
    exists n0. intros n Hn w.
    unfold call_fun. rewrite Hnth. cbn [fe_params fe_body fe_env fun_entry].
    unfold embed_params. rewrite map_map. cbn [fst].
    change (map (fun x : ident => vid x) (f_params fd)) with (map vid (f_params fd)).
    destruct (bind_params_sim _ _ _ Eb rho w) as (rho' & w1 & E1 & X1 & Hok & Hf).
    rewrite E1. cbn [rbind].
    assert (Hss : self_of (self_part inst) = match cell_of inst with CSelf z => z | _ => 0%Z end) by (destruct inst; reflexivity).
    destruct (H0 n Hn (self_part inst) Hss rho' w1 (Hf kf Hrho) Hok) as (w2 & E2 & X2).
    rewrite E2. cbn [rbind self_node enc].
    exists w2. split; [reflexivity|eapply ext_trans; eauto].
  Qed.

  Definition names_ok (rho : xenv) (done : list fundef) : Prop :=
    forall f k, kf_of rho f = Some k -> In f (map f_name done).

  Lemma ginit_rel : forall now fs done rho ftp,
    (exists l, FT = snd (ginit fs rho ftp) ++ l) ->
    NoDup (map f_name fs) ->
    (forall fd, In fd fs -> ~ In (f_name fd) (map f_name done)) ->
    names_ok rho done ->
    fenv_rel FT now (kf_of rho) (ref_fenv now done) ->
    names_ok (fst (ginit fs rho ftp)) (rev fs ++ done) /\
    fenv_rel FT now (kf_of (fst (ginit fs rho ftp))) (ref_fenv now (rev fs ++ done)).
  Proof.
    intros now. induction fs as [|fd fs IH]; intros done rho ftp HFT Hnd Hfresh Hnames Hrel.
    - cbn. auto.
    - cbn [ginit rev]. rewrite <- app_assoc. cbn [app].
      set (rho' := (fid (f_name fd), BFun (length ftp)) :: rho) in *.
      cbn [ginit] in HFT. fold rho' in HFT.
      inversion Hnd as [|? ? Hnotin Hnd']; subst.
      assert (Hnew : kf_of rho (f_name fd) = None).
      { destruct (kf_of rho (f_name fd)) eqn:E; [|reflexivity].
        exfalso. apply (Hfresh fd (or_introl eq_refl)). eapply Hnames; eauto. }
      assert (Hkf : forall f, kf_of rho' f = if N.eqb f (f_name fd) then Some (length ftp) else kf_of rho f).
      { intros f. unfold kf_of, rho'. cbn [xlookup]. rewrite fid_eqb. destruct (N.eqb f (f_name fd)); reflexivity. }
      apply IH.
      + exact HFT.
      + exact Hnd'.
      + intros fd' Hin Hin'. cbn [map In] in Hin'. destruct Hin' as [Heq|Hin'].
        * apply Hnotin. rewrite Heq. apply in_map. exact Hin.
        * apply (Hfresh fd' (or_intror Hin)). exact Hin'.
      + intros f k Hk. rewrite Hkf in Hk. cbn [map In]. destruct (N.eqb_spec f (f_name fd)) as [->|Hne]; [now left|].
        right. eapply Hnames; eauto.
      + intros f fn Hf. cbn [ref_fenv] in Hf. rewrite Hkf.
        destruct (N.eqb_spec f (f_name fd)) as [->|Hne].
        * inversion Hf; subst; clear Hf. exists (length ftp). split; [reflexivity|].
          destruct HFT as (l & HFT). destruct (ginit_table fs rho' (ftp ++ [fun_entry fd rho'])) as (l2 & Hl2).
          eapply (ref_call_sim now (kf_of rho) (ref_fenv now done) fd (length ftp) rho').
          -- exact Hrel.
          -- rewrite HFT, Hl2. rewrite <- !app_assoc. rewrite nth_error_app2 by lia.
             rewrite Nat.sub_diag. reflexivity.
          -- intros g k Hg. unfold rho'. cbn [xlookup]. rewrite fid_eqb.
             destruct (N.eqb_spec g (f_name fd)) as [->|Hne]; [congruence|].
             apply fun_ok_kf_of. exact Hg.
        * destruct (Hrel f fn Hf) as (k & Hk & Hs). exists k. split; [exact Hk|exact Hs].
  Qed.

  Section Sample.
    Variable now : Z.
    Variable kf : ident -> option nat.
    Variable fe : ident -> option ref_fn.
    Hypothesis Hfe : fenv_rel FT now kf fe.

    Lemma lets_sim : forall lets r s i r' ks, ref_lets fe now r lets s i = Some (r', ks) ->
      exists n0, forall n, n0 <= n -> forall rho w, fun_ok kf rho -> env_ok r rho w ->
        exists rho' w', xlets (xeval n FT now) rho (map embed_let lets) s i w = Ok (rho', ks, w') /\
                        ext w w' /\ fun_ok kf rho' /\ env_ok r' rho' w'.
    Proof.
      induction lets as [|[x e] lets IH]; intros r s i r' ks H; cbn [ref_lets] in H.
      - inversion H; subst. exists O. intros n _ rho w Hr Hw. exists rho, w. cbn. repeat split; auto. apply ext_refl.
      - destruct (ref_eval fe now 0%Z r e (kid s i)) as [[v k]|] eqn:Ee; [|discriminate].
        destruct (ref_lets fe now ((x, v) :: r) lets s (S i)) as [[r2 ks2]|] eqn:El; [|discriminate].
        inversion H; subst; clear H.
        destruct (embed_sim FT now kf fe Hfe e _ _ _ _ _ Ee) as (n1 & H1).
        destruct (IH _ _ _ _ _ El) as (n2 & H2).
        exists (Nat.max n1 n2). intros n Hn rho w Hr Hw.
        destruct (H1 n ltac:(lia) st0 eq_refl rho w Hr Hw) as (w1 & E1 & X1).
        cbn [map xlets embed_let fst snd]. rewrite E1. cbn [rbind bind_pat]. unfold alloc at 1. cbn [rbind].
        pose proof (env_ok_bind r rho w1 x v (env_ok_ext _ _ _ _ Hw X1)) as Hw2.
        destruct (H2 n ltac:(lia) _ _ (fun_ok_bind kf rho x (BLoc (length (w_vars w1))) Hr) Hw2) as (rho3 & w3 & E3 & X3 & Hr3 & Hw3).
        unfold alloc in E3, X3. cbn [snd] in E3, X3. rewrite E3. cbn [rbind].
        exists rho3, w3. split; [reflexivity|]. split; [|split; assumption].
        eapply ext_trans; [exact X1|]. eapply ext_trans; [|exact X3]. exact (ext_alloc (VNum v) w1).
    Qed.

    Lemma outs_sim : forall outs r s i vs ks, ref_outs fe now r outs s i = Some (vs, ks) ->
      exists n0, forall n, n0 <= n -> forall rho w, fun_ok kf rho -> env_ok r rho w ->
        exists w', xouts (xeval n FT now) rho (map embed outs) s i w = Ok (vs, ks, w') /\ ext w w'.
    Proof.
      induction outs as [|e outs IH]; intros r s i vs ks H; cbn [ref_outs] in H.
      - inversion H; subst. exists O. intros n _ rho w _ _. exists w. split; [reflexivity|apply ext_refl].
      - destruct (ref_eval fe now 0%Z r e (kid s i)) as [[v k]|] eqn:Ee; [|discriminate].
        destruct (ref_outs fe now r outs s (S i)) as [[vs2 ks2]|] eqn:Eo; [|discriminate].
        inversion H; subst; clear H.
        destruct (embed_sim FT now kf fe Hfe e _ _ _ _ _ Ee) as (n1 & H1).
        destruct (IH _ _ _ _ _ Eo) as (n2 & H2).
        exists (Nat.max n1 n2). intros n Hn rho w Hr Hw.
        destruct (H1 n ltac:(lia) st0 eq_refl rho w Hr Hw) as (w1 & E1 & X1).
        destruct (H2 n ltac:(lia) rho w1 Hr (env_ok_ext _ _ _ _ Hw X1)) as (w2 & E2 & X2).
        cbn [map xouts]. rewrite E1. cbn [rbind as_num]. rewrite E2. cbn [rbind].
        exists w2. split; [reflexivity|eapply ext_trans; eauto].
    Qed.
  End Sample.
End Prog.

Section Run.
  Variable p : program.
  Hypothesis Hnd : NoDup (map f_name (p_funs p)).

  Let genv := fst (ginit (p_funs p) [] []).
  Let FT := snd (ginit (p_funs p) [] []).

  Lemma prog_fenv_rel : forall now, fenv_rel FT now (kf_of genv) (ref_fenv now (rev (p_funs p))).
  Proof.
    intros now.
    destruct (ginit_rel FT now (p_funs p) [] [] []) as [_ H].
    - exists []. unfold FT. now rewrite app_nil_r.
    - exact Hnd.
    - intros fd _ Hin. exact Hin.
    - intros f k Hk. unfold kf_of in Hk. cbn in Hk. discriminate.
    - intros f fn Hf. cbn in Hf. discriminate.
    - rewrite app_nil_r in H. exact H.
  Qed.

  Lemma step_sim : forall now inputs s outs s', ref_step p now inputs s = Some (outs, s') ->
    exists n0, forall n, n0 <= n -> forall w,
      exists w', xsample n (embed_prog p) genv FT now inputs s w = Ok (outs, s', w') /\ ext w w'.
  Proof.
    intros now inputs s outs s' H. unfold ref_step in H.
    destruct (bind_params (p_inputs p) inputs) as [r0|] eqn:Eb; [|discriminate].
    destruct (ref_lets (ref_fenv now (rev (p_funs p))) now r0 (p_lets p) s 0) as [[r ks1]|] eqn:El; [|discriminate].
    destruct (ref_outs (ref_fenv now (rev (p_funs p))) now r (p_outs p) s (length (p_lets p))) as [[vs ks2]|] eqn:Eo; [|discriminate].
    inversion H; subst; clear H.
    pose proof (prog_fenv_rel now) as Hfe.
    destruct (lets_sim FT now _ _ Hfe _ _ _ _ _ _ El) as (n1 & H1).
    destruct (outs_sim FT now _ _ Hfe _ _ _ _ _ _ Eo) as (n2 & H2).
    exists (Nat.max n1 n2). intros n Hn w. unfold xsample. cbn [embed_prog x_inputs x_lets x_outs].
    destruct (bind_params_sim _ _ _ Eb genv w) as (rho0 & w0 & E0 & X0 & Hok0 & Hf0).
    rewrite E0. cbn [rbind].
    destruct (H1 n ltac:(lia) rho0 w0 (Hf0 _ (fun_ok_kf_of genv)) Hok0) as (rho1 & w1 & E1 & X1 & Hr1 & Hw1).
    rewrite E1. cbn [rbind]. rewrite map_length.
    destruct (H2 n ltac:(lia) rho1 w1 Hr1 Hw1) as (w2 & E2 & X2).
    rewrite E2. cbn [rbind].
    exists w2. split; [reflexivity|]. eapply ext_trans; [exact X0|]. eapply ext_trans; eauto.
  Qed.

  Lemma run_sim : forall rows t0 s outs s', ref_run p t0 rows s = Some (outs, s') ->
    exists n0, forall n, n0 <= n -> forall w,
      exists w', xsamples n (embed_prog p) genv FT t0 rows s w = Ok (outs, s', w').
  Proof.
    induction rows as [|i rows IH]; intros t0 s outs s' H; cbn [ref_run] in H.
    - inversion H; subst. exists O. intros n _ w. exists w. reflexivity.
    - destruct (ref_step p t0 i s) as [[o s1]|] eqn:Es; [|discriminate].
      destruct (ref_run p (t0 + 1)%Z rows s1) as [[os s2]|] eqn:Er; [|discriminate].
      inversion H; subst; clear H.
      destruct (step_sim _ _ _ _ _ Es) as (n1 & H1).
      destruct (IH _ _ _ _ Er) as (n2 & H2).
      exists (Nat.max n1 n2). intros n Hn w. cbn [xsamples].
      destruct (H1 n ltac:(lia) w) as (w1 & E1 & _). rewrite E1. cbn [rbind].
      destruct (H2 n ltac:(lia) w1) as (w2 & E2). rewrite E2. cbn [rbind].
      exists w2. reflexivity.
  Qed.

  Theorem conservative_full : forall rows outs s', ref_run p 0%Z rows st0 = Some (outs, s') ->
    exists n0, forall n, n0 <= n -> exists w, xrun_full n (embed_prog p) rows = Ok (outs, s', w).
  Proof.
    intros rows outs s' H. destruct (run_sim _ _ _ _ _ H) as (n0 & H0).
    exists n0. intros n Hn. unfold xrun_full. cbn [embed_prog x_globals].
    rewrite xinit_embed. cbn [rbind]. apply (H0 n Hn w0).
  Qed.

  Theorem conservative : forall rows outs s', ref_run p 0%Z rows st0 = Some (outs, s') ->
    exists n0, forall n, n0 <= n -> xrun n (embed_prog p) rows = Ok outs.
  Proof.
    intros rows outs s' H. destruct (conservative_full _ _ _ H) as (n0 & H0).
    exists n0. intros n Hn. destruct (H0 n Hn) as (w & E). unfold xrun. rewrite E. reflexivity.
  Qed.
End Run.
