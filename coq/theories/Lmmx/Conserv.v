(* Lmmx/Conserv.v — the extended reference semantics is CONSERVATIVE over the proved first-order one (Lmmm/Ref.v):
   on the embedding of an Lmmm expression, with enough fuel, xeval computes the value AND the state tree of ref_eval.
   Expression level; programs in ConservProg.v.

   Embedding: variables x |-> 2x, function names f |-> 2f+1 (Lmmm has two name spaces, Lmmx one);
   ECall f args |-> XApp (XVar f) args (a direct call, rule D); let x |-> let (PVar x). *)
From Coq Require Import List ZArith NArith Bool Lia.
From Mimium Require Import Lmmm.Syntax Lmmm.Ref Lmmm.Base Lmmx.Syntax Lmmx.Ref Lmmx.Mono.
Import ListNotations.

Definition vid (x : ident) : ident := (2 * x)%N.
Definition fid (f : ident) : ident := (2 * f + 1)%N.

Fixpoint embed (e : expr) : xexpr :=
  match e with
  | ELit z => XLit z
  | EVar x => XVar (vid x)
  | ENow => XNow
  | ESr => XSr
  | ESelf => XSelf
  | EBin op a b => XBin op (embed a) (embed b)
  | ENeg a => XNeg (embed a)
  | ELet x a b => XLet (PVar (vid x)) (embed a) (embed b)
  | EIf c t e' => XIf (embed c) (embed t) (embed e')
  | ECall f args => XApp (XVar (fid f)) (map embed args)
  | EMem a => XMem (embed a)
  | EDelay n a t => XDelay n (embed a) (embed t)
  end.

Lemma vid_eqb : forall x y, N.eqb (vid x) (vid y) = N.eqb x y.
Proof.
  intros x y. unfold vid. destruct (N.eqb_spec x y) as [->|Hne].
  - apply N.eqb_refl.
  - apply N.eqb_neq. lia.
Qed.
Lemma fid_eqb : forall x y, N.eqb (fid x) (fid y) = N.eqb x y.
Proof.
  intros x y. unfold fid. destruct (N.eqb_spec x y) as [->|Hne].
  - apply N.eqb_refl.
  - apply N.eqb_neq. lia.
Qed.
Lemma fid_vid_eqb : forall f x, N.eqb (fid f) (vid x) = false.
Proof. intros. apply N.eqb_neq. unfold fid, vid. lia. Qed.
Lemma vid_fid_eqb : forall f x, N.eqb (vid x) (fid f) = false.
Proof. intros. apply N.eqb_neq. unfold fid, vid. lia. Qed.

(* the world only grows by variable cells; instances are neither created nor changed *)
Definition ext (w w' : world) : Prop := w_clos w' = w_clos w /\ exists l, w_vars w' = w_vars w ++ l.

Lemma ext_refl : forall w, ext w w.
Proof. intros w. split; [reflexivity|]. exists []. now rewrite app_nil_r. Qed.
Lemma ext_trans : forall w1 w2 w3, ext w1 w2 -> ext w2 w3 -> ext w1 w3.
Proof.
  intros w1 w2 w3 [C1 [l1 V1]] [C2 [l2 V2]]. split; [congruence|].
  exists (l1 ++ l2). rewrite V2, V1. now rewrite app_assoc.
Qed.
Lemma ext_alloc : forall v w, ext w (snd (alloc v w)).
Proof. intros v w. unfold alloc. cbn. split; [reflexivity|]. eexists. reflexivity. Qed.

Definition env_ok (r : env) (rho : xenv) (w : world) : Prop :=
  forall x z, lookup x r = Some z ->
    exists l, xlookup (vid x) rho = Some (BLoc l) /\ nth_error (w_vars w) l = Some (VNum z).

Lemma env_ok_ext : forall r rho w w', env_ok r rho w -> ext w w' -> env_ok r rho w'.
Proof.
  intros r rho w w' H [_ [l V]] x z Hx. destruct (H x z Hx) as (loc & Hl & Hn).
  exists loc. split; [exact Hl|]. rewrite V. rewrite nth_error_app1; [exact Hn|].
  apply nth_error_Some. congruence.
Qed.

Lemma env_ok_bind : forall r rho w x z,
  env_ok r rho w ->
  env_ok ((x, z) :: r) ((vid x, BLoc (length (w_vars w))) :: rho) (snd (alloc (VNum z) w)).
Proof.
  intros r rho w x z H y zy Hy. cbn [lookup] in Hy. cbn [xlookup]. rewrite vid_eqb.
  destruct (N.eqb y x).
  - inversion Hy; subst. eexists. split; [reflexivity|]. unfold alloc. cbn.
    rewrite nth_error_app2 by lia. now rewrite Nat.sub_diag.
  - destruct (H y zy Hy) as (loc & Hl & Hn). exists loc. split; [exact Hl|].
    unfold alloc. cbn. rewrite nth_error_app1; [exact Hn|]. apply nth_error_Some. congruence.
Qed.

Section Sim.
  Variable ft : list fentry.
  Variable now : Z.
  Variable kf : ident -> option nat.      (* Lmmm function name |-> index in the function table *)

  (* named function k of the table simulates the Lmmm function value fn (a direct call on the state of its site) *)
  Definition fn_sim (fn : ref_fn) (k : nat) : Prop :=
    forall vs inst v inst', fn vs inst = Some (v, inst') ->
      exists n0, forall n, n0 <= n -> forall w,
        exists w', call_fun ft (xeval n ft now) k (map VNum vs) inst w = Ok (VNum v, inst', w') /\ ext w w'.

  Definition fenv_rel (fenv : ident -> option ref_fn) : Prop :=
    forall f fn, fenv f = Some fn -> exists k, kf f = Some k /\ fn_sim fn k.

  (* the environment binds every function name to its table entry *)
  Definition fun_ok (rho : xenv) : Prop :=
    forall f k, kf f = Some k -> xlookup (fid f) rho = Some (BFun k).

  Lemma fun_ok_bind : forall rho x b, fun_ok rho -> fun_ok ((vid x, b) :: rho).
  Proof. intros rho x b H f k Hk. cbn [xlookup]. rewrite fid_vid_eqb. auto. Qed.

  Variable fenv : ident -> option ref_fn.
  Hypothesis Hfenv : fenv_rel fenv.

  Definition sim_expr (e : expr) : Prop :=
    forall selfv r s v s', ref_eval fenv now selfv r e s = Some (v, s') ->
    exists n0, forall n, n0 <= n -> forall ss, self_of ss = selfv -> forall rho w, fun_ok rho -> env_ok r rho w ->
      exists w', xeval n ft now ss rho (embed e) s w = Ok (VNum v, s', w') /\ ext w w'.

  (* the argument loop of ECall against eval_list *)
  Definition ref_args (selfv : Z) (r : env) (s : stree) :=
    fix go (l : list expr) (i : nat) : option (list Z * list stree) :=
      match l with
      | [] => Some ([], [])
      | a :: l' =>
          match ref_eval fenv now selfv r a (kid s i) with
          | Some (v, k) =>
              match go l' (S i) with
              | Some (vs, ks) => Some (v :: vs, k :: ks)
              | None => None
              end
          | None => None
          end
      end.

  Lemma ref_args_length : forall selfv r s args i vs ks,
    ref_args selfv r s args i = Some (vs, ks) -> length vs = length args /\ length ks = length args.
  Proof.
    induction args as [|a args IH]; intros i vs ks H; cbn in H.
    - inversion H. auto.
    - destruct (ref_eval fenv now selfv r a (kid s i)) as [[v k]|]; [|discriminate].
      destruct (ref_args selfv r s args (S i)) as [[vs' ks']|] eqn:E; [|discriminate].
      inversion H; subst. destruct (IH _ _ _ E). cbn. auto.
  Qed.

  Lemma args_sim : forall args, Forall sim_expr args ->
    forall selfv r s i vs ks, ref_args selfv r s args i = Some (vs, ks) ->
    exists n0, forall n, n0 <= n -> forall ss, self_of ss = selfv -> forall rho w, fun_ok rho -> env_ok r rho w ->
      exists w', eval_list (xeval n ft now) ss rho (map embed args) s i w = Ok (map VNum vs, ks, w') /\ ext w w'.
  Proof.
    induction 1 as [|a args Ha Hargs IH]; intros selfv r s i vs ks H.
    - cbn in H. inversion H; subst. exists O. intros n _ ss Hss rho w _ _. exists w. split; [reflexivity|apply ext_refl].
    - cbn in H.
      destruct (ref_eval fenv now selfv r a (kid s i)) as [[v k]|] eqn:Ea; [|discriminate].
      destruct (ref_args selfv r s args (S i)) as [[vs' ks']|] eqn:Er; [|discriminate].
      inversion H; subst; clear H.
      destruct (Ha _ _ _ _ _ Ea) as (n1 & H1).
      destruct (IH _ _ _ _ _ _ Er) as (n2 & H2).
      exists (Nat.max n1 n2). intros n Hn ss Hss rho w Hr Hw.
      destruct (H1 n ltac:(lia) ss Hss rho w Hr Hw) as (w1 & E1 & X1).
      destruct (H2 n ltac:(lia) ss Hss rho w1 Hr (env_ok_ext _ _ _ _ Hw X1)) as (w2 & E2 & X2).
      exists w2. split; [|eapply ext_trans; eauto].
      cbn [map eval_list]. rewrite E1. cbn [rbind]. rewrite E2. reflexivity.
  Qed.

  Ltac fuel n := destruct n as [|n]; [lia|]; cbn [xeval embed xstep].

  Lemma embed_sim : forall e, sim_expr e.
  Proof.
    induction e as [z|x| | | |op e1 e2 IHe1 IHe2|e IHe|x e1 e2 IHe1 IHe2|e1 e2 e3 IHe1 IHe2 IHe3|f args Hargs|e IHe|n e1 e2 IHe1 IHe2]
      using expr_ind'; intros selfv r s v s' H; cbn [ref_eval] in H.
    - (* ELit *) inversion H; subst. exists 1%nat. intros n Hn ss Hss rho w _ _. fuel n. exists w. split; [reflexivity|apply ext_refl].
    - (* EVar *)
      destruct (lookup x r) as [z|] eqn:Ex; [|discriminate]. inversion H; subst.
      exists 1%nat. intros n Hn ss Hss rho w _ Hw. fuel n. destruct (Hw _ _ Ex) as (l & Hl & Hnth).
      rewrite Hl, Hnth. exists w. split; [reflexivity|apply ext_refl].
    - (* ENow *) inversion H; subst. exists 1%nat. intros n Hn ss Hss rho w _ _. fuel n. exists w. split; [reflexivity|apply ext_refl].
    - (* ESr *) inversion H; subst. exists 1%nat. intros n Hn ss Hss rho w _ _. fuel n. exists w. split; [reflexivity|apply ext_refl].
    - (* ESelf *) inversion H; subst. exists 1%nat. intros n Hn ss Hss rho w _ _. fuel n. rewrite Hss. exists w. split; [reflexivity|apply ext_refl].
    - (* EBin *)
      destruct (ref_eval fenv now selfv r e1 (kid s 0)) as [[va ka]|] eqn:Ea; [|discriminate].
      destruct (ref_eval fenv now selfv r e2 (kid s 1)) as [[vb kb]|] eqn:Eb; [|discriminate].
      inversion H; subst; clear H.
      destruct (IHe1 _ _ _ _ _ Ea) as (n1 & H1).
      destruct (IHe2 _ _ _ _ _ Eb) as (n2 & H2).
      exists (S (Nat.max n1 n2)). intros n Hn ss Hss rho w Hr Hw. fuel n.
      destruct (H1 n ltac:(lia) ss Hss rho w Hr Hw) as (w1 & E1 & X1).
      destruct (H2 n ltac:(lia) ss Hss rho w1 Hr (env_ok_ext _ _ _ _ Hw X1)) as (w2 & E2 & X2).
      rewrite E1. cbn [rbind]. rewrite E2. cbn [rbind as_num].
      exists w2. split; [reflexivity|eapply ext_trans; eauto].
    - (* ENeg *)
      destruct (ref_eval fenv now selfv r e (kid s 0)) as [[va ka]|] eqn:Ea; [|discriminate].
      inversion H; subst; clear H.
      destruct (IHe _ _ _ _ _ Ea) as (n1 & H1).
      exists (S n1). intros n Hn ss Hss rho w Hr Hw. fuel n.
      destruct (H1 n ltac:(lia) ss Hss rho w Hr Hw) as (w1 & E1 & X1).
      rewrite E1. cbn [rbind as_num]. exists w1. split; [reflexivity|exact X1].
    - (* ELet *)
      destruct (ref_eval fenv now selfv r e1 (kid s 0)) as [[va ka]|] eqn:Ea; [|discriminate].
      destruct (ref_eval fenv now selfv ((x, va) :: r) e2 (kid s 1)) as [[vb kb]|] eqn:Eb; [|discriminate].
      inversion H; subst; clear H.
      destruct (IHe1 _ _ _ _ _ Ea) as (n1 & H1).
      destruct (IHe2 _ _ _ _ _ Eb) as (n2 & H2).
      exists (S (Nat.max n1 n2)). intros n Hn ss Hss rho w Hr Hw. fuel n.
      destruct (H1 n ltac:(lia) ss Hss rho w Hr Hw) as (w1 & E1 & X1).
      rewrite E1. cbn [rbind bind_pat]. unfold alloc at 1. cbn [rbind].
      pose proof (env_ok_bind r rho w1 x va (env_ok_ext _ _ _ _ Hw X1)) as Hw2.
      destruct (H2 n ltac:(lia) ss Hss _ _ (fun_ok_bind rho x (BLoc (length (w_vars w1))) Hr) Hw2) as (w3 & E3 & X3).
      unfold alloc in E3, X3. cbn [snd] in E3, X3. rewrite E3. cbn [rbind].
      exists w3. split; [reflexivity|].
      eapply ext_trans; [exact X1|]. eapply ext_trans; [|exact X3].
      exact (ext_alloc (VNum va) w1).
    - (* EIf *)
      destruct (ref_eval fenv now selfv r e1 (kid s 0)) as [[vc kc]|] eqn:Ec; [|discriminate].
      destruct (IHe1 _ _ _ _ _ Ec) as (n1 & H1).
      destruct (0 <? vc)%Z eqn:Ecmp.
      + destruct (ref_eval fenv now selfv r e2 (kid s 1)) as [[vt kt]|] eqn:Et; [|discriminate].
        inversion H; subst; clear H.
        destruct (IHe2 _ _ _ _ _ Et) as (n2 & H2).
        exists (S (Nat.max n1 n2)). intros n Hn ss Hss rho w Hr Hw. fuel n.
        destruct (H1 n ltac:(lia) ss Hss rho w Hr Hw) as (w1 & E1 & X1).
        destruct (H2 n ltac:(lia) ss Hss rho w1 Hr (env_ok_ext _ _ _ _ Hw X1)) as (w2 & E2 & X2).
        rewrite E1. cbn [rbind as_num]. rewrite Ecmp. rewrite E2. cbn [rbind].
        exists w2. split; [reflexivity|eapply ext_trans; eauto].
      + destruct (ref_eval fenv now selfv r e3 (kid s 2)) as [[ve ke]|] eqn:Ee; [|discriminate].
        inversion H; subst; clear H.
        destruct (IHe3 _ _ _ _ _ Ee) as (n2 & H2).
        exists (S (Nat.max n1 n2)). intros n Hn ss Hss rho w Hr Hw. fuel n.
        destruct (H1 n ltac:(lia) ss Hss rho w Hr Hw) as (w1 & E1 & X1).
        destruct (H2 n ltac:(lia) ss Hss rho w1 Hr (env_ok_ext _ _ _ _ Hw X1)) as (w2 & E2 & X2).
        rewrite E1. cbn [rbind as_num]. rewrite Ecmp. rewrite E2. cbn [rbind].
        exists w2. split; [reflexivity|eapply ext_trans; eauto].
    - (* ECall *)
      change (match ref_args selfv r s args O with
              | Some (vs, ks) =>
                  match fenv f with
                  | Some fn =>
                      match fn vs (kid s (length args)) with
                      | Some (v, ki) => Some (v, ST CNone (ks ++ [ki]))
                      | None => None
                      end
                  | None => None
                  end
              | None => None
              end = Some (v, s')) in H.
      destruct (ref_args selfv r s args O) as [[vs ks]|] eqn:Ea; [|discriminate].
      destruct (fenv f) as [fn|] eqn:Ef; [|discriminate].
      destruct (fn vs (kid s (length args))) as [[v' ki]|] eqn:Ec; [|discriminate].
      inversion H; subst; clear H.
      destruct (args_sim args Hargs _ _ _ _ _ _ Ea) as (n1 & H1).
      destruct (Hfenv f fn Ef) as (k & Hk & Hsim).
      destruct (Hsim _ _ _ _ Ec) as (n2 & H2).
      exists (S (Nat.max n1 n2)). intros n Hn ss Hss rho w Hr Hw. fuel n.
      unfold apply_x, direct_target. rewrite (Hr f k Hk). rewrite map_length.
      destruct (H1 n ltac:(lia) ss Hss rho w Hr Hw) as (w1 & E1 & X1).
      rewrite E1. cbn [rbind].
      destruct (H2 n ltac:(lia) w1) as (w2 & E2 & X2).
      rewrite E2. cbn [rbind].
      exists w2. split; [reflexivity|eapply ext_trans; eauto].
    - (* EMem *)
      destruct (ref_eval fenv now selfv r e (kid s 0)) as [[va ka]|] eqn:Ea; [|discriminate].
      inversion H; subst; clear H.
      destruct (IHe _ _ _ _ _ Ea) as (n1 & H1).
      exists (S n1). intros n Hn ss Hss rho w Hr Hw. fuel n.
      destruct (H1 n ltac:(lia) ss Hss rho w Hr Hw) as (w1 & E1 & X1).
      rewrite E1. cbn [rbind as_num]. exists w1. split; [reflexivity|exact X1].
    - (* EDelay *)
      destruct (ref_eval fenv now selfv r e1 (kid s 0)) as [[va ka]|] eqn:Ea; [|discriminate].
      destruct (ref_eval fenv now selfv r e2 (kid s 1)) as [[vt kt]|] eqn:Et; [|discriminate].
      inversion H; subst; clear H.
      destruct (IHe1 _ _ _ _ _ Ea) as (n1 & H1).
      destruct (IHe2 _ _ _ _ _ Et) as (n2 & H2).
      exists (S (Nat.max n1 n2)). intros n0 Hn ss Hss rho w Hr Hw. fuel n0.
      destruct (H1 n0 ltac:(lia) ss Hss rho w Hr Hw) as (w1 & E1 & X1).
      destruct (H2 n0 ltac:(lia) ss Hss rho w1 Hr (env_ok_ext _ _ _ _ Hw X1)) as (w2 & E2 & X2).
      rewrite E1. cbn [rbind]. rewrite E2. cbn [rbind as_num].
      exists w2. split; [reflexivity|eapply ext_trans; eauto].
  Qed.
End Sim.
