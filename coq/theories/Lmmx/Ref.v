(* Lmmx/Ref.v — reference semantics of the core language with closures (specification; fuelled big-step interpreter).

   RULES (the observable behaviour the real compiler is compared with; found by reading mirgen.rs Expr::Lambda /
   Expr::Apply / emit_fncall / eval_rvar / eval_args, vm.rs Closure / close_upvalues_by_idx / states_stack, and by the
   probe programs in corpus/lmmx):

   V  Variables are mutable CELLS of a store.  `let` and parameter passing allocate a fresh cell holding a COPY of the
      value (call by value: numbers, tuples and records are copied; a closure value is a reference to its instance).
      `x = e` overwrites the cell.  A lambda captures the cells of its free variables BY REFERENCE: while and after the
      defining frame lives, the closure and everybody else who can name the variable see each other's assignments
      (vm.rs: open upvalues on the stack, closed cells once the frame is left; wasmgen.rs: alloc cells).
   I  A closure INSTANCE is created each time a lambda expression is evaluated, and each time a named function is
      mentioned in value position (passed, returned, stored).  The instance owns a zero-initialised state tree for the
      stateful constructs of its body (vm.rs Closure.state_storage); the state lives as long as the instance: an
      instance kept in a global keeps its state from sample to sample, an instance created anew on every sample starts
      from zero every sample.  Calls through different references to the same instance share its state.
   D  A DIRECT call f(args) of a named function (a name bound by `fn`) is not an instance: as in Lmmm the textual call
      site owns the function's state, as a subtree of the state of the enclosing function / instance / dsp.
   S  `self` in a function or lambda body is the previous return value of that call site / instance: the feedback cell
      holds a VALUE of the function's return type (a number, or a tuple / record / sum of numbers: several machine
      words), zero-initialised = all words zero = 0, tuples / records of zero values, the FIRST constructor of a sum
      type with a zero payload (mir.rs StateType, observed on both backends).  The cell is the state node of the site
      (Syntax.self_node / dec); `self` is written XSelf where the function returns a number and XSelfS sh where it
      returns data of shape sh.  `mem`, `delay`, `now`, `samplerate` as in Lmmm.  "Previous" means the previous
      EXECUTION (a closure may run a site several times per sample).
   M  `match e { m1 => e1, .., mn => en }`: e is evaluated, then the FIRST arm whose pattern matches is taken: its
      constructor patterns bind the payload (fresh cells, like `let`), its body is evaluated.  Literal patterns compare
      numbers, `_` matches everything, a constructor pattern compares the tag, a tuple pattern matches componentwise.
      Each arm owns the state of the stateful constructs in its body (child 1 + i of the match node); an arm that is
      not taken keeps its state (mirgen.rs eval_match / eval_union_match / compile_decision_tree, begin_state_arm).
      When no arm matches the evaluation is stuck (E_NOMATCH): exhaustiveness is the type checker's business.
      KNOWN deviations of the real compiler (both backends; pinned in corpus/lmmx): a `_` arm is the DEFAULT wherever it
      stands and a tuple match is compiled to a decision tree, so an arm that follows a more general one can still be
      taken (M1), and an arm that the tree duplicates owns one state per copy (M2).
   O  Evaluation order: callee expression, then arguments left to right; operands left to right; tuple elements left
      to right; record fields in canonical (sorted-by-name) order; `a |> f` is f(a).
   N  f({x = a, ..}) calls the named function f with named arguments; a parameter that is not mentioned takes its
      default expression, evaluated at call time in the function's defining (global) environment.

   NOT MODELLED (kept out of the compared programs by the generator, pinned by corpus cases R5 / R5b): for the compiler a
   lambda WITHOUT free local variables is a function constant — bound by `let` it behaves like a local `fn` (direct
   calls, per-call-site state, rule D), not like an instance; the two readings differ only when such a lambda is
   stateful.  Assignment to tuple / record fields, recursion through `letrec`, `_` partial application (a macro-stage
   construct), the `..` form of incomplete records, constructors used as function values and `self` of a boxed
   (`type rec`) type are outside the syntax.

   State is a TREE keyed by the position in the syntax (Lmmm.Ref.stree): the evaluation of a subexpression receives
   exactly its own subtree (`kid s i`) and returns the new one; sibling subtrees are never seen.  Instance states live
   in the world next to the variable cells because instances are shared by reference.

   `xeval (S n) = xstep (xeval n)`: one unfolding of the semantics with the recursive calls taken from the evaluator
   with less fuel; OutOfFuel and Stuck are explicit answers. *)
From Coq Require Import List ZArith NArith Bool.
From Mimium Require Import Lmmm.Syntax Lmmm.Ref Lmmx.Syntax.
Import ListNotations.

Definition rbind {A B} (m : res A) (k : A -> res B) : res B :=
  match m with Ok a => k a | OutOfFuel => OutOfFuel | Stuck c => Stuck c end.

Notation "'do' x <- m ; k" := (rbind m (fun x => k)) (at level 200, x pattern, m at level 100, k at level 200).

(* feedback cell of the running function (Syntax.self_part of its site), environment, expression, state subtree, world
   |-> value, new subtree, new world *)
Definition evaluator := stree -> xenv -> xexpr -> stree -> world -> res (val * stree * world).

Definition ev_bot : evaluator := fun _ _ _ _ _ => OutOfFuel.

Definition as_num (v : val) : res Z := match v with VNum z => Ok z | _ => Stuck E_NOTNUM end.

Definition set_clo_state (w : world) (id : nat) (s : stree) : world :=
  match nth_error (w_clos w) id with
  | Some c => mkW (w_vars w) (set_nth (w_clos w) id (mkC (ci_params c) (ci_body c) (ci_env c) s))
  | None => w
  end.

Section Step.
  Variable ft : list fentry.
  Variable now : Z.
  Variable rec : evaluator.

  (* left to right, element j with the subtree i + j *)
  Fixpoint eval_list (selfv : stree) (r : xenv) (es : list xexpr) (s : stree) (i : nat) (w : world)
    : res (list val * list stree * world) :=
    match es with
    | [] => Ok ([], [], w)
    | e :: es' =>
        do (v, k, w1) <- rec selfv r e (kid s i) w;
        do (vs, ks, w2) <- eval_list selfv r es' s (S i) w1;
        Ok (v :: vs, k :: ks, w2)
    end.

  Fixpoint eval_fields (selfv : stree) (r : xenv) (fs : list (ident * xexpr)) (s : stree) (i : nat) (w : world)
    : res (list (ident * val) * list stree * world) :=
    match fs with
    | [] => Ok ([], [], w)
    | (f, e) :: fs' =>
        do (v, k, w1) <- rec selfv r e (kid s i) w;
        do (vs, ks, w2) <- eval_fields selfv r fs' s (S i) w1;
        Ok ((f, v) :: vs, k :: ks, w2)
    end.

  (* rule I: run the body of instance `id` on its own state *)
  Definition call_inst (id : nat) (vs : list val) (w : world) : res (val * world) :=
    match nth_error (w_clos w) id with
    | None => Stuck E_DANGLING
    | Some c =>
        do (r, w1) <- bind_params_x (ci_params c) vs (ci_env c) w;
        do (v, kb, w2) <- rec (self_part (ci_state c)) r (ci_body c) (kid (ci_state c) 0) w1;
        Ok (v, set_clo_state w2 id (self_node v kb))
    end.

  (* rule D: run the body of named function k on the state `inst` of the call site (Lmmm.ref_call) *)
  Definition call_fun (k : nat) (vs : list val) (inst : stree) (w : world) : res (val * stree * world) :=
    match nth_error ft k with
    | None => Stuck E_DANGLING
    | Some fe =>
        do (r, w1) <- bind_params_x (map fst (fe_params fe)) vs (fe_env fe) w;
        do (v, kb, w2) <- rec (self_part inst) r (fe_body fe) (kid inst 0) w1;
        Ok (v, self_node v kb, w2)
    end.

  (* rule N: the value of every parameter, given or default *)
  Fixpoint fill_defaults (fe : fentry) (ps : list (ident * option xexpr)) (given : list (ident * val)) (w : world)
    : res (list val * world) :=
    match ps with
    | [] => Ok ([], w)
    | (x, d) :: ps' =>
        match rlookup x given with
        | Some v => do (vs, w1) <- fill_defaults fe ps' given w; Ok (v :: vs, w1)
        | None =>
            match d with
            | Some de =>
                do (v, _, w1) <- rec st0 (fe_env fe) de st0 w;
                do (vs, w2) <- fill_defaults fe ps' given w1;
                Ok (v :: vs, w2)
            | None => Stuck E_NODEFAULT
            end
        end
    end.

  (* does the callee expression name a function (direct call, rule D)? *)
  Definition direct_target (r : xenv) (f : xexpr) : option nat :=
    match f with
    | XVar x => match xlookup x r with Some (BFun k) => Some k | _ => None end
    | _ => None
    end.

  Definition apply_x (selfv : stree) (r : xenv) (f : xexpr) (args : list xexpr) (s : stree) (w : world)
    : res (val * stree * world) :=
    let n := length args in
    match direct_target r f with
    | Some k =>
        do (vs, ks, w1) <- eval_list selfv r args s O w;
        do (v, ki, w2) <- call_fun k vs (kid s n) w1;
        Ok (v, ST CNone (ks ++ [ki]), w2)
    | None =>
        do (fv, kf, w0) <- rec selfv r f (kid s n) w;
        match fv with
        | VClo id =>
            do (vs, ks, w1) <- eval_list selfv r args s O w0;
            do (v, w2) <- call_inst id vs w1;
            Ok (v, ST CNone (ks ++ [kf]), w2)
        | _ => Stuck E_NOTFUN
        end
    end.

  Definition xstep : evaluator := fun selfv r e s w =>
    match e with
    | XLit z => Ok (VNum z, st0, w)
    | XVar x =>
        match xlookup x r with
        | Some (BLoc l) =>
            match nth_error (w_vars w) l with Some v => Ok (v, st0, w) | None => Stuck E_DANGLING end
        | Some (BFun k) =>
            match nth_error ft k with
            | Some fe =>
                let '(id, w') := new_inst (mkC (map fst (fe_params fe)) (fe_body fe) (fe_env fe) st0) w in
                Ok (VClo id, st0, w')
            | None => Stuck E_DANGLING
            end
        | None => Stuck E_UNBOUND
        end
    | XNow => Ok (VNum now, st0, w)
    | XSr => Ok (VNum SAMPLE_RATE, st0, w)
    | XSelf => Ok (VNum (self_of selfv), st0, w)
    | XBin op a b =>
        do (va, ka, w1) <- rec selfv r a (kid s 0) w;
        do (vb, kb, w2) <- rec selfv r b (kid s 1) w1;
        do za <- as_num va;
        do zb <- as_num vb;
        Ok (VNum (eval_binop op za zb), ST CNone [ka; kb], w2)
    | XNeg a =>
        do (va, ka, w1) <- rec selfv r a (kid s 0) w;
        do za <- as_num va;
        Ok (VNum (- za)%Z, ST CNone [ka], w1)
    | XLet p a b =>
        do (va, ka, w1) <- rec selfv r a (kid s 0) w;
        do (r', w2) <- bind_pat p va r w1;
        do (vb, kb, w3) <- rec selfv r' b (kid s 1) w2;
        Ok (vb, ST CNone [ka; kb], w3)
    | XIf c t e' =>
        do (vc, kc, w1) <- rec selfv r c (kid s 0) w;
        do zc <- as_num vc;
        if (0 <? zc)%Z
        then do (v, kt, w2) <- rec selfv r t (kid s 1) w1; Ok (v, ST CNone [kc; kt; kid s 2], w2)
        else do (v, ke, w2) <- rec selfv r e' (kid s 2) w1; Ok (v, ST CNone [kc; kid s 1; ke], w2)
    | XMem a =>
        do (va, ka, w1) <- rec selfv r a (kid s 0) w;
        do za <- as_num va;
        let prev := match cell_of s with CMem z => z | _ => 0%Z end in
        Ok (VNum prev, ST (CMem za) [ka], w1)
    | XDelay n a t =>
        do (va, ka, w1) <- rec selfv r a (kid s 0) w;
        do (vt, kt, w2) <- rec selfv r t (kid s 1) w1;
        do za <- as_num va;
        do zt <- as_num vt;
        let h := match cell_of s with CDelay h _ => h | _ => [] end in
        Ok (VNum (delay_read n h zt), ST (CDelay (za :: h) (delay_ridx n h zt)) [ka; kt], w2)
    | XTuple es =>
        do (vs, ks, w1) <- eval_list selfv r es s O w;
        Ok (VTup vs, ST CNone ks, w1)
    | XProj e' i =>
        do (v, k, w1) <- rec selfv r e' (kid s 0) w;
        match v with
        | VTup vs => match nth_error vs i with Some x => Ok (x, ST CNone [k], w1) | None => Stuck E_NOTTUP end
        | _ => Stuck E_NOTTUP
        end
    | XRecord fs =>
        do (fvs, ks, w1) <- eval_fields selfv r fs s O w;
        Ok (VRec fvs, ST CNone ks, w1)
    | XField e' f =>
        do (v, k, w1) <- rec selfv r e' (kid s 0) w;
        match v with
        | VRec fvs => match rlookup f fvs with Some x => Ok (x, ST CNone [k], w1) | None => Stuck E_NOTREC end
        | _ => Stuck E_NOTREC
        end
    | XLam ps body =>
        let '(id, w') := new_inst (mkC ps body r st0) w in Ok (VClo id, st0, w')
    | XApp f args => apply_x selfv r f args s w
    | XPipe a f => apply_x selfv r f [a] s w
    | XCallNamed f fs =>
        match xlookup f r with
        | Some (BFun k) =>
            match nth_error ft k with
            | Some fe =>
                do (given, ks, w1) <- eval_fields selfv r fs s O w;
                do (vs, w2) <- fill_defaults fe (fe_params fe) given w1;
                do (v, ki, w3) <- call_fun k vs (kid s (length fs)) w2;
                Ok (v, ST CNone (ks ++ [ki]), w3)
            | None => Stuck E_DANGLING
            end
        | _ => Stuck E_NOTFUN
        end
    | XAssign x e' =>
        do (v, k, w1) <- rec selfv r e' (kid s 0) w;
        match xlookup x r with
        | Some (BLoc l) =>
            if Nat.ltb l (length (w_vars w1))
            then Ok (VUnit, ST CNone [k], mkW (set_nth (w_vars w1) l v) (w_clos w1))
            else Stuck E_DANGLING
        | _ => Stuck E_ASSIGN
        end
    | XSeq a b =>
        do (_, ka, w1) <- rec selfv r a (kid s 0) w;
        do (vb, kb, w2) <- rec selfv r b (kid s 1) w1;
        Ok (vb, ST CNone [ka; kb], w2)
    | XSelfS sh => Ok (dec sh selfv, st0, w)
    | XCon _ tag None => Ok (VCon tag VUnit, st0, w)
    | XCon _ tag (Some a) =>
        do (v, k, w1) <- rec selfv r a (kid s 0) w;
        Ok (VCon tag v, ST CNone [k], w1)
    | XMatch sc arms =>
        do (v, k0, w1) <- rec selfv r sc (kid s 0) w;
        do (i, m, body) <- find_arm arms v O;
        do (r', w2) <- mbind m v r w1;
        do (vb, kb, w3) <- rec selfv r' body (kid s (S i)) w2;
        Ok (vb, ST CNone (k0 :: arm_kids s (length arms) O i kb), w3)
    end.
End Step.

Fixpoint xeval (fuel : nat) (ft : list fentry) (now : Z) : evaluator :=
  match fuel with
  | O => ev_bot
  | S n => xstep ft now (xeval n ft now)
  end.

(* ---- programs ---- *)

(* top-level declarations, evaluated once before the first sample (now = 0) *)
Fixpoint xinit (fuel : nat) (gs : list gdecl) (r : xenv) (ft : list fentry) (w : world)
  : res (xenv * list fentry * world) :=
  match gs with
  | [] => Ok (r, ft, w)
  | GFun name params body :: gs' =>
      let r' := (name, BFun (length ft)) :: r in
      xinit fuel gs' r' (ft ++ [mkF params body r']) w
  | GLet p e :: gs' =>
      do (v, _, w1) <- xeval fuel ft 0%Z st0 r e st0 w;
      do (r', w2) <- bind_pat p v r w1;
      xinit fuel gs' r' ft w2
  end.

Fixpoint xlets (ev : evaluator) (r : xenv) (lets : list (pat * xexpr)) (s : stree) (i : nat) (w : world)
  : res (xenv * list stree * world) :=
  match lets with
  | [] => Ok (r, [], w)
  | (p, e) :: rest =>
      do (v, k, w1) <- ev st0 r e (kid s i) w;
      do (r', w2) <- bind_pat p v r w1;
      do (r'', ks, w3) <- xlets ev r' rest s (S i) w2;
      Ok (r'', k :: ks, w3)
  end.

Fixpoint xouts (ev : evaluator) (r : xenv) (outs : list xexpr) (s : stree) (i : nat) (w : world)
  : res (list Z * list stree * world) :=
  match outs with
  | [] => Ok ([], [], w)
  | e :: rest =>
      do (v, k, w1) <- ev st0 r e (kid s i) w;
      do z <- as_num v;
      do (zs, ks, w2) <- xouts ev r rest s (S i) w1;
      Ok (z :: zs, k :: ks, w2)
  end.

(* one sample of dsp *)
Definition xsample (fuel : nat) (p : xprogram) (genv : xenv) (ft : list fentry) (now : Z) (inputs : list Z)
           (s : stree) (w : world) : res (list Z * stree * world) :=
  let ev := xeval fuel ft now in
  do (r0, w0) <- bind_params_x (x_inputs p) (map VNum inputs) genv w;
  do (r, ks1, w1) <- xlets ev r0 (x_lets p) s O w0;
  do (zs, ks2, w2) <- xouts ev r (x_outs p) s (length (x_lets p)) w1;
  Ok (zs, ST CNone (ks1 ++ ks2), w2).

Fixpoint xsamples (fuel : nat) (p : xprogram) (genv : xenv) (ft : list fentry) (t0 : Z) (rows : list (list Z))
         (s : stree) (w : world) : res (list (list Z) * stree * world) :=
  match rows with
  | [] => Ok ([], s, w)
  | i :: rest =>
      do (o, s1, w1) <- xsample fuel p genv ft t0 i s w;
      do (os, s2, w2) <- xsamples fuel p genv ft (t0 + 1)%Z rest s1 w1;
      Ok (o :: os, s2, w2)
  end.

(* the output stream: global initialisation, then one dsp call per input row (now = 0, 1, ...) *)
Definition xrun_full (fuel : nat) (p : xprogram) (rows : list (list Z)) : res (list (list Z) * stree * world) :=
  do (genv, ft, w) <- xinit fuel (x_globals p) [] [] w0;
  xsamples fuel p genv ft 0%Z rows st0 w.

Definition xrun (fuel : nat) (p : xprogram) (rows : list (list Z)) : res (list (list Z)) :=
  do (os, _, _) <- xrun_full fuel p rows; Ok os.

(* number of instances that exist after initialisation (instances with a larger id were created during a sample) *)
Definition xinit_instances (fuel : nat) (p : xprogram) : res nat :=
  do (_, _, w) <- xinit fuel (x_globals p) [] [] w0; Ok (length (w_clos w)).
