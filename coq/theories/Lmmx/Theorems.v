(* Lmmx/Theorems.v — facts about the reference semantics: conservativity for well-formed Lmmm programs (and, through
   Lmmm's preservation theorem, for the compiled cursor machine), the sugar equations, the frame property of the
   per-call-site state tree. *)
From Coq Require Import List ZArith NArith Bool Lia.
From Mimium Require Import StateTree.Model Lmmm.Syntax Lmmm.Ref Lmmm.Compile Lmmm.Machine Lmmm.Wf Lmmm.Spec Lmmm.PreserveProg.
From Mimium Require Import Lmmx.Syntax Lmmx.Ref Lmmx.Mono Lmmx.Conserv Lmmx.ConservProg.
Import ListNotations.

(* ---- well-formed Lmmm programs have pairwise distinct function names ---- *)
Lemma wf_funs_nodup : forall fs g g', wf_funs g fs = Some g' ->
  NoDup (map f_name fs) /\ (forall fd, In fd fs -> sig_lookup (f_name fd) g = None).
Proof.
  induction fs as [|fd fs IH]; intros g g' H; cbn [wf_funs] in H.
  - split; [constructor|]. intros fd [].
  - destruct (sig_lookup (f_name fd) g) eqn:El; cbn [negb andb] in H; [discriminate|].
    destruct (wf_expr g true (f_params fd) (f_body fd)); [|discriminate].
    destruct (IH _ _ H) as (Hnd & Hfresh). split.
    + cbn [map]. constructor; [|exact Hnd]. intros Hin. apply in_map_iff in Hin. destruct Hin as (fd' & Hname & Hin).
      specialize (Hfresh fd' Hin). cbn [sig_lookup] in Hfresh. rewrite Hname, N.eqb_refl in Hfresh. discriminate.
    + intros fd' [<-|Hin]; [exact El|]. specialize (Hfresh fd' Hin). cbn [sig_lookup] in Hfresh.
      destruct (N.eqb (f_name fd') (f_name fd)); [discriminate|exact Hfresh].
Qed.

Lemma wf_prog_nodup : forall p, wf_prog p = true -> NoDup (map f_name (p_funs p)).
Proof.
  intros p H. unfold wf_prog in H. destruct (wf_funs [] (p_funs p)) as [g|] eqn:E; [|discriminate].
  exact (proj1 (wf_funs_nodup _ _ _ E)).
Qed.

Theorem conservative_wf : forall p rows outs s',
  wf_prog p = true -> ref_run p 0%Z rows st0 = Some (outs, s') ->
  exists n0, forall n, n0 <= n -> exists w, xrun_full n (embed_prog p) rows = Ok (outs, s', w).
Proof. intros p rows outs s' Hwf. apply conservative_full. apply wf_prog_nodup. exact Hwf. Qed.

(* the compiled cursor machine of Lmmm produces the stream of the EXTENDED reference semantics *)
Theorem preservation_ext : forall p cp rows,
  compile p = Some cp -> wf_prog p = true -> rows_ok p rows ->
  exists outs n0,
    (forall n, n0 <= n -> xrun n (embed_prog p) rows = Ok outs) /\
    outs_of (mach_run VmD p cp 0%Z rows m0) = map Some outs.
Proof.
  intros p cp rows Hc Hwf Hrows.
  destruct (preservation p cp rows Hc Hwf Hrows) as (outs & s' & Href & Hm).
  destruct (conservative p (wf_prog_nodup p Hwf) rows outs s' Href) as (n0 & H0).
  exists outs, n0. split; assumption.
Qed.

(* ---- sugar ---- *)
Theorem pipe_sugar : forall n ft now sv r a f s w,
  xeval n ft now sv r (XPipe a f) s w = xeval n ft now sv r (XApp f [a]) s w.
Proof. intros [|n]; reflexivity. Qed.

(* a named-argument call that names every parameter, in order, is the positional call *)
Lemma eval_fields_combine : forall rec sv r names args s i w,
  length names = length args ->
  eval_fields rec sv r (combine names args) s i w =
  match eval_list rec sv r args s i w with
  | Ok (vs, ks, w') => Ok (combine names vs, ks, w')
  | OutOfFuel => OutOfFuel
  | Stuck c => Stuck c
  end.
Proof.
  intros rec sv r names. induction names as [|x names IH]; intros args s i w Hlen; destruct args as [|a args]; cbn in Hlen; try lia.
  - reflexivity.
  - cbn [combine eval_fields eval_list].
    destruct (rec sv r a (kid s i) w) as [[[v k] w1]| |c]; cbn [rbind]; try reflexivity.
    rewrite IH by lia.
    destruct (eval_list rec sv r args s (S i) w1) as [[[vs ks] w2]| |c]; cbn [rbind]; reflexivity.
Qed.

Lemma eval_list_length : forall rec sv r args s i w vs ks w',
  eval_list rec sv r args s i w = Ok (vs, ks, w') -> length vs = length args.
Proof.
  intros rec sv r. induction args as [|a args IH]; intros s i w vs ks w' H; cbn [eval_list] in H.
  - inversion H. reflexivity.
  - destruct (rec sv r a (kid s i) w) as [[[v k] w1]| |c]; cbn [rbind] in H; try discriminate.
    destruct (eval_list rec sv r args s (S i) w1) as [[[vs' ks'] w2]| |c] eqn:E; cbn [rbind] in H; try discriminate.
    inversion H; subst. cbn [length]. f_equal. exact (IH _ _ _ _ _ _ E).
Qed.

Lemma fill_defaults_all_given : forall rec fe ps vs w given,
  length ps = length vs -> NoDup (map fst ps) ->
  (forall x v, In (x, v) (combine (map fst ps) vs) -> rlookup x given = Some v) ->
  fill_defaults rec fe ps given w = Ok (vs, w).
Proof.
  intros rec fe. induction ps as [|[x d] ps IH]; intros vs w given Hlen Hnd Hg; destruct vs as [|v vs]; cbn in Hlen; try lia.
  - reflexivity.
  - cbn [fill_defaults]. cbn [map fst combine] in Hg, Hnd.
    rewrite (Hg x v (or_introl eq_refl)). inversion Hnd; subst.
    rewrite (IH vs w given); [reflexivity|lia|assumption|]. intros y vy Hin. apply Hg. now right.
Qed.

Lemma rlookup_combine_nodup : forall (names : list ident) (vs : list val) x v,
  NoDup names -> In (x, v) (combine names vs) -> rlookup x (combine names vs) = Some v.
Proof.
  induction names as [|y names IH]; intros vs x v Hnd Hin; destruct vs as [|vy vs]; cbn in Hin; try contradiction.
  inversion Hnd; subst. cbn [combine rlookup]. destruct Hin as [Heq|Hin].
  - inversion Heq; subst. now rewrite N.eqb_refl.
  - destruct (N.eqb_spec x y) as [->|Hne].
    + exfalso. apply H1. eapply in_combine_l; eauto.
    + apply IH; assumption.
Qed.

Theorem named_call_all_given : forall n ft now sv r f k fe args s w,
  xlookup f r = Some (BFun k) -> nth_error ft k = Some fe ->
  NoDup (map fst (fe_params fe)) -> length args = length (fe_params fe) ->
  xeval n ft now sv r (XCallNamed f (combine (map fst (fe_params fe)) args)) s w =
  xeval n ft now sv r (XApp (XVar f) args) s w.
Proof.
  intros [|n] ft now sv r f k fe args s w Hf Hk Hnd Hlen; [reflexivity|].
  cbn [xeval xstep]. unfold apply_x, direct_target. rewrite Hf, Hk.
  rewrite eval_fields_combine by (rewrite map_length; lia).
  destruct (eval_list (xeval n ft now) sv r args s 0 w) as [[[vs ks] w1]| |c] eqn:El; cbn [rbind]; try reflexivity.
  pose proof (eval_list_length _ _ _ _ _ _ _ _ _ _ El) as Hvs.
  rewrite (fill_defaults_all_given _ fe (fe_params fe) vs w1).
  - cbn [rbind]. rewrite combine_length, map_length. rewrite Nat.min_l by lia. rewrite Hlen.
    replace (length (fe_params fe)) with (length args) by lia. reflexivity.
  - lia.
  - exact Hnd.
  - intros x v Hin. apply rlookup_combine_nodup; assumption.
Qed.

(* ---- the frame property of the per-call-site state tree ----
   Positions of the whole-program state tree are paths (child indices from the root). *)
Fixpoint sub (s : stree) (p : list nat) : stree :=
  match p with
  | [] => s
  | i :: p' => sub (kid s i) p'
  end.

Fixpoint set_kid (ks : list stree) (i : nat) (t : stree) : list stree :=
  match i, ks with
  | O, [] => [t]
  | O, _ :: ks' => t :: ks'
  | S i', [] => st0 :: set_kid [] i' t
  | S i', k :: ks' => k :: set_kid ks' i' t
  end.

Fixpoint upd (s : stree) (p : list nat) (t : stree) : stree :=
  match p with
  | [] => t
  | i :: p' => let '(ST c ks) := s in ST c (set_kid ks i (upd (nth i ks st0) p' t))
  end.

Lemma nth_set_kid_same : forall ks i t, nth i (set_kid ks i t) st0 = t.
Proof.
  intros ks i. revert ks. induction i as [|i IH]; intros [|k ks] t; cbn; auto.
Qed.

Lemma nth_set_kid_other : forall ks i j t, i <> j -> nth j (set_kid ks i t) st0 = nth j ks st0.
Proof.
  intros ks i. revert ks. induction i as [|i IH]; intros [|k ks] j t Hne; destruct j as [|j]; cbn; try congruence; auto.
  - destruct j; reflexivity.
  - rewrite IH by congruence. destruct j; reflexivity.
Qed.

Lemma sub_upd_same : forall p s t, sub (upd s p t) p = t.
Proof.
  induction p as [|i p IH]; intros [c ks] t; cbn [sub upd kid]; [reflexivity|].
  rewrite nth_set_kid_same. apply IH.
Qed.

(* two positions neither of which lies below the other *)
Inductive apart : list nat -> list nat -> Prop :=
| apart_here : forall i j p q, i <> j -> apart (i :: p) (j :: q)
| apart_below : forall i p q, apart p q -> apart (i :: p) (i :: q).

Lemma sub_upd_apart : forall p q, apart p q -> forall s t, sub (upd s p t) q = sub s q.
Proof.
  induction 1 as [i j p q Hne|i p q Hap IH]; intros [c ks] t; cbn [sub upd kid].
  - rewrite nth_set_kid_other by exact Hne. reflexivity.
  - rewrite nth_set_kid_same. apply IH.
Qed.

(* evaluation of the construct at position p of a whole state tree S *)
Definition xeval_at (n : nat) (ft : list fentry) (now : Z) (sv : stree) (r : xenv) (e : xexpr) (S : stree) (p : list nat) (w : world)
  : res (val * stree * world) :=
  match xeval n ft now sv r e (sub S p) w with
  | Ok (v, s', w') => Ok (v, upd S p s', w')
  | OutOfFuel => OutOfFuel
  | Stuck c => Stuck c
  end.

(* (a) it reads only its own subtree, (b) it writes only its own subtree: every position apart from p keeps its state *)
Theorem site_state_local : forall n ft now sv r e S p w v S' w',
  xeval_at n ft now sv r e S p w = Ok (v, S', w') ->
  (forall S2, sub S2 p = sub S p ->
     exists S2', xeval_at n ft now sv r e S2 p w = Ok (v, S2', w') /\ sub S2' p = sub S' p) /\
  (forall q, apart p q -> sub S' q = sub S q).
Proof.
  intros n ft now sv r e S p w v S' w' H. unfold xeval_at in H.
  destruct (xeval n ft now sv r e (sub S p) w) as [[[v0 s0] w0]| |c] eqn:E; try discriminate.
  inversion H; subst; clear H. split.
  - intros S2 HS2. unfold xeval_at. rewrite HS2, E. eexists. split; [reflexivity|].
    now rewrite !sub_upd_same.
  - intros q Hq. apply sub_upd_apart. exact Hq.
Qed.

(* the arm of an `if` that is not taken keeps its state; a direct call hands the callee exactly the subtree of its site *)
Theorem if_untaken_arm_keeps_state : forall n ft now sv r c t e s w v s' w',
  xeval (S n) ft now sv r (XIf c t e) s w = Ok (v, s', w') ->
  kid s' 1 = kid s 1 \/ kid s' 2 = kid s 2.
Proof.
  intros n ft now sv r c t e s w v s' w' H. cbn [xeval xstep] in H.
  destruct (xeval n ft now sv r c (kid s 0) w) as [[[vc kc] w1]| |?]; cbn [rbind] in H; try discriminate.
  destruct (as_num vc) as [zc| |?]; cbn [rbind] in H; try discriminate.
  destruct (0 <? zc)%Z.
  - destruct (xeval n ft now sv r t (kid s 1) w1) as [[[vt kt] w2]| |?]; cbn [rbind] in H; try discriminate.
    inversion H; subst. right. reflexivity.
  - destruct (xeval n ft now sv r e (kid s 2) w1) as [[[ve ke] w2]| |?]; cbn [rbind] in H; try discriminate.
    inversion H; subst. left. reflexivity.
Qed.
