(* Fmt/Model.v — executable Gallina model for C14 (the formatter).

   Anchors
     /repo/crates/bin/mimium-fmt/src/cst_print.rs   (cst_to_doc and the print_* builders, emit_token_with_trivia, emit_trivia)
     /repo/crates/lib/mimium-lang/src/compiler/parser/cst_parser.rs
         (parse_postfix_expr: `if self.has_trailing_linebreak() { break }` before `(` `.` `[`;
          parse_expr_with_precedence: the has_trailing_linebreak tests only leave the loop where the loop would be left anyway)
     the `pretty` crate 0.12 (DocAllocator: text / line / softline = group(line) / hardline / nest / group / append)

   No proofs in this file.  The document language, its renderings and the parser's view of a layout are in Fmt/Doc.v
   (re-exported here); this file has the green tree and the document builder.

   `doc_of` follows cst_print.rs AFTER the repairs of the C14 findings F6 F6t FM1..FM9 (KNOWN_FINDINGS.txt `fixed:` lines):
   comments of re-created commas / braces are emitted (trivia_comments, join_with_commas), list items are what lies between
   two commas, `(a,)` keeps its comma, `if` gets a space before a bare condition, a forced break before a then-branch that
   starts with `(` / `[`, further children of a then-branch are kept, `| |` and `- -x` keep their blank.

   What is modelled
   * documents `doc` and the SET of their admissible renderings `rs` : every choice flat/broken per group, a group inside a
     flat group is flat, a hard line cannot be rendered flat (it forces every enclosing group to break).  The width algorithm
     of `pretty` (which member of the set is picked for a given width) is NOT modelled.
   * the green tree the printer walks (`cst`: token leaves carrying the trivia emit_token_with_trivia looks up, internal nodes)
     and the document builder `doc_of` for the expression / statement FRAGMENT:
       Program Statement FunctionDecl LetDecl LetRecDecl AssignExpr BinaryExpr UnaryExpr CallExpr LambdaExpr IfExpr BlockExpr
       TupleExpr ArrayExpr ParenExpr RecordExpr MacroExpansion QualifiedPath FieldAccess IndexExpr ParamList ArgList
       TuplePattern RecordPattern TupleType RecordType and the leaf-like kinds printed by print_leaf_children (literals,
       Identifier, SinglePattern, Pattern, TypeAnnotation, ParamDefault, EscapeExpr, BracketExpr, IncludeStmt, StageDecl, the
       simple types), and -- second part of the file -- the rest of the syntax:
       MatchExpr MatchArm MatchPattern ConstructorPattern TypeDecl VariantDef (children separated by single blanks),
       MatchArmList (blanks, a FORCED break before an arm that starts with `(` and follows an arm directly),
       ModuleDecl (body laid out by print_block_expr), UseStmt UseTargetMultiple UseTargetWildcard VisibilityPub,
       macro definitions (`macro` token of a FunctionDecl), UnionType as return type of a lambda.
       Only Error nodes are `SOutside`.  The printer modelled is the one AFTER the fixes FM11..FM14.
   * the `pretty` crate's document smart constructors (append drops Nil, group/nest are no-ops on Nil/text) and its rule for
     the indentation after a newline (render.rs Best::best, arm Hardline: the indentation of the NEXT pending command).
   * the parser's use of line breaks (has_trailing_linebreak): a line break between two syntax tokens p, w changes the parse
     only if p can end an expression and w is a postfix opener `(` `[` `.` (parse_postfix_expr) or a comma (parse_match_expr:
     after an arm a line break makes the parser start the next arm, so a following comma is an error; without it the comma
     is consumed) (`sensitive`).  `observed` lists, for a rendering, the line-break flags at exactly those positions;
     `src_observed` the flags of the source text itself (from the trivia of the green tree). *)
From Coq Require Import String Ascii List Bool Arith.
From Mimium Require Export Fmt.Doc.
Import ListNotations.
Local Open Scope string_scope.
Local Open Scope list_scope.

(* ------------------------------------------------------------------------------------------------ *)
(* the green tree as the printer sees it                                                              *)
(* ------------------------------------------------------------------------------------------------ *)
Inductive trivia : Type :=
| TLine (s : string)     (* SingleLineComment *)
| TBlock (s : string)    (* MultiLineComment  *)
| TNl                    (* LineBreak         *)
| TWs.                   (* Whitespace        *)

(* only the token kinds some print_* function dispatches on *)
Inductive tkind : Type :=
| KFunction | KLet | KLetRec | KAssign | KArrow
| KOp (pipe sign : bool)  (* the 17 kinds print_binary_expr treats as operators; pipe = OpPipe | OpPipeMacro; sign = OpMinus | OpSum *)
| KLambdaBar | KComma | KIf | KElse
| KBlockBegin | KBlockEnd | KParenBegin | KParenEnd | KArrayBegin | KArrayEnd
| KIdent                  (* Ident | IdentFunction | IdentVariable *)
| KMacroExpand | KLeftArrow | KDoubleColon
| KMacro | KMod | KUse | KPub
| KOther.

Inductive skind : Type :=
| SProgram | SStatement | SFunctionDecl | SLetDecl | SLetRecDecl | SAssignExpr
| SBinaryExpr | SUnaryExpr | SCallExpr | SLambdaExpr | SIfExpr | SBlockExpr
| SGroupedList (is_type paren : bool) (* print_grouped_list; is_type: TupleType RecordType; paren: the caller passes "(" as
                                         opening delimiter (TupleExpr ParamList ArgList TuplePattern TupleType) *)
| SParenExpr
| SRecordExpr | SMacroExpansion | SQualifiedPath
| SLeaf (is_type : bool)  (* printed by print_leaf_children; is_type = one of the 9 kinds print_lambda_expr calls a type node *)
| SSpaced                 (* MatchExpr MatchArm MatchPattern ConstructorPattern TypeDecl VariantDef: intersperse(children, space) *)
| SMatchArmList
| SModuleDecl | SUseStmt | SUseMultiple | SUseWildcard | SVisibilityPub
| SOutside.               (* outside the fragment (Error nodes) *)

Inductive cst : Type :=
| Tok (k : tkind) (text : string) (lead trail : list trivia)
| Node (k : skind) (cs : list cst).

(* emit_trivia *)
Definition emit_trivia (t : trivia) : doc :=
  match t with
  | TLine s => cat space (cat (Text s) HardLine)
  | TBlock s => cat space (cat (Text s) space)
  | TNl | TWs => Nil
  end.

(* emit_token_with_trivia *)
Definition emit_token (text : string) (lead trail : list trivia) : doc :=
  fold_left (fun d t => cat d (emit_trivia t)) trail
            (cat (fold_left (fun d t => cat d (emit_trivia t)) lead Nil) (Text text)).

(* trivia_comments(token, leading, trailing): the comments of a token that the printer re-creates from a constant *)
Definition tcomments (lead trail : list trivia) (l t : bool) : doc :=
  fold_left (fun d x => cat d (emit_trivia x)) (if t then trail else [])
            (fold_left (fun d x => cat d (emit_trivia x)) (if l then lead else []) Nil).

(* join_with_commas(items, seps, gap): seps[i] = comments of the comma after item i, printed after the re-created comma;
   a trailing comma is dropped unless it carries comments *)
Fixpoint join_from (items seps : list doc) (gap acc : doc) : doc :=
  match items with
  | [] => acc
  | [it] =>
      match hd Nil seps with
      | Nil => cat acc it
      | c => cat (cat (cat acc it) (Text ",")) c
      end
  | it :: r => join_from r (tl seps) gap (cat (cat (cat (cat acc it) (Text ",")) (hd Nil seps)) gap)
  end.

Definition join_with_commas (items seps : list doc) (gap : doc) : doc := join_from items seps gap Nil.

(* first_token_index: kind of the first token of a subtree *)
Fixpoint first_tkind (c : cst) : option tkind :=
  match c with
  | Tok k _ _ _ => Some k
  | Node _ cs =>
      (fix go (l : list cst) : option tkind :=
         match l with
         | [] => None
         | x :: r => match first_tkind x with Some k => Some k | None => go r end
         end) cs
  end.

Definition is_comment_trivia (t : trivia) : bool :=
  match t with TLine _ | TBlock _ => true | _ => false end.

(* print_function_decl: every child in order, a space after `fn` / `macro` *)
Fixpoint print_function_decl (cs : list cst) (ds : list doc) : doc :=
  match cs, ds with
  | Tok (KFunction | KMacro) _ _ _ :: cr, d :: dr => cat d (cat space (print_function_decl cr dr))
  | _ :: cr, d :: dr => cat d (print_function_decl cr dr)
  | _, _ => Nil
  end.

(* print_let_decl / print_letrec_decl: (seen_kw, seen_eq, result, rhs_docs) *)
Fixpoint print_let_like (kw : tkind -> bool) (seen_kw seen_eq : bool) (cs : list cst) (ds : list doc) (rhs : list doc) : doc :=
  match cs, ds with
  | c :: cr, d :: dr =>
      match c with
      | Tok KAssign _ _ _ => cat space (cat d (cat space (print_let_like kw seen_kw true cr dr rhs)))
      | Tok k _ _ _ =>
          if kw k then cat d (cat space (print_let_like kw true seen_eq cr dr rhs))
          else if seen_kw && negb seen_eq then cat d (print_let_like kw seen_kw seen_eq cr dr rhs)
          else if seen_eq then print_let_like kw seen_kw seen_eq cr dr (rhs ++ [d])
          else print_let_like kw seen_kw seen_eq cr dr rhs
      | Node _ _ =>
          if seen_kw && negb seen_eq then cat d (print_let_like kw seen_kw seen_eq cr dr rhs)
          else if seen_eq then print_let_like kw seen_kw seen_eq cr dr (rhs ++ [d])
          else print_let_like kw seen_kw seen_eq cr dr rhs
      end
  | _, _ => match rhs with [] => Nil | _ => group (dconcat rhs) end
  end.

Definition is_let (k : tkind) : bool := match k with KLet => true | _ => false end.
Definition is_letrec (k : tkind) : bool := match k with KLetRec => true | _ => false end.

(* print_assign_expr *)
Fixpoint print_assign_expr (cs : list cst) (ds : list doc) : doc :=
  match cs, ds with
  | Tok KAssign _ _ _ :: cr, d :: dr => cat space (cat d (cat space (print_assign_expr cr dr)))
  | _ :: cr, d :: dr => cat d (print_assign_expr cr dr)
  | _, _ => Nil
  end.

(* print_binary_expr: (lhs, op, rhs, is_pipe, seen_op) *)
Fixpoint print_binary_scan (cs : list cst) (ds : list doc) (lhs op rhs : doc) (is_pipe seen_op : bool) : doc * doc * doc * bool :=
  match cs, ds with
  | Tok (KOp p _) _ _ _ :: cr, d :: dr => print_binary_scan cr dr lhs d rhs p true
  | _ :: cr, d :: dr =>
      if seen_op then print_binary_scan cr dr lhs op (cat rhs d) is_pipe seen_op
      else print_binary_scan cr dr (cat lhs d) op rhs is_pipe seen_op
  | _, _ => (lhs, op, rhs, is_pipe)
  end.

Definition print_binary_expr (ind : nat) (cs : list cst) (ds : list doc) : doc :=
  match print_binary_scan cs ds Nil Nil Nil false false with
  | (lhs, op, rhs, true) => group (cat lhs (nest ind (cat Line (cat op (cat space rhs)))))
  | (lhs, op, rhs, false) => group (cat lhs (cat space (cat op (nest ind (cat Line rhs)))))
  end.

(* print_lambda_expr *)
Record lam_state : Type := mkLam {
  l_result : doc; l_in_params : bool; l_params : list doc; l_seps : list doc; l_cur : doc; l_has_cur : bool;
  l_after_params : bool; l_after_arrow : bool; l_has_ret : bool; l_body_started : bool }.

Definition is_type_node (c : cst) : bool :=
  match c with Node (SLeaf true) _ | Node (SGroupedList true _) _ => true | _ => false end.

Definition lam_step (st : lam_state) (c : cst) (d : doc) : lam_state :=
  let other :=
    if l_in_params st then
      mkLam (l_result st) true (l_params st) (l_seps st) (cat (l_cur st) d) true (l_after_params st) (l_after_arrow st) (l_has_ret st) (l_body_started st)
    else if l_after_params st then
      if l_after_arrow st && negb (l_has_ret st) && is_type_node c then
        mkLam (cat (l_result st) d) false (l_params st) (l_seps st) (l_cur st) (l_has_cur st) true (l_after_arrow st) true (l_body_started st)
      else if negb (l_body_started st) then
        mkLam (cat (l_result st) (cat space d)) false (l_params st) (l_seps st) (l_cur st) (l_has_cur st) true (l_after_arrow st) (l_has_ret st) true
      else
        mkLam (cat (l_result st) d) false (l_params st) (l_seps st) (l_cur st) (l_has_cur st) true (l_after_arrow st) (l_has_ret st) true
    else st in
  match c with
  | Tok KLambdaBar _ _ _ =>
      if negb (l_in_params st) && negb (l_after_params st) then
        mkLam (cat (l_result st) d) true (l_params st) (l_seps st) (l_cur st) (l_has_cur st) false (l_after_arrow st) (l_has_ret st) (l_body_started st)
      else if l_in_params st then
        let ps := if l_has_cur st then l_params st ++ [l_cur st] else l_params st in
        (* `| |`: a space keeps the bars from being read as `||` *)
        let combined := match ps with [] => space | _ => join_with_commas ps (l_seps st) (Text " ") end in
        mkLam (cat (cat (l_result st) combined) d) false [] [] Nil false true (l_after_arrow st) (l_has_ret st) (l_body_started st)
      else st
  | Tok KComma _ lead trail =>
      if l_in_params st then
        if l_has_cur st then
          mkLam (l_result st) true (l_params st ++ [l_cur st]) (l_seps st ++ [tcomments lead trail true true]) Nil false
                (l_after_params st) (l_after_arrow st) (l_has_ret st) (l_body_started st)
        else st
      else other
  | Tok KArrow _ _ _ =>
      if l_after_params st then
        mkLam (cat (l_result st) d) (l_in_params st) (l_params st) (l_seps st) (l_cur st) (l_has_cur st) true true (l_has_ret st) (l_body_started st)
      else other
  | _ => other
  end.

Fixpoint lam_run (st : lam_state) (cs : list cst) (ds : list doc) : lam_state :=
  match cs, ds with
  | c :: cr, d :: dr => lam_run (lam_step st c d) cr dr
  | _, _ => st
  end.

Definition print_lambda_expr (cs : list cst) (ds : list doc) : doc :=
  group (l_result (lam_run (mkLam Nil false [] [] Nil false false false false false) cs ds)).

Definition opens_postfix (c : cst) : bool :=
  match first_tkind c with Some KParenBegin | Some KArrayBegin => true | _ => false end.

Definition is_paren_expr (c : cst) : bool := match c with Node SParenExpr _ => true | _ => false end.

(* print_if_expr: (seen_if, seen_cond, seen_then, seen_else) *)
Fixpoint print_if_scan (cs : list cst) (ds : list doc) (seen_if seen_cond seen_then seen_else : bool) : doc :=
  match cs, ds with
  | Tok KIf _ _ _ :: cr, d :: dr => cat d (print_if_scan cr dr true seen_cond seen_then seen_else)
  | Tok KElse _ _ _ :: cr, d :: dr => cat SoftLine (cat d (print_if_scan cr dr seen_if seen_cond seen_then true))
  | c :: cr, d :: dr =>
      if negb seen_cond && seen_if then
        (* a space unless the condition is parenthesised *)
        cat (if is_paren_expr c then Nil else space) (cat (group d) (print_if_scan cr dr seen_if true seen_then seen_else))
      else if negb seen_then && seen_cond then
        (* a then-branch that starts with `(` / `[` is kept off the line of the condition *)
        cat (if opens_postfix c then HardLine else SoftLine) (cat (group d) (print_if_scan cr dr seen_if seen_cond true seen_else))
      else if seen_then && negb seen_else then cat d (print_if_scan cr dr seen_if seen_cond seen_then seen_else)
      else if seen_else then cat space (cat (group d) (print_if_scan cr dr seen_if seen_cond seen_then seen_else))
      else print_if_scan cr dr seen_if seen_cond seen_then seen_else
  | _, _ => Nil
  end.

Definition print_if_expr (cs : list cst) (ds : list doc) : doc := group (print_if_scan cs ds false false false false).

(* print_block_expr: (result is built left to right; body docs and the trivia after `{` are collected) *)
Fixpoint print_block_scan (ind : nat) (cs : list cst) (ds : list doc) (in_body : bool) (body : list doc)
         (open_trivia : doc) (has_open_trivia : bool) : doc :=
  match cs, ds with
  | Tok KBlockBegin _ lead trail :: cr, _ :: dr =>
      cat (cat (tcomments lead trail true false) (Text "{"))
          (print_block_scan ind cr dr true body (cat open_trivia (dconcat (map emit_trivia trail)))
                            (has_open_trivia || existsb is_comment_trivia trail))
  | Tok KBlockEnd _ lead trail :: cr, _ :: dr =>
      let inner :=
        match body with
        | [] => if has_open_trivia then open_trivia else Nil
        | _ =>
            let b := intersperse body HardLine in
            cat (if has_open_trivia then nest ind (cat open_trivia b) else nest ind (cat HardLine b)) HardLine
        end in
      cat inner (cat (cat (cat (tcomments lead trail true false) (Text "}")) (tcomments lead trail false true))
                     (print_block_scan ind cr dr false body open_trivia has_open_trivia))
  | _ :: cr, d :: dr =>
      if in_body then print_block_scan ind cr dr in_body (body ++ [d]) open_trivia has_open_trivia
      else print_block_scan ind cr dr in_body body open_trivia has_open_trivia
  | _, _ => Nil
  end.

Definition print_block_expr (ind : nat) (cs : list cst) (ds : list doc) : doc :=
  print_block_scan ind cs ds false [] Nil false.

(* print_grouped_list: (open, close, items, seps, current item, found_open, depth of delimiters inside an item) *)
Definition add_cur (cur : option doc) (d : doc) : option doc :=
  Some (match cur with Some x => cat x d | None => d end).

Fixpoint print_list_scan (cs : list cst) (ds : list doc) (open close : doc) (its seps : list doc) (cur : option doc)
         (found_open : bool) (depth : nat) : doc * doc * list doc * list doc :=
  match cs, ds with
  | c :: cr, d :: dr =>
      let content dp := print_list_scan cr dr open close its seps (if found_open then add_cur cur d else cur) found_open dp in
      match c with
      | Tok (KParenBegin | KBlockBegin | KArrayBegin) _ _ _ =>
          if negb found_open then print_list_scan cr dr d close its seps cur true depth
          else content (S depth)
      | Tok (KParenEnd | KBlockEnd | KArrayEnd) _ _ _ =>
          match depth with
          | S dp => content dp
          | O => print_list_scan cr dr open d (its ++ opt_list cur) seps None found_open depth
          end
      | Tok KComma _ lead trail =>
          match depth with
          | O => print_list_scan cr dr open close (its ++ [match cur with Some x => x | None => Nil end])
                                 (seps ++ [tcomments lead trail true true]) None found_open depth
          | _ => content depth
          end
      | _ => content depth
      end
  | _, _ => (open, close, its, seps)
  end.

Definition print_grouped_list (ind : nat) (paren : bool) (cs : list cst) (ds : list doc) : doc :=
  match print_list_scan cs ds Nil Nil [] [] None false 0 with
  | (open, close, [], _) => cat open close
  | (open, close, [it], [c]) =>
      if paren then group (cat (cat (cat (cat open it) (Text ",")) c) close)      (* `(a,)` keeps its comma *)
      else group (cat open (cat (nest ind (join_with_commas [it] [c] SoftLine)) close))
  | (open, close, its, seps) => group (cat open (cat (nest ind (join_with_commas its seps SoftLine)) close))
  end.

(* print_record_expr: (fields, seps, current_field, has_current_field, open, close, in_body) *)
Fixpoint print_record_scan (cs : list cst) (ds : list doc) (fields seps : list doc) (cur : doc) (has_cur : bool)
         (open close : doc) (in_body : bool) : doc * doc * list doc * list doc :=
  match cs, ds with
  | Tok KBlockBegin _ _ _ :: cr, d :: dr => print_record_scan cr dr fields seps cur has_cur d close true
  | Tok KBlockEnd _ _ _ :: cr, d :: dr =>
      print_record_scan cr dr (if has_cur then fields ++ [cur] else fields) seps cur has_cur open d false
  | c :: cr, d :: dr =>
      if in_body then
        match c with
        | Tok KComma _ lead trail =>
            if has_cur then print_record_scan cr dr (fields ++ [cur]) (seps ++ [tcomments lead trail true true]) Nil false open close in_body
            else print_record_scan cr dr fields seps cur has_cur open close in_body
        | Tok (KAssign | KLeftArrow) _ _ _ =>
            print_record_scan cr dr fields seps (cat (cat (cat cur space) d) space) true open close in_body
        | _ => print_record_scan cr dr fields seps (cat cur d) true open close in_body
        end
      else print_record_scan cr dr fields seps cur has_cur open close in_body
  | _, _ => (open, close, fields, seps)
  end.

Definition print_record_expr (ind : nat) (cs : list cst) (ds : list doc) : doc :=
  match print_record_scan cs ds [] [] Nil false Nil Nil false with
  | (open, close, [], _) => cat open close
  | (open, close, fields, seps) => cat (cat open (group (nest ind (join_with_commas fields seps SoftLine)))) close
  end.

(* print_macro_expansion: (result, args, seps, in_args, open, close) *)
Fixpoint pad_to (seps : list doc) (target fuel : nat) : list doc :=   (* while seps.len() + 1 < args.len() { seps.push(nil) } *)
  match fuel with
  | O => seps
  | S f => if Nat.ltb (S (length seps)) target then pad_to (seps ++ [Nil]) target f else seps
  end.

Fixpoint print_macro_scan (cs : list cst) (ds : list doc) (result : doc) (args seps : list doc) (in_args : bool)
         (open close : doc) : doc * list doc * list doc * doc * doc :=
  match cs, ds with
  | c :: cr, d :: dr =>
      match c with
      | Tok KIdent _ _ _ =>
          if in_args then print_macro_scan cr dr result (args ++ [d]) seps in_args open close
          else print_macro_scan cr dr (cat result d) args seps in_args open close
      | Tok KMacroExpand _ _ _ => print_macro_scan cr dr (cat result d) args seps in_args open close
      | Tok KParenBegin _ _ _ => print_macro_scan cr dr result args seps true d close
      | Tok KParenEnd _ _ _ => print_macro_scan cr dr result args seps false open d
      | Tok KComma _ lead trail =>
          if in_args then
            print_macro_scan cr dr result args (pad_to seps (length args) (length args) ++ [tcomments lead trail true true]) in_args open close
          else print_macro_scan cr dr (cat result d) args seps in_args open close
      | _ =>
          if in_args then print_macro_scan cr dr result (args ++ [d]) seps in_args open close
          else print_macro_scan cr dr (cat result d) args seps in_args open close
      end
  | _, _ => (result, args, seps, open, close)
  end.

Definition print_macro_expansion (cs : list cst) (ds : list doc) : doc :=
  match print_macro_scan cs ds Nil [] [] false Nil Nil with
  | (result, [], _, open, close) => cat (cat result open) close
  | (result, args, seps, open, close) => cat (cat (cat result open) (join_with_commas args seps (Text " "))) close
  end.

(* print_qualified_path: identifiers and `::` are emitted, any other token is skipped *)
Fixpoint print_qualified_path (cs : list cst) (ds : list doc) : doc :=
  match cs, ds with
  | Tok (KIdent | KDoubleColon) _ _ _ :: cr, d :: dr => cat d (print_qualified_path cr dr)
  | Tok _ _ _ _ :: cr, _ :: dr => print_qualified_path cr dr
  | Node _ _ :: cr, d :: dr => cat d (print_qualified_path cr dr)
  | _, _ => Nil
  end.

(* print_unary_expr: a space before an operand (any child but the first) that itself starts with `-` / `+` *)
Fixpoint print_unary_scan (first : bool) (cs : list cst) (ds : list doc) (acc : doc) : doc :=
  match cs, ds with
  | c :: cr, d :: dr =>
      let signed := negb first && match first_tkind c with Some (KOp _ true) => true | _ => false end in
      print_unary_scan false cr dr (cat (if signed then cat acc space else acc) d)
  | _, _ => acc
  end.

Definition print_unary_expr (cs : list cst) (ds : list doc) : doc := print_unary_scan true cs ds Nil.

(* ------------------------------------------------------------------------------------------------ *)
(* the rest of the syntax                                                                             *)
(* ------------------------------------------------------------------------------------------------ *)
Definition is_node (c : cst) : bool := match c with Node _ _ => true | Tok _ _ _ _ => false end.

Definition opens_paren (c : cst) : bool := match first_tkind c with Some KParenBegin => true | _ => false end.

(* cst_to_doc, arm MatchArmList: a blank between the children (arms and their commas); the break is forced before an arm
   that starts with `(` and follows an arm directly (arms separated by a line break, not by a comma) *)
Fixpoint print_arm_list (prev : option cst) (cs : list cst) (ds : list doc) (acc : doc) : doc :=
  match cs, ds with
  | c :: cr, d :: dr =>
      let sep := match prev with
                 | None => Nil
                 | Some p => if is_node p && opens_paren c then HardLine else space
                 end in
      print_arm_list (Some c) cr dr (cat (cat acc sep) d)
  | _, _ => acc
  end.

(* print_module_decl: `mod` and the name are followed by a blank; from `{` on the children are printed by print_block_expr *)
Fixpoint print_module_scan (ind : nat) (cs : list cst) (ds : list doc) (seen_mod seen_name : bool) : doc :=
  match cs, ds with
  | Tok KBlockBegin _ _ _ :: _, _ :: _ => print_block_expr ind cs ds
  | Tok KMod _ _ _ :: cr, d :: dr => cat d (cat space (print_module_scan ind cr dr true seen_name))
  | Tok KIdent _ _ _ :: cr, d :: dr =>
      if seen_mod && negb seen_name then cat d (cat space (print_module_scan ind cr dr seen_mod true))
      else cat d (print_module_scan ind cr dr seen_mod seen_name)
  | _ :: cr, d :: dr => cat d (print_module_scan ind cr dr seen_mod seen_name)
  | _, _ => Nil
  end.

Definition is_use_target (c : cst) : bool :=
  match c with Node (SQualifiedPath | SUseMultiple | SUseWildcard) _ => true | _ => false end.

(* print_use_stmt: a blank after `use`; a path / target node BEFORE the `use` token is not printed *)
Fixpoint print_use_scan (cs : list cst) (ds : list doc) (seen_use : bool) : doc :=
  match cs, ds with
  | Tok KUse _ _ _ :: cr, d :: dr => cat d (cat space (print_use_scan cr dr true))
  | c :: cr, d :: dr =>
      if is_use_target c && negb seen_use then print_use_scan cr dr seen_use
      else cat d (print_use_scan cr dr seen_use)
  | _, _ => Nil
  end.

(* print_use_target_multiple: (items, seps, found_open, open, close) *)
Fixpoint print_use_multi_scan (cs : list cst) (ds : list doc) (its seps : list doc) (found_open : bool) (open close : doc)
  : list doc * list doc * doc * doc :=
  match cs, ds with
  | c :: cr, d :: dr =>
      match c with
      | Tok KBlockBegin _ _ _ => print_use_multi_scan cr dr its seps true d close
      | Tok KBlockEnd _ _ _ => print_use_multi_scan cr dr its seps found_open open d
      | Tok KComma _ lead trail =>
          print_use_multi_scan cr dr its (pad_to seps (length its) (length its) ++ [tcomments lead trail true true]) found_open open close
      | _ => print_use_multi_scan cr dr (if found_open then its ++ [d] else its) seps found_open open close
      end
  | _, _ => (its, seps, open, close)
  end.

Definition print_use_multiple (cs : list cst) (ds : list doc) : doc :=
  match print_use_multi_scan cs ds [] [] false Nil Nil with
  | ([], _, open, close) => cat open close
  | (its, seps, open, close) => cat (cat open (join_with_commas its seps (Text " "))) close
  end.

Definition is_star (c : cst) : bool :=   (* TokenKind::OpProduct *)
  match c with Tok (KOp _ _) t _ _ => String.eqb t "*" | _ => false end.

(* print_use_target_wildcard: only `::` and `*` tokens *)
Fixpoint print_use_wildcard (cs : list cst) (ds : list doc) : doc :=
  match cs, ds with
  | c :: cr, d :: dr =>
      let keep := match c with Tok KDoubleColon _ _ _ => true | _ => is_star c end in
      if keep then cat d (print_use_wildcard cr dr) else print_use_wildcard cr dr
  | _, _ => Nil
  end.

(* print_visibility_pub: only the `pub` token, followed by a blank *)
Fixpoint print_visibility_pub (cs : list cst) (ds : list doc) : doc :=
  match cs, ds with
  | Tok KPub _ _ _ :: cr, d :: dr => cat d (cat space (print_visibility_pub cr dr))
  | _ :: cr, _ :: dr => print_visibility_pub cr dr
  | _, _ => Nil
  end.

(* cst_to_doc *)
Fixpoint doc_of (ind : nat) (c : cst) : doc :=
  match c with
  | Tok _ text lead trail => emit_token text lead trail
  | Node k cs =>
      let ds := map (doc_of ind) cs in
      match k with
      | SProgram => intersperse ds HardLine
      | SStatement => dconcat ds
      | SFunctionDecl => print_function_decl cs ds
      | SLetDecl => print_let_like is_let false false cs ds []
      | SLetRecDecl => print_let_like is_letrec false false cs ds []
      | SAssignExpr => print_assign_expr cs ds
      | SBinaryExpr => print_binary_expr ind cs ds
      | SUnaryExpr => print_unary_expr cs ds
      | SCallExpr => group (dconcat ds)
      | SLambdaExpr => print_lambda_expr cs ds
      | SIfExpr => print_if_expr cs ds
      | SBlockExpr => print_block_expr ind cs ds
      | SGroupedList _ paren => print_grouped_list ind paren cs ds
      | SParenExpr => group (dconcat ds)
      | SRecordExpr => print_record_expr ind cs ds
      | SMacroExpansion => print_macro_expansion cs ds
      | SQualifiedPath => print_qualified_path cs ds
      | SLeaf _ => dconcat ds
      | SSpaced => intersperse ds space
      | SMatchArmList => print_arm_list None cs ds Nil
      | SModuleDecl => print_module_scan ind cs ds false false
      | SUseStmt => print_use_scan cs ds false
      | SUseMultiple => print_use_multiple cs ds
      | SUseWildcard => print_use_wildcard cs ds
      | SVisibilityPub => print_visibility_pub cs ds
      | SOutside => dconcat ds
      end
  end.

Fixpoint in_fragment (c : cst) : bool :=
  match c with
  | Tok _ _ _ _ => true
  | Node SOutside _ => false
  | Node _ cs => forallb in_fragment cs
  end.

(* the words of the source in order: every token with the comments of its trivia *)
Definition trivia_words (ts : list trivia) : list string :=
  flat_map (fun t => match t with TLine s | TBlock s => opt_list (word_of s) | _ => [] end) ts.

Fixpoint cst_words (c : cst) : list string :=
  match c with
  | Tok _ text lead trail => trivia_words lead ++ opt_list (word_of text) ++ trivia_words trail
  | Node _ cs => flat_map cst_words cs
  end.

(* the source text as the parser sees it: every token with its trivia in order (blanks, line breaks, comments) *)
Definition trivia_shapes (ts : list trivia) : list shape :=
  flat_map (fun t => match t with
                     | TLine s | TBlock s => match word_of s with Some w => [W w] | None => [] end
                     | TNl => [NL]
                     | TWs => [SP]
                     end) ts.

Fixpoint src_shapes (c : cst) : list shape :=
  match c with
  | Tok _ text lead trail =>
      trivia_shapes lead ++ (match word_of text with Some w => [W w] | None => [] end) ++ trivia_shapes trail
  | Node _ cs => flat_map src_shapes cs
  end.

(* the answers of has_trailing_linebreak() at the sensitive positions while the SOURCE is parsed *)
Definition src_observed (c : cst) : list bool := observed_from None false ctx0 (src_shapes c).

Fixpoint list_bool_eqb (a b : list bool) : bool :=
  match a, b with
  | [], [] => true
  | x :: r, y :: t => Bool.eqb x y && list_bool_eqb r t
  | _, _ => false
  end.

(* the document forces exactly the line breaks of the source at the sensitive positions *)
Definition keeps_breaks (ind : nat) (c : cst) : bool :=
  safe_breaks (doc_of ind c) && list_bool_eqb (doc_flags (doc_of ind c)) (src_observed c).

(* hypothesis of C14_emits_all_same_tokens: the document emits every token text and every comment text once, in order *)
Definition emits_all (ind : nat) (c : cst) : Prop := dwords (doc_of ind c) = cst_words c.

Definition comments_in (ws : list string) : list string := filter is_comment ws.

(* the linear structure of a document (Nil and the association of Cat are invisible to every renderer) *)
Inductive ltok : Type := LText (s : string) | LLine | LSoft | LHard | LNest (n : nat) | LGroup | LClose.

Fixpoint dlin (d : doc) : list ltok :=
  match d with
  | Nil => []
  | Text s => [LText s]
  | Line => [LLine]
  | SoftLine => [LSoft]
  | HardLine => [LHard]
  | Nest n d => LNest n :: dlin d ++ [LClose]
  | Group d => LGroup :: dlin d ++ [LClose]
  | Cat a b => dlin a ++ dlin b
  end.

Definition ltok_eqb (a b : ltok) : bool :=
  match a, b with
  | LText s, LText t => String.eqb s t
  | LLine, LLine | LSoft, LSoft | LHard, LHard | LGroup, LGroup | LClose, LClose => true
  | LNest n, LNest m => Nat.eqb n m
  | _, _ => false
  end.

Fixpoint lin_eqb (a b : list ltok) : bool :=
  match a, b with
  | [], [] => true
  | x :: r, y :: t => ltok_eqb x y && lin_eqb r t
  | _, _ => false
  end.

Definition same_doc (a b : doc) : bool := lin_eqb (dlin a) (dlin b).
