(* Fmt/Witness.v — the witnesses of the former findings of C14 (repaired in cst_print.rs) and the satisfiability of the
   hypotheses: on each of them the repaired document builder now does the right thing.
   Every `cst` below is the REAL green tree of the quoted source text (dumped by harness/lang/src/bin/fmt_run.rs and
   converted mechanically); checks/C14.py replays the same sources on the real formatter. *)
From Coq Require Import String Ascii List Bool Arith.
From Mimium Require Import Fmt.Model Fmt.Render Fmt.Breaks.
Import ListNotations.
Local Open Scope string_scope.
Local Open Scope list_scope.

Fixpoint prefix (p s : string) : bool :=
  match p, s with
  | EmptyString, _ => true
  | String a p', String b s' => Ascii.eqb a b && prefix p' s'
  | _, _ => false
  end.

Fixpoint contains (p s : string) : bool :=
  prefix p s || match s with EmptyString => false | String _ s' => contains p s' end.

(* every rendering (every width, every indent choice made by the layout engine) satisfies P *)
Definition all_renderings (d : doc) (P : string -> bool) : bool :=
  forallb (fun r => P (flat_string r)) (renderings d).

Lemma all_renderings_spec : forall d P, all_renderings d P = true ->
  forall r, In r (renderings d) -> P (flat_string r) = true.
Proof. intros d P H r Hr. unfold all_renderings in H. rewrite forallb_forall in H. now apply H. Qed.

(* "fn f(a, b){ let x = g(a, b) + 1 // sum\n  x |> h }"   (the hypotheses are satisfiable) *)
Definition c_ok : cst :=
Node SProgram [
  Node SStatement [
    Node SFunctionDecl [
      Tok KFunction "fn" [] [TWs];
      Tok KIdent "f" [] [];
      Node (SGroupedList false true) [
        Tok KParenBegin "(" [] [];
        Tok KIdent "a" [] [];
        Tok KComma "," [] [TWs];
        Tok KIdent "b" [] [];
        Tok KParenEnd ")" [] []];
      Node SBlockExpr [
        Tok KBlockBegin "{" [] [TWs];
        Node SStatement [
          Node SLetDecl [
            Tok KLet "let" [] [TWs];
            Node (SLeaf false) [
              Tok KIdent "x" [] [TWs]];
            Tok KAssign "=" [] [TWs];
            Node SBinaryExpr [
              Node SCallExpr [
                Node (SLeaf false) [
                  Tok KIdent "g" [] []];
                Node (SGroupedList false true) [
                  Tok KParenBegin "(" [] [];
                  Node (SLeaf false) [
                    Tok KIdent "a" [] []];
                  Tok KComma "," [] [TWs];
                  Node (SLeaf false) [
                    Tok KIdent "b" [] []];
                  Tok KParenEnd ")" [] [TWs]]];
              Tok (KOp false true) "+" [] [TWs];
              Node (SLeaf false) [
                Tok KOther "1" [] [TWs; TLine "// sum"; TNl; TWs]]]]];
        Node SStatement [
          Node SBinaryExpr [
            Node (SLeaf false) [
              Tok KIdent "x" [] [TWs]];
            Tok (KOp true false) "|>" [] [TWs];
            Node (SLeaf false) [
              Tok KIdent "h" [] [TWs]]]];
        Tok KBlockEnd "}" [] []]]]].

(* "if (c)\n (a, b) else d"   (former finding FM6 if-then-branch-starts-with-bracket) *)
Definition c_if_then_bracket : cst :=
Node SProgram [
  Node SStatement [
    Node SIfExpr [
      Tok KIf "if" [] [TWs];
      Node SParenExpr [
        Tok KParenBegin "(" [] [];
        Node (SLeaf false) [
          Tok KIdent "c" [] []];
        Tok KParenEnd ")" [] [TNl; TWs]];
      Node (SGroupedList false true) [
        Tok KParenBegin "(" [] [];
        Node (SLeaf false) [
          Tok KIdent "a" [] []];
        Tok KComma "," [] [TWs];
        Node (SLeaf false) [
          Tok KIdent "b" [] []];
        Tok KParenEnd ")" [] [TWs]];
      Tok KElse "else" [] [TWs];
      Node (SLeaf false) [
        Tok KIdent "d" [] []]]]].

(* "(a, /* c */ b)"   (former finding FM4 comment-on-reconstructed-token) *)
Definition c_comma_comment : cst :=
Node SProgram [
  Node SStatement [
    Node (SGroupedList false true) [
      Tok KParenBegin "(" [] [];
      Node (SLeaf false) [
        Tok KIdent "a" [] []];
      Tok KComma "," [] [TWs; TBlock "/* c */"; TWs];
      Node (SLeaf false) [
        Tok KIdent "b" [] []];
      Tok KParenEnd ")" [] []]]].

(* "fn f(){ 1 } // done\n// about g\nfn g(){ 2 }"   (former finding FM4: comments after a closing brace) *)
Definition c_brace_comment : cst :=
Node SProgram [
  Node SStatement [
    Node SFunctionDecl [
      Tok KFunction "fn" [] [TWs];
      Tok KIdent "f" [] [];
      Node (SGroupedList false true) [
        Tok KParenBegin "(" [] [];
        Tok KParenEnd ")" [] []];
      Node SBlockExpr [
        Tok KBlockBegin "{" [] [TWs];
        Node SStatement [
          Node (SLeaf false) [
            Tok KOther "1" [] [TWs]]];
        Tok KBlockEnd "}" [] [TWs; TLine "// done"; TNl; TLine "// about g"; TNl]]]];
  Node SStatement [
    Node SFunctionDecl [
      Tok KFunction "fn" [] [TWs];
      Tok KIdent "g" [] [];
      Node (SGroupedList false true) [
        Tok KParenBegin "(" [] [];
        Tok KParenEnd ")" [] []];
      Node SBlockExpr [
        Tok KBlockBegin "{" [] [TWs];
        Node SStatement [
          Node (SLeaf false) [
            Tok KOther "2" [] [TWs]]];
        Tok KBlockEnd "}" [] []]]]].

(* "if gate {x}"   (former finding FM1 if-condition-without-parenthesis) *)
Definition c_if_word : cst :=
Node SProgram [
  Node SStatement [
    Node SIfExpr [
      Tok KIf "if" [] [TWs];
      Node (SLeaf false) [
        Tok KIdent "gate" [] [TWs]];
      Node SBlockExpr [
        Tok KBlockBegin "{" [] [];
        Node SStatement [
          Node (SLeaf false) [
            Tok KIdent "x" [] []]];
        Tok KBlockEnd "}" [] []]]]].

(* "- -x"   (former finding FM8 sign-of-signed-operand) *)
Definition c_neg_neg : cst :=
Node SProgram [
  Node SStatement [
    Node SUnaryExpr [
      Tok (KOp false true) "-" [] [TWs];
      Node SUnaryExpr [
        Tok (KOp false true) "-" [] [];
        Node (SLeaf false) [
          Tok KIdent "x" [] []]]]]].

(* "fn f(x:float){x}"   (former finding FM3 multi-node-list-item) *)
Definition c_typed_param : cst :=
Node SProgram [
  Node SStatement [
    Node SFunctionDecl [
      Tok KFunction "fn" [] [TWs];
      Tok KIdent "f" [] [];
      Node (SGroupedList false true) [
        Tok KParenBegin "(" [] [];
        Tok KIdent "x" [] [];
        Node (SLeaf false) [
          Tok KOther ":" [] [];
          Node (SLeaf true) [
            Tok KOther "float" [] []]];
        Tok KParenEnd ")" [] []];
      Node SBlockExpr [
        Tok KBlockBegin "{" [] [];
        Node SStatement [
          Node (SLeaf false) [
            Tok KIdent "x" [] []]];
        Tok KBlockEnd "}" [] []]]]].

(* "| | x"   (former finding FM2 lambda-without-parameters) *)
Definition c_lambda0 : cst :=
Node SProgram [
  Node SStatement [
    Node SLambdaExpr [
      Tok KLambdaBar "|" [] [TWs];
      Tok KLambdaBar "|" [] [TWs];
      Node (SLeaf false) [
        Tok KIdent "x" [] []]]]].

(* "(a,)"   (former finding FM7 one-element-tuple) *)
Definition c_tuple1 : cst :=
Node SProgram [
  Node SStatement [
    Node (SGroupedList false true) [
      Tok KParenBegin "(" [] [];
      Node (SLeaf false) [
        Tok KIdent "a" [] []];
      Tok KComma "," [] [];
      Tok KParenEnd ")" [] []]]].

(* "if (a) x = 1 else y"   (former finding FM9 assignment-as-if-branch) *)
Definition c_if_assign : cst :=
Node SProgram [
  Node SStatement [
    Node SIfExpr [
      Tok KIf "if" [] [TWs];
      Node SParenExpr [
        Tok KParenBegin "(" [] [];
        Node (SLeaf false) [
          Tok KIdent "a" [] []];
        Tok KParenEnd ")" [] [TWs]];
      Node (SLeaf false) [
        Tok KIdent "x" [] [TWs]];
      Node SAssignExpr [
        Tok KAssign "=" [] [TWs];
        Node (SLeaf false) [
          Tok KOther "1" [] [TWs]]];
      Tok KElse "else" [] [TWs];
      Node (SLeaf false) [
        Tok KIdent "y" [] []]]]].

(* ---- the hypotheses of the positive theorems are satisfiable ---- *)
Lemma ok_in_fragment : in_fragment c_ok = true. Proof. vm_compute. reflexivity. Qed.
Lemma ok_safe : safe_breaks (doc_of 4 c_ok) = true. Proof. vm_compute. reflexivity. Qed.
Lemma ok_emits_all : emits_all 4 c_ok. Proof. vm_compute. reflexivity. Qed.
Lemma ok_has_renderings : renderings (doc_of 4 c_ok) <> []. Proof. vm_compute. discriminate. Qed.

(* ---- former findings: the repaired printer ---- *)
(* the then-branch that starts with `(` is separated by a forced break: no optional break decides a sensitive position *)
Lemma if_then_bracket_safe :
  in_fragment c_if_then_bracket = true /\ safe_breaks (doc_of 4 c_if_then_bracket) = true /\ emits_all 4 c_if_then_bracket.
Proof. vm_compute. auto. Qed.

(* the comment of the comma is in the document, after the comma *)
Lemma comma_comment_kept : in_fragment c_comma_comment = true /\ emits_all 4 c_comma_comment.
Proof. vm_compute. auto. Qed.

(* the comments in the trivia of a closing brace are in the document *)
Lemma brace_comment_kept : in_fragment c_brace_comment = true /\ emits_all 4 c_brace_comment /\
  comments_in (dwords (doc_of 4 c_brace_comment)) = ["// done"; "// about g"].
Proof. vm_compute. auto. Qed.

Lemma if_word_spaced : in_fragment c_if_word = true /\
  all_renderings (doc_of 4 c_if_word) (prefix "if gate") = true.
Proof. vm_compute. auto. Qed.

Lemma neg_neg_spaced : in_fragment c_neg_neg = true /\
  all_renderings (doc_of 4 c_neg_neg) (prefix "- -x") = true.
Proof. vm_compute. auto. Qed.

Lemma typed_param_together : in_fragment c_typed_param = true /\
  all_renderings (doc_of 4 c_typed_param) (contains "(x:float)") = true.
Proof. vm_compute. auto. Qed.

Lemma lambda0_spaced : in_fragment c_lambda0 = true /\
  all_renderings (doc_of 4 c_lambda0) (prefix "| | x") = true.
Proof. vm_compute. auto. Qed.

Lemma tuple1_comma_kept : in_fragment c_tuple1 = true /\
  all_renderings (doc_of 4 c_tuple1) (String.eqb "(a,)") = true.
Proof. vm_compute. auto. Qed.

Lemma if_assign_kept : in_fragment c_if_assign = true /\ emits_all 4 c_if_assign /\
  all_renderings (doc_of 4 c_if_assign) (contains "x = 1") = true.
Proof. vm_compute. auto. Qed.
