(* Fmt/Witness.v — witnesses for the findings of C14 and for the satisfiability of the hypotheses.
   Every `cst` below is the REAL green tree of the quoted source text (dumped by harness/lang/src/bin/fmt_run.rs and
   converted mechanically); checks/C14.py replays the same sources on the real formatter. *)
From Coq Require Import String Ascii List Bool Arith.
From Mimium Require Import Fmt.Model Fmt.Render Fmt.Breaks.
Import ListNotations.
Local Open Scope string_scope.
Local Open Scope list_scope.

Fixpoint prefix (p s : string) : bool :=
  match p, s with
  | EmptyString, _ => true
  | String a p', String b s' => Ascii.eqb a b && prefix p' s'
  | _, _ => false
  end.

Fixpoint contains (p s : string) : bool :=
  prefix p s || match s with EmptyString => false | String _ s' => contains p s' end.

(* every rendering (every width, every indent choice made by the layout engine) satisfies P *)
Definition all_renderings (d : doc) (P : string -> bool) : bool :=
  forallb (fun r => P (flat_string r)) (renderings d).

Lemma all_renderings_spec : forall d P, all_renderings d P = true ->
  forall r, In r (renderings d) -> P (flat_string r) = true.
Proof. intros d P H r Hr. unfold all_renderings in H. rewrite forallb_forall in H. now apply H. Qed.

(* "fn f(a, b){ let x = g(a, b) + 1 // sum\n  x |> h }" *)
Definition c_ok : cst :=
Node SProgram [
  Node SStatement [
    Node SFunctionDecl [
      Tok KFunction "fn" [] [TWs];
      Tok KOther "f" [] [];
      Node (SGroupedList false) [
        Tok KParenBegin "(" [] [];
        Tok KOther "a" [] [];
        Tok KComma "," [] [TWs];
        Tok KOther "b" [] [];
        Tok KParenEnd ")" [] []];
      Node SBlockExpr [
        Tok KBlockBegin "{" [] [TWs];
        Node SStatement [
          Node SLetDecl [
            Tok KLet "let" [] [TWs];
            Node (SLeaf false) [
              Tok KOther "x" [] [TWs]];
            Tok KAssign "=" [] [TWs];
            Node SBinaryExpr [
              Node SCallExpr [
                Node (SLeaf false) [
                  Tok KOther "g" [] []];
                Node (SGroupedList false) [
                  Tok KParenBegin "(" [] [];
                  Node (SLeaf false) [
                    Tok KOther "a" [] []];
                  Tok KComma "," [] [TWs];
                  Node (SLeaf false) [
                    Tok KOther "b" [] []];
                  Tok KParenEnd ")" [] [TWs]]];
              Tok (KOp false) "+" [] [TWs];
              Node (SLeaf false) [
                Tok KOther "1" [] [TWs; TLine "// sum"; TNl; TWs]]]]];
        Node SStatement [
          Node SBinaryExpr [
            Node (SLeaf false) [
              Tok KOther "x" [] [TWs]];
            Tok (KOp true) "|>" [] [TWs];
            Node (SLeaf false) [
              Tok KOther "h" [] [TWs]]]];
        Tok KBlockEnd "}" [] []]]]]
.

(* "if (c)\n (a, b) else d"   (finding if-then-branch-starts-with-bracket) *)
Definition c_if_then_bracket : cst :=
Node SProgram [
  Node SStatement [
    Node SIfExpr [
      Tok KIf "if" [] [TWs];
      Node SParenExpr [
        Tok KParenBegin "(" [] [];
        Node (SLeaf false) [
          Tok KOther "c" [] []];
        Tok KParenEnd ")" [] [TNl; TWs]];
      Node (SGroupedList false) [
        Tok KParenBegin "(" [] [];
        Node (SLeaf false) [
          Tok KOther "a" [] []];
        Tok KComma "," [] [TWs];
        Node (SLeaf false) [
          Tok KOther "b" [] []];
        Tok KParenEnd ")" [] [TWs]];
      Tok KElse "else" [] [TWs];
      Node (SLeaf false) [
        Tok KOther "d" [] []]]]]
.

(* "(a, /* c */ b)"   (finding comment-on-reconstructed-token) *)
Definition c_comma_comment : cst :=
Node SProgram [
  Node SStatement [
    Node (SGroupedList false) [
      Tok KParenBegin "(" [] [];
      Node (SLeaf false) [
        Tok KOther "a" [] []];
      Tok KComma "," [] [TWs; TBlock "/* c */"; TWs];
      Node (SLeaf false) [
        Tok KOther "b" [] []];
      Tok KParenEnd ")" [] []]]]
.

(* "if gate {x}"   (finding if-condition-without-parenthesis) *)
Definition c_if_word : cst :=
Node SProgram [
  Node SStatement [
    Node SIfExpr [
      Tok KIf "if" [] [TWs];
      Node (SLeaf false) [
        Tok KOther "gate" [] [TWs]];
      Node SBlockExpr [
        Tok KBlockBegin "{" [] [];
        Node SStatement [
          Node (SLeaf false) [
            Tok KOther "x" [] []]];
        Tok KBlockEnd "}" [] []]]]]
.

(* "- -x"   (finding sign-of-signed-operand) *)
Definition c_neg_neg : cst :=
Node SProgram [
  Node SStatement [
    Node SUnaryExpr [
      Tok (KOp false) "-" [] [TWs];
      Node SUnaryExpr [
        Tok (KOp false) "-" [] [];
        Node (SLeaf false) [
          Tok KOther "x" [] []]]]]]
.

(* "fn f(x:float){x}"   (finding multi-node-list-item) *)
Definition c_typed_param : cst :=
Node SProgram [
  Node SStatement [
    Node SFunctionDecl [
      Tok KFunction "fn" [] [TWs];
      Tok KOther "f" [] [];
      Node (SGroupedList false) [
        Tok KParenBegin "(" [] [];
        Tok KOther "x" [] [];
        Node (SLeaf false) [
          Tok KOther ":" [] [];
          Node (SLeaf true) [
            Tok KOther "float" [] []]];
        Tok KParenEnd ")" [] []];
      Node SBlockExpr [
        Tok KBlockBegin "{" [] [];
        Node SStatement [
          Node (SLeaf false) [
            Tok KOther "x" [] []]];
        Tok KBlockEnd "}" [] []]]]]
.

(* "| | x"   (finding lambda-without-parameters) *)
Definition c_lambda0 : cst :=
Node SProgram [
  Node SStatement [
    Node SLambdaExpr [
      Tok KLambdaBar "|" [] [TWs];
      Tok KLambdaBar "|" [] [TWs];
      Node (SLeaf false) [
        Tok KOther "x" [] []]]]]
.

(* "(a,)"   (finding one-element-tuple) *)
Definition c_tuple1 : cst :=
Node SProgram [
  Node SStatement [
    Node (SGroupedList false) [
      Tok KParenBegin "(" [] [];
      Node (SLeaf false) [
        Tok KOther "a" [] []];
      Tok KComma "," [] [];
      Tok KParenEnd ")" [] []]]]
.

(* "if (a) x = 1 else y"   (finding assignment-as-if-branch) *)
Definition c_if_assign : cst :=
Node SProgram [
  Node SStatement [
    Node SIfExpr [
      Tok KIf "if" [] [TWs];
      Node SParenExpr [
        Tok KParenBegin "(" [] [];
        Node (SLeaf false) [
          Tok KOther "a" [] []];
        Tok KParenEnd ")" [] [TWs]];
      Node (SLeaf false) [
        Tok KOther "x" [] [TWs]];
      Node SAssignExpr [
        Tok KAssign "=" [] [TWs];
        Node (SLeaf false) [
          Tok KOther "1" [] [TWs]]];
      Tok KElse "else" [] [TWs];
      Node (SLeaf false) [
        Tok KOther "y" [] []]]]].

(* ---- the hypotheses of the positive theorems are satisfiable ---- *)
Lemma ok_in_fragment : in_fragment c_ok = true. Proof. vm_compute. reflexivity. Qed.
Lemma ok_safe : safe_breaks (doc_of 4 c_ok) = true. Proof. vm_compute. reflexivity. Qed.
Lemma ok_emits_all : emits_all 4 c_ok. Proof. vm_compute. reflexivity. Qed.
Lemma ok_has_renderings : renderings (doc_of 4 c_ok) <> []. Proof. vm_compute. discriminate. Qed.

(* ---- findings ---- *)
(* the flat layout and the layout broken before the then-branch show the parser different line-break flags at the
   sensitive position `) (` : the flat one re-parses as the call (c)(a, b) *)
Lemma if_then_bracket_unsafe :
  exists r1 r2, in_fragment c_if_then_bracket = true /\
    In r1 (renderings (doc_of 4 c_if_then_bracket)) /\ In r2 (renderings (doc_of 4 c_if_then_bracket)) /\
    words r1 = words r2 /\ observed r1 <> observed r2.
Proof.
  exists (nth 0 (renderings (doc_of 4 c_if_then_bracket)) []).
  exists (last (renderings (doc_of 4 c_if_then_bracket)) []).
  split; [vm_compute; reflexivity|].
  split; [vm_compute; tauto|].
  split; [vm_compute; tauto|].
  split; [vm_compute; reflexivity|].
  vm_compute. discriminate.
Qed.

Lemma if_then_bracket_not_safe : safe_breaks (doc_of 4 c_if_then_bracket) = false.
Proof. vm_compute. reflexivity. Qed.

Lemma comma_comment_dropped :
  in_fragment c_comma_comment = true /\
  comments_in (cst_words c_comma_comment) = ["/* c */"] /\ comments_in (dwords (doc_of 4 c_comma_comment)) = [].
Proof. vm_compute. auto. Qed.

Lemma if_word_glued : in_fragment c_if_word = true /\
  all_renderings (doc_of 4 c_if_word) (prefix "ifgate") = true.
Proof. vm_compute. auto. Qed.

Lemma neg_neg_glued : in_fragment c_neg_neg = true /\
  all_renderings (doc_of 4 c_neg_neg) (prefix "--x") = true.
Proof. vm_compute. auto. Qed.

Lemma typed_param_split : in_fragment c_typed_param = true /\
  all_renderings (doc_of 4 c_typed_param) (contains "x,") = true.
Proof. vm_compute. auto. Qed.

Lemma lambda0_glued : in_fragment c_lambda0 = true /\
  all_renderings (doc_of 4 c_lambda0) (prefix "|| x") = true.
Proof. vm_compute. auto. Qed.

Lemma tuple1_comma_lost : in_fragment c_tuple1 = true /\
  all_renderings (doc_of 4 c_tuple1) (String.eqb "(a)") = true.
Proof. vm_compute. auto. Qed.

Lemma if_assign_dropped : in_fragment c_if_assign = true /\
  cst_words c_if_assign = ["if"; "("; "a"; ")"; "x"; "="; "1"; "else"; "y"] /\
  dwords (doc_of 4 c_if_assign) = ["if"; "("; "a"; ")"; "x"; "else"; "y"].
Proof. vm_compute. auto. Qed.
