(* Fmt/Emits.v — the hypothesis `emits_all` is PROVED for the part of the fragment whose nodes are printed by plain
   concatenation of their children (print_leaf_children, with or without a group around it): statements, literals,
   identifiers, unary expressions, call expressions (callee + argument list node), parenthesised expressions, field access,
   index expressions, type annotations ...  (the nodes with a printing state machine -- lists, blocks, if, lambda, let --
   are decided per program by the check, and refuted in general, see Witness.v). *)
From Coq Require Import String Ascii List Bool Arith.
From Mimium Require Import Fmt.Model.
Import ListNotations.
Local Open Scope string_scope.
Local Open Scope list_scope.

Lemma dwords_cat : forall a b, dwords (cat a b) = dwords a ++ dwords b.
Proof.
  intros a b. destruct a; destruct b; cbn [cat dwords]; try reflexivity; now rewrite ?app_nil_r.
Qed.

Lemma dwords_group : forall d, dwords (group d) = dwords d.
Proof. destruct d; reflexivity. Qed.

Lemma dwords_fold_cat : forall ds acc, dwords (fold_left cat ds acc) = dwords acc ++ flat_map dwords ds.
Proof.
  induction ds as [|d ds IH]; intros acc; cbn [fold_left flat_map].
  - now rewrite app_nil_r.
  - rewrite IH, dwords_cat. now rewrite app_assoc.
Qed.

Lemma dwords_dconcat : forall ds, dwords (dconcat ds) = flat_map dwords ds.
Proof. intros. unfold dconcat. now rewrite dwords_fold_cat. Qed.

Lemma word_of_space : word_of " " = None.
Proof. reflexivity. Qed.

Lemma dwords_emit_trivia : forall t, dwords (emit_trivia t) = trivia_words [t].
Proof.
  destruct t as [s|s| | ]; reflexivity.
Qed.

Lemma trivia_words_cons : forall t ts, trivia_words (t :: ts) = trivia_words [t] ++ trivia_words ts.
Proof. intros. unfold trivia_words. cbn [flat_map]. now rewrite app_nil_r. Qed.

Lemma dwords_fold_trivia : forall ts acc,
  dwords (fold_left (fun d t => cat d (emit_trivia t)) ts acc) = dwords acc ++ trivia_words ts.
Proof.
  induction ts as [|t ts IH]; intros acc; cbn [fold_left].
  - unfold trivia_words. cbn. now rewrite app_nil_r.
  - rewrite IH, dwords_cat, dwords_emit_trivia, (trivia_words_cons t ts). now rewrite app_assoc.
Qed.

(* emit_token_with_trivia emits the token text and every comment of its trivia, in order *)
Lemma dwords_emit_token : forall text lead trail,
  dwords (emit_token text lead trail) = trivia_words lead ++ opt_list (word_of text) ++ trivia_words trail.
Proof.
  intros. unfold emit_token. rewrite dwords_fold_trivia, dwords_cat, dwords_fold_trivia.
  cbn [dwords]. now rewrite app_nil_l, app_assoc.
Qed.

Lemma dwords_unary_scan : forall cs ds first acc, length cs = length ds ->
  dwords (print_unary_scan first cs ds acc) = dwords acc ++ flat_map dwords ds.
Proof.
  induction cs as [|c cs IH]; intros ds first acc H; destruct ds as [|d ds]; try discriminate H.
  - cbn. now rewrite app_nil_r.
  - cbn [print_unary_scan flat_map]. rewrite IH by (now inversion H).
    rewrite dwords_cat. destruct (negb first && _); [rewrite dwords_cat; cbn [dwords space]; rewrite word_of_space; cbn|];
      now rewrite ?app_nil_r, app_assoc.
Qed.

Lemma dwords_space : dwords space = [].
Proof. reflexivity. Qed.

Lemma dwords_intersperse_fold : forall ds acc,
  dwords (fold_left (fun a x => cat (cat a space) x) ds acc) = dwords acc ++ flat_map dwords ds.
Proof.
  induction ds as [|d ds IH]; intros acc; cbn [fold_left flat_map].
  - now rewrite app_nil_r.
  - rewrite IH, !dwords_cat, dwords_space, app_nil_r. now rewrite app_assoc.
Qed.

Lemma dwords_intersperse_space : forall ds, dwords (intersperse ds space) = flat_map dwords ds.
Proof.
  intros [|d ds]; [reflexivity|]. unfold intersperse.
  rewrite dwords_intersperse_fold, dwords_cat. reflexivity.
Qed.

Lemma dwords_arm_list : forall cs ds prev acc, length cs = length ds ->
  dwords (print_arm_list prev cs ds acc) = dwords acc ++ flat_map dwords ds.
Proof.
  induction cs as [|c cs IH]; intros ds prev acc H; destruct ds as [|d ds]; try discriminate H.
  - cbn. now rewrite app_nil_r.
  - cbn [print_arm_list flat_map]. rewrite IH by (now inversion H).
    rewrite !dwords_cat.
    assert (E : dwords (match prev with
                        | None => Nil
                        | Some p => if is_node p && opens_paren c then HardLine else space
                        end) = []).
    { destruct prev as [p|]; [destruct (is_node p && opens_paren c)|]; reflexivity. }
    rewrite E, app_nil_r. now rewrite app_assoc.
Qed.

(* node kinds printed by concatenating the documents of the children, possibly with blanks / forced breaks between them
   (unary: a blank before a signed operand; match expressions, arms, patterns, type declarations, variants: a blank between
   the children; arm lists: a blank or a forced break) *)
Definition concat_kind (k : skind) : bool :=
  match k with
  | SStatement | SUnaryExpr | SCallExpr | SParenExpr | SLeaf _ | SSpaced | SMatchArmList | SOutside => true
  | _ => false
  end.

Fixpoint concat_only (c : cst) : bool :=
  match c with
  | Tok _ _ _ _ => true
  | Node k cs => concat_kind k && forallb concat_only cs
  end.

Lemma emits_all_concat : forall ind c, concat_only c = true -> emits_all ind c.
Proof.
  intros ind. unfold emits_all.
  fix IH 1. intros c. destruct c as [k text lead trail|k cs]; intros H.
  - cbn [doc_of cst_words]. apply dwords_emit_token.
  - cbn [concat_only] in H. apply andb_true_iff in H. destruct H as [Hk Hcs].
    assert (E : flat_map dwords (map (doc_of ind) cs) = flat_map cst_words cs).
    { clear Hk. induction cs as [|x cs IHcs]; [reflexivity|].
      cbn [forallb] in Hcs. apply andb_true_iff in Hcs. destruct Hcs as [Hx Hr].
      cbn [map flat_map]. rewrite (IH x Hx), (IHcs Hr). reflexivity. }
    cbn [cst_words]. rewrite <- E.
    destruct k; try discriminate Hk; cbn [doc_of]; rewrite ?dwords_group;
      try apply dwords_dconcat; try apply dwords_intersperse_space.
    + unfold print_unary_expr. rewrite dwords_unary_scan; [reflexivity|now rewrite map_length].
    + rewrite dwords_arm_list; [reflexivity|now rewrite map_length].
Qed.

(* compositional form: a node of a concatenating kind emits everything as soon as its children do (the children may be
   nodes with a printing state machine whose emits_all is decided by computation) *)
Lemma emits_all_node : forall ind k cs,
  concat_kind k = true -> Forall (emits_all ind) cs -> emits_all ind (Node k cs).
Proof.
  intros ind k cs Hk Hcs. unfold emits_all in *.
  assert (E : flat_map dwords (map (doc_of ind) cs) = flat_map cst_words cs).
  { induction Hcs as [|x cs Hx _ IHcs]; [reflexivity|]. cbn [map flat_map]. now rewrite Hx, IHcs. }
  cbn [cst_words]. rewrite <- E.
  destruct k; try discriminate Hk; cbn [doc_of]; rewrite ?dwords_group;
    try apply dwords_dconcat; try apply dwords_intersperse_space.
  - unfold print_unary_expr. rewrite dwords_unary_scan; [reflexivity|now rewrite map_length].
  - rewrite dwords_arm_list; [reflexivity|now rewrite map_length].
Qed.

(* "-a.b /* c */" *)
Definition c_concat : cst :=
  Node SStatement [Node SUnaryExpr [Tok (KOp false true) "-" [] [];
    Node (SLeaf false) [Node (SLeaf false) [Tok KIdent "a" [] []]; Tok KOther "." [] []; Tok KIdent "b" [] [TWs; TBlock "/* c */"]]]].

Lemma c_concat_ok : concat_only c_concat = true /\ cst_words c_concat = ["-"; "a"; "."; "b"; "/* c */"].
Proof. vm_compute. auto. Qed.
