(* Fmt/Doc.v — first half of the executable model for C14 (see the header of Fmt/Model.v, which re-exports this file):
   the document language of the `pretty` crate 0.12 with the SET of admissible renderings, the sound membership test used by
   the correspondence check, the words of documents / renderings, and the parser's view of a layout (the line-break flags at
   the sensitive positions: `observed`, `safe_breaks`, `doc_flags`).  No proofs in this file. *)
From Coq Require Import String Ascii List Bool Arith.
Import ListNotations.
Local Open Scope string_scope.
Local Open Scope list_scope.

(* ------------------------------------------------------------------------------------------------ *)
(* documents and their admissible renderings                                                          *)
(* ------------------------------------------------------------------------------------------------ *)
Inductive doc : Type :=
| Nil
| Text (s : string)
| Line                 (* space when flat, newline when broken          (allocator.line() = hardline().flat_alt(" ")) *)
| SoftLine             (* line().group(): a space, or a newline if the enclosing mode is broken                      *)
| HardLine             (* always a newline; cannot be rendered flat                                                  *)
| Nest (n : nat) (d : doc)
| Group (d : doc)
| Cat (a b : doc).

Definition space : doc := Text " ".

(* DocBuilder::append: Nil is dropped on either side *)
Definition cat (a b : doc) : doc :=
  match a, b with
  | Nil, _ => b
  | _, Nil => a
  | _, _ => Cat a b
  end.

(* DocBuilder::group: no Group around a Group, a text or Nil *)
Definition group (d : doc) : doc :=
  match d with
  | Group _ | Text _ | Nil => d
  | _ => Group d
  end.

(* DocBuilder::nest: Nil and offset 0 are left alone *)
Definition nest (n : nat) (d : doc) : doc :=
  match d with
  | Nil => Nil
  | _ => match n with O => d | _ => Nest n d end
  end.

(* allocator.concat(docs) = fold(nil, append) *)
Definition dconcat (ds : list doc) : doc := fold_left cat ds Nil.

(* allocator.intersperse(docs, sep) *)
Definition intersperse (ds : list doc) (sep : doc) : doc :=
  match ds with
  | [] => Nil
  | d :: r => fold_left (fun acc x => cat (cat acc sep) x) r (cat Nil d)
  end.

Inductive atom : Type :=
| AText (s : string)
| ANl (indent : nat).

Fixpoint spaces (n : nat) : string :=
  match n with
  | O => ""
  | S m => String " "%char (spaces m)
  end.

Definition nl : string := String (ascii_of_nat 10) "".
Definition newline (i : nat) : string := (nl ++ spaces i)%string.

Definition atom_string (a : atom) : string :=
  match a with
  | AText s => s
  | ANl i => newline i
  end.

Fixpoint flat_string (r : list atom) : string :=
  match r with
  | [] => ""
  | a :: t => (atom_string a ++ flat_string t)%string
  end.

(* render.rs Best::best, arm Doc::Hardline: "the next document may have different indentation so we should use it if we
   can": the indentation written after a newline is the one of the NEXT pending command (k), the own one (i) only when
   nothing follows *)
Definition nl_indent (k : option nat) (i : nat) : nat := match k with Some j => j | None => i end.

(* all renderings of d in mode `flat` at indentation i, when the next pending command has indentation k *)
Fixpoint rs (flat : bool) (i : nat) (k : option nat) (d : doc) : list (list atom) :=
  match d with
  | Nil => [[]]
  | Text s => [[AText s]]
  | Line => if flat then [[AText " "]] else [[ANl (nl_indent k i)]]
  | SoftLine => [AText " "] :: (if flat then [] else [[ANl (nl_indent k i)]])
  | HardLine => if flat then [] else [[ANl (nl_indent k i)]]
  | Nest n d => rs flat (i + n) k d
  | Group d => rs true i k d ++ (if flat then [] else rs false i k d)
  | Cat a b => flat_map (fun x => map (fun y => x ++ y) (rs flat i k b)) (rs flat i (Some i) a)
  end.

(* doc.render(width, ..) picks one of these for every width *)
Definition renderings (d : doc) : list (list atom) := rs false 0 None d.

(* ------------------------------------------------------------------------------------------------ *)
(* membership test used by the correspondence check: is the text `s` one of the renderings?           *)
(* ------------------------------------------------------------------------------------------------ *)
Fixpoint strip (p s : string) : option string :=
  match p with
  | EmptyString => Some s
  | String c p' =>
      match s with
      | EmptyString => None
      | String c' s' => if Ascii.eqb c c' then strip p' s' else None
      end
  end.

Definition opt_list {A} (o : option A) : list A :=
  match o with Some x => [x] | None => [] end.

Fixpoint mem_len (n : nat) (l : list string) : bool :=
  match l with
  | [] => false
  | x :: r => Nat.eqb (String.length x) n || mem_len n r
  end.

(* the results are suffixes of one text: equal length means equal suffix *)
Fixpoint dedup_len (l : list string) : list string :=
  match l with
  | [] => []
  | x :: r => let r' := dedup_len r in if mem_len (String.length x) r' then r' else x :: r'
  end.

(* the suffixes of s that remain after some rendering of d *)
Fixpoint admits (flat : bool) (i : nat) (k : option nat) (d : doc) (s : string) : list string :=
  match d with
  | Nil => [s]
  | Text t => opt_list (strip t s)
  | Line => opt_list (strip (if flat then " " else newline (nl_indent k i)) s)
  | SoftLine => opt_list (strip " " s) ++ (if flat then [] else opt_list (strip (newline (nl_indent k i)) s))
  | HardLine => if flat then [] else opt_list (strip (newline (nl_indent k i)) s)
  | Nest n d => admits flat (i + n) k d s
  | Group d => dedup_len (admits true i k d s ++ (if flat then [] else admits false i k d s))
  | Cat a b => dedup_len (flat_map (fun s' => admits flat i k b s') (admits flat i (Some i) a s))
  end.

Fixpoint has_empty (l : list string) : bool :=
  match l with
  | [] => false
  | EmptyString :: _ => true
  | _ :: r => has_empty r
  end.

Definition is_rendering (d : doc) (s : string) : bool := has_empty (admits false 0 None d s).

(* ------------------------------------------------------------------------------------------------ *)
(* words (non-blank texts) of documents and renderings                                                *)
(* ------------------------------------------------------------------------------------------------ *)
Definition is_sp (c : ascii) : bool := Ascii.eqb c " "%char.

Fixpoint all_space (s : string) : bool :=
  match s with
  | EmptyString => true
  | String c r => is_sp c && all_space r
  end.

Fixpoint drop_lead (s : string) : string :=
  match s with
  | EmptyString => EmptyString
  | String c r => if is_sp c then drop_lead r else s
  end.

(* drop trailing blanks *)
Fixpoint drop_trail (s : string) : string :=
  match s with
  | EmptyString => EmptyString
  | String c r => if all_space s then EmptyString else String c (drop_trail r)
  end.

Definition word_of (s : string) : option string :=
  if all_space s then None else Some (drop_trail (drop_lead s)).

Fixpoint dwords (d : doc) : list string :=
  match d with
  | Text s => opt_list (word_of s)
  | Nil | Line | SoftLine | HardLine => []
  | Nest _ d | Group d => dwords d
  | Cat a b => dwords a ++ dwords b
  end.

Fixpoint words (r : list atom) : list string :=
  match r with
  | [] => []
  | AText s :: t => opt_list (word_of s) ++ words t
  | ANl _ :: t => words t
  end.

(* ------------------------------------------------------------------------------------------------ *)
(* the parser's view of a layout                                                                      *)
(* ------------------------------------------------------------------------------------------------ *)
Inductive shape : Type := W (w : string) | SP | NL.

Definition shape_of (a : atom) : list shape :=
  match a with
  | AText s => match word_of s with Some w => [W w] | None => [SP] end
  | ANl _ => [NL]
  end.

Definition shapes (r : list atom) : list shape := flat_map shape_of r.

Fixpoint last_char (s : string) : option ascii :=
  match s with
  | EmptyString => None
  | String c EmptyString => Some c
  | String _ r => last_char r
  end.

Definition is_alnum (c : ascii) : bool :=
  let n := nat_of_ascii c in
  (Nat.leb 48 n && Nat.leb n 57) || (Nat.leb 65 n && Nat.leb n 90) || (Nat.leb 97 n && Nat.leb n 122) || Nat.eqb n 95 || Nat.leb 128 n.

(* the previous syntax token can be the end of a postfix operand: identifier / literal / keyword-literal / closing delimiter
   (an over-approximation: every word-like token counts) *)
Fixpoint mem_string (x : string) (l : list string) : bool :=
  match l with [] => false | y :: r => String.eqb x y || mem_string x r end.

(* reserved words (tokenizer.rs) that are not expressions: no primary expression ends with them *)
Definition non_expr_keywords : list string :=
  ["fn"; "macro"; "let"; "letrec"; "if"; "else"; "match"; "include"; "stage"; "main"; "mod"; "use"; "pub"; "type"; "alias";
   "rec"; "float"; "int"; "string"; "struct"].

Definition ends_expr (p : string) : bool :=
  negb (mem_string p non_expr_keywords) &&
  match last_char p with
  | Some c => is_alnum c || Ascii.eqb c """"%char || Ascii.eqb c ")"%char || Ascii.eqb c "]"%char || Ascii.eqb c "}"%char
  | None => false
  end.

(* parse_postfix_expr: ParenBegin / Dot / ArrayBegin *)
Definition opens (w : string) : bool := String.eqb w "(" || String.eqb w "[" || String.eqb w ".".

Definition is_comment (w : string) : bool :=
  match w with
  | String "/"%char (String "/"%char _) => true
  | String "/"%char (String "*"%char _) => true
  | _ => false
  end.

(* context of a position: (1) whether the previous token is the NAME of a function / macro declaration (it directly
   follows `fn` / `macro`: the parameter list that follows is not a call); (2) for every bracket that is open there (innermost
   first), whether it is a `{` written directly after the end of an expression -- the brace of a match (after the scrutinee),
   of a block (`fn f() {`, `if (c) {`) or of a module.  In a valid program only the first kind has commas at its own depth:
   the commas between match arms. *)
Definition ctx : Type := (bool * list bool)%type.
Definition ctx0 : ctx := (false, []).

Definition is_open_bracket (w : string) : bool := String.eqb w "(" || String.eqb w "[" || String.eqb w "{".
Definition is_close_bracket (w : string) : bool := String.eqb w ")" || String.eqb w "]" || String.eqb w "}".

Definition can_end (st : ctx) (p : string) : bool := negb (fst st) && ends_expr p.

(* the context after the token w (whose predecessor is prev) *)
Definition ctx_step (prev : option string) (w : string) (st : ctx) : ctx :=
  (match prev with Some p => String.eqb p "fn" || String.eqb p "macro" | None => false end,
   if is_open_bracket w then (String.eqb w "{" && match prev with Some p => can_end st p | None => false end) :: snd st
   else if is_close_bracket w then tl (snd st)
   else snd st).

(* the parser consults has_trailing_linebreak() with a deciding outcome: before a postfix opener after an expression
   (parse_postfix_expr), and before the comma that follows a match arm (parse_match_expr) *)
Definition sensitive (st : ctx) (p w : string) : bool :=
  can_end st p && (opens w || (String.eqb w "," && hd false (snd st))).

(* has_trailing_linebreak() at the sensitive positions: `prev` = previous syntax token, lb = a line break lies between *)
Fixpoint observed_from (prev : option string) (lb : bool) (st : ctx) (l : list shape) : list bool :=
  match l with
  | [] => []
  | SP :: r => observed_from prev lb st r
  | NL :: r => observed_from prev true st r
  | W w :: r =>
      if is_comment w then observed_from prev lb st r
      else
        let here := match prev with Some p => if sensitive st p w then [lb] else [] | None => [] end in
        here ++ observed_from (Some w) false (ctx_step prev w st) r
  end.

Definition observed (r : list atom) : list bool := observed_from None false ctx0 (shapes r).

(* the linear sequence of a document: words, blanks, optional breaks, forced breaks *)
Inductive item : Type := IW (w : string) | ISP | IOPT | IHARD.

Fixpoint items (d : doc) : list item :=
  match d with
  | Nil => []
  | Text s => match word_of s with Some w => [IW w] | None => [ISP] end
  | Line | SoftLine => [IOPT]
  | HardLine => [IHARD]
  | Nest _ d | Group d => items d
  | Cat a b => items a ++ items b
  end.

Inductive bstate : Type := BNone | BOpt | BHard.

Definition badd_opt (b : bstate) : bstate := match b with BNone => BOpt | x => x end.

(* no optional break decides a sensitive position: between a token that can end an expression and a following postfix
   opener (or match-arm comma) there is either a forced break or no break point at all *)
Fixpoint safe_from (prev : option string) (b : bstate) (st : ctx) (l : list item) : bool :=
  match l with
  | [] => true
  | ISP :: r => safe_from prev b st r
  | IOPT :: r => safe_from prev (badd_opt b) st r
  | IHARD :: r => safe_from prev BHard st r
  | IW w :: r =>
      if is_comment w then safe_from prev b st r
      else
        let ok := match prev with
                  | Some p => if sensitive st p w then match b with BOpt => false | _ => true end else true
                  | None => true
                  end in
        ok && safe_from (Some w) BNone (ctx_step prev w st) r
  end.

Definition safe_breaks (d : doc) : bool := safe_from None BNone ctx0 (items d).

(* the line-break flags a document FORCES at the sensitive positions (meaningful when safe_breaks holds): true where a hard
   line lies between the two tokens, false where there is no break point *)
Fixpoint det_from (prev : option string) (b : bstate) (st : ctx) (l : list item) : list bool :=
  match l with
  | [] => []
  | ISP :: r => det_from prev b st r
  | IOPT :: r => det_from prev (badd_opt b) st r
  | IHARD :: r => det_from prev BHard st r
  | IW w :: r =>
      if is_comment w then det_from prev b st r
      else
        let here := match prev with
                    | Some p => if sensitive st p w then [match b with BHard => true | _ => false end] else []
                    | None => []
                    end in
        here ++ det_from (Some w) BNone (ctx_step prev w st) r
  end.

Definition doc_flags (d : doc) : list bool := det_from None BNone ctx0 (items d).

