(* Fmt/Witness3.v — the hypotheses of comments_emitted_once_in_order (Fmt/Comments.v) are satisfiable: the text
   "a // c" newline "b" with the raw tokens of tokenizer.rs, the trivia maps computed by the pre-parser MODEL (Lexer/Model.v
   preparse) and the green tree the printer walks. *)
From Coq Require Import List NArith Bool Arith Lia String.
From Mimium Require Import Tables.LexerTables Lexer.Model Lexer.PreLemmas Fmt.Model Fmt.Emits Fmt.Attach Fmt.Comments.
Import ListNotations.
Local Open Scope string_scope.
Local Open Scope list_scope.

(* a, blank, // c, line break, b, end *)
Definition w3_toks : list Token :=
  [mkTok LexerTables.KIdent 0 1; mkTok KWhitespace 1 1; mkTok KSingleLineComment 2 4; mkTok KLineBreak 6 1;
   mkTok LexerTables.KIdent 7 1; mkTok KEof 8 0].

Definition w3_txt (i : N) : string :=
  match i with 0%N => "a" | 1%N => " " | 2%N => "// c" | 4%N => "b" | _ => "" end.

Definition w3_cst : cst :=
  Node SProgram [
    Node SStatement [Node (SLeaf false) [Tok Fmt.Model.KIdent "a" [] [TWs; TLine "// c"; TNl]]];
    Node SStatement [Node (SLeaf false) [Tok Fmt.Model.KIdent "b" [] []]]].

Lemma w3_decorated : decorated w3_txt w3_toks w3_cst.
Proof. vm_compute. reflexivity. Qed.

Lemma w3_emits_all : emits_all 4 w3_cst.
Proof. vm_compute. reflexivity. Qed.

Lemma w3_comment_texts_ok : comment_texts_ok w3_txt w3_toks.
Proof.
  intros i w. unfold triv_of, w3_toks.
  destruct (N.to_nat i) as [|[|[|[|[|[|n]]]]]] eqn:E; cbn [nth tk_kind trivia_words flat_map app]; try (intros []).
  - assert (i = 2%N) by lia. subst i. cbn. intros [<-|[]]. reflexivity.
  - destruct n; cbn; intros [].
Qed.

Lemma w3_token_texts_ok : token_texts_ok w3_cst.
Proof.
  intros text lead trail w H E. cbn in H.
  destruct H as [H|[H|[]]]; inversion H; subst; cbn in E; inversion E; reflexivity.
Qed.

Lemma w3_survivors : survivors w3_toks = [1%N; 2%N; 3%N].
Proof. vm_compute. reflexivity. Qed.

(* the conclusion of the theorem on this input, also by computation *)
Lemma w3_comments : comments_in (dwords (doc_of 4 w3_cst)) = ["// c"].
Proof. vm_compute. reflexivity. Qed.
