(* Fmt/Attach.v — the comment-attachment clause of C14 over the trivia maps of the pre-parser model (Lexer/Model.v `preparse`,
   a transcription of preparser.rs):

     the trivia tokens that the printer looks up -- emit_token_with_trivia(k) = leading trivia of syntax token #k, the token,
     trailing trivia of #k, for k = 0, 1, 2, ... in the order of the leaves of the green tree -- are EXACTLY the trivia
     tokens of the input that the pre-parser does not drop (finding C13/F5: trivia before the first syntax token up to a
     line break), each ONCE, in SOURCE ORDER.

   Lexer/PreLemmas.v has the counting half (`preparse_trivia_once`: every trivia token is attached exactly once or dropped)
   and the neighbourhood half (`preparse_neighbour`); the ORDER needs an invariant of its own (Inv3 below).
   Everything is proved for an arbitrary token list. *)
From Coq Require Import List NArith Bool Arith Lia Sorted.
From Mimium Require Import Tables.LexerTables Lexer.Model Lexer.PreLemmas.
Import ListNotations.

(* map.get(&k).unwrap_or_default()   (get_leading_trivia / get_trailing_trivia) *)
Definition get (k : N) (m : TriviaMap) : list N := match map_get k m with Some l => l | None => [] end.

Definition nseq (n : nat) : list N := map N.of_nat (seq 0 n).

(* what emit_token_with_trivia looks up for syntax token #k *)
Definition around (lead trail : TriviaMap) (k : N) : list N := get k lead ++ get k trail.

Definition flat (lead trail : TriviaMap) (n : nat) : list N := flat_map (around lead trail) (nseq n).

(* ... for all syntax tokens in order *)
Definition attached_seq (pp : PreParsed) : list N :=
  flat (pp_leading pp) (pp_trailing pp) (length (pp_token_indices pp)).

(* the trivia tokens that are not dropped, in source order *)
Definition survivors (toks : list Token) : list N :=
  map N.of_nat (filter (fun j => is_trivia (nth j toks dtok) && negb (dropped toks j)) (seq 0 (length toks))).

(* ---- association lists -------------------------------------------------------------------------------------------- *)
Lemma get_append_same : forall k vs m, get k (map_append k vs m) = get k m ++ vs.
Proof.
  intros k vs. unfold get. induction m as [|[k' l] r IH]; cbn [map_append map_get].
  - now rewrite N.eqb_refl.
  - destruct (N.eqb_spec k' k) as [->|Hne]; cbn [map_get].
    + now rewrite N.eqb_refl.
    + destruct (N.eqb_spec k' k); [contradiction|]. exact IH.
Qed.

Lemma get_append_other : forall k k' vs m, k' <> k -> get k' (map_append k vs m) = get k' m.
Proof.
  intros k k' vs m Hne. unfold get. induction m as [|[k0 l] r IH]; cbn [map_append map_get].
  - destruct (N.eqb_spec k k'); [congruence|reflexivity].
  - destruct (N.eqb_spec k0 k) as [->|Hk]; cbn [map_get].
    + destruct (N.eqb_spec k k'); [congruence|reflexivity].
    + destruct (N.eqb_spec k0 k'); [reflexivity|exact IH].
Qed.

Lemma get_absent : forall k m, ~ In k (map_keys m) -> get k m = [].
Proof.
  intros k m. unfold get, map_keys. induction m as [|[k0 l] r IH]; cbn [map map_get fst]; intro H; [reflexivity|].
  destruct (N.eqb_spec k0 k) as [->|Hk]; [exfalso; apply H; now left|].
  apply IH. intro Hin. apply H. now right.
Qed.

Lemma nseq_S : forall n, nseq (S n) = nseq n ++ [N.of_nat n].
Proof. intro n. unfold nseq. rewrite seq_S, map_app. reflexivity. Qed.

Lemma flat_S : forall lead trail n,
  flat lead trail (S n) = flat lead trail n ++ around lead trail (N.of_nat n).
Proof. intros. unfold flat. rewrite nseq_S, flat_map_app. cbn [flat_map]. now rewrite app_nil_r. Qed.

Lemma flat_ext : forall l1 t1 l2 t2 n,
  (forall k, (k < n)%nat -> around l1 t1 (N.of_nat k) = around l2 t2 (N.of_nat k)) ->
  flat l1 t1 n = flat l2 t2 n.
Proof.
  induction n as [|n IH]; intro H; [reflexivity|].
  rewrite !flat_S. rewrite IH by (intros; apply H; lia). rewrite (H n) by lia. reflexivity.
Qed.

(* trailing trivia appended to the LAST syntax token *)
Lemma flat_append_trailing_last : forall lead trail vs n,
  flat lead (map_append (N.of_nat n) vs trail) (S n) = flat lead trail (S n) ++ vs.
Proof.
  intros. rewrite !flat_S. unfold around. rewrite get_append_same, <- !app_assoc. f_equal.
  apply flat_ext. intros k Hk. unfold around. rewrite get_append_other by lia. reflexivity.
Qed.

(* a key that is in neither map contributes nothing *)
Lemma flat_fresh : forall lead trail n,
  ~ In (N.of_nat n) (map_keys lead) -> ~ In (N.of_nat n) (map_keys trail) ->
  flat lead trail (S n) = flat lead trail n.
Proof. intros. rewrite flat_S. unfold around. rewrite !get_absent by assumption. now rewrite app_nil_r. Qed.

(* leading trivia attached to the NEXT syntax token *)
Lemma flat_append_leading_next : forall lead trail vs n,
  ~ In (N.of_nat n) (map_keys lead) -> ~ In (N.of_nat n) (map_keys trail) ->
  flat (map_append (N.of_nat n) vs lead) trail (S n) = flat lead trail n ++ vs.
Proof.
  intros lead trail vs n Hl Ht. rewrite flat_S. unfold around.
  rewrite get_append_same, !get_absent by assumption. cbn [app]. rewrite app_nil_r. f_equal.
  apply flat_ext. intros k Hk. unfold around. rewrite get_append_other by lia. reflexivity.
Qed.

(* ---- the trivia held after reading `seen`, in order ----------------------------------------------------------------- *)
Definition surv (seen : list Token) : list N :=
  map N.of_nat (filter (fun j => Nat.eqb (held seen j) 1) (seq 0 (length seen))).

Lemma surv_snoc : forall seen t,
  (forall j, (j < length seen)%nat -> held (seen ++ [t]) j = held seen j) ->
  surv (seen ++ [t]) =
  surv seen ++ (if Nat.eqb (held (seen ++ [t]) (length seen)) 1 then [N.of_nat (length seen)] else []).
Proof.
  intros seen t H. unfold surv. rewrite app_length. cbn [length]. rewrite Nat.add_1_r, seq_S, filter_app, map_app.
  cbn [Nat.add filter]. f_equal.
  - f_equal. apply filter_ext_in. intros j Hj. apply in_seq in Hj. rewrite H by lia. reflexivity.
  - destruct (Nat.eqb (held (seen ++ [t]) (length seen)) 1); reflexivity.
Qed.

Lemma surv_none : forall seen, (forall j, held seen j = 0%nat) -> surv seen = [].
Proof.
  intros seen H. unfold surv. replace (filter _ _) with (@nil nat); [reflexivity|].
  symmetry. induction (seq 0 (length seen)) as [|j l IH]; [reflexivity|]. cbn [filter]. now rewrite H.
Qed.

Lemma surv_snoc_other : forall seen t, is_linebreak t = false ->
  surv (seen ++ [t]) = surv seen ++ (if is_trivia t then [N.of_nat (length seen)] else []).
Proof.
  intros seen t Ht. rewrite surv_snoc.
  - rewrite held_snoc_other, held_ge, Nat.eqb_refl by (assumption || lia). cbn [andb Nat.add].
    now destruct (is_trivia t).
  - intros j Hj. rewrite held_snoc_other by assumption.
    replace (Nat.eqb j (length seen)) with false by (symmetry; apply Nat.eqb_neq; lia). cbn [andb]. lia.
Qed.

Lemma surv_snoc_lb_syntax : forall seen t, is_linebreak t = true -> no_syntax seen = false ->
  surv (seen ++ [t]) = surv seen ++ [N.of_nat (length seen)].
Proof.
  intros seen t Ht Hs. rewrite surv_snoc.
  - rewrite held_snoc_lb_syntax, held_ge, Nat.eqb_refl by (assumption || lia). reflexivity.
  - intros j Hj. rewrite held_snoc_lb_syntax by assumption.
    replace (Nat.eqb j (length seen)) with false by (symmetry; apply Nat.eqb_neq; lia). lia.
Qed.

Lemma surv_snoc_lb_none : forall seen t, is_linebreak t = true -> no_syntax seen = true -> surv (seen ++ [t]) = [].
Proof. intros seen t Ht Hs. apply surv_none. intro j. now apply held_snoc_lb_none. Qed.

(* ---- the invariant of the loop of `preparse` ------------------------------------------------------------------------- *)
Record Inv3 (seen : list Token) (st : PreState) : Prop := {
  inv3_seq : flat (ps_leading st) (ps_trailing st) (length (ps_token_indices st)) ++ ps_pending st = surv seen;
  inv3_last : match ps_last_token_idx st with
              | Some k => (k + 1 = N.of_nat (length (ps_token_indices st)))%N
              | None => ps_token_indices st = []
              end
}.

Lemma Inv3_init : Inv3 [] pre_init.
Proof. constructor; reflexivity. Qed.

Lemma fresh_key : forall seen st, Inv seen st ->
  ~ In (N.of_nat (length (ps_token_indices st))) (map_keys (ps_leading st)) /\
  ~ In (N.of_nat (length (ps_token_indices st))) (map_keys (ps_trailing st)).
Proof.
  intros seen st H. split; intro Hin.
  - pose proof (inv_keys _ _ H _ (or_introl Hin)). lia.
  - pose proof (inv_keys _ _ H _ (or_intror Hin)). lia.
Qed.

Lemma Inv3_step : forall seen st t, Inv seen st -> Inv3 seen st ->
  Inv3 (seen ++ [t]) (pre_step st (N.of_nat (length seen)) t).
Proof.
  intros seen st t HI [Hseq Hlast].
  pose proof (inv_last _ _ HI) as Hl. pose proof (fresh_key _ _ HI) as [Fl Ft].
  unfold pre_step.
  destruct (is_trivia t) eqn:Etr.
  - destruct (is_linebreak t) eqn:Elb.
    + destruct (ps_last_token_idx st) as [k|] eqn:El.
      * (* line break after a syntax token: pending + the line break become trailing trivia of the last token *)
        destruct Hl as [Hsyn _].
        constructor; cbn [ps_token_indices ps_leading ps_trailing ps_pending ps_last_token_idx]; [|exact Hlast].
        destruct (length (ps_token_indices st)) as [|n] eqn:En; [lia|].
        replace k with (N.of_nat n) by lia.
        rewrite flat_append_trailing_last, app_nil_r, surv_snoc_lb_syntax, <- Hseq, app_assoc by assumption. reflexivity.
      * (* line break before the first syntax token: pending is cleared *)
        destruct Hl as [Hsyn [Hle Htr]].
        constructor; cbn [ps_token_indices ps_leading ps_trailing ps_pending ps_last_token_idx]; [|exact Hlast].
        rewrite Hlast, Hle, Htr, surv_snoc_lb_none by assumption. reflexivity.
    + constructor; cbn [ps_token_indices ps_leading ps_trailing ps_pending ps_last_token_idx]; [|exact Hlast].
      rewrite surv_snoc_other, Etr, <- Hseq, app_assoc by assumption. reflexivity.
  - assert (Elb : is_linebreak t = false).
    { destruct (is_linebreak t) eqn:E; [|reflexivity]. apply linebreak_is_trivia in E. congruence. }
    destruct (is_eof t) eqn:Eeof; cbn [negb].
    + constructor; [|exact Hlast]. rewrite surv_snoc_other, Etr, app_nil_r by assumption. exact Hseq.
    + (* a syntax token: pending becomes leading trivia of it, or trailing trivia of the previous token *)
      set (n := length (ps_token_indices st)) in *.
      constructor; cbn [ps_token_indices ps_leading ps_trailing ps_pending ps_last_token_idx].
      * rewrite surv_snoc_other, Etr, app_nil_r by assumption. rewrite <- Hseq.
        destruct (ps_pending st) as [|p0 pend] eqn:Ep.
        -- cbn [ps_token_indices ps_leading ps_trailing ps_pending]. rewrite Ep.
           rewrite app_length. cbn [length]. rewrite Nat.add_1_r. fold n. rewrite flat_fresh by assumption. reflexivity.
        -- destruct (ps_last_was_linebreak st || match ps_last_token_idx st with None => true | Some _ => false end) eqn:Ec;
             cbn [ps_token_indices ps_leading ps_trailing ps_pending].
           ++ rewrite app_length. cbn [length]. rewrite Nat.add_1_r. fold n.
              rewrite flat_append_leading_next, app_nil_r by assumption. reflexivity.
           ++ destruct (ps_last_token_idx st) as [k|] eqn:El; [|rewrite orb_true_r in Ec; discriminate].
              cbn [ps_token_indices ps_leading ps_trailing ps_pending].
              rewrite app_length. cbn [length]. rewrite Nat.add_1_r. fold n.
              destruct n as [|m] eqn:En; [lia|].
              replace k with (N.of_nat m) by lia.
              assert (Ft' : ~ In (N.of_nat (S m)) (map_keys (map_append (N.of_nat m) (p0 :: pend) (ps_trailing st)))).
              { intro Hin. apply map_keys_append in Hin as [E|Hin]; [lia|contradiction]. }
              rewrite flat_fresh, flat_append_trailing_last, app_nil_r by assumption. reflexivity.
      * (* last_token_idx = Some current_idx *)
        destruct (ps_pending st) as [|p0 pend]; [rewrite app_length; cbn [length]; fold n; lia|].
        destruct (ps_last_was_linebreak st || match ps_last_token_idx st with None => true | Some _ => false end);
          cbn [ps_token_indices]; [rewrite app_length; cbn [length]; fold n; lia|].
        destruct (ps_last_token_idx st); cbn [ps_token_indices]; rewrite app_length; cbn [length]; fold n; lia.
Qed.

Lemma Inv3_loop : forall rest seen st, Inv seen st -> Inv3 seen st ->
  Inv3 (seen ++ rest) (pre_loop st (N.of_nat (length seen)) rest).
Proof.
  induction rest as [|t rest IH]; intros seen st H H3; cbn [pre_loop].
  - now rewrite app_nil_r.
  - replace (seen ++ t :: rest) with ((seen ++ [t]) ++ rest) by (rewrite <- app_assoc; reflexivity).
    replace (N.succ (N.of_nat (length seen))) with (N.of_nat (length (seen ++ [t])))
      by (rewrite app_length; cbn [length]; lia).
    apply IH; [now apply Inv_step|now apply Inv3_step].
Qed.

(* ---- the final maps ---------------------------------------------------------------------------------------------------- *)
Lemma held_le_1 : forall seen j, held seen j = 0%nat \/ held seen j = 1%nat.
Proof. intros. unfold held. destruct (_ && _ && _); auto. Qed.

Lemma survivors_surv : forall toks, survivors toks = if no_syntax toks then [] else surv toks.
Proof.
  intro toks. unfold survivors, surv.
  assert (E : forall j, (j < length toks)%nat ->
              is_trivia (nth j toks dtok) && negb (dropped toks j) =
              if no_syntax toks then false else Nat.eqb (held toks j) 1).
  { intros j Hj. pose proof (attachments_final toks j) as HA.
    destruct (is_trivia (nth j toks dtok)) eqn:Etr.
    - rewrite (preparse_trivia_once toks j Hj Etr) in HA.
      destruct (dropped toks j), (no_syntax toks); cbn [andb negb]; try reflexivity; try discriminate HA.
      + destruct (held_le_1 toks j) as [E|E]; rewrite E in *; [reflexivity|discriminate HA].
      + destruct (held_le_1 toks j) as [E|E]; rewrite E in *; [discriminate HA|reflexivity].
    - cbn [andb]. unfold held. rewrite Etr, andb_false_r. cbn [andb]. now destruct (no_syntax toks). }
  destruct (no_syntax toks) eqn:Es.
  - replace (filter _ _) with (@nil nat); [reflexivity|]. symmetry.
    assert (G : forall l, (forall j, In j l -> (j < length toks)%nat) ->
                filter (fun j => is_trivia (nth j toks dtok) && negb (dropped toks j)) l = []).
    { induction l as [|j l IH]; intro Hl; [reflexivity|]. cbn [filter].
      rewrite E by (apply Hl; now left). apply IH. intros x Hx. apply Hl. now right. }
    apply G. intros j Hj. apply in_seq in Hj. lia.
  - f_equal. apply filter_ext_in. intros j Hj. apply in_seq in Hj. apply E. lia.
Qed.

(* the trivia looked up around the syntax tokens, in the order of the tokens, are the non-dropped trivia tokens of the
   input: each exactly once, in source order *)
Theorem attached_in_order : forall toks, attached_seq (preparse toks) = survivors toks.
Proof.
  intro toks. rewrite survivors_surv. unfold attached_seq, preparse.
  pose proof (Inv_final toks) as HI.
  pose proof (Inv3_loop toks [] pre_init Inv_init Inv3_init) as [Hseq Hlast].
  cbn [app length N.of_nat] in Hseq, Hlast. set (st := pre_loop pre_init 0 toks) in *.
  pose proof (inv_last _ _ HI) as Hl.
  unfold pre_finish.
  destruct (ps_pending st) as [|p0 pend] eqn:Ep; cbn [pp_token_indices pp_leading pp_trailing].
  - rewrite app_nil_r in Hseq. destruct (ps_last_token_idx st) as [k|].
    + destruct Hl as [Hs _]. now rewrite Hs.
    + destruct Hl as [Hs [Hle Htr]]. rewrite Hs, Hlast, Hle, Htr. reflexivity.
  - destruct (ps_last_token_idx st) as [k|]; cbn [pp_token_indices pp_leading pp_trailing].
    + destruct Hl as [Hs _]. rewrite Hs, <- Hseq.
      destruct (length (ps_token_indices st)) as [|n]; [lia|]. replace k with (N.of_nat n) by lia.
      apply flat_append_trailing_last.
    + destruct Hl as [Hs [Hle Htr]]. rewrite Hs, Hlast, Hle, Htr. reflexivity.
Qed.

(* consequences: nothing is looked up twice, and what is looked up is in increasing (source) order *)
Lemma survivors_sorted : forall toks, StronglySorted N.lt (survivors toks).
Proof.
  intro toks. unfold survivors.
  assert (G : forall l, StronglySorted lt l -> StronglySorted N.lt (map N.of_nat l)).
  { induction 1 as [|a l Hs IH Ha]; cbn [map]; constructor; [assumption|].
    rewrite Forall_forall in *. intros x Hx. apply in_map_iff in Hx as [y [<- Hy]]. specialize (Ha y Hy). lia. }
  apply G.
  assert (F : forall (f : nat -> bool) l, StronglySorted lt l -> StronglySorted lt (filter f l)).
  { intros f. induction 1 as [|a l Hs IH Ha]; cbn [filter]; [constructor|].
    destruct (f a); [|assumption]. constructor; [assumption|].
    rewrite Forall_forall in *. intros x Hx. apply filter_In in Hx as [Hx _]. now apply Ha. }
  apply F. generalize 0%nat. induction (length toks) as [|n IH]; intro s; cbn [seq]; constructor; [apply IH|].
  rewrite Forall_forall. intros x Hx. apply in_seq in Hx. lia.
Qed.

Theorem attached_sorted : forall toks, StronglySorted N.lt (attached_seq (preparse toks)).
Proof. intro toks. rewrite attached_in_order. apply survivors_sorted. Qed.
