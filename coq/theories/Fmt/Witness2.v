(* Fmt/Witness2.v — the rest of the syntax: witnesses of the defects FM11..FM14 (repaired in cst_print.rs; the model follows
   the repaired printer) and of the new sensitive position (the comma after a match arm).
   Every `cst` below is the REAL green tree of the quoted source text (harness/lang/src/bin/fmt_run.rs dump, converted by
   corpus/C14/cst2coq.py); checks/C14.py replays the same sources on the real formatter (REPAIRED). *)
From Coq Require Import String Ascii List Bool Arith.
From Mimium Require Import Fmt.Model Fmt.Render Fmt.Breaks Fmt.Emits Fmt.Witness.
Import ListNotations.
Local Open Scope string_scope.
Local Open Scope list_scope.

(* "macro m(x){ x }" *)
Definition c_macro_def : cst :=
Node SProgram [
  Node SStatement [
    Node SFunctionDecl [
      Tok KMacro "macro" [] [TWs];
      Tok KIdent "m" [] [];
      Node (SGroupedList false true) [
        Tok KParenBegin "(" [] [];
        Tok KIdent "x" [] [];
        Tok KParenEnd ")" [] []];
      Node SBlockExpr [
        Tok KBlockBegin "{" [] [TWs];
        Node SStatement [
          Node (SLeaf false) [
            Tok KIdent "x" [] [TWs]]];
        Tok KBlockEnd "}" [] []]]]].

(* "mod k { x\n (a) }" *)
Definition c_mod_body : cst :=
Node SProgram [
  Node SStatement [
    Node SModuleDecl [
      Tok KMod "mod" [] [TWs];
      Tok KIdent "k" [] [TWs];
      Tok KBlockBegin "{" [] [TWs];
      Node SStatement [
        Node (SLeaf false) [
          Tok KIdent "x" [] [TNl; TWs]]];
      Node SStatement [
        Node SParenExpr [
          Tok KParenBegin "(" [] [];
          Node (SLeaf false) [
            Tok KIdent "a" [] []];
          Tok KParenEnd ")" [] [TWs]]];
      Tok KBlockEnd "}" [] []]]].

(* "pub mod m { use a::b\n use c::{d, e} }" *)
Definition c_mod_use : cst :=
Node SProgram [
  Node SStatement [
    Node SVisibilityPub [
      Tok KPub "pub" [] [TWs]];
    Node SModuleDecl [
      Tok KMod "mod" [] [TWs];
      Tok KIdent "m" [] [TWs];
      Tok KBlockBegin "{" [] [TWs];
      Node SStatement [
        Node SUseStmt [
          Tok KUse "use" [] [TWs];
          Node SQualifiedPath [
            Tok KIdent "a" [] [];
            Tok KDoubleColon "::" [] [];
            Tok KIdent "b" [] [TNl; TWs]]]];
      Node SStatement [
        Node SUseStmt [
          Tok KUse "use" [] [TWs];
          Node SQualifiedPath [
            Tok KIdent "c" [] [];
            Tok KDoubleColon "::" [] [];
            Node SUseMultiple [
              Tok KBlockBegin "{" [] [];
              Tok KIdent "d" [] [];
              Tok KComma "," [] [TWs];
              Tok KIdent "e" [] [];
              Tok KBlockEnd "}" [] [TWs]]]]];
      Tok KBlockEnd "}" [] []]]].

(* "match p {\n 0 => f\n (1, 2) => 2.0, _ => g }" *)
Definition c_match_paren : cst :=
Node SProgram [
  Node SStatement [
    Node SSpaced [
      Tok KOther "match" [] [TWs];
      Node (SLeaf false) [
        Tok KIdent "p" [] [TWs]];
      Tok KBlockBegin "{" [] [TNl; TWs];
      Node SMatchArmList [
        Node SSpaced [
          Node SSpaced [
            Node (SLeaf false) [
              Tok KOther "0" [] [TWs]]];
          Tok KOther "=>" [] [TWs];
          Node (SLeaf false) [
            Tok KIdent "f" [] [TNl; TWs]]];
        Node SSpaced [
          Node SSpaced [
            Node (SGroupedList false true) [
              Tok KParenBegin "(" [] [];
              Node SSpaced [
                Node (SLeaf false) [
                  Tok KOther "1" [] []]];
              Tok KComma "," [] [TWs];
              Node SSpaced [
                Node (SLeaf false) [
                  Tok KOther "2" [] []]];
              Tok KParenEnd ")" [] [TWs]]];
          Tok KOther "=>" [] [TWs];
          Node (SLeaf false) [
            Tok KOther "2.0" [] []]];
        Tok KComma "," [] [TWs];
        Node SSpaced [
          Node SSpaced [
            Node (SLeaf false) [
              Tok KOther "_" [] [TWs]]];
          Tok KOther "=>" [] [TWs];
          Node (SLeaf false) [
            Tok KIdent "g" [] [TWs]]]];
      Tok KBlockEnd "}" [] []]]].

(* "let f = |x|->float|string x" *)
Definition c_lam_union : cst :=
Node SProgram [
  Node SStatement [
    Node SLetDecl [
      Tok KLet "let" [] [TWs];
      Node (SLeaf false) [
        Tok KIdent "f" [] [TWs]];
      Tok KAssign "=" [] [TWs];
      Node SLambdaExpr [
        Tok KLambdaBar "|" [] [];
        Tok KIdent "x" [] [];
        Tok KLambdaBar "|" [] [];
        Tok KArrow "->" [] [];
        Node (SLeaf true) [
          Node (SLeaf true) [
            Tok KOther "float" [] []];
          Tok KLambdaBar "|" [] [];
          Node (SLeaf true) [
            Tok KOther "string" [] [TWs]]];
        Node (SLeaf false) [
          Tok KIdent "x" [] []]]]]].

(* "type T = A // c\n | B(float)" *)
Definition c_type_decl : cst :=
Node SProgram [
  Node SStatement [
    Node SSpaced [
      Tok KOther "type" [] [TWs];
      Tok KIdent "T" [] [TWs];
      Tok KAssign "=" [] [TWs];
      Node SSpaced [
        Tok KIdent "A" [] [TWs; TLine "// c"; TNl; TWs]];
      Tok KLambdaBar "|" [] [TWs];
      Node SSpaced [
        Tok KIdent "B" [] [];
        Tok KParenBegin "(" [] [];
        Node (SLeaf true) [
          Tok KOther "float" [] []];
        Tok KParenEnd ")" [] []]]]].

(* FM11: every rendering starts with `macro m(` *)
Lemma macro_def_spaced :
  in_fragment c_macro_def = true /\ emits_all 4 c_macro_def /\ all_renderings (doc_of 4 c_macro_def) (prefix "macro m(x){") = true.
Proof. vm_compute. auto. Qed.

(* FM12: the second statement of the module body stays on its own line: the document forces the line break of the source
   before `(a)` (keeps_breaks), so every rendering parses like the source *)
Lemma mod_body_laid_out :
  in_fragment c_mod_body = true /\ emits_all 4 c_mod_body /\ keeps_breaks 4 c_mod_body = true /\
  src_observed c_mod_body = [true] /\
  all_renderings (doc_of 4 c_mod_body) (String.eqb ("mod k {" ++ newline 4 ++ "x" ++ newline 4 ++ "(a)" ++ newline 0 ++ "}")) = true.
Proof. vm_compute. auto. Qed.

Lemma mod_use_kept :
  in_fragment c_mod_use = true /\ emits_all 4 c_mod_use /\ keeps_breaks 4 c_mod_use = true /\
  all_renderings (doc_of 4 c_mod_use) (contains ("use a::b" ++ newline 4 ++ "use c::{d, e}")) = true.
Proof. vm_compute. auto. Qed.

(* FM13: the arm `(1, 2) => ..` follows the arm `0 => f` after a line break: the break is forced, the flags of the source
   ([true] before `(`, [false] before the comma after the second arm) are the flags of every rendering *)
Lemma match_paren_arm_kept :
  in_fragment c_match_paren = true /\ emits_all 4 c_match_paren /\ keeps_breaks 4 c_match_paren = true /\
  src_observed c_match_paren = [true; false] /\ doc_flags (doc_of 4 c_match_paren) = [true; false].
Proof. vm_compute. auto. Qed.

(* FM14: the body stays apart from the union return type *)
Lemma lam_union_spaced :
  in_fragment c_lam_union = true /\ emits_all 4 c_lam_union /\
  all_renderings (doc_of 4 c_lam_union) (String.eqb "let f = |x|->float|string x") = true.
Proof. vm_compute. auto. Qed.

(* a type declaration with a comment: its statement is printed by concatenation with blanks, so emits_all is a theorem for it
   (Emits.emits_all_concat), and the line comment forces its line break *)
Definition children (c : cst) : list cst := match c with Node _ cs => cs | Tok _ _ _ _ => [] end.

Lemma type_decl_concat :
  forallb concat_only (children c_type_decl) = true /\ emits_all 4 c_type_decl /\ keeps_breaks 4 c_type_decl = true /\
  all_renderings (doc_of 4 c_type_decl) (String.eqb ("type T = A // c" ++ newline 0 ++ " | B ( float )")) = true.
Proof. vm_compute. auto. Qed.

(* the hypotheses of same_parse_as_source are satisfiable on the first witness of Witness.v *)
Lemma ok_keeps_breaks : keeps_breaks 4 c_ok = true.
Proof. vm_compute. reflexivity. Qed.

(* an unforced position: in a document that offers an OPTIONAL break before a postfix opener the flags are not forced
   (safe_breaks fails), e.g. `f` SoftLine `(` `x)` *)
Definition d_unsafe : doc := Cat (Text "f") (Cat SoftLine (Cat (Text "(") (Text "x)"))).
Lemma unsafe_example : safe_breaks d_unsafe = false /\
  exists r1 r2, In r1 (renderings d_unsafe) /\ In r2 (renderings d_unsafe) /\ observed r1 <> observed r2.
Proof.
  split; [reflexivity|].
  exists [AText "f"; AText " "; AText "("; AText "x)"], [AText "f"; ANl 0; AText "("; AText "x)"].
  vm_compute. repeat split; auto. discriminate.
Qed.
