(* Fmt/Comments.v — "the output contains every comment of the input in the same order", as a statement about the document:
   Fmt/Attach.v (attached_in_order) says that the trivia looked up around the syntax tokens, in token order, are the
   non-dropped trivia tokens of the input, once each, in source order.  Here this is carried to the green tree the printer
   walks (`decorated`: the leaves of the tree are the syntax tokens in order -- C13_cst_leaves -- each with the trivia
   emit_token_with_trivia looks up for it) and to the words of the document (emits_all). *)
From Coq Require Import List NArith Bool Arith Lia String.
From Mimium Require Import Tables.LexerTables Lexer.Model Lexer.PreLemmas Fmt.Model Fmt.Emits Fmt.Attach.
Import ListNotations.
Local Open Scope list_scope.

(* the token leaves of a green tree, left to right: (text, leading trivia, trailing trivia) *)
Fixpoint leaves (c : cst) : list (string * list trivia * list trivia) :=
  match c with
  | Tok _ text lead trail => [(text, lead, trail)]
  | Node _ cs => flat_map leaves cs
  end.

Definition leaf_trivia (l : string * list trivia * list trivia) : list trivia :=
  match l with (_, lead, trail) => lead ++ trail end.

Definition leaf_words (l : string * list trivia * list trivia) : list string :=
  match l with (text, lead, trail) => trivia_words lead ++ opt_list (word_of text) ++ trivia_words trail end.

(* all trivia of the tree in the order the printer meets them *)
Definition cst_trivia (c : cst) : list trivia := flat_map leaf_trivia (leaves c).

Lemma cst_words_leaves : forall c, cst_words c = flat_map leaf_words (leaves c).
Proof.
  fix IH 1. intros [k text lead trail|k cs]; cbn [cst_words leaves flat_map leaf_words].
  - now rewrite app_nil_r.
  - induction cs as [|x cs IHcs]; cbn [flat_map]; [reflexivity|]. now rewrite flat_map_app, IH, IHcs.
Qed.

Section Decorated.
  Variable txt : N -> string.          (* the source text of raw token i *)
  Variable toks : list Token.          (* the raw token list (tokenize) *)

  (* the trivia item the printer sees for raw token i (emit_trivia dispatches on the kind) *)
  Definition triv_of (i : N) : trivia :=
    match tk_kind (nth (N.to_nat i) toks dtok) with
    | KSingleLineComment => TLine (txt i)
    | KMultiLineComment => TBlock (txt i)
    | KLineBreak => TNl
    | _ => TWs
    end.

  (* the leaf emit_token_with_trivia prints for syntax token #k *)
  Definition leaf_of (pp : PreParsed) (k : N) : string * list trivia * list trivia :=
    (txt (nth (N.to_nat k) (pp_token_indices pp) 0%N),
     map triv_of (get k (pp_leading pp)), map triv_of (get k (pp_trailing pp))).

  (* the green tree carries, leaf by leaf, the syntax tokens in order with the trivia the pre-parser attached to them *)
  Definition decorated (c : cst) : Prop :=
    leaves c = map (leaf_of (preparse toks)) (nseq (List.length (pp_token_indices (preparse toks)))).

  (* every trivia token of the input that is not dropped (C13/F5) is met by the printer exactly once, in source order *)
  Lemma decorated_trivia : forall c, decorated c -> cst_trivia c = map triv_of (survivors toks).
  Proof.
    intros c D. unfold cst_trivia. rewrite D, <- attached_in_order. unfold attached_seq, flat.
    induction (nseq (List.length (pp_token_indices (preparse toks)))) as [|k l IH]; [reflexivity|].
    cbn [map flat_map]. rewrite IH, map_app. unfold leaf_of, leaf_trivia, around. now rewrite map_app.
  Qed.

  (* lexical facts about the token texts (true of the tokenizer's tokens): a comment token reads `//..` or `/*..`, the text
     of a syntax token does not *)
  Definition comment_texts_ok : Prop :=
    forall i w, In w (trivia_words [triv_of i]) -> is_comment w = true.
  Definition token_texts_ok (c : cst) : Prop :=
    forall text lead trail w, In (text, lead, trail) (leaves c) -> word_of text = Some w -> is_comment w = false.

  Lemma trivia_words_app : forall a b, trivia_words (a ++ b) = trivia_words a ++ trivia_words b.
  Proof. intros. unfold trivia_words. apply flat_map_app. Qed.

  Lemma filter_all : forall (f : string -> bool) l, (forall w, In w l -> f w = true) -> filter f l = l.
  Proof.
    induction l as [|x l IH]; intro H; [reflexivity|]. cbn [filter]. rewrite (H x) by now left.
    f_equal. apply IH. intros w Hw. apply H. now right.
  Qed.

  Lemma comments_in_trivia : forall is, comment_texts_ok ->
    comments_in (trivia_words (map triv_of is)) = trivia_words (map triv_of is).
  Proof.
    intros is H. unfold comments_in. apply filter_all. intros w Hw. unfold trivia_words in Hw.
    apply in_flat_map in Hw as [t [Ht Hw]]. apply in_map_iff in Ht as [i [<- _]].
    apply (H i w). unfold trivia_words. cbn [flat_map]. now rewrite app_nil_r.
  Qed.

  Lemma comments_in_app : forall a b, comments_in (a ++ b) = comments_in a ++ comments_in b.
  Proof. intros. unfold comments_in. apply filter_app. Qed.

  (* the comment words of the tree are the comment words of its trivia *)
  Lemma comments_of_leaves : forall ls,
    (forall text lead trail w, In (text, lead, trail) ls -> word_of text = Some w -> is_comment w = false) ->
    comments_in (flat_map leaf_words ls) = comments_in (trivia_words (flat_map leaf_trivia ls)).
  Proof.
    induction ls as [|[[text lead] trail] ls IH]; intro H; [reflexivity|].
    cbn [flat_map leaf_words leaf_trivia]. rewrite !trivia_words_app, !comments_in_app, IH.
    - assert (Z : comments_in (opt_list (word_of text)) = []).
      { destruct (word_of text) as [w|] eqn:E; cbn [opt_list]; [|reflexivity].
        unfold comments_in. cbn [filter]. now rewrite (H text lead trail w (or_introl eq_refl) E). }
      rewrite Z. reflexivity.
    - intros t l r w Hin. apply (H t l r w). now right.
  Qed.

  (* THE CLAUSE: the comment words of the document are the comments of the input that the pre-parser does not drop, each
     once, in source order *)
  Theorem comments_emitted_once_in_order : forall ind c,
    decorated c -> emits_all ind c -> comment_texts_ok -> token_texts_ok c ->
    comments_in (dwords (doc_of ind c)) = trivia_words (map triv_of (survivors toks)).
  Proof.
    intros ind c D E HC HT. rewrite E, cst_words_leaves, comments_of_leaves by exact HT.
    fold (cst_trivia c). rewrite (decorated_trivia c D). now apply comments_in_trivia.
  Qed.
End Decorated.
