(* Fmt/Breaks.v — if no optional break point of a document decides a line-break-sensitive position of the parser
   (safe_breaks), all renderings of the document show the parser the same line-break flags, namely the flags the document
   forces (doc_flags); if these are the flags of the source, every rendering parses like the source. *)
From Coq Require Import String Ascii List Bool Arith.
From Mimium Require Import Fmt.Model Fmt.Render.
Import ListNotations.
Local Open Scope list_scope.

(* relation between the break state of the item scan and the line-break flags of two instances *)
Definition binv (b : bstate) (lb1 lb2 : bool) : Prop :=
  match b with
  | BNone => lb1 = lb2
  | BOpt => True
  | BHard => lb1 = true /\ lb2 = true
  end.

Lemma safe_observed_from : forall l s1 s2,
  Forall2 inst1 l s1 -> Forall2 inst1 l s2 ->
  forall prev b st lb1 lb2,
    safe_from prev b st l = true -> binv b lb1 lb2 ->
    observed_from prev lb1 st s1 = observed_from prev lb2 st s2.
Proof.
  induction l as [|it l IH]; intros s1 s2 H1 H2 prev b st lb1 lb2 Hs Hb.
  - inversion H1; inversion H2; subst. reflexivity.
  - inversion H1 as [|? x1 ? s1' I1 T1]; subst. inversion H2 as [|? x2 ? s2' I2 T2]; subst.
    destruct it as [w| | | ].
    + inversion I1; inversion I2; subst. cbn [safe_from observed_from] in *.
      destruct (is_comment w).
      * eapply IH; eauto.
      * apply andb_true_iff in Hs. destruct Hs as [Hok Hs].
        assert (E : observed_from (Some w) false (ctx_step prev w st) s1' = observed_from (Some w) false (ctx_step prev w st) s2')
          by (eapply IH; eauto; reflexivity).
        rewrite E. f_equal.
        destruct prev as [p|]; [|reflexivity].
        destruct (sensitive st p w); [|reflexivity].
        destruct b; cbn in Hb; [now subst|discriminate|destruct Hb; now subst].
    + inversion I1; inversion I2; subst. cbn [safe_from observed_from] in *. eapply IH; eauto.
    + cbn [safe_from] in Hs.
      assert (G : forall a c, (a = lb1 \/ a = true) -> (c = lb2 \/ c = true) -> binv (badd_opt b) a c).
      { intros a c Ha Hc. destruct b; cbn in *; auto.
        destruct Hb as [-> ->]. destruct Ha as [->| ->], Hc as [->| ->]; auto. }
      inversion I1; inversion I2; subst; cbn [observed_from];
        (eapply IH; [eassumption|eassumption|exact Hs|apply G; auto]).
    + cbn [safe_from] in Hs. inversion I1; inversion I2; subst. cbn [observed_from].
      eapply IH; [eassumption|eassumption|exact Hs|]. cbn. auto.
Qed.

Lemma breaks_safe : forall d r1 r2,
  safe_breaks d = true -> In r1 (renderings d) -> In r2 (renderings d) -> observed r1 = observed r2.
Proof.
  intros d r1 r2 Hs H1 H2. unfold observed.
  eapply safe_observed_from with (l := items d) (b := BNone).
  - eapply rs_inst; exact H1.
  - eapply rs_inst; exact H2.
  - exact Hs.
  - reflexivity.
Qed.

Lemma breaks_safe_parse : forall (A : Type) (parse : list string -> list bool -> A) d r1 r2,
  safe_breaks d = true -> In r1 (renderings d) -> In r2 (renderings d) ->
  parse (words r1) (observed r1) = parse (words r2) (observed r2).
Proof.
  intros A parse d r1 r2 Hs H1 H2.
  rewrite (breaks_safe d r1 r2 Hs H1 H2).
  unfold renderings in *. rewrite (rs_words _ _ _ _ _ H1), (rs_words _ _ _ _ _ H2). reflexivity.
Qed.

(* ---- the flags every rendering shows are the flags the document forces ------------------------------------------------ *)
(* relation between the break state of the item scan and the line-break flag of one instance *)
Definition binv1 (b : bstate) (lb : bool) : Prop :=
  match b with
  | BNone => lb = false
  | BOpt => True
  | BHard => lb = true
  end.

Lemma safe_observed_det : forall l s,
  Forall2 inst1 l s ->
  forall prev b st lb,
    safe_from prev b st l = true -> binv1 b lb ->
    observed_from prev lb st s = det_from prev b st l.
Proof.
  induction l as [|it l IH]; intros s H prev b st lb Hs Hb.
  - inversion H; subst. reflexivity.
  - inversion H as [|? x ? s' I T]; subst.
    destruct it as [w| | | ].
    + inversion I; subst. cbn [safe_from observed_from det_from] in *.
      destruct (is_comment w).
      * eapply IH; eauto.
      * apply andb_true_iff in Hs. destruct Hs as [Hok Hs].
        rewrite (IH s' T (Some w) BNone (ctx_step prev w st) false Hs eq_refl). f_equal.
        destruct prev as [p|]; [|reflexivity].
        destruct (sensitive st p w); [|reflexivity].
        destruct b; cbn in Hb; [now subst|discriminate|now subst].
    + inversion I; subst. cbn [safe_from observed_from det_from] in *. eapply IH; eauto.
    + cbn [safe_from det_from] in *.
      inversion I; subst; cbn [observed_from]; (eapply IH; [eassumption|exact Hs|]);
        destruct b; cbn in *; auto.
    + cbn [safe_from det_from] in *. inversion I; subst. cbn [observed_from].
      eapply IH; [eassumption|exact Hs|]. reflexivity.
Qed.

Lemma breaks_forced : forall d r,
  safe_breaks d = true -> In r (renderings d) -> observed r = doc_flags d.
Proof.
  intros d r Hs H. unfold observed, doc_flags.
  eapply safe_observed_det with (b := BNone).
  - eapply rs_inst; exact H.
  - exact Hs.
  - reflexivity.
Qed.

Lemma list_bool_eqb_eq : forall a b, list_bool_eqb a b = true -> a = b.
Proof.
  induction a as [|x a IH]; intros [|y b] H; cbn in H; try discriminate; [reflexivity|].
  apply andb_true_iff in H. destruct H as [E H]. apply Bool.eqb_prop in E. subst. f_equal. now apply IH.
Qed.

Lemma breaks_as_source : forall ind c r,
  keeps_breaks ind c = true -> In r (renderings (doc_of ind c)) -> observed r = src_observed c.
Proof.
  intros ind c r K H. unfold keeps_breaks in K. apply andb_true_iff in K. destruct K as [Hs E].
  rewrite (breaks_forced _ _ Hs H). now apply list_bool_eqb_eq.
Qed.

(* every rendering parses like the source, for any parser that is a function of the token/comment sequence and of the
   line-break flags at the sensitive positions *)
Lemma same_parse_as_source : forall (A : Type) (parse : list string -> list bool -> A) ind c r,
  emits_all ind c -> keeps_breaks ind c = true -> In r (renderings (doc_of ind c)) ->
  parse (words r) (observed r) = parse (cst_words c) (src_observed c).
Proof.
  intros A parse ind c r E K H.
  rewrite (breaks_as_source _ _ _ K H).
  unfold renderings in H. rewrite (rs_words _ _ _ _ _ H). now rewrite E.
Qed.
