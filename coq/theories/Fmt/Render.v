(* Fmt/Render.v — facts about the set of renderings of a document (Fmt/Model.v):
   every rendering has the words of the document; every rendering instantiates the item sequence of the document;
   the membership test `admits` / `is_rendering` used by the correspondence check is sound. *)
From Coq Require Import String Ascii List Bool Arith Lia.
From Mimium Require Import Fmt.Model.
Import ListNotations.
Local Open Scope string_scope.
Local Open Scope list_scope.

Lemma words_app : forall x y, words (x ++ y) = words x ++ words y.
Proof.
  induction x as [|a x IH]; intros y; [reflexivity|].
  destruct a as [s|n]; cbn [words app].
  - rewrite IH. now rewrite app_assoc.
  - apply IH.
Qed.

Lemma shapes_app : forall x y, shapes (x ++ y) = shapes x ++ shapes y.
Proof. intros. unfold shapes. apply flat_map_app. Qed.

Lemma flat_string_app : forall x y, flat_string (x ++ y) = (flat_string x ++ flat_string y)%string.
Proof.
  induction x as [|a x IH]; intros y; [reflexivity|].
  cbn [flat_string app]. rewrite IH.
  generalize (atom_string a) as p. intros p. clear.
  induction p as [|c p IHp]; [reflexivity|]. cbn. now rewrite IHp.
Qed.

Lemma in_cat_rs : forall (A B : list (list atom)) r,
  In r (flat_map (fun x => map (fun y => x ++ y) B) A) ->
  exists x y, In x A /\ In y B /\ r = x ++ y.
Proof.
  intros A B r H. apply in_flat_map in H. destruct H as [x [Hx H]].
  apply in_map_iff in H. destruct H as [y [E Hy]]. exists x, y. now subst.
Qed.

(* ---- every rendering has exactly the words of the document -------------------------------------- *)
Lemma rs_words : forall d f i k r, In r (rs f i k d) -> words r = dwords d.
Proof.
  induction d as [ |s| | | |n d IH|d IH|a IHa b IHb]; intros f i k r H; cbn [rs dwords] in *.
  - destruct H as [<-|[]]. reflexivity.
  - destruct H as [<-|[]]. cbn. now rewrite app_nil_r.
  - destruct f; destruct H as [<-|[]]; reflexivity.
  - destruct H as [<-|H]; [reflexivity|]. destruct f; [destruct H|]. destruct H as [<-|[]]. reflexivity.
  - destruct f; [destruct H|]. destruct H as [<-|[]]. reflexivity.
  - eapply IH; eauto.
  - apply in_app_or in H. destruct H as [H|H]; [eapply IH; eauto|].
    destruct f; [destruct H|]. eapply IH; eauto.
  - apply in_cat_rs in H. destruct H as [x [y [Hx [Hy ->]]]].
    rewrite words_app. erewrite IHa, IHb; eauto.
Qed.

(* ---- every rendering instantiates the item sequence --------------------------------------------- *)
Inductive inst1 : item -> shape -> Prop :=
| inst_w : forall w, inst1 (IW w) (W w)
| inst_sp : inst1 ISP SP
| inst_opt_sp : inst1 IOPT SP
| inst_opt_nl : inst1 IOPT NL
| inst_hard : inst1 IHARD NL.

Lemma rs_inst : forall d f i k r, In r (rs f i k d) -> Forall2 inst1 (items d) (shapes r).
Proof.
  induction d as [ |s| | | |n d IH|d IH|a IHa b IHb]; intros f i k r H; cbn [rs items] in *.
  - destruct H as [<-|[]]. constructor.
  - destruct H as [<-|[]]. unfold shapes; cbn. destruct (word_of s); repeat constructor.
  - destruct f; destruct H as [<-|[]]; unfold shapes; cbn; repeat constructor.
  - destruct H as [<-|H]; [unfold shapes; cbn; repeat constructor|].
    destruct f; [destruct H|]. destruct H as [<-|[]]. unfold shapes; cbn; repeat constructor.
  - destruct f; [destruct H|]. destruct H as [<-|[]]. unfold shapes; cbn; repeat constructor.
  - eapply IH; eauto.
  - apply in_app_or in H. destruct H as [H|H]; [eapply IH; eauto|].
    destruct f; [destruct H|]. eapply IH; eauto.
  - apply in_cat_rs in H. destruct H as [x [y [Hx [Hy ->]]]].
    rewrite shapes_app. apply Forall2_app; eauto.
Qed.

(* ---- soundness of the membership test ----------------------------------------------------------- *)
Lemma strip_spec : forall p s r, strip p s = Some r -> s = (p ++ r)%string.
Proof.
  induction p as [|c p IH]; intros s r H; cbn in *.
  - now inversion H.
  - destruct s as [|c' s]; [discriminate|].
    destruct (Ascii.eqb c c') eqn:E; [|discriminate].
    apply Ascii.eqb_eq in E. subst c'. now rewrite (IH _ _ H).
Qed.

Lemma dedup_len_incl : forall l x, In x (dedup_len l) -> In x l.
Proof.
  induction l as [|y l IH]; intros x H; cbn in *; [easy|].
  destruct (mem_len (String.length y) (dedup_len l)).
  - right. now apply IH.
  - destruct H as [<-|H]; [now left|right; now apply IH].
Qed.

Lemma string_app_assoc : forall a b c : string, ((a ++ b) ++ c = a ++ (b ++ c))%string.
Proof. induction a as [|x a IH]; intros; cbn; [reflexivity|now rewrite IH]. Qed.

Lemma string_app_nil_r : forall a : string, (a ++ "")%string = a.
Proof. induction a as [|x a IH]; cbn; [reflexivity|now rewrite IH]. Qed.

Lemma in_opt_list : forall (A : Type) (o : option A) x, In x (opt_list o) -> o = Some x.
Proof. intros A [y|] x H; cbn in H; [destruct H as [<-|[]]; reflexivity|destruct H]. Qed.

Lemma admits_sound : forall d f i k s rest,
  In rest (admits f i k d s) ->
  exists r, In r (rs f i k d) /\ s = (flat_string r ++ rest)%string.
Proof.
  induction d as [ |t| | | |n d IH|d IH|a IHa b IHb]; intros f i k s rest H; cbn [admits rs] in *.
  - destruct H as [<-|[]]. exists []. split; [now left|reflexivity].
  - apply in_opt_list in H. apply strip_spec in H. exists [AText t]. split; [now left|].
    cbn. now rewrite string_app_nil_r.
  - apply in_opt_list in H. apply strip_spec in H. destruct f.
    + exists [AText " "]. split; [now left|]. cbn. exact H.
    + exists [ANl (nl_indent k i)]. split; [now left|]. cbn. now rewrite string_app_nil_r.
  - apply in_app_or in H. destruct H as [H|H].
    + apply in_opt_list in H. apply strip_spec in H. exists [AText " "]. split; [now left|]. exact H.
    + destruct f; [destruct H|]. apply in_opt_list in H. apply strip_spec in H.
      exists [ANl (nl_indent k i)]. split; [right; now left|]. cbn. now rewrite string_app_nil_r.
  - destruct f; [destruct H|]. apply in_opt_list in H. apply strip_spec in H.
    exists [ANl (nl_indent k i)]. split; [now left|]. cbn. now rewrite string_app_nil_r.
  - eapply IH; eauto.
  - apply dedup_len_incl in H. apply in_app_or in H. destruct H as [H|H].
    + destruct (IH _ _ _ _ _ H) as [r [Hr E]]. exists r. split; [apply in_or_app; now left|exact E].
    + destruct f; [destruct H|]. destruct (IH _ _ _ _ _ H) as [r [Hr E]].
      exists r. split; [apply in_or_app; now right|exact E].
  - apply dedup_len_incl in H. apply in_flat_map in H. destruct H as [s' [Ha Hb]].
    destruct (IHa _ _ _ _ _ Ha) as [x [Hx Ex]]. destruct (IHb _ _ _ _ _ Hb) as [y [Hy Ey]].
    exists (x ++ y). split.
    + apply in_flat_map. exists x. split; [exact Hx|]. apply in_map_iff. now exists y.
    + rewrite flat_string_app, string_app_assoc. now rewrite <- Ey.
Qed.

Lemma has_empty_in : forall l, has_empty l = true -> In ""%string l.
Proof.
  induction l as [|x l IH]; cbn; intros H; [discriminate|].
  destruct x; [now left|right; now apply IH].
Qed.

Lemma is_rendering_sound : forall d s,
  is_rendering d s = true -> exists r, In r (renderings d) /\ flat_string r = s.
Proof.
  intros d s H. unfold is_rendering in H. apply has_empty_in in H.
  destruct (admits_sound _ _ _ _ _ _ H) as [r [Hr E]]. exists r. split; [exact Hr|].
  now rewrite E, string_app_nil_r.
Qed.

Lemma any_layout_same_tokens : forall (d : doc) (r : list atom),
  In r (renderings d) -> words r = dwords d.
Proof. intros d r. exact (rs_words d false 0 None r). Qed.

Lemma emits_all_same_tokens : forall (ind : nat) (c : cst) (r : list atom),
  emits_all ind c -> In r (renderings (doc_of ind c)) -> words r = cst_words c.
Proof. intros ind c r E H. rewrite <- E. exact (rs_words _ false 0 None r H). Qed.

Lemma idempotent_partial :
  forall (ind : nat) (parse : string -> option cst) (pick : doc -> string),
  (forall d d', same_doc d d' = true -> pick d = pick d') ->
  (forall s c, parse s = Some c ->
     exists c', parse (pick (doc_of ind c)) = Some c' /\ same_doc (doc_of ind c') (doc_of ind c) = true) ->
  forall s o,
    option_map (fun c => pick (doc_of ind c)) (parse s) = Some o ->
    option_map (fun c => pick (doc_of ind c)) (parse o) = Some o.
Proof.
  intros ind parse pick Hpick Hre s o H.
  destruct (parse s) as [c|] eqn:E; cbn in H; [|discriminate].
  inversion H; subst o. destruct (Hre s c E) as [c' [E' D]].
  rewrite E'. cbn. f_equal. now apply Hpick.
Qed.
