(* Lower/Facts.v — basic facts for the model of lower.rs: the outcome monad, sizes of trees and of lists of trees, list helpers. *)
From Coq Require Import String List Bool Arith NArith Lia.
From Mimium Require Import Tables.LexerTables Tables.TokenKinds Parser.Model Lower.Ast Lower.Model Lower.ModelTypes
  Lower.ModelExpr Lower.ModelStmt.
Import ListNotations.

(* the list used by the driver to read node names is complete (fails to compile when green.rs gains a kind) *)
Lemma all_syntax_kinds_complete : forall k : SyntaxKind, In k all_syntax_kinds.
Proof. intros k. destruct k; vm_compute; tauto. Qed.

(* ---------------------------------------------------------------------------------------------- *)
(* fine r: r is a value (neither Panic nor OutOfFuel)                                               *)
(* ---------------------------------------------------------------------------------------------- *)
Definition fine {A : Type} (r : res A) : Prop := match r with Ok _ => True | _ => False end.

Lemma fine_ok : forall A (r : res A), fine r <-> exists a, r = Ok a.
Proof. intros A r. destruct r; cbn; split; intros H; try tauto; try (destruct H; discriminate). eauto. Qed.

Lemma fine_not_panic : forall A (r : res A), fine r -> (forall w, r <> Panic w) /\ r <> OutOfFuel.
Proof. intros A r H. destruct r; cbn in H; try tauto. split; intros; discriminate. Qed.

Lemma fine_bind : forall A B (m : res A) (f : A -> res B),
  fine m -> (forall a, m = Ok a -> fine (f a)) -> fine (bind m f).
Proof. intros A B m f Hm Hf. destruct m; cbn in *; try tauto. apply Hf. reflexivity. Qed.

Lemma mapM_fine : forall A B (f : A -> res B) (l : list A), (forall x, In x l -> fine (f x)) -> fine (mapM f l).
Proof.
  intros A B f l. induction l as [|x r IH]; intros H; cbn [mapM]; [exact I|].
  apply fine_bind; [apply H; left; reflexivity|]. intros y _.
  apply fine_bind; [apply IH; intros z Hz; apply H; right; exact Hz|]. intros ys _. exact I.
Qed.

Lemma mapM_length : forall A B (f : A -> res B) (l : list A) l', mapM f l = Ok l' -> length l' = length l.
Proof.
  intros A B f l. induction l as [|x r IH]; intros l' H; cbn [mapM] in H.
  - injection H as <-. reflexivity.
  - destruct (f x) as [y| |]; cbn [bind] in H; try discriminate.
    destruct (mapM f r) as [ys| |] eqn:E; cbn [bind] in H; try discriminate.
    injection H as <-. cbn [length]. f_equal. apply IH. reflexivity.
Qed.

Lemma optM_fine : forall A B (f : A -> res B) (o : option A), (forall x, o = Some x -> fine (f x)) -> fine (optM f o).
Proof.
  intros A B f o H. destruct o as [x|]; cbn [optM]; [|exact I].
  apply fine_bind; [apply H; reflexivity|]. intros y _. exact I.
Qed.

(* ---------------------------------------------------------------------------------------------- *)
(* sizes                                                                                            *)
(* ---------------------------------------------------------------------------------------------- *)
Fixpoint lsize (l : list tree) : nat := match l with [] => 0 | c :: r => tsize c + lsize r end.

Lemma tsize_node : forall k ch, tsize (TNode k ch) = S (lsize ch).
Proof. intros k ch. reflexivity. Qed.

Lemma tsize_pos : forall t, 1 <= tsize t.
Proof. intros [p|k ch]; [cbn; lia | rewrite tsize_node; lia]. Qed.

Lemma lsize_in : forall c l, In c l -> tsize c <= lsize l.
Proof. intros c l. induction l as [|x r IH]; intros H; [destruct H|]. cbn [lsize]. destruct H as [<-|H]; [lia|]. specialize (IH H). lia. Qed.

Lemma lsize_app : forall a b, lsize (a ++ b) = lsize a + lsize b.
Proof. intros a b. induction a as [|x r IH]; cbn [lsize app]; [reflexivity|]. rewrite IH. lia. Qed.

Lemma lsize_filter : forall p l, lsize (filter p l) <= lsize l.
Proof. intros p l. induction l as [|x r IH]; cbn [filter lsize]; [lia|]. destruct (p x); cbn [lsize]; lia. Qed.

Lemma lsize_length : forall l, length l <= lsize l.
Proof. intros l. induction l as [|x r IH]; cbn [length lsize]; [lia|]. pose proof (tsize_pos x). lia. Qed.

Lemma lsize_children : forall t, S (lsize (children_or_nil t)) <= tsize t.
Proof. intros [p|k ch]; cbn [children_or_nil]; [cbn; lia | rewrite tsize_node; lia]. Qed.

Lemma children_of_size : forall t ch, children_of t = Some ch -> tsize t = S (lsize ch).
Proof. intros [p|k ch0] ch H; cbn in H; [discriminate|]. injection H as <-. apply tsize_node. Qed.

Lemma children_of_or_nil : forall t ch, children_of t = Some ch -> children_or_nil t = ch.
Proof. intros [p|k ch0] ch H; cbn in H; [discriminate|]. injection H as <-. reflexivity. Qed.

Lemma find_in : forall A (p : A -> bool) l x, find p l = Some x -> In x l.
Proof. intros A p l x H. apply find_some in H. tauto. Qed.

Lemma nth_error_lt_some : forall A (l : list A) i, i < length l -> exists x, nth_error l i = Some x.
Proof. intros A l i H. destruct (nth_error l i) eqn:E; [eauto|]. apply nth_error_None in E. lia. Qed.

Lemma lsize_skip_through_first : forall (p : tree -> bool) l, lsize (skip_through_first p l) <= lsize l.
Proof. intros p l. induction l as [|x r IH]; cbn [skip_through_first lsize]; [lia|]. destruct (p x); lia. Qed.

Lemma in_filter : forall A (p : A -> bool) l x, In x (filter p l) -> In x l.
Proof. intros A p l x H. apply filter_In in H. tauto. Qed.

(* the runs between commas are no larger than the children they are cut from *)
Lemma split_at_commas_size : forall toks ch cur g,
  In g (split_at_commas toks ch cur) -> lsize g <= lsize cur + lsize ch.
Proof.
  intros toks ch. induction ch as [|c r IH]; intros cur g H; cbn [split_at_commas] in H.
  - destruct cur; [destruct H|]. destruct H as [<-|[]]. cbn [lsize]. lia.
  - cbn [lsize]. destruct (is_comma_token toks c).
    + destruct cur as [|x xs].
      * specialize (IH [] g H). cbn [lsize] in IH. lia.
      * destruct H as [<-|H]; [lia|]. specialize (IH [] g H). cbn [lsize] in IH. lia.
    + destruct (is_expr_node c).
      * specialize (IH (cur ++ [c]) g H). rewrite lsize_app in IH. cbn [lsize] in IH. lia.
      * specialize (IH cur g H). lia.
Qed.
