(* Lower/TotalExpr.v — totality of the lowering, part 2: the functions of ModelExpr.v. *)
From Coq Require Import String List Bool Arith NArith Lia.
From Mimium Require Import Tables.LexerTables Tables.TokenKinds Parser.Model Lower.Ast Lower.Model Lower.ModelTypes
  Lower.ModelExpr Lower.ModelStmt Lower.Facts Lower.TotalTypes.
Import ListNotations.

Lemma find_child_in : forall node p c, find_child node p = Some c -> In c (children_or_nil node).
Proof.
  intros node p c H. unfold find_child in H. destruct (children_of node) as [ch|] eqn:E; [|discriminate].
  rewrite (children_of_or_nil _ _ E). eapply find_in. exact H.
Qed.

Lemma nth_error_none_len : forall A (l : list A) i, nth_error l i = None -> i < length l -> False.
Proof. intros A l i H Hl. apply nth_error_None in H. lia. Qed.

Section Total.
  Variable toks : nat -> option tokinfo.
  Variable K : knot.
  Variable lv : nat.
  Hypothesis HK : knot_ok lv K.
  Let HE := HE K lv HK.
  Let HS := HS K lv HK.
  Let HSt := HSt K lv HK.
  Let HT := HT K lv HK.

  (* ------------------------------------------------------------------------------------------ *)
  (* argument lists                                                                               *)
  (* ------------------------------------------------------------------------------------------ *)
  Lemma collect_args_fine : forall ch, 2 * lsize ch + 1 <= lv -> fine (collect_args toks K ch).
  Proof.
    intros ch H. unfold collect_args. apply mapM_fine. intros g Hg.
    apply split_at_commas_size in Hg. cbn [lsize] in Hg. apply HS. lia.
  Qed.

  Lemma lower_arg_list_fine : forall node, 2 * tsize node <= S lv -> fine (lower_arg_list toks K node).
  Proof.
    intros node H. pose proof (children_small lv node H) as Hc. unfold lower_arg_list.
    destruct (find_child node sk_ArgList) as [arg_node|] eqn:E.
    - apply find_child_in in E. apply lsize_in in E.
      destruct (children_of arg_node) as [ch|] eqn:E2; [|exact I].
      apply children_of_size in E2. apply collect_args_fine. lia.
    - destruct (children_of node) as [ch|] eqn:E2; [|exact I].
      apply collect_args_fine. eapply children_of_small; eauto.
  Qed.

  Lemma lower_expr_list_fine : forall node, 2 * tsize node <= S lv -> fine (lower_expr_list toks K node).
  Proof.
    intros node H. unfold lower_expr_list. destruct (children_of node) as [ch|] eqn:E2; [|exact I].
    apply collect_args_fine. eapply children_of_small; eauto.
  Qed.

  (* ------------------------------------------------------------------------------------------ *)
  (* binary, call, field access, index, assign                                                    *)
  (* ------------------------------------------------------------------------------------------ *)
  Lemma child_exprs_small : forall node, 2 * tsize node <= S lv -> 2 * lsize (child_exprs node) + 1 <= lv.
  Proof.
    intros node H. pose proof (children_small lv node H). unfold child_exprs.
    pose proof (lsize_filter is_expr_node (children_or_nil node)). lia.
  Qed.

  Lemma lower_binary_fine : forall node, 2 * tsize node <= S lv -> fine (lower_binary toks K node).
  Proof.
    intros node H. pose proof (child_exprs_small node H) as Hc. unfold lower_binary.
    destruct (match extract_binary_op toks node with Some x => x | None => (OUnknown "", span0) end) as [o osp].
    apply fine_bind; [|intros [lhs rhs] _; exact I].
    repeat fstep; sizes; try (apply HE; lia).
    - apply Nat.leb_le in Heqb. eapply nth_error_none_len; [exact Heqo1|]. lia.
    - apply Nat.leb_le in Heqb. eapply nth_error_none_len; [exact Heqo0|]. lia.
    - apply Nat.eqb_eq in Heqb0. eapply nth_error_none_len; [exact Heqo0|]. lia.
  Qed.

  Lemma lower_first_or_error_fine : forall l, 2 * lsize l + 1 <= lv -> fine (lower_first_or_error K l).
  Proof.
    intros l H. unfold lower_first_or_error. destruct l as [|x r]; [exact I|]. cbn [nth_error].
    apply HE. cbn [lsize] in H. lia.
  Qed.

  Lemma lower_call_fine : forall node, 2 * tsize node <= S lv -> fine (lower_call toks K node).
  Proof.
    intros node H. unfold lower_call.
    apply fine_bind; [apply lower_first_or_error_fine; apply child_exprs_small; exact H|]. intros callee _.
    apply fine_bind; [apply lower_arg_list_fine; exact H|]. intros; exact I.
  Qed.

  Lemma lower_field_access_fine : forall node, 2 * tsize node <= S lv -> fine (lower_field_access toks K node).
  Proof.
    intros node H. unfold lower_field_access.
    apply fine_bind; [apply lower_first_or_error_fine; apply child_exprs_small; exact H|]. intros; exact I.
  Qed.

  Lemma lower_index_fine : forall node, 2 * tsize node <= S lv -> fine (lower_index K node).
  Proof.
    intros node H. pose proof (child_exprs_small node H) as Hc. unfold lower_index.
    apply fine_bind; [|intros [lhs index] _; exact I].
    repeat fstep; sizes; try (apply HE; lia).
    - apply Nat.leb_le in Heqb. eapply nth_error_none_len; [exact Heqo0|]. lia.
    - apply Nat.leb_le in Heqb. eapply nth_error_none_len; [exact Heqo|]. lia.
    - apply Nat.eqb_eq in Heqb0. eapply nth_error_none_len; [exact Heqo|]. lia.
  Qed.

  Lemma lower_assign_fine : forall lhs node, 2 * tsize node <= S lv -> fine (lower_assign K lhs node).
  Proof.
    intros lhs node H. unfold lower_assign.
    apply fine_bind; [apply HS; apply child_exprs_small; exact H|]. intros; exact I.
  Qed.

  Lemma lower_macro_expand_fine : forall node, 2 * tsize node <= S lv -> fine (lower_macro_expand toks K node).
  Proof.
    intros node H. unfold lower_macro_expand.
    apply fine_bind; [apply lower_arg_list_fine; exact H|]. intros args _. cbv zeta. repeat fstep.
  Qed.

  (* ------------------------------------------------------------------------------------------ *)
  (* parameters                                                                                   *)
  (* ------------------------------------------------------------------------------------------ *)
  Lemma child_at_if_fine : forall children next p why, fine (child_at_if children next p why).
  Proof.
    intros children next p why. unfold child_at_if. destruct (next <? length children) eqn:E; [|exact I].
    apply Nat.ltb_lt in E. destruct (nth_error_lt_some _ children next E) as [c ->]. exact I.
  Qed.

  Lemma child_at_if_in : forall children next p why c, child_at_if children next p why = Ok (Some c) -> In c children.
  Proof.
    intros children next p why c H. unfold child_at_if in H. destruct (next <? length children); [|discriminate].
    destruct (nth_error children next) as [x|] eqn:E; [|discriminate].
    destruct (kind_is p x); [|discriminate]. injection H as <-. eapply nth_error_In. exact E.
  Qed.

  Lemma param_annotation_fine : forall children next l, 2 * lsize children + 1 <= lv -> fine (param_annotation K children next l).
  Proof.
    intros children next l H. unfold param_annotation.
    apply fine_bind; [apply child_at_if_fine|]. intros o Ho. destruct o as [anno|]; [|exact I].
    apply child_at_if_in in Ho. apply lsize_in in Ho.
    apply fine_bind; [apply (lower_annotation_type_fine K lv HK); lia|]. intros; exact I.
  Qed.

  Lemma lambda_loop_fine : forall children idxs next,
    2 * lsize children + 1 <= lv -> Forall (fun i => i < length children) idxs -> fine (lambda_loop toks K children idxs next).
  Proof.
    intros children idxs. induction idxs as [|i rest IH]; intros next H Hi; cbn [lambda_loop]; [exact I|].
    inversion Hi as [|? ? Hlt Hrest]; subst.
    destruct (i <? next); [apply IH; assumption|].
    destruct (nth_error_lt_some _ children i Hlt) as [child ->].
    destruct (kind_of child) as [kind|].
    - destruct (is_expr_kind kind); [|apply IH; assumption].
      apply fine_bind; [apply IH; assumption|]. intros; exact I.
    - destruct (token_child toks tk_Ident_or_Parameter child); [|apply IH; assumption].
      apply fine_bind; [apply param_annotation_fine; exact H|]. intros [ty nx] _.
      apply fine_bind; [apply IH; assumption|]. intros; exact I.
  Qed.

  Lemma seq_lt_all : forall n, Forall (fun i => i < n) (seq 0 n).
  Proof. intros n. apply Forall_forall. intros i Hi. apply in_seq in Hi. lia. Qed.

  (* the children at the given indices *)
  Definition sel (children : list tree) (js : list nat) : list tree :=
    flat_map (fun j => match nth_error children j with Some c => [c] | None => [] end) js.

  Lemma sel_cons : forall l j js, sel l (j :: js) = (match nth_error l j with Some c => [c] | None => [] end) ++ sel l js.
  Proof. reflexivity. Qed.

  Lemma sel_shift : forall c r js, sel (c :: r) (map S js) = sel r js.
  Proof.
    intros c r js. induction js as [|j js' IH]; [reflexivity|].
    cbn [map]. rewrite !sel_cons, IH. reflexivity.
  Qed.

  Lemma sel_all : forall children, sel children (seq 0 (length children)) = children.
  Proof.
    induction children as [|c r IH]; [reflexivity|].
    cbn [length seq]. rewrite <- seq_shift, sel_cons. cbn [nth_error app]. rewrite sel_shift, IH. reflexivity.
  Qed.

  (* the body nodes collected by lambda_loop are children at indices of idxs, each at most once *)
  Lemma lambda_loop_bodies : forall children idxs next ps bs,
    lambda_loop toks K children idxs next = Ok (ps, bs) -> lsize bs <= lsize (sel children idxs).
  Proof.
    intros children idxs. induction idxs as [|i rest IH]; intros next ps bs H; cbn [lambda_loop] in H.
    - injection H as <- <-. cbn. lia.
    - assert (Hw : forall nx ps' bs', lambda_loop toks K children rest nx = Ok (ps', bs') -> lsize bs' <= lsize (sel children (i :: rest))).
      { intros nx ps' bs' H'. specialize (IH _ _ _ H'). rewrite sel_cons, lsize_app. lia. }
      destruct (i <? next); [apply (Hw _ _ _ H)|].
      destruct (nth_error children i) as [child|] eqn:En; [|discriminate].
      destruct (kind_of child) as [kind|].
      + destruct (is_expr_kind kind); [|apply (Hw _ _ _ H)].
        destruct (lambda_loop toks K children rest (Nat.max next (i + 1))) as [[ps' bs']| |] eqn:E; cbn [bind] in H; try discriminate.
        injection H as <- <-. cbn [fst snd]. specialize (IH _ _ _ E).
        rewrite sel_cons, En. cbn [app lsize]. lia.
      + destruct (token_child toks tk_Ident_or_Parameter child); [|apply (Hw _ _ _ H)].
        destruct (param_annotation K children (i + 1) (location_from_span (t_span t))) as [[ty nx]| |]; cbn [bind] in H; try discriminate.
        destruct (lambda_loop toks K children rest (Nat.max nx (i + 1))) as [[ps' bs']| |] eqn:E; cbn [bind] in H; try discriminate.
        injection H as <- <-. cbn [fst snd]. apply (Hw _ _ _ E).
  Qed.

  Lemma lower_lambda_fine : forall node, 2 * tsize node <= S lv -> fine (lower_lambda toks K node).
  Proof.
    intros node H. unfold lower_lambda. destruct (children_of node) as [children|] eqn:E.
    - pose proof (children_of_small lv _ _ H E) as Hc.
      apply fine_bind; [apply lambda_loop_fine; [exact Hc|apply seq_lt_all]|]. intros [ps bs] Hl. cbn [fst snd].
      pose proof (lambda_loop_bodies _ _ _ _ _ Hl) as Hb. rewrite sel_all in Hb.
      apply fine_bind; [apply HS; lia|]. intros; exact I.
    - cbn [bind fst snd]. pose proof (tsize_pos node). apply fine_bind; [apply HS; cbn [lsize]; lia|]. intros; exact I.
  Qed.

  Lemma param_loop_fine : forall children idxs next,
    2 * lsize children + 1 <= lv -> Forall (fun i => i < length children) idxs -> fine (param_loop toks K children idxs next).
  Proof.
    intros children idxs. induction idxs as [|i rest IH]; intros next H Hi; cbn [param_loop]; [exact I|].
    inversion Hi as [|? ? Hlt Hrest]; subst.
    destruct (i <? next); [apply IH; assumption|].
    destruct (nth_error_lt_some _ children i Hlt) as [child ->].
    destruct (token_child toks tk_Ident_or_Parameter child); [|apply IH; assumption].
    apply fine_bind; [apply param_annotation_fine; exact H|]. intros [ty nx] _.
    apply fine_bind; [apply child_at_if_fine|]. intros d Hd.
    apply fine_bind.
    - destruct d as [dflt|]; [|exact I]. apply child_at_if_in in Hd. apply lsize_in in Hd.
      destruct (child_exprs dflt) as [|x xs] eqn:Ec; [exact I|].
      apply fine_bind; [|intros; exact I]. apply HS. rewrite <- Ec.
      pose proof (lsize_children dflt). pose proof (lsize_filter is_expr_node (children_or_nil dflt)). unfold child_exprs. lia.
    - intros [dv nx2] _. apply fine_bind; [apply IH; assumption|]. intros; exact I.
  Qed.

  Lemma lower_param_list_fine : forall node, 2 * tsize node <= S lv -> fine (lower_param_list toks K node).
  Proof.
    intros node H. unfold lower_param_list. apply fine_bind; [|intros; exact I].
    destruct (children_of node) as [children|] eqn:E; [|exact I].
    apply param_loop_fine; [eapply children_of_small; eauto | apply seq_lt_all].
  Qed.

  (* ------------------------------------------------------------------------------------------ *)
  (* records, blocks, match                                                                       *)
  (* ------------------------------------------------------------------------------------------ *)
  Lemma record_fields_loop_fine : forall ch cur, 2 * lsize ch + 1 <= lv -> fine (record_fields_loop toks K ch cur).
  Proof.
    induction ch as [|c r IH]; intros cur H; cbn [record_fields_loop]; [exact I|].
    cbn [lsize] in H. pose proof (tsize_pos c).
    destruct (token_child toks tk_Ident c); [apply IH; lia|].
    destruct (is_expr_node c); [|apply IH; lia].
    destruct cur; [|apply IH; lia].
    apply fine_bind; [apply HE; lia|]. intros e _. apply fine_bind; [apply IH; lia|]. intros; exact I.
  Qed.

  Lemma lower_record_fields_fine : forall node, 2 * tsize node <= S lv -> fine (lower_record_fields toks K node).
  Proof.
    intros node H. unfold lower_record_fields.
    apply fine_bind; [apply record_fields_loop_fine; apply children_small; exact H|]. intros; exact I.
  Qed.

  Lemma block_statements_loop_fine : forall ch, 2 * lsize ch + 1 <= lv -> fine (block_statements_loop K ch).
  Proof.
    induction ch as [|c r IH]; intros H; cbn [block_statements_loop]; [exact I|].
    cbn [lsize] in H. pose proof (tsize_pos c).
    destruct (kind_is sk_Statement c); [|apply IH; lia].
    apply fine_bind; [apply HSt; lia|]. intros o _. apply fine_bind; [apply IH; lia|]. intros; exact I.
  Qed.

  Lemma lower_block_statements_fine : forall node, 2 * tsize node <= S lv -> fine (lower_block_statements K node).
  Proof. intros node H. apply block_statements_loop_fine. apply children_small. exact H. Qed.

  Lemma lower_match_arm_fine : forall node, 2 * tsize node <= S lv -> fine (lower_match_arm toks K node).
  Proof.
    intros node H. pose proof (children_small lv node H) as Hc. unfold lower_match_arm. cbv zeta.
    apply fine_bind.
    - destruct (find (kind_is sk_MatchPattern) (children_or_nil node)) as [pat|] eqn:E; [|exact I].
      sizes. apply (lower_match_pattern_fine toks K lv HK). lia.
    - intros p _. apply fine_bind; [|intros; exact I].
      destruct (find is_expr_node (filter (fun c => negb (kind_is sk_MatchPattern c)) (children_or_nil node))) as [c|] eqn:E; [|exact I].
      sizes. apply HE. lia.
  Qed.

  Lemma lower_match_expr_fine : forall node l, 2 * tsize node <= S lv -> fine (lower_match_expr toks K node l).
  Proof.
    intros node l H. pose proof (children_small lv node H) as Hc. unfold lower_match_expr. cbv zeta.
    apply fine_bind.
    - destruct (find is_expr_node (children_or_nil node)) as [c|] eqn:E; [|exact I]. sizes. apply HE. lia.
    - intros s _. apply fine_bind; [|intros; exact I].
      destruct (find (kind_is sk_MatchArmList) (children_or_nil node)) as [list_|] eqn:E; [|exact I].
      destruct (children_of list_) as [arm_nodes|] eqn:E2; [|exact I].
      sizes. apply children_of_size in E2.
      apply mapM_fine. intros arm Harm. sizes. apply lower_match_arm_fine. lia.
  Qed.

  (* ------------------------------------------------------------------------------------------ *)
  (* lower_expr, lower_expr_sequence                                                              *)
  (* ------------------------------------------------------------------------------------------ *)
  Lemma seq_or_error_fine : forall nodes l, 2 * lsize nodes + 1 <= lv -> fine (seq_or_error K nodes l).
  Proof. intros nodes l H. unfold seq_or_error. destruct nodes; [exact I|]. apply HS. exact H. Qed.

  Lemma lower_expr_fine : forall node, 2 * tsize node <= S lv -> fine (lower_expr toks K node).
  Proof.
    intros node H. pose proof (child_exprs_small node H) as Hc. unfold lower_expr. cbv zeta.
    destruct (kind_of node) as [k|]; [destruct k|]; try exact I;
      try (apply lower_binary_fine; exact H); try (apply lower_call_fine; exact H);
      try (apply lower_field_access_fine; exact H); try (apply lower_index_fine; exact H);
      try (apply lower_match_expr_fine; exact H);
      try (apply seq_or_error_fine; exact Hc);
      try (apply fine_bind; [apply seq_or_error_fine; exact Hc | intros; exact I]);
      try (apply fine_bind; [apply lower_expr_list_fine; exact H | intros; exact I]).
    - (* MacroExpansion *) apply fine_bind; [apply lower_macro_expand_fine; exact H | intros; exact I].
    - (* LambdaExpr *) apply fine_bind; [apply lower_lambda_fine; exact H | intros; exact I].
    - (* IfExpr *)
      apply fine_bind.
      { destruct (nth_error (child_exprs node) 0) eqn:E; [|exact I]. sizes. apply HE. lia. }
      intros c _. apply fine_bind.
      { destruct (nth_error (child_exprs node) 1) eqn:E; [|exact I]. sizes. apply HE. lia. }
      intros t _. apply fine_bind; [|intros; exact I].
      apply optM_fine. intros x E. sizes. apply HE. lia.
    - (* BlockExpr *) apply fine_bind; [apply lower_block_statements_fine; exact H | intros; exact I].
    - (* RecordExpr *)
      destruct (find_token toks node tk_LeftArrow).
      + apply fine_bind.
        { destruct (child_exprs node) as [|x xs] eqn:E; [exact I|]. apply HE. cbn [lsize] in Hc. lia. }
        intros b _. apply fine_bind; [apply lower_record_fields_fine; exact H | intros; exact I].
      + apply fine_bind; [apply lower_record_fields_fine; exact H|]. intros fs _. repeat fstep.
    - (* QualifiedPath *)
      destruct (lower_qualified_path toks node) as [path|]; [|exact I].
      destruct (length path =? 1) eqn:E; [|exact I]. apply Nat.eqb_eq in E.
      destruct path as [|s r]; [discriminate|]. exact I.
  Qed.

  Lemma seq_loop_fine : forall nodes acc,
    2 * lsize nodes + (match acc with Some _ => 2 | None => 0 end) <= lv -> fine (seq_loop toks K nodes acc).
  Proof.
    induction nodes as [|node rest IH]; intros acc H; cbn [seq_loop]; [exact I|].
    cbn [lsize] in H. pose proof (tsize_pos node) as Hp.
    assert (Hn : 2 * tsize node <= S lv) by (destruct acc; lia).
    assert (Hr : forall e, fine (seq_loop toks K rest (Some e))) by (intros e; apply IH; destruct acc; lia).
    destruct (kind_of node) as [k|].
    - destruct k;
        try (apply fine_bind; [apply lower_binary_fine; exact Hn | intros; apply Hr]);
        try (apply fine_bind; [apply lower_call_fine; exact Hn | intros; apply Hr]);
        try (apply fine_bind; [apply lower_field_access_fine; exact Hn | intros; apply Hr]);
        try (apply fine_bind; [apply lower_index_fine; exact Hn | intros; apply Hr]);
        try (destruct acc as [[[] pl]|]; try (destruct t);
             try (apply fine_bind; [apply HE; lia | intros; apply Hr]);
             (apply fine_bind; [apply HS; cbn [lsize]; lia | intros; exact I])).
      (* AssignExpr *)
      destruct acc as [lhs|].
      + apply fine_bind; [apply lower_assign_fine; exact Hn|]. intros a _.
        destruct rest as [|r1 rs]; [apply Hr|].
        apply fine_bind; [apply HS; lia | intros; exact I].
      + apply fine_bind; [apply HE; lia | intros; apply Hr].
    - apply IH. destruct acc; lia.
  Qed.

  Lemma lower_expr_sequence_fine : forall nodes, 2 * lsize nodes <= lv -> fine (lower_expr_sequence toks K nodes).
  Proof. intros nodes H. unfold lower_expr_sequence. apply seq_loop_fine. lia. Qed.
End Total.
