(* Lower/Points.v — "every point of every span of the result satisfies P", for a predicate P on byte offsets that holds of 0 and
   of the start and end of every token of the table: the predicates over the AST, and the facts about the helper functions
   (node_span, merge_spans, macro_expand_span, into_then_expr, sort_fields, unwrap_paren ..).
   Instances of P: `<= |text|`, `char_boundary text`, "0 or a boundary of a token" (Props/C04_lower.v). *)
From Coq Require Import String List Bool Arith NArith Lia.
From Mimium Require Import Tables.LexerTables Tables.TokenKinds Parser.Model Lower.Ast Lower.Model Lower.ModelTypes
  Lower.ModelExpr Lower.ModelStmt Lower.Facts.
Import ListNotations.

Section AllList.
  Variable A : Type.
  Variable f : A -> Prop.
  Fixpoint all_list (l : list A) : Prop := match l with [] => True | x :: r => f x /\ all_list r end.
End AllList.
Arguments all_list {A} f l.
Definition all_opt {A : Type} (f : A -> Prop) (o : option A) : Prop := match o with Some x => f x | None => True end.

Lemma all_list_Forall : forall A (f : A -> Prop) l, all_list f l <-> Forall f l.
Proof.
  intros A f l. induction l as [|x r IH]; cbn [all_list]; split; intros H; auto.
  - constructor; tauto.
  - inversion H; subst. tauto.
Qed.
Lemma all_list_app : forall A (f : A -> Prop) a b, all_list f (a ++ b) <-> all_list f a /\ all_list f b.
Proof. intros A f a b. rewrite !all_list_Forall. apply Forall_app. Qed.
Lemma all_list_map : forall A B (g : A -> B) (f : B -> Prop) l, all_list f (map g l) <-> all_list (fun x => f (g x)) l.
Proof. intros A B g f l. induction l as [|x r IH]; cbn [map all_list]; tauto. Qed.
Lemma all_list_impl : forall A (f g : A -> Prop) l, (forall x, f x -> g x) -> all_list f l -> all_list g l.
Proof. intros A f g l H. induction l as [|x r IH]; cbn [all_list]; [tauto|]. intros [H1 H2]. split; auto. Qed.
Lemma all_list_firstn : forall A (f : A -> Prop) n l, all_list f l -> all_list f (firstn n l).
Proof. intros A f n. induction n as [|n IH]; intros l H; cbn [firstn]; [exact I|]. destruct l as [|x r]; [exact I|]. cbn [all_list] in *. split; [tauto|apply IH; tauto]. Qed.
Lemma all_list_last : forall A (f : A -> Prop) l d, all_list f l -> f d -> f (last l d).
Proof.
  intros A f l d. induction l as [|x r IH]; intros H Hd; [exact Hd|].
  destruct r as [|y r']; [destruct H as [H _]; exact H|]. change (last (x :: y :: r') d) with (last (y :: r') d).
  apply IH; [destruct H as [_ H]; exact H | exact Hd].
Qed.
Lemma all_list_nth_error : forall A (f : A -> Prop) l i x, all_list f l -> nth_error l i = Some x -> f x.
Proof. intros A f l i x H E. rewrite all_list_Forall in H. rewrite Forall_forall in H. apply H. eapply nth_error_In; eauto. Qed.

Section Pts.
  Variable P : N -> Prop.

  Definition span_pts (sp : span) : Prop := P (s_start sp) /\ P (s_end sp).
  Definition loc_pts (l : loc) : Prop := span_pts (l_span l).

  Fixpoint typ_pts (t : typ) : Prop := match t with Ty n l => loc_pts l /\ tnode_pts n end
  with tnode_pts (n : tnode) : Prop :=
    match n with
    | TPrimitive _ | TTypeAlias _ | TUnknown => True
    | TArray t | TCode t => typ_pts t
    | TTuple ts | TUnion ts => all_list typ_pts ts
    | TRecord fs => all_list (fun f => typ_pts (snd (fst f))) fs
    | TFunction a r => typ_pts a /\ typ_pts r
    end.

  Fixpoint expr_pts (e : expr) : Prop := match e with Ex n l => loc_pts l /\ enode_pts n end
  with enode_pts (n : enode) : Prop :=
    match n with
    | NLiteral _ | NVar _ | NQualifiedVar _ | NError => True
    | NBlock o => all_opt expr_pts o
    | NTuple es | NArrayLiteral es => all_list expr_pts es
    | NProj e _ | NFieldAccess e _ | NParen e | NBracket e | NEscape e | NFeed _ e => expr_pts e
    | NArrayAccess a b | NAssign a b => expr_pts a /\ expr_pts b
    | NRecordLiteral fs | NImcompleteRecord fs => all_list (fun f => expr_pts (snd f)) fs
    | NRecordUpdate e fs => expr_pts e /\ all_list (fun f => expr_pts (snd f)) fs
    | NApply f args | NMacroExpand f args => expr_pts f /\ all_list expr_pts args
    | NBinOp a _ sp b => span_pts sp /\ expr_pts a /\ expr_pts b
    | NUniOp _ sp e => span_pts sp /\ expr_pts e
    | NLambda ps rt body => all_list tid_pts ps /\ all_opt typ_pts rt /\ expr_pts body
    | NThen e t => expr_pts e /\ all_opt expr_pts t
    | NLet p e t => tpat_pts p /\ expr_pts e /\ all_opt expr_pts t
    | NLetRec id e t => tid_pts id /\ expr_pts e /\ all_opt expr_pts t
    | NIf c t e => expr_pts c /\ expr_pts t /\ all_opt expr_pts e
    | NMatch s arms => expr_pts s /\ all_list (fun a => expr_pts (snd a)) arms
    end
  with tid_pts (t : typed_id) : Prop := match t with TId _ ty d => typ_pts ty /\ all_opt expr_pts d end
  with tpat_pts (t : typed_pattern) : Prop := match t with TPat _ ty d => typ_pts ty /\ all_opt expr_pts d end.

  Lemma expr_pts_Ex : forall n l, loc_pts l -> enode_pts n -> expr_pts (Ex n l).
  Proof. intros n l H1 H2. split; assumption. Qed.

  Definition stmt_pts (s : stmt) : Prop :=
    match s with
    | StmLet p e => tpat_pts p /\ expr_pts e
    | StmLetRec id e => tid_pts id /\ expr_pts e
    | StmAssign a b => expr_pts a /\ expr_pts b
    | StmSingle e => expr_pts e
    | StmDeclareStage _ | StmError => True
    end.

  Fixpoint pstmt_pts (s : pstmt) : Prop :=
    match s with
    | PFnDefinition _ _ args al rt body => all_list tid_pts args /\ loc_pts al /\ all_opt typ_pts rt /\ expr_pts body
    | PGlobalStatement st => stmt_pts st
    | PModuleDefinition _ _ (Some l) => all_list (fun x => pstmt_pts (fst x) /\ span_pts (snd x)) l
    | PTypeAlias _ _ t => typ_pts t
    | PTypeDeclaration _ _ vs _ => all_list (fun v => all_opt typ_pts (snd v)) vs
    | _ => True
    end.
  Definition stmt_span_pts (x : pstmt * span) : Prop := pstmt_pts (fst x) /\ span_pts (snd x).
  Definition program_pts (p : program) : Prop := all_list stmt_span_pts p.

  (* on outcomes: a value satisfies g *)
  Definition res_pts {A : Type} (g : A -> Prop) (r : res A) : Prop := match r with Ok a => g a | _ => True end.

  Lemma res_pts_bind : forall A B (g : A -> Prop) (h : B -> Prop) (m : res A) (f : A -> res B),
    res_pts g m -> (forall a, m = Ok a -> g a -> res_pts h (f a)) -> res_pts h (bind m f).
  Proof. intros A B g h m f Hm Hf. destruct m as [a| |]; cbn [bind res_pts] in *; try exact I. apply Hf; [reflexivity|exact Hm]. Qed.

  Lemma mapM_pts : forall A B (g : B -> Prop) (f : A -> res B) l, (forall x, res_pts g (f x)) -> res_pts (all_list g) (mapM f l).
  Proof.
    intros A B g f l H. induction l as [|x r IH]; cbn [mapM]; [exact I|].
    eapply res_pts_bind; [apply H|]. intros y _ Hy. eapply res_pts_bind; [exact IH|]. intros ys _ Hys. cbn. tauto.
  Qed.

  Lemma optM_pts : forall A B (g : B -> Prop) (f : A -> res B) o, (forall x, res_pts g (f x)) -> res_pts (all_opt g) (optM f o).
  Proof.
    intros A B g f o H. destruct o as [x|]; cbn [optM]; [|exact I].
    eapply res_pts_bind; [apply H|]. intros y _ Hy. exact Hy.
  Qed.

  (* ------------------------------------------------------------------------------------------ *)
  (* the hypotheses on P and the table                                                            *)
  (* ------------------------------------------------------------------------------------------ *)
  Hypothesis HP0 : P 0%N.
  Variable toks : nat -> option tokinfo.
  Hypothesis Htoks : forall i tk, toks i = Some tk -> P (t_start tk) /\ P (t_end tk).

  Lemma P_min : forall a b, P a -> P b -> P (N.min a b).
  Proof. intros a b Ha Hb. destruct (N.min_dec a b) as [-> | ->]; assumption. Qed.
  Lemma P_max : forall a b, P a -> P b -> P (N.max a b).
  Proof. intros a b Ha Hb. destruct (N.max_dec a b) as [-> | ->]; assumption. Qed.

  Lemma span0_pts : span_pts span0. Proof. split; exact HP0. Qed.
  Lemma loc_default_pts : loc_pts loc_default. Proof. exact span0_pts. Qed.
  Lemma error_without_span_pts : expr_pts error_without_span. Proof. split; [exact loc_default_pts | exact I]. Qed.
  Lemma unit_without_span_pts : expr_pts unit_without_span. Proof. split; [exact loc_default_pts | exact I]. Qed.
  Lemma t_span_pts : forall i tk, toks i = Some tk -> span_pts (t_span tk).
  Proof. intros i tk H. exact (Htoks i tk H). Qed.
  Lemma token_child_pts : forall p c tk, token_child toks p c = Some tk -> span_pts (t_span tk).
  Proof.
    intros p c tk H. unfold token_child in H. destruct (get_token_index c) as [idx|]; [|discriminate].
    destruct (toks idx) as [t|] eqn:E; [|discriminate]. destruct (p (t_kind t)); [|discriminate].
    injection H as <-. eapply t_span_pts; eauto.
  Qed.
  Lemma merge_pts : forall a b, span_pts a -> span_pts b -> span_pts (merge_spans a b).
  Proof. intros a b [A1 A2] [B1 B2]. split; cbn; [apply P_min | apply P_max]; assumption. Qed.
  Lemma location_pts : forall sp, span_pts sp -> loc_pts (location_from_span sp).
  Proof. intros sp H. exact H. Qed.
  Lemma to_span_pts : forall e, expr_pts e -> span_pts (to_span e).
  Proof. intros [n l] [H _]. exact H. Qed.

  Definition acc_pts (acc : option N * option N) : Prop := all_opt P (fst acc) /\ all_opt P (snd acc).

  Lemma span_fold_pts : forall (f : tree -> option span) l acc,
    Forall (fun c => forall sp, f c = Some sp -> span_pts sp) l -> acc_pts acc -> acc_pts (span_fold f l acc).
  Proof.
    intros f l. induction l as [|c r IH]; intros acc Hl Ha; cbn [span_fold]; [exact Ha|].
    inversion Hl as [|? ? Hc Hr]; subst. destruct (f c) as [sp|] eqn:E; [|apply IH; assumption].
    apply IH; [assumption|]. destruct (Hc sp eq_refl) as [S1 S2]. destruct acc as [[s|] [e|]]; destruct Ha as [A1 A2];
      split; cbn [fst snd all_opt] in *; try assumption; first [apply P_min | apply P_max]; assumption.
  Qed.

  Fixpoint tree_ind2 (Q : tree -> Prop) (Ht : forall p, Q (TTok p)) (Hn : forall k ch, Forall Q ch -> Q (TNode k ch))
      (t : tree) : Q t :=
    match t with
    | TTok p => Ht p
    | TNode k ch =>
        Hn k ch ((fix go (l : list tree) : Forall Q l :=
                    match l with [] => Forall_nil Q | x :: r => Forall_cons x (tree_ind2 Q Ht Hn x) (go r) end) ch)
    end.

  Lemma node_span_pts : forall t sp, node_span toks t = Some sp -> span_pts sp.
  Proof.
    intros t. induction t as [p|k ch IH] using tree_ind2; intros sp H; cbn [node_span] in H.
    - destruct (toks p) as [tk|] eqn:E; cbn in H; [|discriminate]. injection H as <-. eapply t_span_pts; eauto.
    - pose proof (span_fold_pts (node_span toks) ch (None, None) IH (conj I I)) as Hf.
      destruct (span_fold (node_span toks) ch (None, None)) as [[s|] [e|]]; try discriminate.
      injection H as <-. exact Hf.
  Qed.
  Lemma node_span_or0_pts : forall t, span_pts (node_span_or0 toks t).
  Proof. intros t. unfold node_span_or0. destruct (node_span toks t) eqn:E; [eapply node_span_pts; eauto | exact span0_pts]. Qed.

  Lemma macro_expand_span_pts : forall node base, span_pts base -> span_pts (macro_expand_span toks node base).
  Proof.
    intros node base [B1 B2]. unfold macro_expand_span. split; cbn [s_start s_end]; [exact B1|].
    destruct (find_token toks node tk_MacroExpand) as [idx|]; [|exact B2].
    destruct (toks idx) as [t|] eqn:E; [|exact B2]. apply (Htoks idx t E).
  Qed.

  Lemma first_binary_op_pts : forall ch o sp, first_binary_op toks ch = Some (o, sp) -> span_pts sp.
  Proof.
    induction ch as [|c r IH]; intros o sp H; cbn [first_binary_op] in H; [discriminate|].
    destruct (get_token_index c) as [idx|]; [|eauto]. destruct (toks idx) as [tk|] eqn:E; [|eauto].
    destruct (binop_of_kind (t_kind tk)); [|eauto]. injection H as _ <-. eapply t_span_pts; eauto.
  Qed.
  Lemma extract_binary_op_pts : forall node o sp, extract_binary_op toks node = Some (o, sp) -> span_pts sp.
  Proof. intros node o sp H. unfold extract_binary_op in H. destruct (children_of node); [|discriminate]. eapply first_binary_op_pts; eauto. Qed.

  (* ---- expression-level helpers ---- *)
  Lemma unwrap_paren_pts : forall e, expr_pts e -> expr_pts (unwrap_paren e).
  Proof. fix IH 1. intros [n l] H. destruct n; try exact H. cbn [unwrap_paren]. apply IH. cbn in H. tauto. Qed.

  Lemma stmt_from_expr_pts : forall e, expr_pts e -> all_list stmt_pts (stmt_from_expr e).
  Proof.
    fix IH 1. intros [n l] H.
    destruct n; try (cbn [stmt_from_expr all_list stmt_pts]; split; [exact H | exact I]);
      cbn [stmt_from_expr]; cbn in H; destruct H as [_ [H1 [H2 H3]]]; cbn [all_list stmt_pts]; (split; [tauto|]);
      match goal with |- all_list _ (match ?o with _ => _ end) => destruct o as [t'|]; [apply IH; exact H3 | exact I] end.
  Qed.

  Definition stmt_loc_pts (x : stmt * loc) : Prop := stmt_pts (fst x) /\ loc_pts (snd x).
  Definition closure_pts (c : then_closure) : Prop :=
    match c with
    | CLet p e l => tpat_pts p /\ expr_pts e /\ loc_pts l
    | CLetRec id e l => tid_pts id /\ expr_pts e /\ loc_pts l
    | CAssign a b l => expr_pts a /\ expr_pts b /\ loc_pts l
    | CSingle e l => expr_pts e /\ loc_pts l
    | CBracket l | CEscape l | CErrorStmt l => loc_pts l
    | CIdentity => True
    end.
  Lemma then_closures_pts : forall stmts st, all_list stmt_loc_pts stmts -> all_list closure_pts (then_closures stmts st).
  Proof.
    induction stmts as [|[s l] r IH]; intros st H; cbn [then_closures]; [exact I|].
    destruct H as [[Hs Hl] Hr]. cbn [fst snd] in *.
    destruct s; cbn [all_list closure_pts stmt_pts] in *; try (split; [tauto | apply IH; exact Hr]).
    split; [destruct st, s; exact Hl || exact I | apply IH; exact Hr].
  Qed.
  Lemma apply_then_closure_pts : forall c t, closure_pts c -> all_opt expr_pts t -> all_opt expr_pts (apply_then_closure c t).
  Proof.
    intros c t Hc Ht. destruct c; cbn [apply_then_closure closure_pts] in *; try (destruct t; cbn in *; tauto).
  Qed.
  Lemma into_then_expr_pts : forall stmts, all_list stmt_loc_pts stmts -> all_opt expr_pts (into_then_expr stmts).
  Proof.
    intros stmts H. unfold into_then_expr. pose proof (then_closures_pts stmts StMain H) as Hc.
    induction (then_closures stmts StMain) as [|c r IH]; cbn [fold_right]; [exact I|].
    destruct Hc as [H1 H2]. apply apply_then_closure_pts; [exact H1 | apply IH; exact H2].
  Qed.

  Lemma insert_field_pts : forall A (g : A -> Prop) x l, g (snd x) -> all_list (fun f => g (snd f)) l ->
    all_list (fun f => g (snd f)) (insert_field x l).
  Proof.
    intros A g x l Hx. induction l as [|y r IH]; cbn [insert_field all_list]; [tauto|].
    intros [Hy Hr]. destruct (str_leb (fst y) (fst x)); cbn [all_list]; tauto.
  Qed.
  Lemma sort_fields_pts : forall A (g : A -> Prop) l, all_list (fun f => g (snd f)) l -> all_list (fun f => g (snd f)) (sort_fields l).
  Proof.
    intros A g l H. unfold sort_fields.
    assert (G : forall acc, all_list (fun f => g (snd f)) acc -> all_list (fun f => g (snd f)) (fold_left (fun acc x => insert_field x acc) l acc)).
    { induction l as [|x r IH]; intros acc Ha; cbn [fold_left]; [exact Ha|]. destruct H as [Hx Hr].
      apply IH; [exact Hr|]. apply insert_field_pts; assumption. }
    apply G. exact I.
  Qed.
End Pts.
