(* Lower/Boundary.v — instances of lower_points: the spans of the lowered program are made of token boundaries; with the
   tokenizer's tiling theorem (C13_tiling) they lie on character boundaries of the text; they do not reach beyond the last token. *)
From Coq Require Import String List Bool Arith NArith Lia.
From Mimium Require Import Tables.LexerTables Tables.TokenKinds Lower.Ast Lower.Model Lower.ModelTypes
  Lower.ModelExpr Lower.ModelStmt Lower.Facts Lower.Points Lower.PointsExpr Lower.PointsStmt.
From Mimium Require Parser.Model Lexer.Model Lexer.Lemmas.
Import ListNotations.

(* x is 0 or the start or end of a token of the table *)
Definition token_boundary (toks : nat -> option tokinfo) (x : N) : Prop :=
  x = 0%N \/ exists i tk, toks i = Some tk /\ (x = t_start tk \/ x = t_end tk).

Lemma lower_spans_are_token_boundaries : forall toks root fuel p,
  lower_with fuel toks root = Ok p -> program_pts (token_boundary toks) p.
Proof.
  intros toks root fuel p H. eapply lower_points; [left; reflexivity| |exact H].
  intros i tk E. split; right; exists i, tk; tauto.
Qed.

Lemma lower_spans_below : forall toks root fuel p (hi : N),
  (forall i tk, toks i = Some tk -> (t_end tk <= hi)%N) ->
  lower_with fuel toks root = Ok p -> program_pts (fun x => (x <= hi)%N) p.
Proof.
  intros toks root fuel p hi Hhi H. eapply lower_points; [lia| |exact H].
  intros i tk E. specialize (Hhi i tk E). unfold t_end in *. lia.
Qed.

Lemma char_boundary_0 : forall s, Lemmas.char_boundary s 0%N.
Proof. intros s. exists 0%nat. reflexivity. Qed.

Lemma lower_spans_on_char_boundaries : forall (s : Lexer.Model.Input) (ltoks : list Lexer.Model.Token) toks root fuel p,
  Lemmas.tiling s ltoks ->
  (forall i tk, toks i = Some tk ->
     exists t, nth_error ltoks i = Some t /\ t_start tk = Lexer.Model.tk_start t /\ t_len tk = Lexer.Model.tk_len t) ->
  lower_with fuel toks root = Ok p -> program_pts (Lemmas.char_boundary s) p.
Proof.
  intros s ltoks toks root fuel p T Htab H. eapply lower_points; [apply char_boundary_0| |exact H].
  intros i tk E. destruct (Htab i tk E) as [t [En [Es El]]].
  destruct T as [body [_ [_ [_ [Fb _]]]]]. rewrite Forall_forall in Fb.
  specialize (Fb t (nth_error_In _ _ En)). unfold t_end. rewrite Es, El. exact Fb.
Qed.
