(* Lower/TotalTypes.v — totality of the lowering, part 1: the induction hypothesis on the knot (knot_ok), tactics, and the
   functions of ModelTypes.v (lower_type, lower_pattern, match patterns).

   Measure.  A call of a knot function on a tree t is fine when 2 * tsize t <= fuel, a call of k_seq on a list l when
   2 * lsize l + 1 <= fuel.  Every function body over a knot that is fine up to level lv is fine on a node with
   2 * tsize node <= lv + 1: its calls go to children (or deeper) of the node, or to sub-lists of children lists. *)
From Coq Require Import String List Bool Arith NArith Lia.
From Mimium Require Import Tables.LexerTables Tables.TokenKinds Parser.Model Lower.Ast Lower.Model Lower.ModelTypes
  Lower.ModelExpr Lower.ModelStmt Lower.Facts.
Import ListNotations.

Definition knot_ok (lv : nat) (K : knot) : Prop :=
  (forall t, 2 * tsize t <= lv -> fine (k_expr K t)) /\
  (forall l, 2 * lsize l + 1 <= lv -> fine (k_seq K l)) /\
  (forall t, 2 * tsize t <= lv -> fine (k_stmt K t)) /\
  (forall t, 2 * tsize t <= lv -> fine (k_type K t)) /\
  (forall t, 2 * tsize t <= lv -> fine (k_pat K t)) /\
  (forall t, 2 * tsize t <= lv -> fine (k_mpat K t)) /\
  (forall t, 2 * tsize t <= lv -> fine (k_tpat K t)).

(* one step through the shape of a body *)
Ltac fstep :=
  match goal with
  | |- fine (Ok _) => exact I
  | |- fine (bind _ _) => apply fine_bind; [ | intros ? ? ]
  | |- fine (match (match ?y with _ => _ end) with _ => _ end) => destruct y eqn:?
  | |- fine (match ?x with _ => _ end) => destruct x eqn:?
  end.

(* sizes of things found among the children of a list *)
Ltac sizes :=
  repeat match goal with
  | H : find_type_child ?l = Some ?c |- _ => unfold find_type_child in H
  | H : find _ ?l = Some ?c |- _ => apply find_in in H
  | H : In ?c (filter _ ?l) |- _ => apply in_filter in H
  | H : nth_error ?l _ = Some ?c |- _ => apply nth_error_In in H
  | H : In ?c ?l |- _ => apply lsize_in in H
  end.

Section Total.
  Variable toks : nat -> option tokinfo.
  Variable K : knot.
  Variable lv : nat.
  Hypothesis HK : knot_ok lv K.

  Lemma HE : forall t, 2 * tsize t <= lv -> fine (k_expr K t). Proof. apply HK. Qed.
  Lemma HS : forall l, 2 * lsize l + 1 <= lv -> fine (k_seq K l). Proof. apply HK. Qed.
  Lemma HSt : forall t, 2 * tsize t <= lv -> fine (k_stmt K t). Proof. apply HK. Qed.
  Lemma HT : forall t, 2 * tsize t <= lv -> fine (k_type K t). Proof. apply HK. Qed.
  Lemma HP : forall t, 2 * tsize t <= lv -> fine (k_pat K t). Proof. apply HK. Qed.
  Lemma HM : forall t, 2 * tsize t <= lv -> fine (k_mpat K t). Proof. apply HK. Qed.
  Lemma HTP : forall t, 2 * tsize t <= lv -> fine (k_tpat K t). Proof. apply HK. Qed.

  (* the children of a node that fits level lv + 1 fit level lv, as trees and as a list *)
  Lemma children_small : forall node, 2 * tsize node <= S lv -> 2 * lsize (children_or_nil node) + 1 <= lv.
  Proof. intros node H. pose proof (lsize_children node). lia. Qed.

  Lemma children_of_small : forall node ch, 2 * tsize node <= S lv -> children_of node = Some ch -> 2 * lsize ch + 1 <= lv.
  Proof. intros node ch H E. rewrite <- (children_of_or_nil _ _ E). apply children_small. exact H. Qed.

  (* ------------------------------------------------------------------------------------------ *)
  (* types                                                                                        *)
  (* ------------------------------------------------------------------------------------------ *)
  Lemma record_type_fields_fine : forall ch cur, 2 * lsize ch + 1 <= lv -> fine (record_type_fields toks K ch cur).
  Proof.
    induction ch as [|c r IH]; intros cur H; cbn [record_type_fields]; [exact I|].
    cbn [lsize] in H. pose proof (tsize_pos c).
    destruct (token_child toks tk_Ident_or_Parameter c); [apply IH; lia|].
    destruct (is_type_node c); [|apply IH; lia].
    destruct cur; [|apply IH; lia].
    apply fine_bind; [apply HT; lia|]. intros t _. apply fine_bind; [apply IH; lia|]. intros; exact I.
  Qed.

  Lemma mapM_type_fine : forall l, 2 * lsize l + 1 <= lv -> fine (mapM (k_type K) l).
  Proof. intros l H. apply mapM_fine. intros x Hx. apply lsize_in in Hx. apply HT. lia. Qed.

  Lemma lower_type_fine : forall node, 2 * tsize node <= S lv -> fine (lower_type toks K node).
  Proof.
    intros node H. pose proof (children_small node H) as Hc. unfold lower_type. cbv zeta.
    pose proof (lsize_filter is_type_node (children_or_nil node)) as Hf.
    destruct (kind_of node) as [k|]; [destruct k|]; repeat fstep; sizes;
      try (apply mapM_type_fine; lia); try (apply HT; lia); try (apply record_type_fields_fine; lia).
    - (* lowered[0] with lowered.len() == 2 *)
      apply Nat.eqb_eq in Heqb0. destruct a as [|x [|y z]]; cbn in Heqb0, Heqo; discriminate.
    - (* lowered[..len - 1] with len >= 2 *)
      apply mapM_length in H0. apply Nat.leb_le in Heqb. apply Nat.leb_gt in Heqb1. lia.
  Qed.

  Lemma lower_annotation_type_fine : forall anno, 2 * tsize anno <= S lv -> fine (lower_annotation_type K anno).
  Proof.
    intros anno H. unfold lower_annotation_type. destruct (children_of anno) as [cs|] eqn:E; [|exact I].
    pose proof (children_of_small _ _ H E). apply optM_fine. intros x Hx. sizes. apply HT. lia.
  Qed.

  (* ------------------------------------------------------------------------------------------ *)
  (* patterns                                                                                     *)
  (* ------------------------------------------------------------------------------------------ *)
  Lemma tuple_pattern_elems_fine : forall l, 2 * lsize l + 1 <= lv -> fine (tuple_pattern_elems K l).
  Proof.
    induction l as [|c r IH]; intros H; cbn [tuple_pattern_elems]; [exact I|].
    cbn [lsize] in H. apply fine_bind; [apply HP; lia|]. intros o _.
    apply fine_bind; [apply IH; lia|]. intros; exact I.
  Qed.

  Lemma record_pattern_items_fine : forall ch cur, 2 * lsize ch + 1 <= lv -> fine (record_pattern_items toks K ch cur).
  Proof.
    induction ch as [|c r IH]; intros cur H; cbn [record_pattern_items]; [exact I|].
    cbn [lsize] in H. pose proof (tsize_pos c).
    destruct (token_child toks tk_Ident_or_Parameter c); [apply IH; lia|].
    destruct (is_pattern_node c); [|apply IH; lia].
    apply fine_bind; [apply HP; lia|]. intros o _.
    destruct o as [[p sp]|]; [|apply IH; lia].
    destruct cur; [|apply IH; lia].
    apply fine_bind; [apply IH; lia|]. intros; exact I.
  Qed.

  Lemma lower_pattern_fine : forall node, 2 * tsize node <= S lv -> fine (lower_pattern toks K node).
  Proof.
    intros node H. pose proof (children_small node H) as Hc. unfold lower_pattern.
    pose proof (lsize_filter is_pattern_node (children_or_nil node)) as Hf.
    destruct (node_span toks node); [|exact I].
    destruct (kind_of node) as [k|]; [destruct k|]; repeat fstep; unfold child_patterns in *;
      try (apply tuple_pattern_elems_fine; lia); try (apply record_pattern_items_fine; lia).
    (* Pattern: the first pattern child *)
    assert (In t (filter is_pattern_node (children_or_nil node))) as Hin by (rewrite Heql; left; reflexivity).
    sizes. apply HP. lia.
  Qed.

  (* ------------------------------------------------------------------------------------------ *)
  (* match patterns                                                                               *)
  (* ------------------------------------------------------------------------------------------ *)
  Lemma lower_match_tuple_pattern_fine : forall node, 2 * tsize node <= S lv -> fine (lower_match_tuple_pattern K node).
  Proof.
    intros node H. pose proof (children_small node H) as Hc. unfold lower_match_tuple_pattern.
    apply fine_bind; [|intros; exact I]. apply mapM_fine. intros x Hx. sizes. apply HM. lia.
  Qed.

  Lemma constructor_pattern_loop_fine : forall ch name inner,
    2 * lsize ch + 1 <= lv -> fine (constructor_pattern_loop toks K ch name inner).
  Proof.
    induction ch as [|c r IH]; intros name inner H; cbn [constructor_pattern_loop]; [exact I|].
    cbn [lsize] in H. pose proof (tsize_pos c).
    destruct (kind_of c) as [k|]; [destruct k|]; repeat fstep; try (apply IH; lia).
    apply HTP. lia.
  Qed.

  Lemma lower_constructor_pattern_fine : forall node, 2 * tsize node <= S lv -> fine (lower_constructor_pattern toks K node).
  Proof. intros node H. apply constructor_pattern_loop_fine. apply children_small. exact H. Qed.

  Lemma match_pattern_loop_fine : forall ch, 2 * lsize ch + 1 <= lv -> fine (match_pattern_loop toks K ch).
  Proof.
    induction ch as [|c r IH]; intros H; cbn [match_pattern_loop]; [exact I|].
    cbn [lsize] in H. pose proof (tsize_pos c).
    destruct (kind_of c) as [k|]; [destruct k|]; repeat fstep; try (apply IH; lia).
    - apply lower_constructor_pattern_fine. lia.
    - apply lower_match_tuple_pattern_fine. lia.
  Qed.

  Lemma lower_match_pattern_fine : forall node, 2 * tsize node <= S lv -> fine (lower_match_pattern toks K node).
  Proof. intros node H. apply match_pattern_loop_fine. apply children_small. exact H. Qed.

  Lemma tuple_pattern_loop_fine : forall ch, 2 * lsize ch + 1 <= lv -> fine (tuple_pattern_loop toks K ch).
  Proof.
    induction ch as [|c r IH]; intros H; cbn [tuple_pattern_loop]; [exact I|].
    cbn [lsize] in H. pose proof (tsize_pos c).
    destruct (kind_of c) as [k|]; [destruct k|]; repeat fstep; try (apply IH; lia).
    apply HTP. lia.
  Qed.

  Lemma lower_tuple_pattern_fine : forall node, 2 * tsize node <= S lv -> fine (lower_tuple_pattern toks K node).
  Proof.
    intros node H. unfold lower_tuple_pattern.
    apply fine_bind; [apply tuple_pattern_loop_fine; apply children_small; exact H|].
    intros ps _. repeat fstep.
  Qed.
End Total.
