(* Lower/Model.v — executable model of crates/lib/mimium-lang/src/compiler/parser/lower.rs, part 1: the input, the helper
   functions of `impl Lowerer` that do not lower anything (tree / token access, spans, text helpers, kind classes) and the two
   functions of ast/statement.rs that lower_program / lower_function_decl / BlockExpr call (stmt_from_expr_top, into_then_expr).
   Definitions only.  Parts 2-4: ModelTypes.v (types, patterns, match patterns), ModelExpr.v (expressions),
   ModelStmt.v (statements, program, the fuelled knot).  Lemmas: Lower/*.v; theorems: Props/C04_lower.v, Props/C16_layout.v.

   Input of the lowering
   ---------------------
   * the green tree: `Parser.Model.tree` (TTok i = GreenNode::Token { token_index = i }, TNode k ch = GreenNode::Internal);
     `arena.kind(id)` / `arena.children(id)` are kind_of / children_of.  A GreenNodeId is modelled by the node itself; the only
     place lower.rs compares ids (`skip_while(|child| *child != after)` in collect_expr_nodes_after, where `after` was found by
     find_child on the same children) is transcribed as "skip up to and including the first child find_child selects".
   * the token table `toks : nat -> option tokinfo` = `self.tokens.get(i)` with kind (AFTER the parser's rewrites to
     IdentFunction / IdentParameter), start, length and `token.text(self.source)` (bytes of source[start..start+length]; that the
     slice exists and lies on char boundaries is C13_tiling).  The model works for every table and every tree.
   Output: Ast.program / Ast.expr with spans and the path bit (see Ast.v). *)
From Coq Require Import String Ascii List Bool Arith NArith ZArith.
From Mimium Require Import Tables.LexerTables Tables.TokenKinds Parser.Model Lower.Ast.
Import ListNotations.
Open Scope string_scope.
Open Scope list_scope.
Open Scope nat_scope.

Notation "'let*' x ':=' m 'in' f" := (bind m (fun x => f)) (at level 200, x pattern, m at level 100, f at level 200, right associativity).

(* token.rs Token { kind, start, length } + its text *)
Record tokinfo := mkTok { t_kind : TokenKind; t_start : N; t_len : N; t_text : string }.
Definition t_end (t : tokinfo) : N := (t_start t + t_len t)%N.               (* Token::end *)
Definition t_span (t : tokinfo) : span := mkSpan (t_start t) (t_end t).      (* t.start..t.end() *)

(* green.rs GreenNodeArena::kind / children *)
Definition kind_of (t : tree) : option SyntaxKind := match t with TTok _ => None | TNode k _ => Some k end.
Definition children_of (t : tree) : option (list tree) := match t with TTok _ => None | TNode _ ch => Some ch end.
(* `self.arena.children(node).into_iter().flatten()` / `.map_or(empty, ..)`: the children, nothing for a token *)
Definition children_or_nil (t : tree) : list tree := match t with TTok _ => [] | TNode _ ch => ch end.
(* get_token_index *)
Definition get_token_index (t : tree) : option nat := match t with TTok p => Some p | TNode _ _ => None end.

(* kind tests `self.arena.kind(x) == Some(SyntaxKind::K)` *)
Definition kind_is (p : SyntaxKind -> bool) (t : tree) : bool := match kind_of t with Some k => p k | None => false end.
Definition sk_Statement k := match k with SStatement => true | _ => false end.
Definition sk_VisibilityPub k := match k with SVisibilityPub => true | _ => false end.
Definition sk_QualifiedPath k := match k with SQualifiedPath => true | _ => false end.
Definition sk_VariantDef k := match k with SVariantDef => true | _ => false end.
Definition sk_TypeAnnotation k := match k with STypeAnnotation => true | _ => false end.
Definition sk_ParamList k := match k with SParamList => true | _ => false end.
Definition sk_ParamDefault k := match k with SParamDefault => true | _ => false end.
Definition sk_BlockExpr k := match k with SBlockExpr => true | _ => false end.
Definition sk_MatchArmList k := match k with SMatchArmList => true | _ => false end.
Definition sk_MatchArm k := match k with SMatchArm => true | _ => false end.
Definition sk_MatchPattern k := match k with SMatchPattern => true | _ => false end.
Definition sk_ArgList k := match k with SArgList => true | _ => false end.

(* every SyntaxKind of green.rs (the driver parses node names with it; Lower/Facts.v proves the list complete) *)
Definition all_syntax_kinds : list SyntaxKind :=
  [SProgram; SStatement; SFunctionDecl; SLetDecl; SLetRecDecl; SBinaryExpr; SUnaryExpr; SParenExpr; SCallExpr;
   SFieldAccess; SIndexExpr; SAssignExpr; SArrayExpr; SMacroExpansion; SBracketExpr; SEscapeExpr; SLambdaExpr;
   SIfExpr; SMatchExpr; SMatchArm; SMatchArmList; SMatchPattern; SConstructorPattern; SBlockExpr; STupleExpr;
   SRecordExpr; SIntLiteral; SFloatLiteral; SStringLiteral; SSelfLiteral; SNowLiteral; SSampleRateLiteral;
   SPlaceHolderLiteral; SIdentifier; STypeAnnotation; SPrimitiveType; SUnitType; SFunctionType; STupleType;
   SRecordType; SArrayType; SCodeType; SUnionType; STypeIdent; SPattern; SSinglePattern; STuplePattern;
   SRecordPattern; SIncludeStmt; SStageDecl; SModuleDecl; SUseStmt; STypeDecl; SVariantDef; SQualifiedPath;
   SVisibilityPub; SUseTargetMultiple; SUseTargetWildcard; SParamList; SArgList; SExprList; SParamDefault; SError].

(* is_expr_kind *)
Definition is_expr_kind (k : SyntaxKind) : bool :=
  match k with
  | SBinaryExpr | SUnaryExpr | SParenExpr | SCallExpr | SFieldAccess | SIndexExpr | SAssignExpr | SArrayExpr
  | SMacroExpansion | SBracketExpr | SEscapeExpr | SLambdaExpr | SIfExpr | SMatchExpr | SBlockExpr | STupleExpr
  | SRecordExpr | SIntLiteral | SFloatLiteral | SStringLiteral | SSelfLiteral | SNowLiteral | SSampleRateLiteral
  | SPlaceHolderLiteral | SIdentifier | SQualifiedPath => true
  | _ => false
  end.
(* is_pattern_kind *)
Definition is_pattern_kind (k : SyntaxKind) : bool :=
  match k with SPattern | SSinglePattern | STuplePattern | SRecordPattern => true | _ => false end.
(* is_type_kind *)
Definition is_type_kind (k : SyntaxKind) : bool :=
  match k with
  | SPrimitiveType | SUnitType | STupleType | SRecordType | SFunctionType | SArrayType | SCodeType | SUnionType
  | STypeIdent => true
  | _ => false
  end.
(* `self.arena.kind(c).map(Self::is_expr_kind) == Some(true)` and `.map(Self::is_type_kind).unwrap_or(false)` *)
Definition is_expr_node : tree -> bool := kind_is is_expr_kind.
Definition is_pattern_node : tree -> bool := kind_is is_pattern_kind.
Definition is_type_node : tree -> bool := kind_is is_type_kind.

(* token kind tests used as predicates of find_token / in `matches!(token.kind, ..)` *)
Definition tk_Ident k := match k with KIdent => true | _ => false end.
Definition tk_Ident_or_Parameter k := match k with KIdent | KIdentParameter => true | _ => false end.
Definition tk_Ident_or_Function k := match k with KIdentFunction | KIdent => true | _ => false end.
Definition tk_Ident_or_Int k := match k with KIdent | KInt => true | _ => false end.
Definition tk_BlockBegin k := match k with KBlockBegin => true | _ => false end.
Definition tk_Rec k := match k with KRec => true | _ => false end.
Definition tk_Str k := match k with KStr => true | _ => false end.
Definition tk_Main_or_Macro k := match k with KMain | KMacro => true | _ => false end.
Definition tk_LeftArrow k := match k with KLeftArrow => true | _ => false end.
Definition tk_DoubleDot k := match k with KDoubleDot => true | _ => false end.
Definition tk_MacroExpand k := match k with KMacroExpand => true | _ => false end.
Definition tk_Comma k := match k with KComma => true | _ => false end.

(* merge_spans *)
Definition merge_spans (a b : span) : span := mkSpan (N.min (s_start a) (s_start b)) (N.max (s_end a) (s_end b)).

(* ---------------------------------------------------------------------------------------------- *)
(* text helpers (Rust std on &str; strings are byte strings)                                        *)
(* ---------------------------------------------------------------------------------------------- *)
Definition dquote : ascii := Ascii.ascii_of_nat 34.
(* str::trim_matches applied to the double-quote character *)
Fixpoint trim_start_dq (l : list ascii) : list ascii :=
  match l with c :: r => if Ascii.eqb c dquote then trim_start_dq r else l | [] => [] end.
Definition trim_matches_dq (s : string) : string :=
  string_of_list_ascii (rev (trim_start_dq (rev (trim_start_dq (list_ascii_of_string s))))).
(* str::parse::<i64>().ok(): optional sign, then one or more ASCII digits, value inside the i64 range *)
Fixpoint digits_val (l : list ascii) (acc : Z) : option Z :=
  match l with
  | [] => Some acc
  | c :: r => let n := nat_of_ascii c in
              if ((48 <=? n)%nat && (n <=? 57)%nat)%bool then digits_val r (acc * 10 + Z.of_nat (n - 48))%Z else None
  end.
Definition i64_min : Z := (- 9223372036854775808)%Z.
Definition i64_max : Z := 9223372036854775807%Z.
Definition parse_i64 (s : string) : option Z :=
  match list_ascii_of_string s with
  | [] => None
  | c :: r =>
      let neg := Ascii.eqb c (Ascii.ascii_of_nat 45) in
      let ds := if Ascii.eqb c (Ascii.ascii_of_nat 43) || neg then r else c :: r in
      match ds with
      | [] => None
      | _ => match digits_val ds 0%Z with
             | None => None
             | Some v => let v' := if neg then (- v)%Z else v in
                         if (i64_min <=? v')%Z && (v' <=? i64_max)%Z then Some v' else None
             end
      end
  end.
(* [&str]::join("$") *)
Fixpoint join_dollar (l : list string) : string :=
  match l with [] => "" | [x] => x | x :: r => (x ++ "$" ++ join_dollar r)%string end.
(* `fields.sort_by(|a, b| a.name.as_ref().cmp(b.name.as_ref()))`: stable sort by byte-wise string order *)
Definition str_leb (a b : string) : bool := match String.compare a b with Gt => false | _ => true end.
Fixpoint insert_field {A : Type} (x : string * A) (l : list (string * A)) : list (string * A) :=
  match l with
  | [] => [x]
  | y :: r => if str_leb (fst y) (fst x) then y :: insert_field x r else x :: y :: r
  end.
Definition sort_fields {A : Type} (l : list (string * A)) : list (string * A) :=
  fold_left (fun acc x => insert_field x acc) l [].

(* the fold of node_span over the children: (start, end) accumulators, filter_map over self.node_span of each child *)
Section SpanFold.
  Variable f : tree -> option span.
  Fixpoint span_fold (l : list tree) (acc : option N * option N) : option N * option N :=
    match l with
    | [] => acc
    | c :: r =>
        match f c with
        | None => span_fold r acc
        | Some sp =>
            span_fold r (Some (match fst acc with None => s_start sp | Some s => N.min s (s_start sp) end),
                         Some (match snd acc with None => s_end sp | Some e => N.max e (s_end sp) end))
        end
    end.
End SpanFold.

(* ---------------------------------------------------------------------------------------------- *)
(* functions of `impl Lowerer` that read the tree and the token table                               *)
(* ---------------------------------------------------------------------------------------------- *)
Section WithTokens.
  Variable toks : nat -> option tokinfo.       (* self.tokens.get(i) *)

  (* location_from_span *)
  Definition location_from_span (sp : span) : loc := mkLoc sp true.
  (* walk_tokens: the token indices below a node, in order *)
  Definition walk_tokens (t : tree) : list nat := leaves t.
  (* find_token *)
  Definition tok_kind_is (p : TokenKind -> bool) (idx : nat) : bool :=
    match toks idx with Some t => p (t_kind t) | None => false end.
  Definition find_token (t : tree) (p : TokenKind -> bool) : option nat := find (tok_kind_is p) (walk_tokens t).
  (* token_text *)
  Definition token_text (idx : nat) : option string := option_map t_text (toks idx).
  (* text_of_first_token *)
  Definition text_of_first_token (t : tree) : option string :=
    match walk_tokens t with [] => None | idx :: _ => token_text idx end.
  (* `get_token_index(child)` && `tokens.get(idx)` && `matches!(token.kind, ..)`: the token of a Token child of that kind *)
  Definition token_child (p : TokenKind -> bool) (t : tree) : option tokinfo :=
    match get_token_index t with
    | Some idx => match toks idx with Some tk => if p (t_kind tk) then Some tk else None | None => None end
    | None => None
    end.

  (* node_span: min start .. max end over the tokens below the node that exist in the table *)
  Fixpoint node_span (t : tree) : option span :=
    match t with
    | TTok p => option_map t_span (toks p)
    | TNode _ ch =>
        match span_fold node_span ch (None, None) with
        | (Some s, Some e) => Some (mkSpan s e)
        | _ => None
        end
    end.
  Definition node_span_or0 (t : tree) : span := match node_span t with Some s => s | None => span0 end.

  (* find_child *)
  Definition find_child (t : tree) (p : SyntaxKind -> bool) : option tree :=
    match children_of t with Some ch => find (kind_is p) ch | None => None end.
  (* child_exprs / collect_expr_nodes (the same function twice in lower.rs) *)
  Definition child_exprs (t : tree) : list tree := filter is_expr_node (children_or_nil t).
  Definition collect_expr_nodes (t : tree) : list tree := filter is_expr_node (children_or_nil t).
  (* child_patterns *)
  Definition child_patterns (t : tree) : list tree := filter is_pattern_node (children_or_nil t).
  (* collect_expr_nodes_after(node, after) with after = find_child(node, is_pattern_kind): see the header *)
  Fixpoint skip_through_first {A : Type} (p : A -> bool) (l : list A) : list A :=
    match l with [] => [] | x :: r => if p x then r else skip_through_first p r end.
  Definition collect_expr_nodes_after_pattern (t : tree) : list tree :=
    filter is_expr_node (skip_through_first is_pattern_node (children_or_nil t)).
  (* the first type node among the children of a TypeAnnotation node etc.:
     `children.iter().find(|c| kind(c).map(is_type_kind).unwrap_or(false))` *)
  Definition find_type_child (ch : list tree) : option tree := find is_type_node ch.
  (* extract_visibility *)
  Definition extract_visibility (t : tree) : visibility :=
    match find_child t sk_VisibilityPub with Some _ => VPublic | None => VPrivate end.

  (* extract_unary_op *)
  Fixpoint first_unary_op (l : list nat) : option op :=
    match l with
    | [] => None
    | idx :: r =>
        match toks idx with
        | None => first_unary_op r              (* `self.tokens.get(idx)?` inside find_map's closure: None, go on *)
        | Some t => match t_kind t with KOpMinus => Some OMinus | KOpSum => Some OSum | _ => first_unary_op r end
        end
    end.
  Definition extract_unary_op (t : tree) : option op := first_unary_op (walk_tokens t).

  (* extract_binary_op: the first DIRECT token child that is a binary operator *)
  Definition binop_of_kind (k : TokenKind) : option op :=
    match k with
    | KOpSum => Some OSum | KOpMinus => Some OMinus | KOpProduct => Some OProduct | KOpDivide => Some ODivide
    | KOpEqual => Some OEqual | KOpNotEqual => Some ONotEqual | KOpLessThan => Some OLessThan
    | KOpLessEqual => Some OLessEqual | KOpGreaterThan => Some OGreaterThan | KOpGreaterEqual => Some OGreaterEqual
    | KOpModulo => Some OModulo | KOpExponent => Some OExponent | KOpAnd => Some OAnd | KOpOr => Some OOr
    | KOpAt => Some OAt | KOpPipe => Some OPipe | KOpPipeMacro => Some OPipeMacro
    | _ => None
    end.
  Fixpoint first_binary_op (ch : list tree) : option (op * span) :=
    match ch with
    | [] => None
    | c :: r =>
        match get_token_index c with
        | Some idx => match toks idx with
                      | Some tk => match binop_of_kind (t_kind tk) with
                                   | Some o => Some (o, t_span tk)
                                   | None => first_binary_op r
                                   end
                      | None => first_binary_op r
                      end
        | None => first_binary_op r
        end
    end.
  Definition extract_binary_op (t : tree) : option (op * span) :=
    match children_of t with Some ch => first_binary_op ch | None => None end.
End WithTokens.

(* ---------------------------------------------------------------------------------------------- *)
(* ast/statement.rs                                                                                 *)
(* ---------------------------------------------------------------------------------------------- *)
(* stmt_from_expr / stmt_from_expr_top *)
Fixpoint stmt_from_expr (e : expr) : list stmt :=
  match e with
  | Ex (NLet pat e1 then_opt) _ =>
      StmLet pat e1 :: match then_opt with Some t => stmt_from_expr t | None => [] end
  | Ex (NLetRec id e1 then_opt) _ =>
      StmLetRec id e1 :: match then_opt with Some t => stmt_from_expr t | None => [] end
  | _ => [StmSingle e]
  end.
Definition stmt_from_expr_top (e : expr) : list stmt := stmt_from_expr e.

(* into_then_expr: one closure per statement (built first to last, threading last_stage), applied last to first *)
Inductive then_closure :=
  | CLet (p : typed_pattern) (e : expr) (l : loc)
  | CLetRec (id : typed_id) (e : expr) (l : loc)
  | CAssign (a b : expr) (l : loc)
  | CSingle (e : expr) (l : loc)
  | CBracket (l : loc)          (* then.map(|e| Expr::Bracket(e).into_id(loc)) *)
  | CEscape (l : loc)           (* then.map(|e| Expr::Escape(e).into_id(loc)) *)
  | CIdentity                   (* |then| then *)
  | CErrorStmt (l : loc).
Fixpoint then_closures (stmts : list (stmt * loc)) (last_stage : stage) : list then_closure :=
  match stmts with
  | [] => []
  | (s, l) :: r =>
      match s with
      | StmLet p e => CLet p e l :: then_closures r last_stage
      | StmLetRec id e => CLetRec id e l :: then_closures r last_stage
      | StmAssign a b => CAssign a b l :: then_closures r last_stage
      | StmSingle e => CSingle e l :: then_closures r last_stage
      | StmDeclareStage k =>
          (match last_stage, k with
           | StMacro, StMain => CBracket l
           | StMain, StMacro => CEscape l
           | StPersistent, _ => CIdentity
           | _, _ => CIdentity
           end) :: then_closures r k
      | StmError => CErrorStmt l :: then_closures r last_stage
      end
  end.
Definition apply_then_closure (c : then_closure) (then_ : option expr) : option expr :=
  match c with
  | CLet p e l => Some (Ex (NLet p e then_) l)
  | CLetRec id e l => Some (Ex (NLetRec id e then_) l)
  | CAssign a b l => Some (Ex (NThen (Ex (NAssign a b) l) then_) l)
  | CSingle e l => match then_ with None => Some e | Some t => Some (Ex (NThen e (Some t)) l) end
  | CBracket l => option_map (fun e => Ex (NBracket e) l) then_
  | CEscape l => option_map (fun e => Ex (NEscape e) l) then_
  | CIdentity => then_
  | CErrorStmt l => Some (Ex (NThen (Ex NError l) then_) l)
  end.
Definition into_then_expr (stmts : list (stmt * loc)) : option expr :=
  fold_right apply_then_closure None (then_closures stmts StMain).

(* `Expr::Error.into_id_without_span()` and `Expr::Error.into_id(loc)` *)
Definition error_without_span : expr := Ex NError loc_default.
(* `Expr::Block(None).into_id_without_span()`: the unit value of an empty function body *)
Definition unit_without_span : expr := Ex (NBlock None) loc_default.
