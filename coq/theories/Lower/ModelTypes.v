(* Lower/ModelTypes.v — model of lower.rs, part 2: the recursion knot, lower_type, lower_variant_def's payload, lower_pattern,
   lower_match_pattern / lower_constructor_pattern / lower_tuple_pattern / lower_match_tuple_pattern.  Definitions only.

   Recursion.  Every recursive `self.lower_*` call of lower.rs goes through the record `knot`: the body of each function is a
   non-recursive definition over an arbitrary knot K, and ModelStmt.lw ties the knot with explicit FUEL: `lw (S f)` runs the
   bodies over `lw f`, `lw 0` answers OutOfFuel.  Hence the fuel decreases by one at every (recursive) call of
   lower_expr, lower_expr_sequence, lower_statement, lower_type, lower_pattern, lower_match_pattern, lower_tuple_pattern
   and bounds the recursion depth of the Rust code.  Loops over children are structural recursions over the children list. *)
From Coq Require Import String Ascii List Bool Arith NArith ZArith.
From Mimium Require Import Tables.LexerTables Tables.TokenKinds Parser.Model Lower.Ast Lower.Model.
Import ListNotations.
Open Scope string_scope.
Open Scope list_scope.
Open Scope nat_scope.

Record knot := mkKnot {
  k_expr : tree -> res expr;                          (* lower_expr *)
  k_seq : list tree -> res expr;                      (* lower_expr_sequence *)
  k_stmt : tree -> res (option (pstmt * span));       (* lower_statement *)
  k_type : tree -> res typ;                           (* lower_type *)
  k_pat : tree -> res (option (pattern * span));      (* lower_pattern *)
  k_mpat : tree -> res mpat;                          (* lower_match_pattern *)
  k_tpat : tree -> res mpat                           (* lower_tuple_pattern *)
}.

(* `xs.iter().map(|x| f(x)).collect()` with a lowering function *)
Fixpoint mapM {A B : Type} (f : A -> res B) (l : list A) : res (list B) :=
  match l with
  | [] => Ok []
  | x :: r => let* y := f x in let* ys := mapM f r in Ok (y :: ys)
  end.
Definition optM {A B : Type} (f : A -> res B) (o : option A) : res (option B) :=
  match o with None => Ok None | Some x => let* y := f x in Ok (Some y) end.

Section WithKnot.
  Variable toks : nat -> option tokinfo.
  Variable K : knot.

  (* `Type::Unknown.into_id_with_location(loc)` *)
  Definition unknown_at (l : loc) : typ := Ty TUnknown l.

  (* the loop of the RecordType arm of lower_type: (fields, current_field) *)
  Fixpoint record_type_fields (ch : list tree) (current : option string) : res (list (string * typ * bool)) :=
    match ch with
    | [] => Ok []
    | c :: r =>
        match token_child toks tk_Ident_or_Parameter c with
        | Some tk => record_type_fields r (Some (t_text tk))                              (* continue *)
        | None =>
            if is_type_node c then
              match current with
              | Some name => let* t := k_type K c in
                             let* rest := record_type_fields r None in
                             Ok ((name, t, false) :: rest)
              | None => record_type_fields r None
              end
            else record_type_fields r current
        end
    end.
  (* the loop of the TypeIdent arm: texts of the direct Ident token children *)
  Fixpoint type_ident_segments (ch : list tree) : list string :=
    match ch with
    | [] => []
    | c :: r => match token_child toks tk_Ident c with
                | Some tk => t_text tk :: type_ident_segments r
                | None => type_ident_segments r
                end
    end.

  (* lower_type *)
  Definition lower_type (node : tree) : res typ :=
    let l := location_from_span (node_span_or0 toks node) in
    match kind_of node with
    | Some SPrimitiveType =>
        let text := match text_of_first_token toks node with Some s => s | None => "float" end in
        let p := if String.eqb text "float" then PNumeric
                 else if String.eqb text "int" then PInt
                 else if String.eqb text "string" then PString
                 else PNumeric in
        Ok (Ty (TPrimitive p) l)
    | Some SUnitType => Ok (Ty (TPrimitive PUnit) l)
    | Some STupleType =>
        let* ts := mapM (k_type K) (filter is_type_node (children_or_nil node)) in
        Ok (Ty (TTuple ts) l)
    | Some SArrayType =>
        let* t := match find_type_child (children_or_nil node) with
                  | Some c => k_type K c
                  | None => Ok (unknown_at l)
                  end in
        Ok (Ty (TArray t) l)
    | Some SFunctionType =>
        let children := filter is_type_node (children_or_nil node) in
        if 2 <=? length children then
          let* lowered := mapM (k_type K) children in
          (* `*lowered.last().unwrap_or(&Unknown)` *)
          let return_type := last lowered (unknown_at l) in
          let* param_type :=
            if length lowered =? 2 then
              match nth_error lowered 0 with Some t => Ok t | None => Panic "lower_type: lowered[0]" end
            else if 1 <=? length lowered then Ok (Ty (TTuple (firstn (length lowered - 1) lowered)) l)
            else Panic "lower_type: lowered[..lowered.len() - 1]" in
          Ok (Ty (TFunction param_type return_type) l)
        else Ok (unknown_at l)
    | Some SRecordType =>
        let* fs := record_type_fields (children_or_nil node) None in
        Ok (Ty (TRecord fs) l)
    | Some SCodeType =>
        let* t := match find_type_child (children_or_nil node) with
                  | Some c => k_type K c
                  | None => Ok (unknown_at l)
                  end in
        Ok (Ty (TCode t) l)
    | Some SUnionType =>
        let* ts := mapM (k_type K) (filter is_type_node (children_or_nil node)) in
        Ok (Ty (TUnion ts) l)
    | Some STypeIdent =>
        let segs := type_ident_segments (children_or_nil node) in
        match segs with
        | [] => Ok (unknown_at l)
        | _ => Ok (Ty (TTypeAlias (join_dollar segs)) l)
        end
    | _ =>
        match token_child toks tk_Ident node with
        | Some tk => Ok (Ty (TTypeAlias (t_text tk)) l)
        | None => Ok (unknown_at l)
        end
    end.

  (* the type inside a TypeAnnotation node: `arena.children(anno).and_then(|cs| cs.iter().find(is type).map(lower_type))` *)
  Definition lower_annotation_type (anno : tree) : res (option typ) :=
    match children_of anno with
    | Some cs => optM (k_type K) (find_type_child cs)
    | None => Ok None
    end.

  (* ------------------------------------------------------------------------------------------ *)
  (* lower_pattern                                                                                *)
  (* ------------------------------------------------------------------------------------------ *)
  (* `.filter_map(|id| self.lower_pattern(id)).map(|(p, _)| p).collect()` *)
  Fixpoint tuple_pattern_elems (l : list tree) : res (list pattern) :=
    match l with
    | [] => Ok []
    | c :: r => let* o := k_pat K c in
                let* rest := tuple_pattern_elems r in
                Ok (match o with Some (p, _) => p :: rest | None => rest end)
    end.
  (* the fold of the RecordPattern arm: (items, current) *)
  Fixpoint record_pattern_items (ch : list tree) (current : option string) : res (list (string * pattern)) :=
    match ch with
    | [] => Ok []
    | c :: r =>
        match token_child toks tk_Ident_or_Parameter c with
        | Some tk => record_pattern_items r (Some (t_text tk))
        | None =>
            if is_pattern_node c then
              let* o := k_pat K c in
              match o with
              | Some (p, _) =>
                  match current with
                  | Some name => let* rest := record_pattern_items r None in Ok ((name, p) :: rest)
                  | None => record_pattern_items r None
                  end
              | None => record_pattern_items r current
              end
            else record_pattern_items r current
        end
    end.
  Definition lower_pattern (node : tree) : res (option (pattern * span)) :=
    match node_span toks node with
    | None => Ok None                                        (* `let span = self.node_span(node)?;` *)
    | Some sp =>
        match kind_of node with
        | Some SPattern =>
            match child_patterns node with
            | child :: _ => k_pat K child                    (* return self.lower_pattern(child) *)
            | [] => Ok (Some (PError, sp))
            end
        | Some SSinglePattern =>
            let name_text := match text_of_first_token toks node with Some s => s | None => "" end in
            Ok (Some ((if String.eqb name_text "_" then PPlaceholder else PSingle name_text), sp))
        | Some STuplePattern =>
            let* elems := tuple_pattern_elems (child_patterns node) in
            Ok (Some (PTuple elems, sp))
        | Some SRecordPattern =>
            let* items := record_pattern_items (children_or_nil node) None in
            Ok (Some (PRecord items, sp))
        | _ => Ok (Some (PError, sp))
        end
    end.

  (* ------------------------------------------------------------------------------------------ *)
  (* match patterns                                                                               *)
  (* ------------------------------------------------------------------------------------------ *)
  (* lower_match_tuple_pattern *)
  Definition lower_match_tuple_pattern (node : tree) : res mpat :=
    let* ps := mapM (k_mpat K) (filter (kind_is sk_MatchPattern) (children_or_nil node)) in
    Ok (MTuple ps).

  (* lower_constructor_pattern: the loop with (constructor_name, inner_pattern) *)
  Fixpoint constructor_pattern_loop (ch : list tree) (name : option string) (inner : option mpat) : res mpat :=
    match ch with
    | [] => Ok (match name with Some n => MConstructor n inner | None => MWildcard end)
    | c :: r =>
        match kind_of c with
        | Some SIdentifier =>
            match text_of_first_token toks c with
            | Some text =>
                match name with
                | None => constructor_pattern_loop r (Some text) inner
                | Some _ => constructor_pattern_loop r name (Some (MVariable text))
                end
            | None => constructor_pattern_loop r name inner
            end
        | Some SPlaceHolderLiteral => constructor_pattern_loop r name (Some MWildcard)
        | Some STuplePattern => let* p := k_tpat K c in constructor_pattern_loop r name (Some p)
        | _ => constructor_pattern_loop r name inner
        end
    end.
  Definition lower_constructor_pattern (node : tree) : res mpat :=
    constructor_pattern_loop (children_or_nil node) None None.

  (* lower_match_pattern: the first child that decides *)
  Fixpoint match_pattern_loop (ch : list tree) : res mpat :=
    match ch with
    | [] => Ok MWildcard
    | c :: r =>
        match kind_of c with
        | Some SIntLiteral =>
            match text_of_first_token toks c with
            | Some text => match parse_i64 text with
                           | Some n => Ok (MLiteral (LInt n))
                           | None => match_pattern_loop r
                           end
            | None => match_pattern_loop r
            end
        | Some SFloatLiteral =>
            match text_of_first_token toks c with
            | Some text => Ok (MLiteral (LFloat text))
            | None => match_pattern_loop r
            end
        | Some SPlaceHolderLiteral => Ok MWildcard
        | Some SConstructorPattern => lower_constructor_pattern c
        | Some STuplePattern => lower_match_tuple_pattern c
        | Some SIdentifier =>
            match text_of_first_token toks c with
            | Some text => Ok (MConstructor text None)
            | None => match_pattern_loop r
            end
        | _ => match_pattern_loop r
        end
    end.
  Definition lower_match_pattern (node : tree) : res mpat := match_pattern_loop (children_or_nil node).

  (* lower_tuple_pattern *)
  Fixpoint tuple_pattern_loop (ch : list tree) : res (list mpat) :=
    match ch with
    | [] => Ok []
    | c :: r =>
        match kind_of c with
        | Some SIdentifier | Some SSinglePattern =>
            let* rest := tuple_pattern_loop r in
            Ok (match text_of_first_token toks c with Some text => MVariable text :: rest | None => rest end)
        | Some SPlaceHolderLiteral => let* rest := tuple_pattern_loop r in Ok (MWildcard :: rest)
        | Some STuplePattern => let* p := k_tpat K c in let* rest := tuple_pattern_loop r in Ok (p :: rest)
        | _ => tuple_pattern_loop r
        end
    end.
  Definition lower_tuple_pattern (node : tree) : res mpat :=
    let* patterns := tuple_pattern_loop (children_or_nil node) in
    match patterns with
    | [MTuple ps] => Ok (MTuple ps)          (* `patterns.len() == 1` && Tuple: `return patterns.pop().unwrap()` *)
    | _ => Ok (MTuple patterns)
    end.
End WithKnot.
