(* Lower/PointsExpr.v — every point of the result satisfies P, part 1: the knot hypothesis and the functions of ModelTypes.v
   and ModelExpr.v (match patterns carry no Location: nothing to prove for them). *)
From Coq Require Import String List Bool Arith NArith Lia.
From Mimium Require Import Tables.LexerTables Tables.TokenKinds Parser.Model Lower.Ast Lower.Model Lower.ModelTypes
  Lower.ModelExpr Lower.ModelStmt Lower.Facts Lower.Points.
Import ListNotations.

Definition pat_span_pts (P : N -> Prop) (x : pattern * span) : Prop := span_pts P (snd x).

Definition pts_knot (P : N -> Prop) (K : knot) : Prop :=
  (forall t, res_pts (expr_pts P) (k_expr K t)) /\
  (forall l, res_pts (expr_pts P) (k_seq K l)) /\
  (forall t, res_pts (all_opt (stmt_span_pts P)) (k_stmt K t)) /\
  (forall t, res_pts (typ_pts P) (k_type K t)) /\
  (forall t, res_pts (all_opt (pat_span_pts P)) (k_pat K t)).

Ltac pstep :=
  match goal with
  | |- res_pts _ (Ok _) => cbn [res_pts]
  | |- res_pts _ (Panic _) => exact I
  | |- res_pts _ (match (match ?y with _ => _ end) with _ => _ end) => destruct y eqn:?
  | |- res_pts _ (match ?x with _ => _ end) => destruct x eqn:?
  end.

Section Pts.
  Variable P : N -> Prop.
  Hypothesis HP0 : P 0%N.
  Variable toks : nat -> option tokinfo.
  Hypothesis Htoks : forall i tk, toks i = Some tk -> P (t_start tk) /\ P (t_end tk).
  Variable K : knot.
  Hypothesis HK : pts_knot P K.

  Lemma HE : forall t, res_pts (expr_pts P) (k_expr K t). Proof. apply HK. Qed.
  Lemma HS : forall l, res_pts (expr_pts P) (k_seq K l). Proof. apply HK. Qed.
  Lemma HSt : forall t, res_pts (all_opt (stmt_span_pts P)) (k_stmt K t). Proof. apply HK. Qed.
  Lemma HT : forall t, res_pts (typ_pts P) (k_type K t). Proof. apply HK. Qed.
  Lemma HPa : forall t, res_pts (all_opt (pat_span_pts P)) (k_pat K t). Proof. apply HK. Qed.

  Ltac bindp g := apply (res_pts_bind _ _ g); [ | intros ? ? ? ].
  Ltac basics :=
    eauto using node_span_or0_pts, node_span_pts, location_pts, merge_pts, to_span_pts, span0_pts, loc_default_pts,
      error_without_span_pts, t_span_pts, token_child_pts, macro_expand_span_pts, extract_binary_op_pts.

  Lemma loc_of_node : forall node, loc_pts P (location_from_span (node_span_or0 toks node)).
  Proof. intros node. apply location_pts. basics. Qed.

  Lemma unknown_at_pts : forall l, loc_pts P l -> typ_pts P (unknown_at l).
  Proof. intros l H. split; [exact H | exact I]. Qed.

  (* ---- types ---- *)
  Definition field_ty_pts (f : string * typ * bool) : Prop := typ_pts P (snd (fst f)).

  Lemma record_type_fields_pts : forall ch cur, res_pts (all_list field_ty_pts) (record_type_fields toks K ch cur).
  Proof.
    induction ch as [|c r IH]; intros cur; cbn [record_type_fields]; [exact I|].
    destruct (token_child toks tk_Ident_or_Parameter c); [apply IH|].
    destruct (is_type_node c); [|apply IH]. destruct cur; [|apply IH].
    bindp (typ_pts P); [apply HT|]. bindp (all_list field_ty_pts); [apply IH|]. cbn. tauto.
  Qed.

  Lemma mapM_type_pts : forall l, res_pts (all_list (typ_pts P)) (mapM (k_type K) l).
  Proof. intros l. apply mapM_pts. apply HT. Qed.

  Lemma lower_type_pts : forall node, res_pts (typ_pts P) (lower_type toks K node).
  Proof.
    intros node. unfold lower_type. cbv zeta. pose proof (loc_of_node node) as Hl.
    set (l := location_from_span (node_span_or0 toks node)) in *.
    assert (Hu : typ_pts P (unknown_at l)) by (apply unknown_at_pts; exact Hl).
    destruct (kind_of node) as [k|]; [destruct k|];
      try (repeat pstep; cbn [typ_pts tnode_pts]; tauto).
    - (* FunctionType *)
      destruct (2 <=? length (filter is_type_node (children_or_nil node))); [|exact Hu].
      bindp (all_list (typ_pts P)); [apply mapM_type_pts|].
      bindp (typ_pts P).
      + repeat pstep; [eapply all_list_nth_error; eauto | split; [exact Hl | apply all_list_firstn; assumption]].
      + cbn [res_pts typ_pts tnode_pts]. split; [exact Hl|]. split; [assumption|]. apply all_list_last; assumption.
    - (* TupleType *) bindp (all_list (typ_pts P)); [apply mapM_type_pts|]. cbn. tauto.
    - (* RecordType *) bindp (all_list field_ty_pts); [apply record_type_fields_pts|]. cbn. tauto.
    - (* ArrayType *) bindp (typ_pts P); [destruct (find_type_child (children_or_nil node)); [apply HT | exact Hu]|]. cbn. tauto.
    - (* CodeType *) bindp (typ_pts P); [destruct (find_type_child (children_or_nil node)); [apply HT | exact Hu]|]. cbn. tauto.
    - (* UnionType *) bindp (all_list (typ_pts P)); [apply mapM_type_pts|]. cbn. tauto.
  Qed.

  Lemma lower_annotation_type_pts : forall anno, res_pts (all_opt (typ_pts P)) (lower_annotation_type K anno).
  Proof. intros anno. unfold lower_annotation_type. destruct (children_of anno); [|exact I]. apply optM_pts. apply HT. Qed.

  (* ---- patterns: only the span ---- *)
  Lemma lower_pattern_pts : forall node, res_pts (all_opt (pat_span_pts P)) (lower_pattern toks K node).
  Proof.
    intros node. unfold lower_pattern. destruct (node_span toks node) as [sp|] eqn:E; [|exact I].
    assert (Hs : span_pts P sp) by basics.
    destruct (kind_of node) as [k|]; [destruct k|]; try exact Hs;
      try (destruct (text_of_first_token toks node); exact Hs).
    - (* Pattern *) destruct (child_patterns node); [exact Hs | apply HPa].
    - (* TuplePattern *) apply (res_pts_bind _ _ (fun _ => True)); [destruct (tuple_pattern_elems K (child_patterns node)); exact I|]. intros; exact Hs.
    - (* RecordPattern *) apply (res_pts_bind _ _ (fun _ => True)); [destruct (record_pattern_items toks K (children_or_nil node) None); exact I|]. intros; exact Hs.
  Qed.
  (* ------------------------------------------------------------------------------------------ *)
  (* expressions                                                                                  *)
  (* ------------------------------------------------------------------------------------------ *)
  Ltac kbind :=
    match goal with
    | |- res_pts _ (bind (k_expr K _) _) => bindp (expr_pts P); [apply HE|]
    | |- res_pts _ (bind (k_seq K _) _) => bindp (expr_pts P); [apply HS|]
    | |- res_pts _ (bind (k_type K _) _) => bindp (typ_pts P); [apply HT|]
    end.
  Ltac fin :=
    cbn [res_pts expr_pts enode_pts typ_pts tnode_pts tid_pts tpat_pts all_list all_opt fst snd] in *;
    repeat match goal with H : _ /\ _ |- _ => destruct H end; repeat match goal with |- _ /\ _ => split end; basics.
  Ltac go := repeat (first [kbind | pstep]); try exact I.

  Definition pair_pts (lr : expr * expr) : Prop := expr_pts P (fst lr) /\ expr_pts P (snd lr).
  Definition field_pts (f : string * expr) : Prop := expr_pts P (snd f).

  Lemma collect_args_pts : forall ch, res_pts (all_list (expr_pts P)) (collect_args toks K ch).
  Proof. intros ch. unfold collect_args. apply mapM_pts. apply HS. Qed.

  Lemma lower_arg_list_pts : forall node, res_pts (all_list (expr_pts P)) (lower_arg_list toks K node).
  Proof. intros node. unfold lower_arg_list. repeat pstep; try exact I; apply collect_args_pts. Qed.

  Lemma lower_expr_list_pts : forall node, res_pts (all_list (expr_pts P)) (lower_expr_list toks K node).
  Proof. intros node. unfold lower_expr_list. repeat pstep; try exact I; apply collect_args_pts. Qed.

  Lemma lower_binary_pts : forall node, res_pts (expr_pts P) (lower_binary toks K node).
  Proof.
    intros node. unfold lower_binary.
    set (oo := match extract_binary_op toks node with Some x => x | None => (OUnknown "", span0) end).
    assert (Ho : span_pts P (snd oo)).
    { unfold oo. destruct (extract_binary_op toks node) as [[o sp]|] eqn:E; cbn [snd]; basics. }
    destruct oo as [o osp]. cbn [snd] in Ho.
    bindp pair_pts.
    - unfold pair_pts. go; fin.
    - unfold pair_pts in *. destruct a as [lhs rhs]. fin.
  Qed.

  Lemma lower_first_or_error_pts : forall l, res_pts (expr_pts P) (lower_first_or_error K l).
  Proof. intros l. unfold lower_first_or_error. go; first [apply HE | fin]. Qed.

  Lemma all_list_unwrap : forall l, all_list (expr_pts P) l -> all_list (expr_pts P) (map unwrap_paren l).
  Proof. intros l H. apply all_list_map. eapply all_list_impl; [|exact H]. intros x Hx. apply unwrap_paren_pts. exact Hx. Qed.

  Lemma lower_call_pts : forall node, res_pts (expr_pts P) (lower_call toks K node).
  Proof.
    intros node. unfold lower_call.
    bindp (expr_pts P); [apply lower_first_or_error_pts|].
    bindp (all_list (expr_pts P)); [apply lower_arg_list_pts|].
    cbv zeta. cbn [res_pts expr_pts enode_pts]. split; [|split; [assumption | apply all_list_unwrap; assumption]].
    apply location_pts. apply merge_pts; [basics|]. destruct (node_span toks node) eqn:E; basics.
  Qed.

  Lemma lower_field_access_pts : forall node, res_pts (expr_pts P) (lower_field_access toks K node).
  Proof.
    intros node. unfold lower_field_access.
    bindp (expr_pts P); [apply lower_first_or_error_pts|]. cbv zeta. cbn [res_pts]. apply expr_pts_Ex.
    - apply location_pts. destruct (node_span toks node) eqn:E; basics.
    - repeat match goal with |- enode_pts _ (match ?x with _ => _ end) => destruct x end; cbn [enode_pts]; try exact I; basics.
  Qed.

  Lemma lower_index_pts : forall node, res_pts (expr_pts P) (lower_index K node).
  Proof.
    intros node. unfold lower_index. bindp pair_pts.
    - unfold pair_pts. go; fin.
    - unfold pair_pts in *. destruct a as [lhs index]. fin.
  Qed.

  Lemma lower_assign_pts : forall lhs node, expr_pts P lhs -> res_pts (expr_pts P) (lower_assign K lhs node).
  Proof. intros lhs node Hl. unfold lower_assign. go. fin. Qed.

  Lemma lower_macro_expand_pts : forall node,
    res_pts (fun ca => expr_pts P (fst ca) /\ all_list (expr_pts P) (snd ca)) (lower_macro_expand toks K node).
  Proof.
    intros node. unfold lower_macro_expand.
    bindp (all_list (expr_pts P)); [apply lower_arg_list_pts|]. cbv zeta.
    assert (Hsimple : forall idx, span_pts P (match idx with
                                               | Some i => match toks i with Some t => t_span t | None => span0 end
                                               | None => span0 end)).
    { intros [i|]; [destruct (toks i) eqn:E|]; basics. }
    repeat pstep; cbn [fst snd expr_pts enode_pts]; (split; [split; [|exact I] | assumption]);
      apply location_pts; apply macro_expand_span_pts; auto; basics.
  Qed.

  (* ---- parameters ---- *)
  Lemma child_at_if_pts : forall children next p why, res_pts (fun _ => True) (child_at_if children next p why).
  Proof. intros. destruct (child_at_if children next p why); exact I. Qed.

  Lemma param_annotation_pts : forall children next l, loc_pts P l ->
    res_pts (fun tn => typ_pts P (fst tn)) (param_annotation K children next l).
  Proof.
    intros children next l Hl. unfold param_annotation.
    bindp (fun _ : option tree => True); [apply child_at_if_pts|].
    destruct a as [anno|]; [|cbn; apply unknown_at_pts; exact Hl].
    bindp (all_opt (typ_pts P)); [apply lower_annotation_type_pts|].
    destruct a as [t|]; cbn in *; [assumption | apply unknown_at_pts; exact Hl].
  Qed.

  Lemma token_loc_pts : forall p c tk, token_child toks p c = Some tk -> loc_pts P (location_from_span (t_span tk)).
  Proof. intros p c tk H. apply location_pts. basics. Qed.

  Lemma lambda_loop_pts : forall children idxs next,
    res_pts (fun pb => all_list (tid_pts P) (fst pb)) (lambda_loop toks K children idxs next).
  Proof.
    intros children idxs. induction idxs as [|i rest IH]; intros next; cbn [lambda_loop]; [exact I|].
    destruct (i <? next); [apply IH|]. destruct (nth_error children i) as [child|]; [|exact I].
    destruct (kind_of child) as [kind|].
    - destruct (is_expr_kind kind); [|apply IH].
      bindp (fun pb : list typed_id * list tree => all_list (tid_pts P) (fst pb)); [apply IH|]. cbn [res_pts fst]. assumption.
    - destruct (token_child toks tk_Ident_or_Parameter child) as [token|] eqn:Et; [|apply IH].
      bindp (fun tn : typ * nat => typ_pts P (fst tn)); [apply param_annotation_pts; eapply token_loc_pts; eauto|].
      destruct a as [ty nx].
      bindp (fun pb : list typed_id * list tree => all_list (tid_pts P) (fst pb)); [apply IH|].
      cbn [res_pts fst all_list tid_pts all_opt] in *. tauto.
  Qed.

  Lemma lower_lambda_pts : forall node,
    res_pts (fun pb => all_list (tid_pts P) (fst pb) /\ expr_pts P (snd pb)) (lower_lambda toks K node).
  Proof.
    intros node. unfold lower_lambda.
    bindp (fun pb : list typed_id * list tree => all_list (tid_pts P) (fst pb)).
    - destruct (children_of node); [apply lambda_loop_pts | exact I].
    - go. cbn [fst snd]. tauto.
  Qed.

  Lemma param_loop_pts : forall children idxs next, res_pts (all_list (tid_pts P)) (param_loop toks K children idxs next).
  Proof.
    intros children idxs. induction idxs as [|i rest IH]; intros next; cbn [param_loop]; [exact I|].
    destruct (i <? next); [apply IH|]. destruct (nth_error children i) as [child|]; [|exact I].
    destruct (token_child toks tk_Ident_or_Parameter child) as [token|] eqn:Et; [|apply IH].
    bindp (fun tn : typ * nat => typ_pts P (fst tn)); [apply param_annotation_pts; eapply token_loc_pts; eauto|].
    destruct a as [ty nx].
    bindp (fun _ : option tree => True); [apply child_at_if_pts|].
    bindp (fun dn : option expr * nat => all_opt (expr_pts P) (fst dn)).
    - destruct a as [dflt|]; [|exact I]. destruct (child_exprs dflt); [exact I|]. go. cbn [fst all_opt]. assumption.
    - destruct a0 as [dv nx2].
      bindp (all_list (tid_pts P)); [apply IH|]. cbn [res_pts fst all_list tid_pts] in *. tauto.
  Qed.

  Lemma lower_param_list_pts : forall node,
    res_pts (fun ps => all_list (tid_pts P) (fst ps) /\ span_pts P (snd ps)) (lower_param_list toks K node).
  Proof.
    intros node. unfold lower_param_list.
    bindp (all_list (tid_pts P)); [destruct (children_of node); [apply param_loop_pts | exact I]|].
    cbn [res_pts fst snd]. split; [assumption | basics].
  Qed.

  (* ---- records, blocks, match ---- *)
  Lemma record_fields_loop_pts : forall ch cur, res_pts (all_list field_pts) (record_fields_loop toks K ch cur).
  Proof.
    induction ch as [|c r IH]; intros cur; cbn [record_fields_loop]; [exact I|].
    destruct (token_child toks tk_Ident c); [apply IH|].
    destruct (is_expr_node c); [|apply IH]. destruct cur; [|apply IH].
    kbind. bindp (all_list field_pts); [apply IH|]. cbn. tauto.
  Qed.

  Lemma lower_record_fields_pts : forall node, res_pts (all_list field_pts) (lower_record_fields toks K node).
  Proof.
    intros node. unfold lower_record_fields. bindp (all_list field_pts); [apply record_fields_loop_pts|].
    cbn [res_pts]. apply (sort_fields_pts expr (expr_pts P)). assumption.
  Qed.

  Lemma block_statements_loop_pts : forall ch, res_pts (all_list (stmt_loc_pts P)) (block_statements_loop K ch).
  Proof.
    induction ch as [|c r IH]; cbn [block_statements_loop]; [exact I|].
    destruct (kind_is sk_Statement c); [|apply IH].
    bindp (all_opt (stmt_span_pts P)); [apply HSt|]. bindp (all_list (stmt_loc_pts P)); [apply IH|].
    destruct a as [[st sp]|]; cbn [res_pts all_list]; [|assumption]. split; [|assumption].
    unfold stmt_span_pts, stmt_loc_pts in *. cbn [all_opt fst snd] in *. destruct H0 as [Hst Hsp].
    split; [destruct st; cbn [pstmt_pts stmt_pts] in *; try exact I; exact Hst | apply location_pts; exact Hsp].
  Qed.

  Lemma lower_block_statements_pts : forall node, res_pts (all_list (stmt_loc_pts P)) (lower_block_statements K node).
  Proof. intros node. apply block_statements_loop_pts. Qed.

  Lemma lower_match_arm_pts : forall node, res_pts (fun a => expr_pts P (snd a)) (lower_match_arm toks K node).
  Proof.
    intros node. unfold lower_match_arm. cbv zeta.
    bindp (fun _ : mpat => True).
    - destruct (find (kind_is sk_MatchPattern) (children_or_nil node)); [|exact I].
      destruct (lower_match_pattern toks K t); exact I.
    - bindp (expr_pts P); [|cbn [res_pts snd]; assumption].
      destruct (find is_expr_node _); [apply HE|]. cbn [res_pts]. unfold error_at. split; [apply loc_of_node | exact I].
  Qed.

  Lemma lower_match_expr_pts : forall node l, loc_pts P l -> res_pts (expr_pts P) (lower_match_expr toks K node l).
  Proof.
    intros node l Hl. unfold lower_match_expr. cbv zeta.
    bindp (expr_pts P); [destruct (find is_expr_node _); [apply HE | split; [exact Hl | exact I]]|].
    bindp (all_list (fun a : mpat * expr => expr_pts P (snd a))).
    - repeat pstep; try exact I. apply mapM_pts. apply lower_match_arm_pts.
    - cbn [res_pts expr_pts enode_pts]. tauto.
  Qed.

  (* ---- lower_expr, lower_expr_sequence ---- *)
  Lemma seq_or_error_pts : forall nodes l, loc_pts P l -> res_pts (expr_pts P) (seq_or_error K nodes l).
  Proof. intros nodes l Hl. unfold seq_or_error. destruct nodes; [split; [exact Hl | exact I] | apply HS]. Qed.

  Lemma lower_expr_pts : forall node, res_pts (expr_pts P) (lower_expr toks K node).
  Proof.
    intros node. unfold lower_expr.
    set (l := match node_span toks node with Some sp => location_from_span sp | None => loc_default end).
    assert (Hl : loc_pts P l) by (unfold l; destruct (node_span toks node) eqn:E; [apply location_pts|]; basics).
    assert (Herr : expr_pts P (error_at l)) by (split; [exact Hl | exact I]).
    destruct (kind_of node) as [k|]; [destruct k|]; try exact Herr; try (split; [exact Hl | exact I]);
      try apply lower_binary_pts; try apply lower_call_pts; try apply lower_field_access_pts; try apply lower_index_pts;
      try (apply lower_match_expr_pts; exact Hl); try (apply seq_or_error_pts; exact Hl).
    - (* UnaryExpr *) bindp (expr_pts P); [apply seq_or_error_pts; exact Hl|]. cbn [res_pts expr_pts enode_pts]. tauto.
    - (* ArrayExpr *) bindp (all_list (expr_pts P)); [apply lower_expr_list_pts|]. cbn [res_pts expr_pts enode_pts]. tauto.
    - (* MacroExpansion *) eapply res_pts_bind; [apply lower_macro_expand_pts|]. intros ca _ [H1 H2]. cbn [res_pts expr_pts enode_pts]. tauto.
    - (* BracketExpr *) bindp (expr_pts P); [apply seq_or_error_pts; exact Hl|]. cbn [res_pts expr_pts enode_pts]. tauto.
    - (* EscapeExpr *) bindp (expr_pts P); [apply seq_or_error_pts; exact Hl|]. cbn [res_pts expr_pts enode_pts]. tauto.
    - (* LambdaExpr *) eapply res_pts_bind; [apply lower_lambda_pts|]. intros pb _ [H1 H2]. cbn [res_pts expr_pts enode_pts all_opt]. tauto.
    - (* IfExpr *)
      bindp (expr_pts P); [destruct (nth_error (child_exprs node) 0); [apply HE | exact Herr]|].
      bindp (expr_pts P); [destruct (nth_error (child_exprs node) 1); [apply HE | exact Herr]|].
      bindp (all_opt (expr_pts P)); [apply optM_pts; apply HE|].
      cbn [res_pts expr_pts enode_pts]. split; [exact Hl|]. split; [|tauto].
      destruct a as [n la]. destruct n; cbn [to_expr]; try assumption. cbn in H0. tauto.
    - (* BlockExpr *)
      bindp (all_list (stmt_loc_pts P)); [apply lower_block_statements_pts|].
      cbn [res_pts expr_pts enode_pts]. split; [exact Hl|]. apply into_then_expr_pts; assumption.
    - (* TupleExpr *) bindp (all_list (expr_pts P)); [apply lower_expr_list_pts|]. cbn [res_pts expr_pts enode_pts]. tauto.
    - (* RecordExpr *)
      destruct (find_token toks node tk_LeftArrow).
      + bindp (expr_pts P); [destruct (child_exprs node); [exact Herr | apply HE]|].
        bindp (all_list field_pts); [apply lower_record_fields_pts|]. cbn [res_pts expr_pts enode_pts]. tauto.
      + bindp (all_list field_pts); [apply lower_record_fields_pts|].
        destruct (find_token toks node tk_DoubleDot); cbn [res_pts expr_pts enode_pts]; tauto.
    - (* QualifiedPath *) repeat pstep; try exact I; try exact Herr.
  Qed.

  Lemma seq_loop_pts : forall nodes acc, all_opt (expr_pts P) acc -> res_pts (expr_pts P) (seq_loop toks K nodes acc).
  Proof.
    induction nodes as [|node rest IH]; intros acc Ha; cbn [seq_loop].
    - destruct acc; cbn [res_pts] in *; [exact Ha | basics].
    - assert (Hk : res_pts (expr_pts P) (let* e := k_expr K node in seq_loop toks K rest (Some e))).
      { kbind. apply IH. assumption. }
      destruct (kind_of node) as [k|]; [|apply IH; exact Ha].
      destruct k;
        try (bindp (expr_pts P); [first [apply lower_binary_pts | apply lower_call_pts | apply lower_field_access_pts | apply lower_index_pts]
                                  | apply IH; assumption]);
        try (destruct acc as [[n pl]|]; [|exact Hk]; destruct n; try exact Hk;
             cbv beta iota; match goal with |- res_pts _ (match ?o with _ => _ end) => destruct o end; [exact Hk|];
             destruct Ha as [Hpl Hn]; destruct Hn as [He _];
             kbind; cbn [res_pts]; apply expr_pts_Ex;
             [apply location_pts; apply merge_pts; [exact Hpl | basics] | split; assumption]).
      (* AssignExpr *)
      destruct acc as [lhs|]; [|exact Hk].
      bindp (expr_pts P); [apply lower_assign_pts; exact Ha|].
      destruct rest as [|r1 rs]; [apply IH; assumption|].
      kbind. cbn [res_pts expr_pts enode_pts all_opt]. split; [apply location_pts; basics | tauto].
  Qed.

  Lemma lower_expr_sequence_pts : forall nodes, res_pts (expr_pts P) (lower_expr_sequence toks K nodes).
  Proof. intros nodes. unfold lower_expr_sequence. apply seq_loop_pts. exact I. Qed.
End Pts.
