(* Lower/Ast.v — the abstract syntax lower.rs produces (definitions only).
   Mirrors crates/lib/mimium-lang/src/ast.rs (Expr, Literal, MatchPattern, MatchArm, RecordField), ast/operators.rs (Op),
   ast/statement.rs (Statement), ast/program.rs (ProgramStatement, Program, Visibility, UseTarget, VariantDef),
   pattern.rs (Pattern, TypedId, TypedPattern), types.rs (the constructors of Type lower.rs can build) and
   utils/metadata.rs (Span, Location).

   Interning is not modelled: an ExprNodeId / TypeNodeId is the node it stands for TOGETHER WITH its Location
   (SessionGlobals::store_expr_with_location stores both under the same key and lower.rs never compares ids), a Symbol is its
   text (a string of UTF-8 bytes).  A Location is its span plus one bit for the path: lower.rs only ever uses
   `self.file_path` (location_from_span) or `PathBuf::new()` (Location::default(), into_id_without_span). *)
From Coq Require Import String List ZArith NArith.
Import ListNotations.

(* utils/metadata.rs: Span = Range<usize>; Location { span, path } *)
Record span := mkSpan { s_start : N; s_end : N }.
Record loc := mkLoc { l_span : span; l_file : bool }.   (* l_file = true: path = Lowerer.file_path; false: PathBuf::new() *)
Definition span0 : span := mkSpan 0 0.
Definition loc_default : loc := mkLoc span0 false.          (* Location::default() *)

(* ast/operators.rs Op *)
Inductive op :=
  | OSum | OMinus | OProduct | ODivide | OEqual | ONotEqual | OLessThan | OLessEqual | OGreaterThan | OGreaterEqual
  | OModulo | OExponent | OAnd | OOr | OAt | OPipe | OPipeMacro | OUnknown (s : string).

(* ast.rs Literal, StageKind *)
Inductive literal := LString (s : string) | LInt (n : Z) | LFloat (s : string) | LSelf | LNow | LSampleRate | LPlaceHolder.
Inductive stage := StPersistent | StMacro | StMain.

(* types.rs PType and the part of Type that lower_type / lower_variant_def build *)
Inductive ptype := PUnit | PInt | PNumeric | PString.
Inductive typ := Ty (n : tnode) (l : loc)
with tnode :=
  | TPrimitive (p : ptype)
  | TArray (t : typ)
  | TTuple (ts : list typ)
  | TRecord (fs : list (string * typ * bool))        (* RecordTypeField { key, ty, has_default } *)
  | TFunction (arg ret : typ)
  | TCode (t : typ)
  | TUnion (ts : list typ)
  | TTypeAlias (name : string)
  | TUnknown.
Definition ty_loc (t : typ) : loc := match t with Ty _ l => l end.

(* pattern.rs Pattern *)
Inductive pattern :=
  | PSingle (s : string) | PPlaceholder | PTuple (ps : list pattern) | PRecord (items : list (string * pattern)) | PError.

(* ast.rs MatchPattern *)
Inductive mpat :=
  | MLiteral (l : literal) | MWildcard | MVariable (s : string)
  | MConstructor (name : string) (inner : option mpat) | MTuple (ps : list mpat).

(* ast.rs Expr (+ its Location), pattern.rs TypedId / TypedPattern, RecordField = (name, expr), MatchArm = (pattern, body) *)
Inductive expr := Ex (n : enode) (l : loc)
with enode :=
  | NLiteral (l : literal)
  | NVar (s : string)
  | NQualifiedVar (segments : list string)
  | NBlock (e : option expr)
  | NTuple (es : list expr)
  | NProj (e : expr) (i : Z)
  | NArrayAccess (e i : expr)
  | NArrayLiteral (es : list expr)
  | NRecordLiteral (fs : list (string * expr))
  | NImcompleteRecord (fs : list (string * expr))
  | NRecordUpdate (e : expr) (fs : list (string * expr))
  | NFieldAccess (e : expr) (f : string)
  | NApply (f : expr) (args : list expr)
  | NMacroExpand (f : expr) (args : list expr)
  | NBinOp (l : expr) (o : op) (osp : span) (r : expr)
  | NUniOp (o : op) (osp : span) (e : expr)
  | NParen (e : expr)
  | NLambda (ps : list typed_id) (rt : option typ) (body : expr)
  | NAssign (l r : expr)
  | NThen (e : expr) (t : option expr)
  | NFeed (s : string) (e : expr)
  | NLet (p : typed_pattern) (e : expr) (t : option expr)
  | NLetRec (id : typed_id) (e : expr) (t : option expr)
  | NIf (c t : expr) (e : option expr)
  | NMatch (s : expr) (arms : list (mpat * expr))
  | NBracket (e : expr)
  | NEscape (e : expr)
  | NError
with typed_id := TId (id : string) (ty : typ) (default_value : option expr)
with typed_pattern := TPat (pat : pattern) (ty : typ) (default_value : option expr).

Definition to_loc (e : expr) : loc := match e with Ex _ l => l end.       (* ExprNodeId::to_location *)
Definition to_span (e : expr) : span := l_span (to_loc e).                (* ExprNodeId::to_span *)
Definition to_expr (e : expr) : enode := match e with Ex n _ => n end.    (* ExprNodeId::to_expr *)

(* ast/statement.rs Statement *)
Inductive stmt :=
  | StmLet (p : typed_pattern) (e : expr) | StmLetRec (id : typed_id) (e : expr) | StmAssign (l r : expr)
  | StmSingle (e : expr) | StmDeclareStage (s : stage) | StmError.

(* ast/program.rs *)
Inductive visibility := VPrivate | VPublic.
Inductive use_target := UTSingle | UTMultiple (names : list string) | UTWildcard.
Inductive pstmt :=
  | PFnDefinition (v : visibility) (name : string) (args : list typed_id) (args_loc : loc) (ret : option typ) (body : expr)
  | PStageDeclaration (s : stage)
  | PGlobalStatement (s : stmt)
  | PImport (s : string)
  | PModuleDefinition (v : visibility) (name : string) (body : option (list (pstmt * span)))
  | PUseStatement (v : visibility) (path : list string) (target : use_target)
  | PTypeAlias (v : visibility) (name : string) (target : typ)
  | PTypeDeclaration (v : visibility) (name : string) (variants : list (string * option typ)) (is_recursive : bool)
  | PStmtError.
(* ProgramStatement::Comment / DocComment are never built by lower.rs *)
Definition program := list (pstmt * span).

(* outcome of the fuelled transcription: every `unwrap` / index / slice of lower.rs that could panic is an explicit Panic *)
Inductive res (A : Type) := Ok (a : A) | Panic (why : string) | OutOfFuel.
Arguments Ok {A} a.
Arguments Panic {A} why.
Arguments OutOfFuel {A}.
Definition bind {A B : Type} (m : res A) (f : A -> res B) : res B :=
  match m with Ok a => f a | Panic w => Panic w | OutOfFuel => OutOfFuel end.
