(* Lower/ModelStmt.v — model of lower.rs, part 4: statements and the program.  lower_statement, lower_module_decl,
   lower_use_stmt / lower_use_path / lower_use_target_multiple, lower_type_decl, lower_variant_def, lower_let_decl,
   lower_function_decl, lower_letrec_decl, lower_include, lower_stage_decl, lower_program, and the fuelled knot `lw`
   with the entry point `lower` (= Lowerer::lower_program).  Definitions only. *)
From Coq Require Import String Ascii List Bool Arith NArith ZArith.
From Mimium Require Import Tables.LexerTables Tables.TokenKinds Parser.Model Lower.Ast Lower.Model Lower.ModelTypes
  Lower.ModelExpr.
Import ListNotations.
Open Scope string_scope.
Open Scope list_scope.
Open Scope nat_scope.

Section WithKnot.
  Variable toks : nat -> option tokinfo.
  Variable K : knot.

  (* `children.iter().filter(kind == Statement).filter_map(|c| self.lower_statement(c)).collect()` *)
  Fixpoint statements_loop (ch : list tree) : res (list (pstmt * span)) :=
    match ch with
    | [] => Ok []
    | c :: r =>
        if kind_is sk_Statement c then
          let* o := k_stmt K c in
          let* rest := statements_loop r in
          Ok (match o with Some x => x :: rest | None => rest end)
        else statements_loop r
    end.

  (* lower_module_decl *)
  Definition lower_module_decl (node : tree) (v : visibility) : res (option pstmt) :=
    match find_token toks node tk_Ident with
    | None => Ok None
    | Some name_idx =>
        match token_text toks name_idx with
        | None => Ok None
        | Some name =>
            match find_token toks node tk_BlockBegin with
            | Some _ =>
                let* stmts := match children_of node with Some ch => statements_loop ch | None => Ok [] end in
                Ok (Some (PModuleDefinition v name (Some stmts)))
            | None => Ok (Some (PModuleDefinition v name None))
            end
        end
    end.

  (* lower_use_target_multiple *)
  Definition lower_use_target_multiple (node : tree) : list string := type_ident_segments toks (children_or_nil node).
  (* the loop of lower_use_path: (segments, target) *)
  Fixpoint use_path_loop (ch : list tree) (target : use_target) : list string * use_target :=
    match ch with
    | [] => ([], target)
    | c :: r =>
        match kind_of c with
        | Some SUseTargetWildcard => use_path_loop r UTWildcard
        | Some SUseTargetMultiple => use_path_loop r (UTMultiple (lower_use_target_multiple c))
        | _ =>
            match token_child toks tk_Ident c with
            | Some tk => let '(segs, t) := use_path_loop r target in (t_text tk :: segs, t)
            | None => use_path_loop r target
            end
        end
    end.
  (* lower_use_path *)
  Definition lower_use_path (node : tree) : option (list string * use_target) :=
    let '(segments, target) := use_path_loop (children_or_nil node) UTSingle in
    match segments, target with
    | [], UTSingle => None
    | _, _ => Some (segments, target)
    end.
  (* lower_use_stmt *)
  Definition lower_use_stmt (node : tree) (v : visibility) : option pstmt :=
    match find_child node sk_QualifiedPath with
    | None => None
    | Some path_node =>
        match lower_use_path path_node with
        | None => None
        | Some (path, target) => Some (PUseStatement v path target)
        end
    end.

  (* lower_variant_def *)
  Definition lower_variant_def (node : tree) : res (option (string * option typ)) :=
    match find_token toks node tk_Ident with
    | None => Ok None
    | Some name_idx =>
        match token_text toks name_idx with
        | None => Ok None
        | Some name =>
            let* payload :=
              match children_of node with
              | None => Ok None
              | Some children =>
                  let type_nodes := filter is_type_node children in
                  match length type_nodes with
                  | 0 => Ok None
                  | 1 => match nth_error type_nodes 0 with
                         | Some n => let* t := k_type K n in Ok (Some t)
                         | None => Panic "lower_variant_def: type_nodes[0]"
                         end
                  | _ => let* elem_types := mapM (k_type K) type_nodes in
                         Ok (Some (Ty (TTuple elem_types) loc_default))
                  end
              end in
            Ok (Some (name, payload))
        end
    end.
  (* `.filter(kind == VariantDef).filter_map(|c| self.lower_variant_def(c)).collect()` *)
  Fixpoint variants_loop (ch : list tree) : res (list (string * option typ)) :=
    match ch with
    | [] => Ok []
    | c :: r =>
        if kind_is sk_VariantDef c then
          let* o := lower_variant_def c in
          let* rest := variants_loop r in
          Ok (match o with Some x => x :: rest | None => rest end)
        else variants_loop r
    end.
  (* lower_type_decl *)
  Definition lower_type_decl (node : tree) (v : visibility) : res (option pstmt) :=
    let is_recursive := match find_token toks node tk_Rec with Some _ => true | None => false end in
    match find_token toks node tk_Ident with
    | None => Ok None
    | Some name_idx =>
        match token_text toks name_idx with
        | None => Ok None
        | Some name =>
            let* variants := match children_of node with Some ch => variants_loop ch | None => Ok [] end in
            match variants with
            | [] =>
                match (match children_of node with Some ch => find_type_child ch | None => None end) with
                | Some type_node => let* t := k_type K type_node in Ok (Some (PTypeAlias v name t))
                | None => Ok None
                end
            | _ => Ok (Some (PTypeDeclaration v name variants is_recursive))
            end
        end
    end.

  (* lower_let_decl *)
  Definition lower_let_decl (node : tree) : res (option pstmt) :=
    match find_child node is_pattern_kind with
    | None => Ok None
    | Some pattern_node =>
        let* po := lower_pattern toks K pattern_node in
        match po with
        | None => Ok None
        | Some (pat, pat_span) =>
            let* type_annotation :=
              match find_child node sk_TypeAnnotation with
              | Some anno => lower_annotation_type K anno
              | None => Ok None
              end in
            let* value := k_seq K (collect_expr_nodes_after_pattern node) in
            let l := location_from_span pat_span in
            let ty := match type_annotation with Some t => t | None => unknown_at l end in
            Ok (Some (PGlobalStatement (StmLet (TPat pat ty None) value)))
        end
    end.

  (* the find_map of lower_function_decl for the return type *)
  Fixpoint return_type_loop (ch : list tree) : res (option typ) :=
    match ch with
    | [] => Ok None
    | c :: r =>
        match kind_of c with
        | Some STypeAnnotation =>
            let* o := lower_annotation_type K c in
            match o with Some t => Ok (Some t) | None => return_type_loop r end
        | Some kind => if is_type_kind kind then let* t := k_type K c in Ok (Some t) else return_type_loop r
        | None => return_type_loop r
        end
    end.
  (* lower_function_decl *)
  Definition lower_function_decl (node : tree) (v : visibility) : res (option pstmt) :=
    match find_token toks node tk_Ident_or_Function with
    | None => Ok None
    | Some name_idx =>
        match token_text toks name_idx with
        | None => Ok None
        | Some name =>
            let* pp := match find_child node sk_ParamList with
                       | Some id => lower_param_list toks K id
                       | None => Ok ([], node_span_or0 toks node)
                       end in
            let '(params, params_span) := pp in
            let* return_type := match children_of node with Some ch => return_type_loop ch | None => Ok None end in
            match (match find_child node sk_BlockExpr with Some b => Some b | None => find_child node is_expr_kind end) with
            | None => Ok None
            | Some body_node =>
                let* body :=
                  if kind_is sk_BlockExpr body_node then
                    let* stmts := lower_block_statements K body_node in
                    Ok (match into_then_expr stmts with Some e => e | None => unit_without_span end)
                  else k_expr K body_node in
                Ok (Some (PFnDefinition v name params (location_from_span params_span) return_type body))
            end
        end
    end.

  (* lower_letrec_decl *)
  Definition lower_letrec_decl (node : tree) : res (option pstmt) :=
    match find_token toks node tk_Ident with
    | None => Ok None
    | Some ident_token =>
        let expr_nodes := collect_expr_nodes node in
        match token_text toks ident_token with
        | None => Ok None
        | Some name =>
            match node_span toks node with
            | None => Ok None
            | Some sp =>
                let l := location_from_span sp in
                let* value := k_seq K expr_nodes in
                Ok (Some (PGlobalStatement (StmLetRec (TId name (unknown_at l) None) value)))
            end
        end
    end.

  (* lower_include *)
  Definition lower_include (node : tree) : option pstmt :=
    match find_token toks node tk_Str with
    | None => None
    | Some string_token =>
        match token_text toks string_token with
        | None => None
        | Some raw => Some (PImport (trim_matches_dq raw))
        end
    end.
  (* lower_stage_decl *)
  Definition lower_stage_decl (node : tree) : option pstmt :=
    match find_token toks node tk_Main_or_Macro with
    | None => None
    | Some stage_token =>
        match toks stage_token with
        | None => None
        | Some t => Some (PStageDeclaration (match t_kind t with KMain => StMain | KMacro => StMacro | _ => StMain end))
        end
    end.

  (* the first child that is a node and not VisibilityPub *)
  Definition inner_node (node : tree) : option (SyntaxKind * tree) :=
    match children_of node with
    | None => None
    | Some ch =>
        match find (fun c => match kind_of c with Some k => negb (sk_VisibilityPub k) | None => false end) ch with
        | Some c => match kind_of c with Some k => Some (k, c) | None => None end
        | None => None
        end
    end.
  Definition or_error (o : option pstmt) : pstmt := match o with Some s => s | None => PStmtError end.

  (* lower_statement *)
  Definition lower_statement (node : tree) : res (option (pstmt * span)) :=
    match node_span toks node with
    | None => Ok None                                              (* `let span = self.node_span(node)?;` *)
    | Some sp =>
        let* st :=
          match kind_of node with
          | Some SStatement =>
              let v := extract_visibility node in
              match inner_node node with
              | Some (SFunctionDecl, id) => let* o := lower_function_decl id v in Ok (or_error o)
              | Some (SLetDecl, id) => let* o := lower_let_decl id in Ok (or_error o)
              | Some (SLetRecDecl, id) => let* o := lower_letrec_decl id in Ok (or_error o)
              | Some (SIncludeStmt, id) => Ok (or_error (lower_include id))
              | Some (SStageDecl, id) => Ok (or_error (lower_stage_decl id))
              | Some (SModuleDecl, id) => let* o := lower_module_decl id v in Ok (or_error o)
              | Some (SUseStmt, id) => Ok (or_error (lower_use_stmt id v))
              | Some (STypeDecl, id) => let* o := lower_type_decl id v in Ok (or_error o)
              | Some (_, _) =>
                  let* e := k_seq K (collect_expr_nodes node) in
                  Ok (PGlobalStatement (StmSingle e))
              | None => Ok PStmtError
              end
          | _ => Ok PStmtError
          end in
        Ok (Some (st, sp))
    end.

  (* ------------------------------------------------------------------------------------------ *)
  (* lower_program                                                                                *)
  (* ------------------------------------------------------------------------------------------ *)
  (* flush of the pending global statements *)
  Definition flush_pending (program_statements : list (pstmt * span)) (pending : list (stmt * loc)) (pending_span : span)
      : list (pstmt * span) :=
    match pending with
    | [] => program_statements
    | _ => match into_then_expr pending with
           | Some merged => program_statements ++ [(PGlobalStatement (StmSingle merged), pending_span)]
           | None => program_statements
           end
    end.
  (* the fold over the lowered statements: (program_statements, pending_statements, pending_span) *)
  Fixpoint program_fold (l : list (pstmt * span)) (ps : list (pstmt * span)) (pending : list (stmt * loc)) (pspan : span)
      : list (pstmt * span) * list (stmt * loc) * span :=
    match l with
    | [] => (ps, pending, pspan)
    | (st, sp) :: r =>
        match st with
        | PGlobalStatement (StmSingle e) =>
            program_fold r ps (pending ++ map (fun s => (s, location_from_span sp)) (stmt_from_expr_top e)) sp
        | _ => program_fold r (flush_pending ps pending pspan ++ [(st, sp)]) [] pspan
        end
    end.
  (* lower_program *)
  Definition lower_program (root : tree) : res program :=
    let* lowered := match children_of root with Some ch => statements_loop ch | None => Ok [] end in
    let '(ps, pending, pspan) := program_fold lowered [] [] span0 in
    Ok (flush_pending ps pending pspan).
End WithKnot.

(* ---------------------------------------------------------------------------------------------- *)
(* the knot                                                                                         *)
(* ---------------------------------------------------------------------------------------------- *)
Definition bottom : knot :=
  mkKnot (fun _ => OutOfFuel) (fun _ => OutOfFuel) (fun _ => OutOfFuel) (fun _ => OutOfFuel) (fun _ => OutOfFuel)
         (fun _ => OutOfFuel) (fun _ => OutOfFuel).
Fixpoint lw (toks : nat -> option tokinfo) (fuel : nat) : knot :=
  match fuel with
  | O => bottom
  | S f =>
      let K := lw toks f in
      mkKnot (lower_expr toks K) (lower_expr_sequence toks K) (lower_statement toks K) (lower_type toks K)
             (lower_pattern toks K) (lower_match_pattern toks K) (lower_tuple_pattern toks K)
  end.

(* Lowerer::lower_program with explicit fuel *)
Definition lower_with (fuel : nat) (toks : nat -> option tokinfo) (root : tree) : res program :=
  lower_program (lw toks fuel) root.

(* number of nodes and leaves of a tree *)
Fixpoint tsize (t : tree) : nat :=
  match t with
  | TTok _ => 1
  | TNode _ ch => S ((fix go (l : list tree) : nat := match l with [] => 0 | c :: r => tsize c + go r end) ch)
  end.
(* the fuel of C04_lower_total *)
Definition lower_fuel (root : tree) : nat := 2 * tsize root.
Definition lower (toks : nat -> option tokinfo) (root : tree) : res program := lower_with (lower_fuel root) toks root.
