(* Lower/PointsStmt.v — every point of the result satisfies P, part 2: the functions of ModelStmt.v, the knot, and the theorem
   lower_points: if P holds of 0 and of the start and end of every token of the table, it holds of both ends of every span of the
   lowered program (Locations of expressions and types, operator spans, statement spans), whatever the tree and the fuel. *)
From Coq Require Import String List Bool Arith NArith Lia.
From Mimium Require Import Tables.LexerTables Tables.TokenKinds Parser.Model Lower.Ast Lower.Model Lower.ModelTypes
  Lower.ModelExpr Lower.ModelStmt Lower.Facts Lower.Points Lower.PointsExpr.
Import ListNotations.

Section Pts.
  Variable P : N -> Prop.
  Hypothesis HP0 : P 0%N.
  Variable toks : nat -> option tokinfo.
  Hypothesis Htoks : forall i tk, toks i = Some tk -> P (t_start tk) /\ P (t_end tk).
  Variable K : knot.
  Hypothesis HK : pts_knot P K.

  Let HE := HE P K HK.
  Let HS := HS P K HK.
  Let HSt := HSt P K HK.
  Let HT := HT P K HK.

  Ltac bindp g := apply (res_pts_bind _ _ g); [ | intros ? ? ? ].
  Ltac basics :=
    eauto using node_span_or0_pts, node_span_pts, location_pts, merge_pts, to_span_pts, span0_pts, loc_default_pts,
      error_without_span_pts, t_span_pts, token_child_pts, macro_expand_span_pts, extract_binary_op_pts.

  Definition opt_pstmt_pts (o : option pstmt) : Prop := all_opt (pstmt_pts P) o.

  Lemma statements_loop_pts : forall ch, res_pts (all_list (stmt_span_pts P)) (statements_loop K ch).
  Proof.
    induction ch as [|c r IH]; cbn [statements_loop]; [exact I|].
    destruct (kind_is sk_Statement c); [|apply IH].
    bindp (all_opt (stmt_span_pts P)); [apply HSt|]. bindp (all_list (stmt_span_pts P)); [apply IH|].
    destruct a as [x|]; cbn [res_pts all_list all_opt] in *; tauto.
  Qed.

  Lemma lower_module_decl_pts : forall node v, res_pts opt_pstmt_pts (lower_module_decl toks K node v).
  Proof.
    intros node v. unfold lower_module_decl. repeat pstep; try exact I.
    bindp (all_list (stmt_span_pts P)); [destruct (children_of node); [apply statements_loop_pts | exact I]|].
    cbn [res_pts]. exact H0.
  Qed.

  Definition variant_pts (v : string * option typ) : Prop := all_opt (typ_pts P) (snd v).

  Lemma lower_variant_def_pts : forall node, res_pts (all_opt variant_pts) (lower_variant_def toks K node).
  Proof.
    intros node. unfold lower_variant_def. destruct (find_token toks node tk_Ident); [|exact I].
    destruct (token_text toks n); [|exact I].
    bindp (all_opt (typ_pts P)); [|cbn [res_pts all_opt]; exact H0].
    destruct (children_of node) as [children|]; [|exact I]. cbv zeta.
    destruct (length (filter is_type_node children)) as [|[|m]]; [exact I| |].
    - destruct (nth_error (filter is_type_node children) 0); [|exact I].
      bindp (typ_pts P); [apply HT|]. exact H0.
    - bindp (all_list (typ_pts P)); [apply (mapM_type_pts P K HK)|]. cbn [res_pts all_opt]. split; [apply loc_default_pts; exact HP0 | exact H0].
  Qed.

  Lemma variants_loop_pts : forall ch, res_pts (all_list variant_pts) (variants_loop toks K ch).
  Proof.
    induction ch as [|c r IH]; cbn [variants_loop]; [exact I|].
    destruct (kind_is sk_VariantDef c); [|apply IH].
    bindp (all_opt variant_pts); [apply lower_variant_def_pts|]. bindp (all_list variant_pts); [apply IH|].
    destruct a as [x|]; cbn [res_pts all_list all_opt] in *; tauto.
  Qed.

  Lemma lower_type_decl_pts : forall node v, res_pts opt_pstmt_pts (lower_type_decl toks K node v).
  Proof.
    intros node v. unfold lower_type_decl. cbv zeta.
    destruct (find_token toks node tk_Ident); [|exact I]. destruct (token_text toks n); [|exact I].
    bindp (all_list variant_pts); [destruct (children_of node); [apply variants_loop_pts | exact I]|].
    destruct a as [|x xs].
    - repeat pstep; try exact I. bindp (typ_pts P); [apply HT|]. exact H2.
    - exact H0.
  Qed.

  Lemma lower_let_decl_pts : forall node, res_pts opt_pstmt_pts (lower_let_decl toks K node).
  Proof.
    intros node. unfold lower_let_decl. destruct (find_child node is_pattern_kind) as [pn|]; [|exact I].
    bindp (all_opt (pat_span_pts P)); [apply (lower_pattern_pts P toks Htoks K HK)|].
    destruct a as [[pat psp]|]; [|exact I].
    bindp (all_opt (typ_pts P)); [destruct (find_child node sk_TypeAnnotation); [apply (lower_annotation_type_pts P K HK) | exact I]|].
    bindp (expr_pts P); [apply HS|].
    cbn [res_pts opt_pstmt_pts all_opt pstmt_pts stmt_pts tpat_pts]. split; [|assumption]. split; [|exact I].
    destruct a as [t|]; [assumption|]. apply unknown_at_pts. apply location_pts. exact H0.
  Qed.

  Lemma return_type_loop_pts : forall ch, res_pts (all_opt (typ_pts P)) (return_type_loop K ch).
  Proof.
    induction ch as [|c r IH]; cbn [return_type_loop]; [exact I|].
    destruct (kind_of c) as [k|]; [|apply IH].
    destruct k; try (cbn [is_type_kind]; first [apply IH | (bindp (typ_pts P); [apply HT | assumption])]).
    bindp (all_opt (typ_pts P)); [apply (lower_annotation_type_pts P K HK)|].
    destruct a; [assumption | apply IH].
  Qed.

  Lemma lower_function_decl_pts : forall node v, res_pts opt_pstmt_pts (lower_function_decl toks K node v).
  Proof.
    intros node v. unfold lower_function_decl.
    destruct (find_token toks node tk_Ident_or_Function); [|exact I]. destruct (token_text toks n); [|exact I].
    apply (res_pts_bind _ _ (fun ps : list typed_id * span => all_list (tid_pts P) (fst ps) /\ span_pts P (snd ps))).
    - destruct (find_child node sk_ParamList); [apply (lower_param_list_pts P HP0 toks Htoks K HK)|].
      cbn [res_pts fst snd]. split; [exact I | basics].
    - intros [params params_span] _ [Hps Hsp]. cbn [fst snd] in *.
      bindp (all_opt (typ_pts P)); [destruct (children_of node); [apply return_type_loop_pts | exact I]|].
      assert (Hbody : forall b, res_pts (expr_pts P)
                (if kind_is sk_BlockExpr b
                 then let* stmts := lower_block_statements K b in
                      Ok (match into_then_expr stmts with Some e => e | None => unit_without_span end)
                 else k_expr K b)).
      { intros b. destruct (kind_is sk_BlockExpr b); [|apply HE].
        bindp (all_list (stmt_loc_pts P)); [apply (lower_block_statements_pts P K HK)|].
        cbn [res_pts]. pose proof (into_then_expr_pts P _ H2) as Hi.
        destruct (into_then_expr a0); [exact Hi | apply unit_without_span_pts; exact HP0]. }
      repeat pstep; try exact I;
        (bindp (expr_pts P); [apply Hbody|];
         cbn [res_pts opt_pstmt_pts all_opt pstmt_pts]; repeat split; try assumption; apply location_pts; assumption).
  Qed.

  Lemma lower_letrec_decl_pts : forall node, res_pts opt_pstmt_pts (lower_letrec_decl toks K node).
  Proof.
    intros node. unfold lower_letrec_decl. cbv zeta.
    destruct (find_token toks node tk_Ident); [|exact I]. destruct (token_text toks n); [|exact I].
    destruct (node_span toks node) as [sp|] eqn:E; [|exact I].
    bindp (expr_pts P); [apply HS|].
    cbn [res_pts opt_pstmt_pts all_opt pstmt_pts stmt_pts tid_pts]. split; [|assumption]. split; [|exact I].
    apply unknown_at_pts. apply location_pts. basics.
  Qed.

  Lemma or_error_pts : forall o, opt_pstmt_pts o -> pstmt_pts P (or_error o).
  Proof. intros [s|] H; [exact H | exact I]. Qed.

  Lemma lower_statement_pts : forall node, res_pts (all_opt (stmt_span_pts P)) (lower_statement toks K node).
  Proof.
    intros node. unfold lower_statement. destruct (node_span toks node) as [sp|] eqn:E; [|exact I].
    assert (Hsp : span_pts P sp) by basics.
    bindp (pstmt_pts P); [|cbn [res_pts all_opt]; split; assumption].
    destruct (kind_of node) as [k|]; [|exact I]. destruct k; try exact I. cbv zeta.
    destruct (inner_node node) as [[ik id]|]; [|exact I].
    assert (Hseq : res_pts (pstmt_pts P) (let* e := k_seq K (collect_expr_nodes node) in Ok (PGlobalStatement (StmSingle e)))).
    { bindp (expr_pts P); [apply HS|]. assumption. }
    destruct ik; try exact Hseq; try exact I;
      try (eapply res_pts_bind;
           [first [apply lower_function_decl_pts | apply lower_let_decl_pts | apply lower_letrec_decl_pts
                  | apply lower_module_decl_pts | apply lower_type_decl_pts]
           | intros o _ Ho; apply or_error_pts; exact Ho]).
    - cbn [res_pts]. unfold lower_include. destruct (find_token toks id tk_Str); [|exact I]. destruct (token_text toks n); exact I.
    - cbn [res_pts]. unfold lower_stage_decl. destruct (find_token toks id tk_Main_or_Macro); [|exact I]. destruct (toks n); exact I.
    - cbn [res_pts]. unfold lower_use_stmt. destruct (find_child id sk_QualifiedPath); [|exact I].
      destruct (lower_use_path toks t) as [[path target]|]; exact I.
  Qed.

  (* ---- lower_program ---- *)
  Lemma flush_pending_pts : forall ps pending pspan,
    all_list (stmt_span_pts P) ps -> all_list (stmt_loc_pts P) pending -> span_pts P pspan ->
    all_list (stmt_span_pts P) (flush_pending ps pending pspan).
  Proof.
    intros ps pending pspan H1 H2 H3. unfold flush_pending. destruct pending as [|x xs]; [exact H1|].
    pose proof (into_then_expr_pts P (x :: xs) H2) as Hi.
    destruct (into_then_expr (x :: xs)) as [m|]; [|exact H1].
    apply all_list_app. split; [exact H1|]. cbn [all_list]. split; [|exact I]. split; [exact Hi | exact H3].
  Qed.

  Lemma program_fold_pts : forall l ps pending pspan,
    all_list (stmt_span_pts P) l -> all_list (stmt_span_pts P) ps -> all_list (stmt_loc_pts P) pending -> span_pts P pspan ->
    let '(ps', pending', pspan') := program_fold l ps pending pspan in
    all_list (stmt_span_pts P) ps' /\ all_list (stmt_loc_pts P) pending' /\ span_pts P pspan'.
  Proof.
    induction l as [|[st sp] r IH]; intros ps pending pspan Hl Hps Hpe Hsp; cbn [program_fold]; [tauto|].
    destruct Hl as [[Hst Hspn] Hr]. cbn [fst snd] in *.
    assert (Hother : let '(ps', pending', pspan') := program_fold r (flush_pending ps pending pspan ++ [(st, sp)]) [] pspan in
                     all_list (stmt_span_pts P) ps' /\ all_list (stmt_loc_pts P) pending' /\ span_pts P pspan').
    { apply IH; [exact Hr| |exact I|exact Hsp]. apply all_list_app. split; [apply flush_pending_pts; assumption|].
      cbn [all_list]. split; [split; assumption | exact I]. }
    destruct st; try exact Hother. destruct s; try exact Hother.
    apply IH; [exact Hr|exact Hps| |exact Hspn].
    apply all_list_app. split; [exact Hpe|]. apply all_list_map.
    eapply all_list_impl; [|apply (stmt_from_expr_pts P e Hst)].
    intros x Hx. split; [exact Hx | apply location_pts; exact Hspn].
  Qed.

  Lemma lower_program_pts : forall root, res_pts (program_pts P) (lower_program K root).
  Proof.
    intros root. unfold lower_program.
    bindp (all_list (stmt_span_pts P)); [destruct (children_of root); [apply statements_loop_pts | exact I]|].
    pose proof (program_fold_pts a [] [] span0 H0 I I (span0_pts P HP0)) as Hf.
    destruct (program_fold a [] [] span0) as [[ps pending] pspan]. destruct Hf as [F1 [F2 F3]].
    cbn [res_pts]. apply flush_pending_pts; assumption.
  Qed.
End Pts.

Lemma lw_pts : forall (P : N -> Prop), P 0%N -> forall toks : nat -> option tokinfo, (forall i tk, toks i = Some tk -> P (t_start tk) /\ P (t_end tk)) ->
  forall f, pts_knot P (lw toks f).
Proof.
  intros P HP0 toks Htoks f. induction f as [|f IH].
  - repeat split; intros; exact I.
  - unfold pts_knot. cbn [lw k_expr k_seq k_stmt k_type k_pat]. repeat split; intros x.
    + apply lower_expr_pts; assumption.
    + apply lower_expr_sequence_pts; assumption.
    + apply lower_statement_pts; assumption.
    + apply lower_type_pts; assumption.
    + apply lower_pattern_pts; assumption.
Qed.

Lemma lower_points : forall (P : N -> Prop) toks root fuel p,
  P 0%N -> (forall i tk, toks i = Some tk -> P (t_start tk) /\ P (t_end tk)) ->
  lower_with fuel toks root = Ok p -> program_pts P p.
Proof.
  intros P toks root fuel p HP0 Htoks H. unfold lower_with in H.
  pose proof (lower_program_pts P HP0 (lw toks fuel) (lw_pts P HP0 toks Htoks fuel) root) as Hp.
  rewrite H in Hp. exact Hp.
Qed.
