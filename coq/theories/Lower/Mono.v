(* Lower/Mono.v — the lowering is monotone in the fuel: a value obtained with some fuel is obtained with any larger fuel.
   (le_res r r': if r is a value then r' is the same value; every body is monotone in its knot.) *)
From Coq Require Import String List Bool Arith NArith Lia.
From Mimium Require Import Tables.LexerTables Tables.TokenKinds Parser.Model Lower.Ast Lower.Model Lower.ModelTypes
  Lower.ModelExpr Lower.ModelStmt Lower.Facts.
Import ListNotations.

Definition le_res {A : Type} (r r' : res A) : Prop := forall a, r = Ok a -> r' = Ok a.

Lemma le_res_refl : forall A (r : res A), le_res r r.
Proof. intros A r a H. exact H. Qed.

Lemma bind_mono : forall A B (m m' : res A) (f f' : A -> res B),
  le_res m m' -> (forall a, le_res (f a) (f' a)) -> le_res (bind m f) (bind m' f').
Proof.
  intros A B m m' f f' Hm Hf b H. destruct m as [a| |]; cbn [bind] in H; try discriminate.
  rewrite (Hm a eq_refl). cbn [bind]. apply Hf. exact H.
Qed.

Lemma mapM_mono : forall A B (f f' : A -> res B) (l : list A), (forall x, le_res (f x) (f' x)) -> le_res (mapM f l) (mapM f' l).
Proof.
  intros A B f f' l H. induction l as [|x r IH]; cbn [mapM]; [apply le_res_refl|].
  apply bind_mono; [apply H|]. intros y. apply bind_mono; [exact IH|]. intros ys. apply le_res_refl.
Qed.

Lemma optM_mono : forall A B (f f' : A -> res B) (o : option A), (forall x, le_res (f x) (f' x)) -> le_res (optM f o) (optM f' o).
Proof.
  intros A B f f' o H. destruct o as [x|]; cbn [optM]; [|apply le_res_refl].
  apply bind_mono; [apply H|]. intros y. apply le_res_refl.
Qed.

Definition le_knot (K K' : knot) : Prop :=
  (forall t, le_res (k_expr K t) (k_expr K' t)) /\
  (forall l, le_res (k_seq K l) (k_seq K' l)) /\
  (forall t, le_res (k_stmt K t) (k_stmt K' t)) /\
  (forall t, le_res (k_type K t) (k_type K' t)) /\
  (forall t, le_res (k_pat K t) (k_pat K' t)) /\
  (forall t, le_res (k_mpat K t) (k_mpat K' t)) /\
  (forall t, le_res (k_tpat K t) (k_tpat K' t)).

Ltac mstep :=
  match goal with
  | |- le_res ?x ?x => apply le_res_refl
  | |- le_res (bind _ _) (bind _ _) => apply bind_mono; [ | intros ? ]
  | |- le_res (match (match ?y with _ => _ end) with _ => _ end) _ => destruct y
  | |- le_res (match ?s with _ => _ end) (match ?s with _ => _ end) => destruct s
  | |- le_res (mapM _ _) (mapM _ _) => apply mapM_mono; intros ?
  | |- le_res (optM _ _) (optM _ _) => apply optM_mono; intros ?
  end.

Section Mono.
  Variable toks : nat -> option tokinfo.
  Variables K K' : knot.
  Hypothesis HK : le_knot K K'.

  Lemma ME : forall t, le_res (k_expr K t) (k_expr K' t). Proof. apply HK. Qed.
  Lemma MS : forall l, le_res (k_seq K l) (k_seq K' l). Proof. apply HK. Qed.
  Lemma MSt : forall t, le_res (k_stmt K t) (k_stmt K' t). Proof. apply HK. Qed.
  Lemma MT : forall t, le_res (k_type K t) (k_type K' t). Proof. apply HK. Qed.
  Lemma MP : forall t, le_res (k_pat K t) (k_pat K' t). Proof. apply HK. Qed.
  Lemma MM : forall t, le_res (k_mpat K t) (k_mpat K' t). Proof. apply HK. Qed.
  Lemma MTP : forall t, le_res (k_tpat K t) (k_tpat K' t). Proof. apply HK. Qed.

  Ltac kn := first [apply ME | apply MS | apply MSt | apply MT | apply MP | apply MM | apply MTP].
  Ltac go := repeat (first [mstep | kn]).

  (* ---- ModelTypes ---- *)
  Lemma record_type_fields_mono : forall ch cur, le_res (record_type_fields toks K ch cur) (record_type_fields toks K' ch cur).
  Proof. induction ch as [|c r IH]; intros cur; cbn [record_type_fields]; go; apply IH. Qed.

  Lemma lower_type_mono : forall node, le_res (lower_type toks K node) (lower_type toks K' node).
  Proof. intros node. unfold lower_type. cbv zeta. go; apply record_type_fields_mono. Qed.

  Lemma lower_annotation_type_mono : forall anno, le_res (lower_annotation_type K anno) (lower_annotation_type K' anno).
  Proof. intros anno. unfold lower_annotation_type. go. Qed.

  Lemma tuple_pattern_elems_mono : forall l, le_res (tuple_pattern_elems K l) (tuple_pattern_elems K' l).
  Proof. induction l as [|c r IH]; cbn [tuple_pattern_elems]; go; apply IH. Qed.

  Lemma record_pattern_items_mono : forall ch cur, le_res (record_pattern_items toks K ch cur) (record_pattern_items toks K' ch cur).
  Proof. induction ch as [|c r IH]; intros cur; cbn [record_pattern_items]; go; apply IH. Qed.

  Lemma lower_pattern_mono : forall node, le_res (lower_pattern toks K node) (lower_pattern toks K' node).
  Proof. intros node. unfold lower_pattern. go; first [apply tuple_pattern_elems_mono | apply record_pattern_items_mono]. Qed.

  Lemma lower_match_tuple_pattern_mono : forall node, le_res (lower_match_tuple_pattern K node) (lower_match_tuple_pattern K' node).
  Proof. intros node. unfold lower_match_tuple_pattern. go. Qed.

  Lemma constructor_pattern_loop_mono : forall ch name inner,
    le_res (constructor_pattern_loop toks K ch name inner) (constructor_pattern_loop toks K' ch name inner).
  Proof. induction ch as [|c r IH]; intros name inner; cbn [constructor_pattern_loop]; go; apply IH. Qed.

  Lemma match_pattern_loop_mono : forall ch, le_res (match_pattern_loop toks K ch) (match_pattern_loop toks K' ch).
  Proof.
    induction ch as [|c r IH]; cbn [match_pattern_loop]; go;
      first [apply IH | apply constructor_pattern_loop_mono | apply lower_match_tuple_pattern_mono].
  Qed.

  Lemma tuple_pattern_loop_mono : forall ch, le_res (tuple_pattern_loop toks K ch) (tuple_pattern_loop toks K' ch).
  Proof. induction ch as [|c r IH]; cbn [tuple_pattern_loop]; go; apply IH. Qed.

  Lemma lower_tuple_pattern_mono : forall node, le_res (lower_tuple_pattern toks K node) (lower_tuple_pattern toks K' node).
  Proof. intros node. unfold lower_tuple_pattern. go. apply tuple_pattern_loop_mono. Qed.

  (* ---- ModelExpr ---- *)
  Lemma collect_args_mono : forall ch, le_res (collect_args toks K ch) (collect_args toks K' ch).
  Proof. intros ch. unfold collect_args. go. Qed.

  Lemma lower_arg_list_mono : forall node, le_res (lower_arg_list toks K node) (lower_arg_list toks K' node).
  Proof. intros node. unfold lower_arg_list. go; apply collect_args_mono. Qed.

  Lemma lower_expr_list_mono : forall node, le_res (lower_expr_list toks K node) (lower_expr_list toks K' node).
  Proof. intros node. unfold lower_expr_list. go; apply collect_args_mono. Qed.

  Lemma lower_binary_mono : forall node, le_res (lower_binary toks K node) (lower_binary toks K' node).
  Proof. intros node. unfold lower_binary. go. Qed.

  Lemma lower_first_or_error_mono : forall l, le_res (lower_first_or_error K l) (lower_first_or_error K' l).
  Proof. intros l. unfold lower_first_or_error. go. Qed.

  Lemma lower_call_mono : forall node, le_res (lower_call toks K node) (lower_call toks K' node).
  Proof. intros node. unfold lower_call. go; first [apply lower_first_or_error_mono | apply lower_arg_list_mono]. Qed.

  Lemma lower_field_access_mono : forall node, le_res (lower_field_access toks K node) (lower_field_access toks K' node).
  Proof. intros node. unfold lower_field_access. go; apply lower_first_or_error_mono. Qed.

  Lemma lower_index_mono : forall node, le_res (lower_index K node) (lower_index K' node).
  Proof. intros node. unfold lower_index. go. Qed.

  Lemma lower_assign_mono : forall lhs node, le_res (lower_assign K lhs node) (lower_assign K' lhs node).
  Proof. intros lhs node. unfold lower_assign. go. Qed.

  Lemma lower_macro_expand_mono : forall node, le_res (lower_macro_expand toks K node) (lower_macro_expand toks K' node).
  Proof. intros node. unfold lower_macro_expand. cbv zeta. go; apply lower_arg_list_mono. Qed.

  Lemma param_annotation_mono : forall children next l, le_res (param_annotation K children next l) (param_annotation K' children next l).
  Proof. intros children next l. unfold param_annotation. go; apply lower_annotation_type_mono. Qed.

  Lemma lambda_loop_mono : forall children idxs next, le_res (lambda_loop toks K children idxs next) (lambda_loop toks K' children idxs next).
  Proof.
    intros children idxs. induction idxs as [|i rest IH]; intros next; cbn [lambda_loop]; go;
      first [apply IH | apply param_annotation_mono].
  Qed.

  Lemma lower_lambda_mono : forall node, le_res (lower_lambda toks K node) (lower_lambda toks K' node).
  Proof. intros node. unfold lower_lambda. go; apply lambda_loop_mono. Qed.

  Lemma param_loop_mono : forall children idxs next, le_res (param_loop toks K children idxs next) (param_loop toks K' children idxs next).
  Proof.
    intros children idxs. induction idxs as [|i rest IH]; intros next; cbn [param_loop]; go;
      first [apply IH | apply param_annotation_mono].
  Qed.

  Lemma lower_param_list_mono : forall node, le_res (lower_param_list toks K node) (lower_param_list toks K' node).
  Proof. intros node. unfold lower_param_list. go; apply param_loop_mono. Qed.

  Lemma record_fields_loop_mono : forall ch cur, le_res (record_fields_loop toks K ch cur) (record_fields_loop toks K' ch cur).
  Proof. induction ch as [|c r IH]; intros cur; cbn [record_fields_loop]; go; apply IH. Qed.

  Lemma lower_record_fields_mono : forall node, le_res (lower_record_fields toks K node) (lower_record_fields toks K' node).
  Proof. intros node. unfold lower_record_fields. go; apply record_fields_loop_mono. Qed.

  Lemma block_statements_loop_mono : forall ch, le_res (block_statements_loop K ch) (block_statements_loop K' ch).
  Proof. induction ch as [|c r IH]; cbn [block_statements_loop]; go; apply IH. Qed.

  Lemma lower_match_arm_mono : forall node, le_res (lower_match_arm toks K node) (lower_match_arm toks K' node).
  Proof. intros node. unfold lower_match_arm. cbv zeta. go. apply match_pattern_loop_mono. Qed.

  Lemma lower_match_expr_mono : forall node l, le_res (lower_match_expr toks K node l) (lower_match_expr toks K' node l).
  Proof. intros node l. unfold lower_match_expr. cbv zeta. go. apply lower_match_arm_mono. Qed.

  Lemma seq_or_error_mono : forall nodes l, le_res (seq_or_error K nodes l) (seq_or_error K' nodes l).
  Proof. intros nodes l. unfold seq_or_error. go. Qed.

  Lemma lower_expr_mono : forall node, le_res (lower_expr toks K node) (lower_expr toks K' node).
  Proof.
    intros node. unfold lower_expr. cbv zeta. unfold lower_block_statements.
    destruct (kind_of node) as [k|]; [destruct k|]; go;
      first [apply lower_binary_mono | apply lower_call_mono | apply lower_field_access_mono | apply lower_index_mono
            | apply lower_match_expr_mono | apply seq_or_error_mono | apply lower_expr_list_mono | apply lower_macro_expand_mono
            | apply lower_lambda_mono | apply block_statements_loop_mono | apply lower_record_fields_mono].
  Qed.

  Lemma seq_loop_mono : forall nodes acc, le_res (seq_loop toks K nodes acc) (seq_loop toks K' nodes acc).
  Proof.
    induction nodes as [|node rest IH]; intros acc; cbn [seq_loop]; [apply le_res_refl|].
    destruct (kind_of node) as [k|]; [destruct k|]; go;
      first [apply IH | apply lower_binary_mono | apply lower_call_mono | apply lower_field_access_mono | apply lower_index_mono
            | apply lower_assign_mono].
  Qed.

  (* ---- ModelStmt ---- *)
  Lemma statements_loop_mono : forall ch, le_res (statements_loop K ch) (statements_loop K' ch).
  Proof. induction ch as [|c r IH]; cbn [statements_loop]; go; apply IH. Qed.

  Lemma lower_module_decl_mono : forall node v, le_res (lower_module_decl toks K node v) (lower_module_decl toks K' node v).
  Proof. intros node v. unfold lower_module_decl. go; apply statements_loop_mono. Qed.

  Lemma lower_variant_def_mono : forall node, le_res (lower_variant_def toks K node) (lower_variant_def toks K' node).
  Proof. intros node. unfold lower_variant_def. cbv zeta. go. Qed.

  Lemma variants_loop_mono : forall ch, le_res (variants_loop toks K ch) (variants_loop toks K' ch).
  Proof. induction ch as [|c r IH]; cbn [variants_loop]; go; first [apply IH | apply lower_variant_def_mono]. Qed.

  Lemma lower_type_decl_mono : forall node v, le_res (lower_type_decl toks K node v) (lower_type_decl toks K' node v).
  Proof. intros node v. unfold lower_type_decl. cbv zeta. go; apply variants_loop_mono. Qed.

  Lemma lower_let_decl_mono : forall node, le_res (lower_let_decl toks K node) (lower_let_decl toks K' node).
  Proof. intros node. unfold lower_let_decl. go; first [apply lower_pattern_mono | apply lower_annotation_type_mono]. Qed.

  Lemma return_type_loop_mono : forall ch, le_res (return_type_loop K ch) (return_type_loop K' ch).
  Proof. induction ch as [|c r IH]; cbn [return_type_loop]; go; first [apply IH | apply lower_annotation_type_mono]. Qed.

  Lemma lower_function_decl_mono : forall node v, le_res (lower_function_decl toks K node v) (lower_function_decl toks K' node v).
  Proof.
    intros node v. unfold lower_function_decl, lower_block_statements. go;
      first [apply lower_param_list_mono | apply return_type_loop_mono | apply block_statements_loop_mono].
  Qed.

  Lemma lower_letrec_decl_mono : forall node, le_res (lower_letrec_decl toks K node) (lower_letrec_decl toks K' node).
  Proof. intros node. unfold lower_letrec_decl. cbv zeta. go. Qed.

  Lemma lower_statement_mono : forall node, le_res (lower_statement toks K node) (lower_statement toks K' node).
  Proof.
    intros node. unfold lower_statement. cbv zeta. go;
      first [apply lower_function_decl_mono | apply lower_let_decl_mono | apply lower_letrec_decl_mono | apply lower_module_decl_mono
            | apply lower_type_decl_mono].
  Qed.

  Lemma lower_program_mono : forall root, le_res (lower_program K root) (lower_program K' root).
  Proof. intros root. unfold lower_program. go; apply statements_loop_mono. Qed.
End Mono.

Lemma le_knot_refl : forall K, le_knot K K.
Proof. intros K. repeat split; intros; apply le_res_refl. Qed.

Lemma le_res_trans : forall A (a b c : res A), le_res a b -> le_res b c -> le_res a c.
Proof. intros A a b c H1 H2 x H. apply H2. apply H1. exact H. Qed.

Lemma lw_step_mono : forall toks f, le_knot (lw toks f) (lw toks (S f)).
Proof.
  intros toks f. induction f as [|f IH].
  - repeat split; intros x a H; cbn in H; discriminate.
  - unfold le_knot. cbn [lw k_expr k_seq k_stmt k_type k_pat k_mpat k_tpat]. repeat split; intros x.
    + apply lower_expr_mono. exact IH.
    + apply seq_loop_mono. exact IH.
    + apply lower_statement_mono. exact IH.
    + apply lower_type_mono. exact IH.
    + apply lower_pattern_mono. exact IH.
    + apply match_pattern_loop_mono. exact IH.
    + apply lower_tuple_pattern_mono. exact IH.
Qed.

Lemma lw_mono : forall toks f f', f <= f' -> le_knot (lw toks f) (lw toks f').
Proof.
  intros toks f f' H. induction H as [|f' H IH]; [apply le_knot_refl|].
  pose proof (lw_step_mono toks f') as S1.
  unfold le_knot in *. repeat split; intros x; eapply le_res_trans; try (apply IH); apply S1.
Qed.

(* a value obtained with some fuel is obtained with any larger fuel *)
Lemma lower_with_mono : forall toks root f f' p, f <= f' -> lower_with f toks root = Ok p -> lower_with f' toks root = Ok p.
Proof. intros toks root f f' p H. unfold lower_with. apply lower_program_mono. apply lw_mono. exact H. Qed.
