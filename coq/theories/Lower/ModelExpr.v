(* Lower/ModelExpr.v — model of lower.rs, part 3: expressions.  lower_expr, lower_expr_sequence, lower_binary, lower_call,
   lower_field_access, lower_index, lower_assign, lower_macro_expand (+ macro_expand_span, lower_qualified_path),
   lower_arg_list, lower_expr_list, lower_lambda, lower_param_list, lower_record_fields, lower_block_statements,
   lower_match_expr, lower_match_arm, unwrap_paren.  Definitions only; recursion through the knot K (see ModelTypes.v). *)
From Coq Require Import String Ascii List Bool Arith NArith ZArith.
From Mimium Require Import Tables.LexerTables Tables.TokenKinds Parser.Model Lower.Ast Lower.Model Lower.ModelTypes.
Import ListNotations.
Open Scope string_scope.
Open Scope list_scope.
Open Scope nat_scope.

(* unwrap_paren *)
Fixpoint unwrap_paren (e : expr) : expr :=
  match e with Ex (NParen inner) _ => unwrap_paren inner | _ => e end.

Section WithKnot.
  Variable toks : nat -> option tokinfo.
  Variable K : knot.

  Definition error_at (l : loc) : expr := Ex NError l.            (* Expr::Error.into_id(loc) *)

  (* ------------------------------------------------------------------------------------------ *)
  (* argument / element lists                                                                     *)
  (* ------------------------------------------------------------------------------------------ *)
  (* `GreenNode::Token { token_index, .. } if self.tokens.get(token_index).map(|t| t.kind) == Some(TokenKind::Comma)` *)
  Definition is_comma_token (t : tree) : bool :=
    match token_child toks tk_Comma t with Some _ => true | None => false end.
  (* the fold of collect_args / collect_elems: the runs of expression children between commas; empty runs are dropped *)
  Fixpoint split_at_commas (ch : list tree) (current : list tree) : list (list tree) :=
    match ch with
    | [] => match current with [] => [] | _ => [current] end
    | c :: r =>
        if is_comma_token c then
          match current with [] => split_at_commas r [] | _ => current :: split_at_commas r [] end
        else if is_expr_node c then split_at_commas r (current ++ [c])
        else split_at_commas r current
    end.
  Definition collect_args (ch : list tree) : res (list expr) := mapM (k_seq K) (split_at_commas ch []).
  (* lower_arg_list *)
  Definition lower_arg_list (node : tree) : res (list expr) :=
    match find_child node sk_ArgList with
    | Some arg_node => match children_of arg_node with Some ch => collect_args ch | None => Ok [] end
    | None => match children_of node with Some ch => collect_args ch | None => Ok [] end
    end.
  (* lower_expr_list *)
  Definition lower_expr_list (node : tree) : res (list expr) :=
    match children_of node with Some ch => collect_args ch | None => Ok [] end.

  (* ------------------------------------------------------------------------------------------ *)
  (* binary, call, field access, index, assign                                                    *)
  (* ------------------------------------------------------------------------------------------ *)
  (* lower_binary *)
  Definition lower_binary (node : tree) : res expr :=
    let '(o, op_span) := match extract_binary_op toks node with Some x => x | None => (OUnknown "", span0) end in
    let expr_children := child_exprs node in
    let* lr :=
      if 2 <=? length expr_children then
        match nth_error expr_children 0, nth_error expr_children (length expr_children - 1) with
        | Some lhs_node, Some rhs_node =>
            let* lhs := k_expr K lhs_node in let* rhs := k_expr K rhs_node in Ok (lhs, rhs)
        | _, _ => Panic "lower_binary: expr_children[0] / expr_children[len - 1]"
        end
      else if length expr_children =? 1 then
        match nth_error expr_children 0 with
        | Some n => let* rhs := k_expr K n in Ok (error_without_span, rhs)
        | None => Panic "lower_binary: expr_children[0]"
        end
      else Ok (error_without_span, error_without_span) in
    let '(lhs, rhs) := lr in
    Ok (Ex (NBinOp lhs o op_span rhs) (location_from_span (merge_spans (to_span lhs) (to_span rhs)))).

  (* `if !expr_children.is_empty() { self.lower_expr(expr_children[0]) } else { Expr::Error.into_id_without_span() }` *)
  Definition lower_first_or_error (expr_children : list tree) : res expr :=
    match expr_children with
    | [] => Ok error_without_span
    | _ => match nth_error expr_children 0 with
           | Some n => k_expr K n
           | None => Panic "expr_children[0]"
           end
    end.

  (* lower_call *)
  Definition lower_call (node : tree) : res expr :=
    let* callee := lower_first_or_error (child_exprs node) in
    let* args0 := lower_arg_list node in
    let args := map unwrap_paren args0 in
    let call_span := match node_span toks node with Some s => s | None => to_span callee end in
    Ok (Ex (NApply callee args) (location_from_span (merge_spans (to_span callee) call_span))).

  (* the field token of lower_field_access: the LAST direct token child of kind Ident or Int *)
  Fixpoint last_field_token (ch : list tree) (found : option tokinfo) : option tokinfo :=
    match ch with
    | [] => found
    | c :: r => match token_child toks tk_Ident_or_Int c with
                | Some tk => last_field_token r (Some tk)
                | None => last_field_token r found
                end
    end.
  (* lower_field_access *)
  Definition lower_field_access (node : tree) : res expr :=
    let* lhs := lower_first_or_error (child_exprs node) in
    let lhs_span := to_span lhs in
    let field_token := last_field_token (children_or_nil node) None in
    let e : enode :=
      match field_token with
      | Some tok =>
          match t_kind tok with
          | KIdent => NFieldAccess lhs (t_text tok)
          | KInt => match parse_i64 (t_text tok) with Some n => NProj lhs n | None => NError end
          | _ => NError
          end
      | None => NError
      end in
    let sp := match node_span toks node with Some s => merge_spans lhs_span s | None => lhs_span end in
    Ok (Ex e (location_from_span sp)).

  (* lower_index *)
  Definition lower_index (node : tree) : res expr :=
    let expr_children := child_exprs node in
    let* li :=
      if 2 <=? length expr_children then
        match nth_error expr_children 0, nth_error expr_children 1 with
        | Some a, Some b => let* lhs := k_expr K a in let* index := k_expr K b in Ok (lhs, index)
        | _, _ => Panic "lower_index: expr_children[0] / expr_children[1]"
        end
      else if length expr_children =? 1 then
        match nth_error expr_children 0 with
        | Some a => let* lhs := k_expr K a in Ok (lhs, error_without_span)
        | None => Panic "lower_index: expr_children[0]"
        end
      else Ok (error_without_span, error_without_span) in
    let '(lhs, index) := li in
    Ok (Ex (NArrayAccess lhs index) (location_from_span (merge_spans (to_span lhs) (to_span index)))).

  (* lower_assign *)
  Definition lower_assign (lhs : expr) (node : tree) : res expr :=
    let* rhs := k_seq K (child_exprs node) in
    Ok (Ex (NAssign lhs rhs) (location_from_span (merge_spans (to_span lhs) (to_span rhs)))).

  (* ------------------------------------------------------------------------------------------ *)
  (* macro call `f!(..)`                                                                          *)
  (* ------------------------------------------------------------------------------------------ *)
  (* lower_qualified_path: texts of the direct Ident token children; None when there is none *)
  Definition lower_qualified_path (node : tree) : option (list string) :=
    match type_ident_segments toks (children_or_nil node) with [] => None | segs => Some segs end.
  (* macro_expand_span *)
  Definition macro_expand_span (node : tree) (base : span) : span :=
    let bang_end :=
      match find_token toks node tk_MacroExpand with
      | Some idx => match toks idx with Some t => t_end t | None => s_end base end
      | None => s_end base
      end in
    mkSpan (s_start base) bang_end.
  (* `children.take_while(|c| !(c is a MacroExpand token)).find(|c| kind(c) == Some(QualifiedPath))` *)
  Fixpoint callee_path_node (ch : list tree) : option tree :=
    match ch with
    | [] => None
    | c :: r =>
        match token_child toks tk_MacroExpand c with
        | Some _ => None
        | None => if kind_is sk_QualifiedPath c then Some c else callee_path_node r
        end
    end.
  (* lower_macro_expand *)
  Definition lower_macro_expand (node : tree) : res (expr * list expr) :=
    let* args := lower_arg_list node in
    let simple :=
      let name_idx := find_token toks node tk_Ident in
      let name_text := match name_idx with
                       | Some idx => match token_text toks idx with Some s => s | None => "" end
                       | None => "" end in
      let ident_span := match name_idx with
                        | Some idx => match toks idx with Some t => t_span t | None => span0 end
                        | None => span0 end in
      (Ex (NVar name_text) (location_from_span (macro_expand_span node ident_span)), args) in
    match (match children_of node with Some ch => callee_path_node ch | None => None end) with
    | Some path_node =>
        match lower_qualified_path path_node with
        | Some path =>
            let path_span := node_span_or0 toks path_node in
            Ok (Ex (NQualifiedVar path) (location_from_span (macro_expand_span node path_span)), args)
        | None => Ok simple
        end
    | None => Ok simple
    end.

  (* ------------------------------------------------------------------------------------------ *)
  (* parameters: lower_lambda, lower_param_list                                                   *)
  (* ------------------------------------------------------------------------------------------ *)
  (* `if next < children.len() && kind(children[next]) == Some(K)` -> Some(children[next]) *)
  Definition child_at_if (children : list tree) (next : nat) (p : SyntaxKind -> bool) (why : string) : res (option tree) :=
    if next <? length children then
      match nth_error children next with
      | Some c => Ok (if kind_is p c then Some c else None)
      | None => Panic why
      end
    else Ok None.
  (* the optional `: type` after a parameter name: (ty, next) *)
  Definition param_annotation (children : list tree) (next : nat) (l : loc) : res (typ * nat) :=
    let* o := child_at_if children next sk_TypeAnnotation "children[next] (type annotation)" in
    match o with
    | Some anno => let* t := lower_annotation_type K anno in
                   Ok (match t with Some t => t | None => unknown_at l end, next + 1)
    | None => Ok (unknown_at l, next)
    end.

  (* the fold `(0..children.len()).fold((params, body_nodes, next_index), ..)` of lower_lambda *)
  Fixpoint lambda_loop (children : list tree) (idxs : list nat) (next_index : nat) : res (list typed_id * list tree) :=
    match idxs with
    | [] => Ok ([], [])
    | i :: rest =>
        if i <? next_index then lambda_loop children rest next_index
        else
          match nth_error children i with
          | None => Panic "lower_lambda: children[i]"
          | Some child =>
              match kind_of child with
              | None =>
                  match token_child toks tk_Ident_or_Parameter child with
                  | Some token =>
                      let l := location_from_span (t_span token) in
                      let* tn := param_annotation children (i + 1) l in
                      let '(ty, next) := tn in
                      let* pb := lambda_loop children rest (Nat.max next (i + 1)) in
                      Ok (TId (t_text token) ty None :: fst pb, snd pb)
                  | None => lambda_loop children rest (Nat.max next_index (i + 1))
                  end
              | Some kind =>
                  if is_expr_kind kind then
                    let* pb := lambda_loop children rest (Nat.max next_index (i + 1)) in
                    Ok (fst pb, child :: snd pb)
                  else lambda_loop children rest (Nat.max next_index (i + 1))
              end
          end
    end.
  (* lower_lambda *)
  Definition lower_lambda (node : tree) : res (list typed_id * expr) :=
    let* pb := match children_of node with
               | Some children => lambda_loop children (seq 0 (length children)) 0
               | None => Ok ([], [])
               end in
    let* body := k_seq K (snd pb) in
    Ok (fst pb, body).

  (* the fold of lower_param_list *)
  Fixpoint param_loop (children : list tree) (idxs : list nat) (next_index : nat) : res (list typed_id) :=
    match idxs with
    | [] => Ok []
    | i :: rest =>
        if i <? next_index then param_loop children rest next_index
        else
          match nth_error children i with
          | None => Panic "lower_param_list: children[i]"
          | Some child =>
              match token_child toks tk_Ident_or_Parameter child with
              | Some token =>
                  let l := location_from_span (t_span token) in
                  let* tn := param_annotation children (i + 1) l in
                  let '(ty, next) := tn in
                  let* d := child_at_if children next sk_ParamDefault "children[next] (default value)" in
                  let* dn := match d with
                             | Some dflt =>
                                 match child_exprs dflt with
                                 | [] => Ok (None, next + 1)
                                 | expr_nodes => let* v := k_seq K expr_nodes in Ok (Some v, next + 1)
                                 end
                             | None => Ok (None, next)
                             end in
                  let '(default_value, next2) := dn in
                  let* ps := param_loop children rest (Nat.max next2 (i + 1)) in
                  Ok (TId (t_text token) ty default_value :: ps)
              | None => param_loop children rest (Nat.max next_index (i + 1))
              end
          end
    end.
  (* lower_param_list *)
  Definition lower_param_list (node : tree) : res (list typed_id * span) :=
    let* params := match children_of node with
                   | Some children => param_loop children (seq 0 (length children)) 0
                   | None => Ok []
                   end in
    Ok (params, node_span_or0 toks node).

  (* ------------------------------------------------------------------------------------------ *)
  (* records, blocks, match                                                                       *)
  (* ------------------------------------------------------------------------------------------ *)
  (* the fold of lower_record_fields: (fields, current) *)
  Fixpoint record_fields_loop (ch : list tree) (current : option string) : res (list (string * expr)) :=
    match ch with
    | [] => Ok []
    | c :: r =>
        match token_child toks tk_Ident c with
        | Some tk => record_fields_loop r (Some (t_text tk))
        | None =>
            if is_expr_node c then
              match current with
              | Some name => let* e := k_expr K c in
                             let* rest := record_fields_loop r None in
                             Ok ((name, e) :: rest)
              | None => record_fields_loop r None
              end
            else record_fields_loop r current
        end
    end.
  (* lower_record_fields *)
  Definition lower_record_fields (node : tree) : res (list (string * expr)) :=
    let* fields := record_fields_loop (children_or_nil node) None in
    Ok (sort_fields fields).

  (* lower_block_statements *)
  Fixpoint block_statements_loop (ch : list tree) : res (list (stmt * loc)) :=
    match ch with
    | [] => Ok []
    | c :: r =>
        if kind_is sk_Statement c then
          let* o := k_stmt K c in
          let* rest := block_statements_loop r in
          Ok (match o with
              | Some (st, sp) =>
                  ((match st with
                    | PGlobalStatement s => s
                    | PStageDeclaration stage => StmDeclareStage stage
                    | _ => StmError
                    end), location_from_span sp) :: rest
              | None => rest
              end)
        else block_statements_loop r
    end.
  Definition lower_block_statements (node : tree) : res (list (stmt * loc)) :=
    block_statements_loop (children_or_nil node).

  (* lower_match_arm *)
  Definition lower_match_arm (node : tree) : res (mpat * expr) :=
    let children := children_or_nil node in
    let* pattern := match find (kind_is sk_MatchPattern) children with
                    | Some pat => lower_match_pattern toks K pat
                    | None => Ok MWildcard
                    end in
    let* body := match find is_expr_node (filter (fun c => negb (kind_is sk_MatchPattern c)) children) with
                 | Some c => k_expr K c
                 | None => Ok (error_at (location_from_span (node_span_or0 toks node)))
                 end in
    Ok (pattern, body).
  (* lower_match_expr *)
  Definition lower_match_expr (node : tree) (l : loc) : res expr :=
    let children := children_or_nil node in
    let* scrutinee := match find is_expr_node children with
                      | Some c => k_expr K c
                      | None => Ok (error_at l)
                      end in
    let* arms := match find (kind_is sk_MatchArmList) children with
                 | Some list_ => match children_of list_ with
                                 | Some arm_nodes => mapM lower_match_arm (filter (kind_is sk_MatchArm) arm_nodes)
                                 | None => Ok []
                                 end
                 | None => Ok []
                 end in
    Ok (Ex (NMatch scrutinee arms) l).

  (* ------------------------------------------------------------------------------------------ *)
  (* lower_expr                                                                                   *)
  (* ------------------------------------------------------------------------------------------ *)
  (* `if nodes.is_empty() { Expr::Error.into_id(loc) } else { self.lower_expr_sequence(&nodes) }` *)
  Definition seq_or_error (nodes : list tree) (l : loc) : res expr :=
    match nodes with [] => Ok (error_at l) | _ => k_seq K nodes end.

  Definition lower_expr (node : tree) : res expr :=
    let l := match node_span toks node with Some sp => location_from_span sp | None => loc_default end in
    match kind_of node with
    | Some SIntLiteral =>
        Ok (Ex (NLiteral (LFloat (match text_of_first_token toks node with Some s => s | None => "0" end))) l)
    | Some SFloatLiteral =>
        Ok (Ex (NLiteral (LFloat (match text_of_first_token toks node with Some s => s | None => "0.0" end))) l)
    | Some SStringLiteral =>
        let text := match text_of_first_token toks node with Some s => s | None => String dquote "" end in
        Ok (Ex (NLiteral (LString (trim_matches_dq text))) l)
    | Some SSelfLiteral => Ok (Ex (NLiteral LSelf) l)
    | Some SNowLiteral => Ok (Ex (NLiteral LNow) l)
    | Some SSampleRateLiteral => Ok (Ex (NLiteral LSampleRate) l)
    | Some SPlaceHolderLiteral => Ok (Ex (NLiteral LPlaceHolder) l)
    | Some SIdentifier =>
        Ok (Ex (NVar (match text_of_first_token toks node with Some s => s | None => "" end)) l)
    | Some SQualifiedPath =>
        match lower_qualified_path node with
        | Some path =>
            if length path =? 1 then
              match nth_error path 0 with
              | Some s => Ok (Ex (NVar s) l)
              | None => Panic "lower_expr: path.segments[0]"
              end
            else Ok (Ex (NQualifiedVar path) l)
        | None => Ok (error_at l)
        end
    | Some STupleExpr => let* elems := lower_expr_list node in Ok (Ex (NTuple elems) l)
    | Some SArrayExpr => let* elems := lower_expr_list node in Ok (Ex (NArrayLiteral elems) l)
    | Some SRecordExpr =>
        match find_token toks node tk_LeftArrow with
        | Some _ =>
            let* base := match child_exprs node with
                         | expr_node :: _ => k_expr K expr_node
                         | [] => Ok (error_at l)
                         end in
            let* fields := lower_record_fields node in
            Ok (Ex (NRecordUpdate base fields) l)
        | None =>
            let* fields := lower_record_fields node in
            match find_token toks node tk_DoubleDot with
            | Some _ => Ok (Ex (NImcompleteRecord fields) l)
            | None => Ok (Ex (NRecordLiteral fields) l)
            end
        end
    | Some SIfExpr =>
        let expr_children := child_exprs node in
        let* raw_cond := match nth_error expr_children 0 with Some c => k_expr K c | None => Ok (error_at l) end in
        let cond := match to_expr raw_cond with NParen inner => inner | _ => raw_cond end in
        let* then_expr := match nth_error expr_children 1 with Some c => k_expr K c | None => Ok (error_at l) end in
        let* else_expr := optM (k_expr K) (nth_error expr_children 2) in
        Ok (Ex (NIf cond then_expr else_expr) l)
    | Some SMatchExpr => lower_match_expr node l
    | Some SBlockExpr =>
        let* stmts := lower_block_statements node in
        Ok (Ex (NBlock (into_then_expr stmts)) l)
    | Some SLambdaExpr =>
        let* pb := lower_lambda node in
        Ok (Ex (NLambda (fst pb) None (snd pb)) l)
    | Some SUnaryExpr =>
        let o := match extract_unary_op toks node with Some o => o | None => OMinus end in
        let* rhs := seq_or_error (child_exprs node) l in
        Ok (Ex (NUniOp o (l_span l) rhs) l)
    | Some SParenExpr => seq_or_error (child_exprs node) l
    | Some SMacroExpansion =>
        let* ca := lower_macro_expand node in
        Ok (Ex (NMacroExpand (fst ca) (snd ca)) l)
    | Some SBinaryExpr => lower_binary node
    | Some SCallExpr => lower_call node
    | Some SFieldAccess => lower_field_access node
    | Some SIndexExpr => lower_index node
    | Some SAssignExpr => Ok (error_at l)
    | Some SBracketExpr => let* body := seq_or_error (child_exprs node) l in Ok (Ex (NBracket body) l)
    | Some SEscapeExpr => let* body := seq_or_error (child_exprs node) l in Ok (Ex (NEscape body) l)
    | _ => Ok (error_at l)
    end.

  (* ------------------------------------------------------------------------------------------ *)
  (* lower_expr_sequence                                                                          *)
  (* ------------------------------------------------------------------------------------------ *)
  (* the try_fold over i in 0..nodes.len(): `nodes` here is nodes[i..] (so nodes[i] is its head, nodes[(i+1)..] its tail),
     acc the accumulator; the flag skip_next of the Rust code is never set and is left out *)
  Fixpoint seq_loop (nodes : list tree) (acc : option expr) : res expr :=
    match nodes with
    | [] => Ok (match acc with Some e => e | None => error_without_span end)
    | node :: rest =>
        match kind_of node with
        | Some SBinaryExpr => let* e := lower_binary node in seq_loop rest (Some e)
        | Some SCallExpr => let* e := lower_call node in seq_loop rest (Some e)
        | Some SFieldAccess => let* e := lower_field_access node in seq_loop rest (Some e)
        | Some SIndexExpr => let* e := lower_index node in seq_loop rest (Some e)
        | Some SAssignExpr =>
            match acc with
            | Some lhs =>
                let* assign := lower_assign lhs node in
                match rest with
                | _ :: _ =>
                    let* cont := k_seq K rest in
                    Ok (Ex (NThen assign (Some cont))
                           (location_from_span (merge_spans (to_span assign) (to_span cont))))        (* Break *)
                | [] => seq_loop rest (Some assign)
                end
            | None => let* e := k_expr K node in seq_loop rest (Some e)
            end
        | Some _ =>
            match acc with
            | Some (Ex (NThen first None) pl) =>
                let* rhs := k_seq K (node :: rest) in
                Ok (Ex (NThen first (Some rhs)) (location_from_span (merge_spans (l_span pl) (to_span rhs))))   (* Break *)
            | _ => let* e := k_expr K node in seq_loop rest (Some e)
            end
        | None => seq_loop rest acc
        end
    end.
  Definition lower_expr_sequence (nodes : list tree) : res expr := seq_loop nodes None.
End WithKnot.
