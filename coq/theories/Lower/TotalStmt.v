(* Lower/TotalStmt.v — totality of the lowering, part 3: the functions of ModelStmt.v, the knot, and the theorem
   lower_total: with fuel 2 * tsize root (or more) lower_with answers Ok, for every tree and every token table. *)
From Coq Require Import String List Bool Arith NArith Lia.
From Mimium Require Import Tables.LexerTables Tables.TokenKinds Parser.Model Lower.Ast Lower.Model Lower.ModelTypes
  Lower.ModelExpr Lower.ModelStmt Lower.Facts Lower.TotalTypes Lower.TotalExpr.
Import ListNotations.

Section Total.
  Variable toks : nat -> option tokinfo.
  Variable K : knot.
  Variable lv : nat.
  Hypothesis HK : knot_ok lv K.
  Let HE := HE K lv HK.
  Let HS := HS K lv HK.
  Let HSt := HSt K lv HK.
  Let HT := HT K lv HK.

  Lemma statements_loop_fine : forall ch, 2 * lsize ch + 1 <= lv -> fine (statements_loop K ch).
  Proof.
    induction ch as [|c r IH]; intros H; cbn [statements_loop]; [exact I|].
    cbn [lsize] in H. pose proof (tsize_pos c).
    destruct (kind_is sk_Statement c); [|apply IH; lia].
    apply fine_bind; [apply HSt; lia|]. intros o _. apply fine_bind; [apply IH; lia|]. intros; exact I.
  Qed.

  Lemma lower_module_decl_fine : forall node v, 2 * tsize node <= S lv -> fine (lower_module_decl toks K node v).
  Proof.
    intros node v H. unfold lower_module_decl. repeat fstep.
    apply statements_loop_fine. eapply children_of_small; eauto.
  Qed.

  Lemma lower_variant_def_fine : forall node, 2 * tsize node <= S lv -> fine (lower_variant_def toks K node).
  Proof.
    intros node H. unfold lower_variant_def.
    destruct (find_token toks node tk_Ident); [|exact I]. destruct (token_text toks n); [|exact I].
    apply fine_bind; [|intros; exact I].
    destruct (children_of node) as [children|] eqn:E; [|exact I].
    pose proof (children_of_small lv _ _ H E) as Hc. cbv zeta.
    pose proof (lsize_filter is_type_node children) as Hf.
    destruct (length (filter is_type_node children)) as [|[|m]] eqn:El; [exact I| |].
    - destruct (nth_error (filter is_type_node children) 0) eqn:En.
      + apply fine_bind; [|intros; exact I]. sizes. apply HT. lia.
      + apply nth_error_None in En. lia.
    - apply fine_bind; [|intros; exact I]. apply (mapM_type_fine K lv HK). lia.
  Qed.

  Lemma variants_loop_fine : forall ch, 2 * lsize ch + 1 <= lv -> fine (variants_loop toks K ch).
  Proof.
    induction ch as [|c r IH]; intros H; cbn [variants_loop]; [exact I|].
    cbn [lsize] in H. pose proof (tsize_pos c).
    destruct (kind_is sk_VariantDef c); [|apply IH; lia].
    apply fine_bind; [apply lower_variant_def_fine; lia|]. intros o _. apply fine_bind; [apply IH; lia|]. intros; exact I.
  Qed.

  Lemma lower_type_decl_fine : forall node v, 2 * tsize node <= S lv -> fine (lower_type_decl toks K node v).
  Proof.
    intros node v H. unfold lower_type_decl. cbv zeta.
    destruct (find_token toks node tk_Ident); [|exact I]. destruct (token_text toks n); [|exact I].
    destruct (children_of node) as [ch|] eqn:E.
    - pose proof (children_of_small lv _ _ H E) as Hc.
      apply fine_bind; [apply variants_loop_fine; exact Hc|]. intros vs _.
      destruct vs; [|exact I]. destruct (find_type_child ch) eqn:Ef; [|exact I].
      apply fine_bind; [|intros; exact I]. sizes. apply HT. lia.
    - cbn [bind]. exact I.
  Qed.

  Lemma lower_let_decl_fine : forall node, 2 * tsize node <= S lv -> fine (lower_let_decl toks K node).
  Proof.
    intros node H. pose proof (children_small lv node H) as Hc. unfold lower_let_decl.
    destruct (find_child node is_pattern_kind) as [pattern_node|] eqn:Ep; [|exact I].
    apply find_child_in in Ep. apply lsize_in in Ep.
    apply fine_bind; [apply (lower_pattern_fine toks K lv HK); lia|]. intros po _.
    destruct po as [[pat pat_span]|]; [|exact I].
    apply fine_bind.
    - destruct (find_child node sk_TypeAnnotation) as [anno|] eqn:Ea; [|exact I].
      apply find_child_in in Ea. apply lsize_in in Ea. apply (lower_annotation_type_fine K lv HK). lia.
    - intros ta _. apply fine_bind; [|intros; exact I]. apply HS. unfold collect_expr_nodes_after_pattern.
      pose proof (lsize_filter is_expr_node (skip_through_first is_pattern_node (children_or_nil node))).
      pose proof (lsize_skip_through_first is_pattern_node (children_or_nil node)). lia.
  Qed.

  Lemma return_type_loop_fine : forall ch, 2 * lsize ch + 1 <= lv -> fine (return_type_loop K ch).
  Proof.
    induction ch as [|c r IH]; intros H; cbn [return_type_loop]; [exact I|].
    cbn [lsize] in H. pose proof (tsize_pos c).
    destruct (kind_of c) as [k|]; [|apply IH; lia].
    destruct k; try (cbn [is_type_kind]; first [apply IH; lia | (apply fine_bind; [apply HT; lia | intros; exact I])]).
    apply fine_bind; [apply (lower_annotation_type_fine K lv HK); lia|]. intros o _.
    destruct o; [exact I|apply IH; lia].
  Qed.

  Lemma lower_function_decl_fine : forall node v, 2 * tsize node <= S lv -> fine (lower_function_decl toks K node v).
  Proof.
    intros node v H. pose proof (children_small lv node H) as Hc. unfold lower_function_decl.
    destruct (find_token toks node tk_Ident_or_Function); [|exact I]. destruct (token_text toks n); [|exact I].
    apply fine_bind.
    - destruct (find_child node sk_ParamList) as [id|] eqn:Ep; [|exact I].
      apply find_child_in in Ep. apply lsize_in in Ep. apply (lower_param_list_fine toks K lv HK). lia.
    - intros [params params_span] _. apply fine_bind.
      + destruct (children_of node) as [ch|] eqn:E; [|exact I]. apply return_type_loop_fine. eapply children_of_small; eauto.
      + intros rt _.
        assert (Hb : forall body_node, In body_node (children_or_nil node) ->
                  fine (let* body := (if kind_is sk_BlockExpr body_node
                                      then let* stmts := lower_block_statements K body_node in
                                           Ok (match into_then_expr stmts with Some e => e | None => unit_without_span end)
                                      else k_expr K body_node) in
                        Ok (Some (PFnDefinition v s params (location_from_span params_span) rt body)))).
        { intros b Hin. apply lsize_in in Hin. apply fine_bind; [|intros; exact I].
          destruct (kind_is sk_BlockExpr b).
          - apply fine_bind; [apply (lower_block_statements_fine K lv HK); lia | intros; exact I].
          - apply HE. lia. }
        destruct (find_child node sk_BlockExpr) as [b|] eqn:Eb.
        * apply Hb. eapply find_child_in. exact Eb.
        * destruct (find_child node is_expr_kind) as [b|] eqn:Ee; [|exact I]. apply Hb. eapply find_child_in. exact Ee.
  Qed.

  Lemma lower_letrec_decl_fine : forall node, 2 * tsize node <= S lv -> fine (lower_letrec_decl toks K node).
  Proof.
    intros node H. pose proof (children_small lv node H) as Hc. unfold lower_letrec_decl. cbv zeta.
    repeat fstep. apply HS. unfold collect_expr_nodes. pose proof (lsize_filter is_expr_node (children_or_nil node)). lia.
  Qed.

  Lemma inner_node_in : forall node k id, inner_node node = Some (k, id) -> In id (children_or_nil node).
  Proof.
    intros node k id H. unfold inner_node in H. destruct (children_of node) as [ch|] eqn:E; [|discriminate].
    rewrite (children_of_or_nil _ _ E).
    destruct (find _ ch) as [c|] eqn:Ef; [|discriminate]. apply find_in in Ef.
    destruct (kind_of c); [|discriminate]. injection H as _ <-. exact Ef.
  Qed.

  Lemma lower_statement_fine : forall node, 2 * tsize node <= S lv -> fine (lower_statement toks K node).
  Proof.
    intros node H. pose proof (children_small lv node H) as Hc. unfold lower_statement.
    destruct (node_span toks node); [|exact I].
    apply fine_bind; [|intros; exact I].
    destruct (kind_of node) as [k|]; [|exact I]. destruct k; try exact I. cbv zeta.
    destruct (inner_node node) as [[ik id]|] eqn:Ei; [|exact I].
    apply inner_node_in in Ei. apply lsize_in in Ei.
    assert (Hseq : fine (let* e := k_seq K (collect_expr_nodes node) in Ok (PGlobalStatement (StmSingle e)))).
    { apply fine_bind; [|intros; exact I]. apply HS. unfold collect_expr_nodes.
      pose proof (lsize_filter is_expr_node (children_or_nil node)). lia. }
    destruct ik; try exact Hseq; try exact I.
    - apply fine_bind; [apply lower_function_decl_fine; lia | intros; exact I].
    - apply fine_bind; [apply lower_let_decl_fine; lia | intros; exact I].
    - apply fine_bind; [apply lower_letrec_decl_fine; lia | intros; exact I].
    - apply fine_bind; [apply lower_module_decl_fine; lia | intros; exact I].
    - apply fine_bind; [apply lower_type_decl_fine; lia | intros; exact I].
  Qed.

  Lemma lower_program_fine : forall root, 2 * tsize root <= S lv -> fine (lower_program K root).
  Proof.
    intros root H. unfold lower_program. apply fine_bind.
    - destruct (children_of root) as [ch|] eqn:E; [|exact I]. apply statements_loop_fine. eapply children_of_small; eauto.
    - intros lowered _. destruct (program_fold lowered [] [] span0) as [[ps pending] pspan]. exact I.
  Qed.
End Total.

(* the knot with fuel f is fine up to level f *)
Lemma lw_ok : forall toks f, knot_ok f (lw toks f).
Proof.
  intros toks f. induction f as [|f IH].
  - unfold knot_ok. cbn [lw bottom k_expr k_seq k_stmt k_type k_pat k_mpat k_tpat].
    repeat split; intros t H; try (pose proof (tsize_pos t)); lia.
  - unfold knot_ok. cbn [lw k_expr k_seq k_stmt k_type k_pat k_mpat k_tpat]. repeat split.
    + intros t H. apply (lower_expr_fine toks _ f IH). exact H.
    + intros l H. apply (lower_expr_sequence_fine toks _ f IH). lia.
    + intros t H. apply (lower_statement_fine toks _ f IH). exact H.
    + intros t H. apply (lower_type_fine toks _ f IH). exact H.
    + intros t H. apply (lower_pattern_fine toks _ f IH). exact H.
    + intros t H. apply (lower_match_pattern_fine toks _ f IH). exact H.
    + intros t H. apply (lower_tuple_pattern_fine toks _ f IH). exact H.
Qed.

Lemma lower_with_fine : forall toks root fuel, 2 * tsize root <= fuel -> fine (lower_with fuel toks root).
Proof.
  intros toks root fuel H. unfold lower_with.
  apply (lower_program_fine (lw toks fuel) fuel (lw_ok toks fuel)). lia.
Qed.

Lemma lower_total : forall toks root fuel, 2 * tsize root <= fuel ->
  exists p, lower_with fuel toks root = Ok p.
Proof. intros toks root fuel H. apply fine_ok. apply lower_with_fine. exact H. Qed.

Lemma lower_total_default : forall toks root, exists p, lower toks root = Ok p.
Proof. intros toks root. apply lower_total. unfold lower_fuel. lia. Qed.
