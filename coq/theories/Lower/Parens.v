(* Lower/Parens.v — what lower.rs does with a ParenExpr node: `(e)` lowers to exactly what `e` lowers to (Expr::Paren is never
   built; the Location of the result is the one of e, the parentheses leave no trace). *)
From Coq Require Import String List Bool Arith NArith Lia.
From Mimium Require Import Tables.LexerTables Tables.TokenKinds Parser.Model Lower.Ast Lower.Model Lower.ModelTypes
  Lower.ModelExpr Lower.ModelStmt Lower.Facts Lower.TotalTypes Lower.TotalStmt Lower.Mono.
Import ListNotations.

Lemma bind_ret : forall A (m : res A), bind m (fun a => Ok a) = m.
Proof. intros A m. destruct m; reflexivity. Qed.

(* the node `( e )` *)
Definition paren (a : nat) (e : tree) (b : nat) : tree := TNode SParenExpr [TTok a; e; TTok b].

(* for every knot: the parenthesised node is lowered by lower_expr_sequence on its content *)
Lemma lower_paren_any_knot : forall toks K a e b, is_expr_node e = true ->
  lower_expr toks K (paren a e b) = k_seq K [e].
Proof.
  intros toks K a e b He. unfold lower_expr, paren. cbn [kind_of]. unfold seq_or_error, child_exprs. cbn [children_or_nil filter].
  unfold is_expr_node at 1 3. cbn [kind_is kind_of]. rewrite He. reflexivity.
Qed.

(* lower_expr_sequence on a single expression node is lower_expr on it (one level of fuel less for the non-postfix kinds) *)
Definition postfix_kind (e : tree) : bool :=
  match kind_of e with Some SBinaryExpr | Some SCallExpr | Some SFieldAccess | Some SIndexExpr => true | _ => false end.

Lemma seq_single : forall toks f e, is_expr_node e = true ->
  lower_expr_sequence toks (lw toks f) [e] = if postfix_kind e then lower_expr toks (lw toks f) e else k_expr (lw toks f) e.
Proof.
  intros toks f e He. unfold lower_expr_sequence, postfix_kind. cbn [seq_loop]. unfold is_expr_node, kind_is in He.
  destruct (kind_of e) as [k|] eqn:Ek; [|discriminate].
  destruct k; try discriminate; try (apply bind_ret);
    unfold lower_expr; rewrite Ek; cbv zeta; apply bind_ret.
Qed.

Lemma paren_step : forall toks f a e b, is_expr_node e = true ->
  k_expr (lw toks (S (S f))) (paren a e b) = if postfix_kind e then k_expr (lw toks (S f)) e else k_expr (lw toks f) e.
Proof.
  intros toks f a e b He. cbn [lw k_expr]. rewrite lower_paren_any_knot by exact He.
  cbn [lw k_seq]. rewrite seq_single by exact He. destruct (postfix_kind e); reflexivity.
Qed.

(* (->) whatever e lowers to with some fuel, `(e)` lowers to the same with two more units *)
Lemma paren_of_content : forall toks f f' a e b r, is_expr_node e = true ->
  k_expr (lw toks f) e = Ok r -> f + 2 <= f' -> k_expr (lw toks f') (paren a e b) = Ok r.
Proof.
  intros toks f f' a e b r He H Hf.
  assert (H2 : k_expr (lw toks (S (S f))) (paren a e b) = Ok r).
  { rewrite paren_step by exact He. destruct (postfix_kind e); [|exact H].
    apply (proj1 (lw_step_mono toks f)). exact H. }
  apply (proj1 (lw_mono toks (S (S f)) f' ltac:(lia))). exact H2.
Qed.

(* (<-) whatever `(e)` lowers to, e lowers to the same with the same fuel *)
Lemma content_of_paren : forall toks f a e b r, is_expr_node e = true ->
  k_expr (lw toks f) (paren a e b) = Ok r -> k_expr (lw toks f) e = Ok r.
Proof.
  intros toks f a e b r He H. destruct f as [|[|f]]; try (cbn in H; discriminate).
  - (* fuel 1: k_seq of the empty knot *) cbn [lw k_expr] in H. rewrite lower_paren_any_knot in H by exact He. cbn in H. discriminate.
  - rewrite paren_step in H by exact He. destruct (postfix_kind e).
    + apply (proj1 (lw_step_mono toks (S f))). exact H.
    + apply (proj1 (lw_mono toks f (S (S f)) ltac:(lia))). exact H.
Qed.

(* with the fuel of the totality theorem both are values, the same value *)
Lemma paren_transparent : forall toks f a e b, is_expr_node e = true -> 2 * tsize (paren a e b) <= f ->
  exists r, k_expr (lw toks f) (paren a e b) = Ok r /\ k_expr (lw toks f) e = Ok r.
Proof.
  intros toks f a e b He Hf.
  pose proof (proj1 (lw_ok toks f) (paren a e b) Hf) as Hfine. apply fine_ok in Hfine. destruct Hfine as [r Hr].
  exists r. split; [exact Hr|]. eapply content_of_paren; eauto.
Qed.
