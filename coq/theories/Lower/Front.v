(* Lower/Front.v — the composition CST parser -> lowering over the parser's own view of a text (definitions and the two
   immediate facts).  Parser/Model.v sees a text as the list of its syntax (non-trivia) tokens: kind + three bits (line break in
   the leading / trailing trivia, adjacency to the previous token); the lowering additionally reads the TEXT of a token and, for
   Locations only, its start and length.  The tree the parser model builds has POSITIONS in that list as leaves, so the token
   table of the lowering is indexed by position. *)
From Coq Require Import String List Bool Arith NArith Lia.
From Mimium Require Import Tables.LexerTables Tables.TokenKinds Lower.Ast Lower.Model Lower.ModelTypes
  Lower.ModelExpr Lower.ModelStmt Lower.Facts Lower.TotalStmt.
From Mimium Require Parser.Model Parser.Bridge.
Import ListNotations.
Module P := Parser.Model.

(* one syntax token: what the parser sees (p_tok), its text, its start and length in the source *)
Record ptok := mkPt { p_tok : P.tok; p_text : string; p_start : N; p_len : N }.

(* `tokens[idx].kind = k` rewrites of the parser, applied in order *)
Definition rewritten_kind (marks : list (nat * TokenKind)) (p : nat) (k : TokenKind) : TokenKind :=
  fold_left (fun k m => if fst m =? p then snd m else k) marks k.

(* the token table the Lowerer gets: Parser::parse returns the tokens with the rewritten kinds *)
Definition table_of (l : list ptok) (marks : list (nat * TokenKind)) : nat -> option tokinfo :=
  fun p => match nth_error l p with
           | Some t => Some (mkTok (rewritten_kind marks p (P.tk (p_tok t))) (p_start t) (p_len t) (p_text t))
           | None => None
           end.

(* parse_program after the tokenizer and the pre-parser: parse_cst, then Lowerer::lower_program *)
Definition front (l : list ptok) : res program :=
  match P.parse (map p_tok l) with
  | P.POk root _ marks => lower (table_of l marks) root
  | P.POutOfFuel => OutOfFuel
  | P.PPanic w => Panic w
  end.

(* forgetting where the tokens are: the AST up to its Locations *)
Definition strip (t : ptok) : ptok := mkPt (p_tok t) (p_text t) 0 0.
Definition front_nospan (l : list ptok) : res program := front (map strip l).

Lemma front_total : forall l, exists p, front l = Ok p.
Proof.
  intros l. unfold front. destruct (Bridge.parse_total (map p_tok l)) as [root [es [ms ->]]].
  apply lower_total_default.
Qed.

Lemma front_nospan_view : forall l1 l2, map strip l1 = map strip l2 -> front_nospan l1 = front_nospan l2.
Proof. intros l1 l2 H. unfold front_nospan. rewrite H. reflexivity. Qed.
