(* Parser/Bridge.v — from error token indices to source spans (composition with the Lexer theory).
   parser_errors_to_reportable (parser/mod.rs) turns ParserError.token_index (a RAW token index) into the span
   tokens[token_index].start .. tokens[token_index].end().  The model's error index is a POSITION p of token_indices
   (EAt p, raw index token_indices[p]) or EEnd (raw index 0, `unwrap_or(0)`). *)
From Coq Require Import String List Bool Arith NArith Lia.
From Mimium Require Import Tables.LexerTables Tables.TokenKinds Lexer.Model Lexer.Lemmas Lexer.PreLemmas.
From Mimium Require Parser.Model Parser.Basic Parser.Progress Parser.Safety.
Import ListNotations.

Module P := Parser.Model.

Definition error_raw_index (idxs : list N) (e : P.eidx) : N :=
  match e with P.EAt p => nth p idxs 0%N | P.EEnd => 0%N end.

Lemma parse_errors_in_range : forall ts root es ms, P.parse ts = P.POk root es ms ->
  Forall (Basic.err_ok (length ts)) es /\ Forall (fun m => fst m < length ts) ms.
Proof.
  intros ts root es ms H. unfold P.parse in H.
  destruct (Basic.parse_ok_facts _ _ _ _ _ H) as [st1 [_ [I [_ [_ [_ [-> ->]]]]]]].
  split; apply Forall_rev; [exact (Basic.inv_errs _ _ I) | exact (Basic.inv_marks _ _ I)].
Qed.

Lemma error_span_in_text : forall (s : Input) (toks : list Token) (ts : list P.tok) root es ms,
  tiling s toks ->
  length ts = length (pp_token_indices (preparse toks)) ->
  P.parse ts = P.POk root es ms ->
  forall e, In e es ->
  exists t, nth_error toks (N.to_nat (error_raw_index (pp_token_indices (preparse toks)) (P.e_idx e))) = Some t /\
            char_boundary s (tk_start t) /\ char_boundary s (tk_end t).
Proof.
  intros s toks ts root es ms T L Hp e He.
  destruct (parse_errors_in_range _ _ _ _ Hp) as [Fe _]. rewrite Forall_forall in Fe. specialize (Fe e He).
  destruct T as [body [Et [_ [_ [Fb _]]]]].
  assert (Hlen : (N.to_nat (error_raw_index (pp_token_indices (preparse toks)) (P.e_idx e)) < length toks)%nat).
  { unfold Basic.err_ok in Fe. unfold error_raw_index. destruct (P.e_idx e) as [p|].
    - rewrite L in Fe.
      pose proof (preparse_total toks (nth p (pp_token_indices (preparse toks)) 0%N)) as [Hin _].
      specialize (Hin (or_introl (nth_In _ _ Fe))). lia.
    - rewrite Et, app_length. cbn. lia. }
  destruct (nth_error toks _) as [t|] eqn:En; [|apply nth_error_None in En; lia].
  exists t. split; [reflexivity|]. rewrite Forall_forall in Fb. apply Fb. eapply nth_error_In; exact En.
Qed.

Lemma parse_total : forall ts, exists root es ms, P.parse ts = P.POk root es ms.
Proof.
  intros ts. destruct (P.parse ts) as [root es ms| |w] eqn:E.
  - eauto.
  - exfalso. exact (Progress.parse_progress ts E).
  - exfalso. exact (Safety.parse_no_panic _ ts w E).
Qed.
