(* Parser/Safety.v — the model never reaches `Panic`:
   - `start_node_at(lhs_marker, ..)` is only executed where an `lhs_marker` is in scope (static check mchk), and
     `children.drain(marker.pos..)` is in range: every live marker is <= the length of the children list it refers to
     (no command shortens the top frame below a live marker);
   - the final `finish_node().unwrap()` finds the Program frame. *)
From Coq Require Import String List Bool Arith NArith Lia.
From Mimium Require Import Tables.LexerTables Tables.TokenKinds Parser.Model Parser.Basic.
Import ListNotations.

(* procedures that are entered by CallM: loops sharing the caller's lhs_marker *)
Definition needs_marker (f : fname) : bool :=
  match f with FPrattLoop _ | FPrattLoopNoLB _ | FPostfixLoop => true | _ => false end.

(* has = an lhs_marker is in scope *)
Fixpoint mchk (has : bool) (c : cmd) : bool :=
  match c with
  | Seq a b | IfExpect _ a b | If _ a b => mchk has a && mchk has b
  | Node _ x => mchk false x
  | WithMarker x | SetMarkerLast x => mchk true x
  | WrapAt _ x => has && mchk false x
  | WithBefore x => mchk has x
  | Call g => negb (needs_marker g)
  | CallM g => has
  | _ => true
  end.

Lemma bodies_mchk : forall f, mchk (needs_marker f) (body f) = true.
Proof. destruct f; reflexivity. Qed.

(* the post-condition: same frames below, same kind on top, top children not shorter than the floor / the marker *)
Definition keeps (k0 : SyntaxKind) (r : list frame) (fl : nat) (mk : option nat) (st' : pstate) : Prop :=
  exists ch', stack st' = (k0, ch') :: r /\ fl <= length ch' /\ (forall m, mk = Some m -> m <= length ch').

Definition safe_out (k0 : SyntaxKind) (r : list frame) (fl : nat) (mk : option nat) (o : outcome) : Prop :=
  match o with Panic _ => False | OutOfFuel => True | Ok st' => keeps k0 r fl mk st' end.

Definition mk_pre (fl : nat) (mk : option nat) (ch : list tree) : Prop :=
  fl <= length ch /\ (forall m, mk = Some m -> m <= length ch /\ fl <= m + 1).

Definition call_safe (call : fname -> option nat -> pstate -> outcome) : Prop :=
  forall g mk st fl k0 ch r, stack st = (k0, ch) :: r -> mk_pre fl mk ch -> (needs_marker g = true -> mk <> None) ->
    safe_out k0 r fl mk (call g mk st).

Lemma keeps_stack_only : forall k0 r fl mk st st', stack st' = stack st -> keeps k0 r fl mk st -> keeps k0 r fl mk st'.
Proof. intros k0 r fl mk st st' E [ch' [H1 H2]]. exists ch'. rewrite E. auto. Qed.

Lemma keeps_refl : forall st fl mk k0 ch r, stack st = (k0, ch) :: r -> mk_pre fl mk ch -> keeps k0 r fl mk st.
Proof. intros st fl mk k0 ch r E [H1 H2]. exists ch. split; [exact E|]. split; [exact H1|]. intros m Em. apply H2; exact Em. Qed.

Lemma bump_keeps : forall st fl mk k0 ch r, stack st = (k0, ch) :: r -> mk_pre fl mk ch -> keeps k0 r fl mk (bump st).
Proof.
  intros st fl mk k0 ch r E [H1 H2]. unfold bump. destruct (rest st).
  - exists ch. cbn [stack]. split; [exact E|]. split; [exact H1|]. intros m Em. apply H2; exact Em.
  - exists (ch ++ [TTok (cur st)]). cbn [stack]. rewrite E. cbn [b_add_token]. split; [reflexivity|].
    rewrite app_length. cbn [length]. split; [lia|]. intros m Em. destruct (H2 m Em). lia.
Qed.

Lemma expect_keeps : forall k st fl mk k0 ch r, stack st = (k0, ch) :: r -> mk_pre fl mk ch -> keeps k0 r fl mk (snd (expect k st)).
Proof.
  intros k st fl mk k0 ch r E P. unfold expect.
  destruct (match peek st with Some k' => tk_eqb k' k | None => false end); cbn [snd].
  - eapply bump_keeps; eauto.
  - destruct (is_at_end st); cbn [snd]; (eapply keeps_stack_only; [|eapply keeps_refl; eauto]); reflexivity.
Qed.

Lemma expects_keeps : forall ks st fl mk k0 ch r, stack st = (k0, ch) :: r -> mk_pre fl mk ch -> keeps k0 r fl mk (snd (expects ks st)).
Proof.
  intros ks st fl mk k0 ch r E P. unfold expects. destruct (peek st) as [k|].
  - destruct (tk_in k ks); cbn [snd]; [eapply bump_keeps; eauto|].
    eapply keeps_stack_only; [|eapply keeps_refl; eauto]; reflexivity.
  - cbn [snd]. eapply keeps_stack_only; [|eapply keeps_refl; eauto]; reflexivity.
Qed.

Lemma mk_pre_weaken : forall fl mk ch ch', mk_pre fl mk ch -> fl <= length ch' -> (forall m, mk = Some m -> m <= length ch') -> mk_pre fl mk ch'.
Proof. intros fl mk ch ch' [H1 H2] Hf Hm. split; [exact Hf|]. intros m Em. split; [apply Hm; exact Em | apply H2; exact Em]. Qed.

Section Safe.
  Variable call : fname -> option nat -> pstate -> outcome.
  Hypothesis Hcall : call_safe call.

  Lemma exec_safe : forall c has before mk st fl k0 ch r,
    mchk has c = true -> (has = true -> mk <> None) ->
    stack st = (k0, ch) :: r -> mk_pre fl mk ch ->
    safe_out k0 r fl mk (exec call c before mk st).
  Proof.
    induction c; intros has before mk st fl k0 ch r Hm Hh E P; cbn [mchk] in Hm; cbn [exec]; unfold safe_out;
      try (apply andb_prop in Hm; destruct Hm as [Hm1 Hm2]).
    - (* Skip *) eapply keeps_refl; eauto.
    - (* Seq *)
      pose proof (IHc1 has before mk st fl k0 ch r Hm1 Hh E P) as H1. unfold safe_out in H1.
      destruct (exec call c1 before mk st) as [st1| |]; auto.
      destruct H1 as [ch1 [E1 [F1 M1]]].
      pose proof (IHc2 has before mk st1 fl k0 ch1 r Hm2 Hh E1 (mk_pre_weaken _ _ _ _ P F1 M1)) as H2. exact H2.
    - eapply bump_keeps; eauto.
    - eapply expect_keeps; eauto.
    - eapply expects_keeps; eauto.
    - (* IfExpect *)
      pose proof (expect_keeps k st fl mk k0 ch r E P) as [ch1 [E1 [F1 M1]]].
      destruct (fst (expect k st)).
      + exact (IHc1 has before mk _ fl k0 ch1 r Hm1 Hh E1 (mk_pre_weaken _ _ _ _ P F1 M1)).
      + exact (IHc2 has before mk _ fl k0 ch1 r Hm2 Hh E1 (mk_pre_weaken _ _ _ _ P F1 M1)).
    - (* Err *) eapply keeps_stack_only; [|eapply keeps_refl; eauto]. unfold emit_err. destruct ek; try reflexivity. destruct (peek st); reflexivity.
    - (* MarkKind *) eapply keeps_stack_only; [|eapply keeps_refl; eauto]. unfold mark_kind. destruct (rest st); reflexivity.
    - (* Node *)
      assert (E1 : stack (set_stack st (b_start k (stack st))) = (k, []) :: (k0, ch) :: r) by (cbn; rewrite E; reflexivity).
      assert (P1 : mk_pre 0 None (@nil tree)) by (split; [cbn; lia | intros m Em; discriminate]).
      pose proof (IHc false before None _ 0 k [] ((k0, ch) :: r) Hm (fun H => False_ind _ (Bool.diff_false_true H)) E1 P1) as H1.
      unfold safe_out in H1.
      destruct (exec call c before None (set_stack st (b_start k (stack st)))) as [st1| |]; auto.
      destruct H1 as [ch1 [E2 _]]. destruct P as [Pf Pm].
      exists (ch ++ [TNode k ch1]). unfold finish. cbn [set_stack stack]. rewrite E2. cbn [b_finish fst].
      split; [reflexivity|]. rewrite app_length. cbn [length]. split; [lia|]. intros m Em. destruct (Pm m Em). lia.
    - (* WithMarker *)
      destruct P as [Pf Pm].
      assert (Hb : b_marker (stack st) = length ch) by (rewrite E; reflexivity). rewrite Hb.
      set (fl' := match mk with Some m => Nat.max fl m | None => fl end).
      assert (P1 : mk_pre fl' (Some (length ch)) ch).
      { unfold fl'. split.
        - destruct mk as [m|]; [destruct (Pm m eq_refl); lia | lia].
        - intros m0 Em0. injection Em0 as <-. split; [lia|]. destruct mk as [m|]; [destruct (Pm m eq_refl); lia | lia]. }
      pose proof (IHc true before (Some (length ch)) st fl' k0 ch r Hm (fun _ => ltac:(discriminate)) E P1) as H1.
      unfold safe_out in H1. destruct (exec call c before (Some (length ch)) st) as [st1| |]; auto.
      destruct H1 as [ch1 [E1 [F1 _]]]. exists ch1. split; [exact E1|]. unfold fl' in F1.
      split; [destruct mk; lia|]. intros m Em. subst mk. lia.
    - (* WrapAt *)
      specialize (Hh Hm1). destruct mk as [m|]; [|congruence]. destruct P as [Pf Pm]. destruct (Pm m eq_refl) as [Pm1 Pm2].
      rewrite E. cbn [b_start_at]. apply Nat.leb_le in Pm1 as Hle. rewrite Hle.
      assert (E1 : stack (set_stack st ((k, skipn m ch) :: (k0, firstn m ch) :: r)) = (k, skipn m ch) :: (k0, firstn m ch) :: r) by reflexivity.
      assert (P1 : mk_pre 0 None (skipn m ch)) by (split; [lia | intros m0 Em0; discriminate]).
      pose proof (IHc false before None _ 0 k (skipn m ch) ((k0, firstn m ch) :: r) Hm2 (fun H => False_ind _ (Bool.diff_false_true H)) E1 P1) as H1.
      unfold safe_out in H1.
      destruct (exec call c before None (set_stack st ((k, skipn m ch) :: (k0, firstn m ch) :: r))) as [st1| |]; auto.
      destruct H1 as [ch1 [E2 _]].
      exists (firstn m ch ++ [TNode k ch1]). unfold finish. cbn [set_stack stack]. rewrite E2. cbn [b_finish fst].
      split; [reflexivity|]. rewrite app_length, firstn_length_le by exact Pm1. cbn [length].
      split; [lia|]. intros m0 Em0. injection Em0 as <-. lia.
    - (* SetMarkerLast *)
      destruct P as [Pf Pm].
      assert (Hb : b_marker (stack st) = length ch) by (rewrite E; reflexivity). rewrite Hb.
      set (fl' := match mk with Some m => Nat.max fl m | None => fl end).
      assert (P1 : mk_pre fl' (Some (length ch - 1)) ch).
      { unfold fl'. split.
        - destruct mk as [m|]; [destruct (Pm m eq_refl); lia | lia].
        - intros m0 Em0. injection Em0 as <-. split; [lia|]. destruct mk as [m|]; [destruct (Pm m eq_refl); lia | lia]. }
      pose proof (IHc true before (Some (length ch - 1)) st fl' k0 ch r Hm (fun _ => ltac:(discriminate)) E P1) as H1.
      unfold safe_out in H1. destruct (exec call c before (Some (length ch - 1)) st) as [st1| |]; auto.
      destruct H1 as [ch1 [E1 [F1 _]]]. exists ch1. split; [exact E1|]. unfold fl' in F1.
      split; [destruct mk; lia|]. intros m Em. subst mk. lia.
    - (* WithBefore *) exact (IHc has (cur st) mk st fl k0 ch r Hm Hh E P).
    - (* If *) destruct (eval_cond b before st); [exact (IHc1 has before mk st fl k0 ch r Hm1 Hh E P) | exact (IHc2 has before mk st fl k0 ch r Hm2 Hh E P)].
    - (* Call *)
      destruct P as [Pf Pm].
      assert (P1 : mk_pre (length ch) None ch) by (split; [lia | intros m Em; discriminate]).
      pose proof (Hcall f None st (length ch) k0 ch r E P1) as H1.
      assert (Hn : needs_marker f = true -> @None nat <> None).
      { intros Hnm. rewrite Hnm in Hm. discriminate. }
      specialize (H1 Hn). unfold safe_out in H1. destruct (call f None st) as [st1| |]; auto.
      destruct H1 as [ch1 [E1 [F1 _]]]. exists ch1. split; [exact E1|]. split; [lia|]. intros m Em. destruct (Pm m Em). lia.
    - (* CallM *)
      exact (Hcall f mk st fl k0 ch r E P (fun _ => Hh Hm)).
  Qed.
End Safe.

Lemma run_safe : forall fuel, call_safe (run fuel).
Proof.
  induction fuel as [|k IH]; intros g mk st fl k0 ch r E P Hn; cbn [run]; [exact I|].
  exact (exec_safe (run k) IH (body g) (needs_marker g) 0 mk st fl k0 ch r (bodies_mchk g) Hn E P).
Qed.

Lemma parse_no_panic : forall fuel ts w, parse_with fuel ts <> PPanic w.
Proof.
  intros fuel ts w H. unfold parse_with in H.
  set (st := set_stack (init_state ts) (b_start SProgram [])) in *.
  assert (E : stack st = (SProgram, []) :: []) by reflexivity.
  assert (P : mk_pre 0 None (@nil tree)) by (split; [cbn; lia | intros m Em; discriminate]).
  assert (Hm : mchk false while_program = true) by reflexivity.
  pose proof (exec_safe (run fuel) (run_safe fuel) while_program false 0 None st 0 SProgram [] [] Hm
                (fun H => False_ind _ (Bool.diff_false_true H)) E P) as H1.
  unfold safe_out in H1.
  destruct (exec (run fuel) while_program 0 None st) as [st1| |]; try discriminate; [|exact H1].
  destruct H1 as [ch1 [E1 _]]. rewrite E1 in H. cbn in H. discriminate.
Qed.
