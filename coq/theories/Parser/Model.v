(* Parser/Model.v — executable model of crates/lib/mimium-lang/src/compiler/parser/cst_parser.rs
   (hand-written recursive descent + Pratt parser producing a green tree) and of the tree-builder
   functions of green.rs it drives.  Definitions only; lemmas are in Parser/Basic.v, Parser/Safety.v,
   Parser/Progress.v; theorems in Props/C04.v.

   Shape of the transcription
   --------------------------
   Every `fn parse_*` of `impl Parser` and every `while`/`loop` inside one is a *named procedure*
   (`fname`); `body : fname -> cmd` gives its body in a small command language whose constructors are
   the statements the Rust code is made of (`bump`, `expect`, `emit_node`, `start_node_at .. finish_node`,
   `if`/`match self.peek()`, a call).  `exec` interprets a command; `run fuel f` = `exec (run (fuel-1)) (body f)`
   decrements the explicit FUEL at every procedure call (hence at every loop iteration) and returns
   `OutOfFuel` when it is exhausted.  A `continue`/next iteration is a call of the loop procedure, `break`
   and `return` are `Skip` in tail position.
   Local variables: `let before = self.current` is `WithBefore` (read by `CStalled`), `let mut lhs_marker =
   self.builder.marker()` is `WithMarker` (read by `WrapAt`, reassigned by `SetMarkerLast`); a loop procedure
   that shares its caller's `lhs_marker` is entered by `CallM`.
   Input: the parser only looks at the non-trivia token sequence through `PreParsedTokens::get_token`
   (kinds), `has_trailing_linebreak` (LineBreak in the trailing trivia of the previous token / leading trivia
   of the current one) and `prev_kind_if_adjacent` (raw indices adjacent).  The model input is therefore the
   list of `tok` records: kind + those three bits, position p of the list = index p of `token_indices`.
   State: `rest` = tokens from `current` on (so `peek_ahead i = nth_error rest i`), `prev` = token current-1,
   `cur` = `self.current` (it keeps growing when `bump` is called at the end), builder stack, errors, kind rewrites.
   Panics of the Rust code are explicit: `Panic` (Vec::drain out of range in start_node_at, finish_node().unwrap()). *)
From Coq Require Import String List Bool Arith NArith.
From Mimium Require Import Tables.LexerTables Tables.TokenKinds.
Import ListNotations.

(* ------------------------------------------------------------------------------------------ *)
(* tokens, tree, errors, state                                                                  *)
(* ------------------------------------------------------------------------------------------ *)
Definition tk_eqb (a b : TokenKind) : bool := N.eqb (kind_code a) (kind_code b).
Definition tk_in (k : TokenKind) (ks : list TokenKind) : bool := existsb (tk_eqb k) ks.

(* one non-trivia token as the parser sees it *)
Record tok := mkPTok {
  tk : TokenKind;
  lb_before : bool;   (* leading_trivia_map[p] contains a LineBreak token *)
  lb_after : bool;    (* trailing_trivia_map[p] contains a LineBreak token *)
  adj : bool          (* token_indices[p] == token_indices[p-1] + 1 *)
}.

(* green.rs GreenNode: Token{token_index} | Internal{kind, children}  (widths are not modelled) *)
Inductive tree := TTok (pos : nat) | TNode (k : SyntaxKind) (ch : list tree).
(* green.rs GreenTreeBuilder.stack : Vec<(SyntaxKind, Vec<GreenNodeId>)>, last element = head *)
Definition frame := (SyntaxKind * list tree)%type.

(* ParserError.token_index = current_token_index() = token_indices.get(current).copied().unwrap_or(0):
   EAt p = the raw index of position p (p < n);  EEnd = the `unwrap_or(0)` case, raw index 0 *)
Inductive eidx := EAt (p : nat) | EEnd.
Inductive eclass := EUnexpectedToken | EUnexpectedEof | EInvalidSyntax.
(* e_msg = `expected` / `reason`;  e_found = the kind whose Debug text is `found` *)
Record perror := mkErr { e_idx : eidx; e_cls : eclass; e_msg : string; e_found : option TokenKind }.

Record pstate := mkSt {
  rest : list tok;                 (* tokens at positions current, current+1, .. *)
  prev : option tok;               (* token at position current-1 (None when current = 0 or current-1 >= n) *)
  cur : nat;                       (* Parser.current *)
  stack : list frame;              (* Parser.builder.stack *)
  errs : list perror;              (* Parser.errors, newest first *)
  marks : list (nat * TokenKind)   (* `tokens[idx].kind = k` rewrites: (position, new kind), newest first *)
}.
Definition set_stack (st : pstate) (s : list frame) : pstate :=
  mkSt (rest st) (prev st) (cur st) s (errs st) (marks st).

(* ------------------------------------------------------------------------------------------ *)
(* green.rs GreenTreeBuilder                                                                    *)
(* ------------------------------------------------------------------------------------------ *)
(* marker(): children.len() of the top frame, 0 without a frame *)
Definition b_marker (s : list frame) : nat := match s with (_, ch) :: _ => length ch | [] => 0 end.
(* start_node(kind) *)
Definition b_start (k : SyntaxKind) (s : list frame) : list frame := (k, []) :: s.
(* start_node_at(marker, kind): children.drain(marker.pos..) panics when marker.pos > len (None) *)
Definition b_start_at (m : nat) (k : SyntaxKind) (s : list frame) : option (list frame) :=
  match s with
  | (k0, ch) :: r => if m <=? length ch then Some ((k, skipn m ch) :: (k0, firstn m ch) :: r) else None
  | [] => Some [(k, [])]
  end.
(* add_token(token_index, width) *)
Definition b_add_token (p : nat) (s : list frame) : list frame :=
  match s with (k, ch) :: r => (k, ch ++ [TTok p]) :: r | [] => [] end.
(* finish_node() -> (stack, returned id) *)
Definition b_finish (s : list frame) : list frame * option tree :=
  match s with
  | (k, ch) :: r =>
      (match r with (k1, ch1) :: r1 => (k1, ch1 ++ [TNode k ch]) :: r1 | [] => [] end, Some (TNode k ch))
  | [] => ([], None)
  end.

(* ------------------------------------------------------------------------------------------ *)
(* Parser primitives                                                                            *)
(* ------------------------------------------------------------------------------------------ *)
(* peek / peek_ahead(n): preparsed.get_token(current + n).map(kind) *)
Definition peek (st : pstate) : option TokenKind :=
  match rest st with t :: _ => Some (tk t) | [] => None end.
Definition peek_ahead (st : pstate) (n : nat) : option TokenKind :=
  match nth_error (rest st) n with Some t => Some (tk t) | None => None end.
(* is_at_end: peek().is_none_or(|k| k == Eof) *)
Definition is_at_end (st : pstate) : bool :=
  match peek st with None => true | Some k => tk_eqb k KEof end.
(* current_token_index *)
Definition current_token_index (st : pstate) : eidx :=
  match rest st with _ :: _ => EAt (cur st) | [] => EEnd end.
(* add_error *)
Definition add_error (e : perror) (st : pstate) : pstate :=
  mkSt (rest st) (prev st) (cur st) (stack st) (e :: errs st) (marks st).
(* bump: add the current token (if there is one) to the tree; current += 1 in any case *)
Definition bump (st : pstate) : pstate :=
  match rest st with
  | t :: r => mkSt r (Some t) (S (cur st)) (b_add_token (cur st) (stack st)) (errs st) (marks st)
  | [] => mkSt [] None (S (cur st)) (stack st) (errs st) (marks st)
  end.
(* `if let Some(&idx) = token_indices.get(current) { tokens[idx].kind = k }` *)
Definition mark_kind (k : TokenKind) (st : pstate) : pstate :=
  match rest st with
  | t :: r => mkSt (mkPTok k (lb_before t) (lb_after t) (adj t) :: r) (prev st) (cur st) (stack st) (errs st)
                   ((cur st, k) :: marks st)
  | [] => st
  end.
(* has_trailing_linebreak *)
Definition has_trailing_linebreak (st : pstate) : bool :=
  if cur st =? 0 then false
  else (match prev st with Some t => lb_after t | None => false end)
       || (match rest st with t :: _ => lb_before t | [] => false end).
(* prev_kind_if_adjacent *)
Definition prev_kind_if_adjacent (st : pstate) : option TokenKind :=
  if cur st =? 0 then None
  else match rest st, prev st with
       | t :: _, Some p => if adj t then Some (tk p) else None
       | _, _ => None
       end.

(* expect(kind) -> (matched, state) *)
Definition expect (k : TokenKind) (st : pstate) : bool * pstate :=
  if (match peek st with Some k' => tk_eqb k' k | None => false end) then (true, bump st)
  else if is_at_end st then
    (false, add_error (mkErr (current_token_index st) EUnexpectedEof (kind_name k) None) st)
  else
    (false, add_error (mkErr (current_token_index st) EUnexpectedToken (kind_name k) (peek st)) st).

(* kinds.iter().map(Debug).join(" or ") *)
Fixpoint join_or (ks : list TokenKind) : string :=
  match ks with
  | [] => EmptyString
  | [k] => kind_name k
  | k :: r => append (kind_name k) (append " or " (join_or r))
  end.
(* expects(kinds) *)
Definition expects (ks : list TokenKind) (st : pstate) : bool * pstate :=
  match peek st with
  | Some k => if tk_in k ks then (true, bump st)
              else (false, add_error (mkErr (current_token_index st) EUnexpectedToken (join_or ks) (Some k)) st)
  | None => (false, add_error (mkErr (current_token_index st) EUnexpectedEof (join_or ks) None) st)
  end.

(* the four shapes of add_error call sites *)
Inductive errkind :=
  | EKTokIfSome   (* if let Some(kind) = self.peek() { add_error(unexpected_token(idx, s, kind)) } *)
  | EKTokOrEof    (* add_error(unexpected_token(idx, s, self.peek().unwrap_or(Eof))) *)
  | EKEof         (* add_error(unexpected_eof(idx, s)) *)
  | EKSyntax.     (* add_error(invalid_syntax(idx, s)) *)
Definition emit_err (ek : errkind) (s : string) (st : pstate) : pstate :=
  match ek with
  | EKTokIfSome => match peek st with
                   | Some k => add_error (mkErr (current_token_index st) EUnexpectedToken s (Some k)) st
                   | None => st end
  | EKTokOrEof => add_error (mkErr (current_token_index st) EUnexpectedToken s
                                   (Some (match peek st with Some k => k | None => KEof end))) st
  | EKEof => add_error (mkErr (current_token_index st) EUnexpectedEof s None) st
  | EKSyntax => add_error (mkErr (current_token_index st) EInvalidSyntax s None) st
  end.

(* ------------------------------------------------------------------------------------------ *)
(* look-ahead scans (on the kinds from position current+1 on)                                   *)
(* ------------------------------------------------------------------------------------------ *)
Definition kinds_from (st : pstate) (i : nat) : list TokenKind := map tk (skipn i (rest st)).

(* find_macro_expand_after_path().is_some(): Ident (:: Ident)* ! *)
Fixpoint path_then_macro (l : list TokenKind) : bool :=
  match l with
  | KDoubleColon :: l1 => match l1 with KIdent :: l2 => path_then_macro l2 | _ => false end
  | KMacroExpand :: _ => true
  | _ => false
  end.
Definition macro_after_path (st : pstate) : bool :=
  match kinds_from st 0 with KIdent :: l => path_then_macro l | _ => false end.

(* parse_type: `for i in 1..MAX_LOOKAHEAD` looking for `)` at depth 0 directly followed by `->`;
   cnt = number of remaining values of i, l = kinds from peek_ahead(i) on *)
Fixpoint fn_type_scan (cnt : nat) (l : list TokenKind) (depth : nat) : bool :=
  match cnt with
  | O => false
  | S c =>
    match l with
    | [] => false                                                  (* None => break *)
    | KParenBegin :: r => fn_type_scan c r (S depth)
    | KParenEnd :: r =>
        match depth with
        | O => match r with KArrow :: _ => true | _ => false end   (* ahead_arrow = Some(i+1) / break *)
        | S d => fn_type_scan c r d
        end
    | _ :: r => fn_type_scan c r depth
    end
  end.
Definition fn_type_ahead (st : pstate) : bool := fn_type_scan (MAX_LOOKAHEAD - 1) (kinds_from st 1) 0.

(* parse_type_tuple_or_paren: (1..MAX_LOOKAHEAD).find_map(..).unwrap_or(false) *)
Fixpoint type_tuple_scan (cnt : nat) (l : list TokenKind) (depth : nat) : bool :=
  match cnt with
  | O => false                                                     (* unwrap_or(false) *)
  | S c =>
    match l with
    | [] => false                                                  (* None => Some(false) *)
    | KParenBegin :: r => type_tuple_scan c r (S depth)
    | KParenEnd :: r => match depth with O => false | S d => type_tuple_scan c r d end
    | KComma :: r => match depth with O => true | S _ => type_tuple_scan c r depth end
    | _ :: r => type_tuple_scan c r depth
    end
  end.
Definition type_tuple_ahead (st : pstate) : bool := type_tuple_scan (MAX_LOOKAHEAD - 1) (kinds_from st 1) 0.

(* is_tuple_expr: `for i in 1..` (unbounded; ends at None because the token list is finite).
   depth = nesting of ( [ { inside the parenthesis, in_lambda = between the two bars of a lambda's parameter list at
   depth 0; only a comma at depth 0 outside such bars makes the parenthesis a tuple *)
Fixpoint tuple_expr_scan (l : list TokenKind) (depth : nat) (in_lambda : bool) : bool :=
  match l with
  | [] => false
  | KParenBegin :: r | KArrayBegin :: r | KBlockBegin :: r => tuple_expr_scan r (S depth) in_lambda
  | KParenEnd :: r => match depth with O => false | S d => tuple_expr_scan r d in_lambda end
  | KArrayEnd :: r | KBlockEnd :: r => tuple_expr_scan r (Nat.pred depth) in_lambda       (* saturating_sub(1) *)
  | KLambdaArgBeginEnd :: r =>
      match depth with O => tuple_expr_scan r depth (negb in_lambda) | S _ => tuple_expr_scan r depth in_lambda end
  | KComma :: r =>
      match depth with
      | O => if in_lambda then tuple_expr_scan r depth in_lambda else true
      | S _ => tuple_expr_scan r depth in_lambda
      end
  | _ :: r => tuple_expr_scan r depth in_lambda
  end.
Definition is_tuple_expr (st : pstate) : bool :=
  match peek st with
  | Some KParenBegin => tuple_expr_scan (kinds_from st 1) 0 false
  | _ => false
  end.

(* ------------------------------------------------------------------------------------------ *)
(* the command language                                                                         *)
(* ------------------------------------------------------------------------------------------ *)
Inductive fname :=
  | FProgramLoop | FStatement | FModuleDecl | FModuleLoop | FUseStmt | FUsePath | FUsePathLoop | FUseMultiLoop
  | FQualifiedPath | FQualifiedPathLoop | FMacroDecl | FIncludeStmt | FStageDecl | FMacroExpansion | FMacroArgsLoop
  | FBracketExpr | FEscapeExpr | FFunctionDecl | FLetDecl | FLetRecDecl
  | FPattern | FTuplePattern | FTuplePatternLoop | FRecordPattern | FRecordPatternLoop
  | FParamList | FParamLoop | FExpr | FAssignmentExpr
  | FExprPrec (p : nat) | FPrattLoop (p : nat) | FExprPrecNoLB (p : nat) | FPrattLoopNoLB (p : nat)
  | FPrefixExpr | FUnaryExpr | FPostfixExpr | FPostfixLoop | FArgList | FArgLoop
  | FTypeAnnotation | FType | FTypeUnion | FTypeUnionLoop | FTypePrimary | FTypeIdentLoop
  | FTypeTupleOrParen | FTypeTupleLoop | FTypeRecord | FTypeRecordLoop
  | FPrimary | FLambdaExpr | FLambdaParamLoop | FTupleExpr | FTupleExprLoop
  | FRecordExpr | FRecordUpdateLoop | FRecordFieldLoop | FBlockExpr | FBlockLoop | FIfExpr
  | FMatchExpr | FMatchArmLoop | FMatchArm | FMatchPattern | FMatchTuplePattern | FMatchTupleLoop
  | FTypeDecl | FTypeDeclLoop | FTypeAliasDecl | FVariantDef | FVariantLoop | FArrayExpr | FArrayLoop.

Inductive cond :=
  | CPeek (ks : list TokenKind)            (* matches!(self.peek(), Some(k) if k in ks);  check(k) = CPeek [k] *)
  | CPeekNone                              (* self.peek() == None *)
  | CAhead (n : nat) (ks : list TokenKind) (* matches!(self.peek_ahead(n), Some(k) if k in ks) *)
  | CAheadNone (n : nat)                   (* self.peek_ahead(n) == None *)
  | CAtEnd                                 (* self.is_at_end() *)
  | CTrailingLB                            (* self.has_trailing_linebreak() *)
  | CStalled                               (* self.current == before && !self.is_at_end() *)
  | CPrevAdjIn (ks : list TokenKind)       (* let Some(prev) = self.prev_kind_if_adjacent() && prev in ks *)
  | CMacroAfterPath                        (* self.find_macro_expand_after_path().is_some() *)
  | CFnTypeAhead                           (* parse_type: ahead_arrow.is_some() *)
  | CTypeTupleAhead                        (* parse_type_tuple_or_paren: is_tuple *)
  | CIsTupleExpr                           (* self.is_tuple_expr() *)
  | CConst (b : bool)                      (* a comparison of Rust values that are constants of the procedure (min_prec) *)
  | CNot (c : cond) | CAnd (a b : cond) | COr (a b : cond).

Inductive cmd :=
  | Skip
  | Seq (a b : cmd)
  | Bump                                   (* self.bump() *)
  | Expect (k : TokenKind)                 (* self.expect(k); (result ignored) *)
  | Expects (ks : list TokenKind)          (* self.expects(&ks); *)
  | IfExpect (k : TokenKind) (t e : cmd)   (* if self.expect(k) { t } else { e } *)
  | Err (ek : errkind) (s : string)        (* self.add_error(..) *)
  | MarkKind (k : TokenKind)               (* tokens[token_indices[current]].kind = k *)
  | Node (k : SyntaxKind) (c : cmd)        (* self.emit_node(k, |this| c) *)
  | WithMarker (c : cmd)                   (* let mut lhs_marker = self.builder.marker(); c *)
  | WrapAt (k : SyntaxKind) (c : cmd)      (* builder.start_node_at(lhs_marker, k); c; builder.finish_node(); *)
  | SetMarkerLast (c : cmd)                (* lhs_marker = Marker{pos: builder.marker().pos.saturating_sub(1)}; c *)
  | WithBefore (c : cmd)                   (* let before = self.current; c *)
  | If (b : cond) (t e : cmd)
  | Call (f : fname)                       (* self.f() *)
  | CallM (f : fname).                     (* next iteration of a loop that uses the caller's lhs_marker *)

Notation "a ;; b" := (Seq a b) (at level 61, right associativity).
Definition check (k : TokenKind) : cond := CPeek [k].
Definition When (b : cond) (c : cmd) : cmd := If b c Skip.
(* match self.peek() { Some(k) if k in ks1 => c1, ..., _ => default } *)
Definition Match (cases : list (list TokenKind * cmd)) (default : cmd) : cmd :=
  fold_right (fun kc acc => If (CPeek (fst kc)) (snd kc) acc) default cases.
(* self.expect_all(&ks): fold(true, |acc, k| acc & self.expect(k)) — every expect is executed *)
Definition expect_all (ks : list TokenKind) : cmd := fold_right (fun k acc => Expect k ;; acc) Skip ks.

(* ------------------------------------------------------------------------------------------ *)
(* the procedures of cst_parser.rs                                                              *)
(* ------------------------------------------------------------------------------------------ *)
Definition infix_kinds : list TokenKind := flat_map fst infix_table.

(* is_record_expr *)
Definition c_is_record_expr : cond :=
  CAnd (check KBlockBegin)
       (COr (CAhead 1 [KDoubleDot])
            (CAnd (CAhead 1 [KIdent; KIdentParameter]) (CAhead 2 [KAssign; KLeftArrow]))).
(* is_type_ident_after_pipe *)
Definition c_is_type_ident_after_pipe : cond :=
  CAnd (CAhead 1 [KIdent])
       (COr (CAhead 2 [KLambdaArgBeginEnd; KComma; KParenEnd; KBlockEnd; KArrayEnd; KArrow]) (CAheadNone 2)).
(* is_type_start_after_pipe *)
Definition c_is_type_start_after_pipe : cond :=
  COr (CAhead 1 [KFloatType; KIntegerType; KStringType; KParenBegin; KArrayBegin; KBackQuote])
      (COr (CAnd (CAhead 1 [KBlockBegin]) (CAnd (CAhead 2 [KIdent]) (CAhead 3 [KColon])))
           (CAnd (CNot (CAhead 1 [KBlockBegin])) c_is_type_ident_after_pipe)).
(* is_tuple_pattern_in_constructor *)
Definition c_is_tuple_pattern_in_constructor : cond :=
  CAnd (check KParenBegin)
       (COr (CAhead 1 [KParenBegin]) (CAnd (CAhead 1 [KIdent; KPlaceHolder]) (CAhead 2 [KComma]))).
(* the statement-context stop of parse_expr_with_precedence *)
Definition c_stmt_linebreak (p : nat) : cond :=
  CAnd (CConst (p =? 0)) (CAnd CTrailingLB (CNot (CPeek infix_kinds))).

(* record field `name = expr` of parse_record_expr *)
Definition record_field : cmd := Expects [KIdent; KIdentParameter] ;; Expect KAssign ;; Call FExpr.

(* parse_function_decl / parse_macro_decl *)
Definition fn_decl (kw : TokenKind) : cmd :=
  Node SFunctionDecl (
    Expect kw ;;
    When (check KIdent) (MarkKind KIdentFunction ;; Bump) ;;
    When (check KParenBegin) (Call FParamList) ;;
    When (check KArrow) (Bump ;; Call FType) ;;
    If (check KBlockBegin) (Call FBlockExpr) (Expect KBlockBegin)).     (* the body is mandatory: expect reports its absence *)

(* the `while let Some(token_kind) = self.peek()` loop of parse_expr_with_precedence (nolb = false) and of
   parse_expr_with_precedence_no_linebreak (nolb = true), min_prec = p; one `If` per arm of get_infix_precedence *)
Definition pratt_body (p : nat) (nolb : bool) : cmd :=
  fold_right (fun e acc =>
      If (CPeek (fst e))
         (If (CConst (snd e <? p)) Skip
             (WrapAt SBinaryExpr (Bump ;; Call (if nolb then FExprPrecNoLB (snd e + 1) else FExprPrec (snd e + 1))) ;;
              SetMarkerLast (if nolb then CallM (FPrattLoopNoLB p)
                             else If (c_stmt_linebreak p) Skip (CallM (FPrattLoop p)))))
         acc)
    Skip infix_table.

Definition stalled_block : string := "parser made no progress in block; skipping token for recovery".
Definition stalled_module : string := "parser made no progress in module; skipping token for recovery".
Definition stalled_program : string := "parser made no progress while parsing statement; skipping token for recovery".
Definition stalled_match : string := "parser made no progress in match arm; skipping token for recovery".

(* The four loops with a no-progress guard.  `while g { B }` is transcribed as `if g { L }` with the procedure
   L = `B; if g { L }` (one iteration, then the loop test for the next one): F..Loop below is L, while_.. is `if g { L }`. *)
Definition while_program : cmd := When (CNot CAtEnd) (Call FProgramLoop).
Definition while_module : cmd := When (CAnd (CNot (check KBlockEnd)) (CNot CAtEnd)) (Call FModuleLoop).
Definition while_block : cmd := When (CAnd (CNot (check KBlockEnd)) (CNot CAtEnd)) (Call FBlockLoop).
Definition while_match_arms : cmd := When (CAnd (CNot (check KBlockEnd)) (CNot CAtEnd)) (Call FMatchArmLoop).

Definition body (f : fname) : cmd :=
  match f with
  (* parse: while !self.is_at_end() { .. }   (one iteration; see while_program) *)
  | FProgramLoop =>
      WithBefore (Call FStatement ;; When CStalled (Err EKSyntax stalled_program ;; Bump) ;; while_program)
  (* parse_statement *)
  | FStatement =>
      Node SStatement (
        When (check KPub) (Node SVisibilityPub Bump) ;;
        Match [ ([KFunction], Call FFunctionDecl); ([KMacro], Call FMacroDecl); ([KLet], Call FLetDecl);
                ([KLetRec], Call FLetRecDecl); ([KInclude], Call FIncludeStmt); ([KSharp], Call FStageDecl);
                ([KMod], Call FModuleDecl); ([KUse], Call FUseStmt);
                ([KType], If (CAhead 1 [KAlias]) (Call FTypeAliasDecl) (Call FTypeDecl)) ]
              (Call FExpr))
  (* parse_module_decl *)
  | FModuleDecl =>
      Node SModuleDecl (
        Expect KMod ;; Expect KIdent ;;
        If (check KLineBreak) Bump
           (When (check KBlockBegin) (Expect KBlockBegin ;; while_module ;; Expect KBlockEnd)))
  | FModuleLoop =>
      WithBefore (Call FStatement ;; When CStalled (Err EKSyntax stalled_module ;; Bump) ;; while_module)
  (* parse_use_stmt, parse_use_path *)
  | FUseStmt => Node SUseStmt (Expect KUse ;; Call FUsePath)
  | FUsePath => Node SQualifiedPath (Expect KIdent ;; Call FUsePathLoop)
  | FUsePathLoop =>
      When (check KDoubleColon) (
        Bump ;;
        If (check KOpProduct) (Node SUseTargetWildcard Bump)                                    (* return *)
        (If (check KBlockBegin)
            (Node SUseTargetMultiple (
               Bump ;; When (check KIdent) (Bump ;; Call FUseMultiLoop) ;; Expect KBlockEnd))   (* return *)
            (Expect KIdent ;; Call FUsePathLoop)))
  | FUseMultiLoop => When (check KComma) (Bump ;; Expect KIdent ;; Call FUseMultiLoop)
  (* parse_qualified_path *)
  | FQualifiedPath => Node SQualifiedPath (Expect KIdent ;; Call FQualifiedPathLoop)
  | FQualifiedPathLoop => When (check KDoubleColon) (Bump ;; Expect KIdent ;; Call FQualifiedPathLoop)
  (* parse_macro_decl, parse_function_decl *)
  | FMacroDecl => fn_decl KMacro
  | FFunctionDecl => fn_decl KFunction
  (* parse_include_stmt, parse_stage_decl *)
  | FIncludeStmt => Node SIncludeStmt (expect_all [KInclude; KParenBegin; KStr; KParenEnd])
  | FStageDecl =>
      Node SStageDecl (expect_all [KSharp; KStageKwd; KParenBegin] ;; Expects [KMain; KMacro] ;; Expect KParenEnd)
  (* parse_macro_expansion *)
  | FMacroExpansion =>
      Node SMacroExpansion (
        If (CAhead 1 [KDoubleColon]) (Call FQualifiedPath) (Expect KIdent) ;;
        expect_all [KMacroExpand; KParenBegin] ;;
        When (CNot (check KParenEnd)) (Call FExpr ;; Call FMacroArgsLoop) ;;
        Expect KParenEnd)
  | FMacroArgsLoop =>
      When (check KComma) (Bump ;; When (CNot (check KParenEnd)) (Call FExpr) ;; Call FMacroArgsLoop)
  (* parse_bracket_expr, parse_escape_expr *)
  | FBracketExpr =>
      Node SBracketExpr (Expect KBackQuote ;; If (check KBlockBegin) (Call FBlockExpr) (Call FExpr))
  | FEscapeExpr => Node SEscapeExpr (Expect KDollar ;; Call FPrefixExpr)
  (* parse_let_decl, parse_letrec_decl *)
  | FLetDecl =>
      Node SLetDecl (
        Expect KLet ;; Call FPattern ;;
        When (check KColon) (Call FTypeAnnotation) ;;
        IfExpect KAssign (Call FExpr) Skip)
  | FLetRecDecl => Node SLetRecDecl (expect_all [KLetRec; KIdent] ;; IfExpect KAssign (Call FExpr) Skip)
  (* parse_pattern *)
  | FPattern =>
      Match [ ([KIdent; KPlaceHolder], Node SSinglePattern Bump);
              ([KParenBegin], Call FTuplePattern);
              ([KBlockBegin], Call FRecordPattern);
              ([KBackQuote], Node SCodeType (Expect KBackQuote ;; Call FType)) ]
            (Err EKTokIfSome "pattern (identifier, tuple, or record)" ;; Bump)
  (* parse_tuple_pattern *)
  | FTuplePattern =>
      Node STuplePattern (
        Expect KParenBegin ;;
        When (CNot (check KParenEnd)) (Call FPattern ;; Call FTuplePatternLoop) ;;
        Expect KParenEnd)
  | FTuplePatternLoop =>
      When (check KComma) (Bump ;; When (CNot (check KParenEnd)) (Call FPattern) ;; Call FTuplePatternLoop)
  (* parse_record_pattern *)
  | FRecordPattern =>
      Node SRecordPattern (
        Expect KBlockBegin ;;
        When (CNot (check KBlockEnd)) (expect_all [KIdent; KAssign] ;; Call FPattern ;; Call FRecordPatternLoop) ;;
        Expect KBlockEnd)
  | FRecordPatternLoop =>
      When (check KComma) (
        Bump ;; When (CNot (check KBlockEnd)) (expect_all [KIdent; KAssign] ;; Call FPattern) ;;
        Call FRecordPatternLoop)
  (* parse_param_list *)
  | FParamList => Node SParamList (Expect KParenBegin ;; Call FParamLoop ;; Expect KParenEnd)
  | FParamLoop =>
      When (CAnd (CNot (check KParenEnd)) (CNot CAtEnd)) (
        When (check KIdent) (
          MarkKind KIdentParameter ;; Bump ;;
          When (check KColon) (Call FTypeAnnotation) ;;
          When (check KAssign) (Node SParamDefault (Expect KAssign ;; Call (FExprPrec 1)))) ;;
        If (check KComma) (Bump ;; Call FParamLoop) Skip (* break *))
  (* parse_expr, parse_assignment_expr *)
  | FExpr => Call FAssignmentExpr
  | FAssignmentExpr =>
      Call (FExprPrec 0) ;;
      When (check KAssign) (Node SAssignExpr (Expect KAssign ;; Call (FExprPrec 0)))
  (* parse_expr_with_precedence(p) *)
  | FExprPrec p =>
      WithMarker (Call FPrefixExpr ;; If (c_stmt_linebreak p) Skip (* return *) (CallM (FPrattLoop p)))
  | FPrattLoop p => pratt_body p false
  (* parse_expr_with_precedence_no_linebreak(p) *)
  | FExprPrecNoLB p => WithMarker (Call FPrefixExpr ;; CallM (FPrattLoopNoLB p))
  | FPrattLoopNoLB p => pratt_body p true
  (* parse_prefix_expr, parse_unary_expr *)
  | FPrefixExpr => If (CPeek prefix_ops) (Call FUnaryExpr) (Call FPostfixExpr)
  | FUnaryExpr =>
      Match [ ([KBackQuote], Call FBracketExpr); ([KDollar], Call FEscapeExpr) ]
        (Node SUnaryExpr (
           When (CAnd (CPeek [KOpSum; KOpMinus])
                      (CPrevAdjIn [KOpSum; KOpMinus; KOpProduct; KOpDivide; KOpModulo; KOpExponent]))
                (Err EKSyntax "Consecutive operators without whitespace are not allowed") ;;
           Bump ;; Call FPrefixExpr))
  (* parse_postfix_expr *)
  | FPostfixExpr => WithMarker (Call FPrimary ;; CallM FPostfixLoop)
  | FPostfixLoop =>
      If CTrailingLB Skip (* break *)
        (Match [ ([KParenBegin], WrapAt SCallExpr (Call FArgList) ;; SetMarkerLast (CallM FPostfixLoop));
                 ([KDot], WrapAt SFieldAccess (Bump ;; Expects [KIdent; KInt]) ;; SetMarkerLast (CallM FPostfixLoop));
                 ([KArrayBegin], WrapAt SIndexExpr (Bump ;; Call FExpr ;; Expect KArrayEnd) ;;
                                 SetMarkerLast (CallM FPostfixLoop)) ]
               Skip (* break *))
  (* parse_arg_list *)
  | FArgList =>
      Node SArgList (
        Expect KParenBegin ;;
        When (CNot (check KParenEnd)) (Call (FExprPrecNoLB 0) ;; Call FArgLoop) ;;
        Expect KParenEnd)
  | FArgLoop =>
      When (check KComma) (Bump ;; When (CNot (check KParenEnd)) (Call (FExprPrecNoLB 0)) ;; Call FArgLoop)
  (* parse_type_annotation, parse_type *)
  | FTypeAnnotation => Node STypeAnnotation (Expect KColon ;; Call FType)
  | FType =>
      If (CAnd (check KParenBegin) CFnTypeAhead)
         (Node SFunctionType (Call FTypeTupleOrParen ;; Expect KArrow ;; Call FType))     (* return *)
         (Call FTypeUnion)
  (* parse_type_union *)
  | FTypeUnion =>
      WithMarker (
        Call FTypePrimary ;;
        When (CAnd (check KLambdaArgBeginEnd) c_is_type_start_after_pipe)
             (WrapAt SUnionType (Call FTypeUnionLoop)))
  | FTypeUnionLoop =>
      When (CAnd (check KLambdaArgBeginEnd) c_is_type_start_after_pipe)
           (Bump ;; Call FTypePrimary ;; Call FTypeUnionLoop)
  (* parse_type_primary *)
  | FTypePrimary =>
      Match [ ([KFloatType; KIntegerType; KStringType], Node SPrimitiveType Bump);
              ([KParenBegin], Call FTypeTupleOrParen);
              ([KBlockBegin], Call FTypeRecord);
              ([KArrayBegin], Node SArrayType (Expect KArrayBegin ;; Call FType ;; Expect KArrayEnd));
              ([KBackQuote], Node SCodeType (Expect KBackQuote ;; Call FType));
              ([KIdent], Node STypeIdent (Bump ;; Call FTypeIdentLoop)) ]
            (When (CNot CAtEnd) (Err EKTokOrEof "type" ;; Bump))
  | FTypeIdentLoop =>
      When (check KDoubleColon) (
        Bump ;;
        If (check KIdent) (Bump ;; Call FTypeIdentLoop) (Err EKTokOrEof "identifier after ::" (* break *)))
  (* parse_type_tuple_or_paren *)
  | FTypeTupleOrParen =>
      If CTypeTupleAhead
         (Node STupleType (
            Expect KParenBegin ;;
            When (CNot (check KParenEnd)) (Call FType ;; Call FTypeTupleLoop) ;;
            Expect KParenEnd))
         (If (CAhead 1 [KParenEnd])
             (Node SUnitType (Expect KParenBegin ;; Expect KParenEnd))
             (Bump ;; Call FType ;; Expect KParenEnd))
  | FTypeTupleLoop =>
      When (check KComma) (Bump ;; When (CNot (check KParenEnd)) (Call FType) ;; Call FTypeTupleLoop)
  (* parse_type_record *)
  | FTypeRecord =>
      Node SRecordType (
        Expect KBlockBegin ;;
        When (CNot (check KBlockEnd)) (expect_all [KIdent; KColon] ;; Call FType ;; Call FTypeRecordLoop) ;;
        Expect KBlockEnd)
  | FTypeRecordLoop =>
      When (check KComma) (
        Bump ;; When (CNot (check KBlockEnd)) (expect_all [KIdent; KColon] ;; Call FType) ;;
        Call FTypeRecordLoop)
  (* parse_primary *)
  | FPrimary =>
      Match [ ([KInt], Node SIntLiteral Bump); ([KFloat], Node SFloatLiteral Bump);
              ([KStr], Node SStringLiteral Bump); ([KSelfLit], Node SSelfLiteral Bump);
              ([KNow], Node SNowLiteral Bump); ([KSampleRate], Node SSampleRateLiteral Bump);
              ([KLambdaArgBeginEnd], Call FLambdaExpr);
              ([KIdent], If CMacroAfterPath (Call FMacroExpansion)
                           (If (CAhead 1 [KDoubleColon]) (Call FQualifiedPath) (Node SIdentifier Bump)));
              ([KArrayBegin], Call FArrayExpr);
              ([KParenBegin], If CIsTupleExpr (Call FTupleExpr)
                                (Node SParenExpr (Bump ;; Call FExpr ;; Expect KParenEnd)));
              ([KBlockBegin], If c_is_record_expr (Call FRecordExpr) (Call FBlockExpr));
              ([KIf], Call FIfExpr); ([KMatch], Call FMatchExpr);
              ([KPlaceHolder], Node SPlaceHolderLiteral Bump);
              ([KBlockEnd; KParenEnd; KArrayEnd], Err EKTokIfSome "expression") ]
            (If (COr CPeekNone (CPeek [KEof])) (Err EKEof "expression")
                (Err EKTokIfSome "expression" ;; Bump))
  (* parse_lambda_expr *)
  | FLambdaExpr =>
      Node SLambdaExpr (
        Expect KLambdaArgBeginEnd ;; Call FLambdaParamLoop ;; Expect KLambdaArgBeginEnd ;;
        When (check KArrow) (Bump ;; Call FType) ;;
        If (CNot CAtEnd) (If (check KBlockBegin) (Call FBlockExpr) (Call FExpr)) (Err EKEof "expression"))
  | FLambdaParamLoop =>
      When (CAnd (CNot (check KLambdaArgBeginEnd)) (CNot CAtEnd)) (
        If (check KIdent) (MarkKind KIdentParameter ;; Bump ;; When (check KColon) (Call FTypeAnnotation)) Bump ;;
        If (check KComma) (Bump ;; Call FLambdaParamLoop)
           (If (CNot (check KLambdaArgBeginEnd)) Skip (* break *) (Call FLambdaParamLoop)))
  (* parse_tuple_expr *)
  | FTupleExpr =>
      Node STupleExpr (
        Expect KParenBegin ;;
        When (CNot (check KParenEnd)) (Call FExpr ;; Call FTupleExprLoop) ;;
        Expect KParenEnd)
  | FTupleExprLoop =>
      When (check KComma) (Bump ;; When (CNot (check KParenEnd)) (Call FExpr) ;; Call FTupleExprLoop)
  (* parse_record_expr *)
  | FRecordExpr =>
      Node SRecordExpr (
        Expect KBlockBegin ;;
        When (CNot (check KBlockEnd)) (
          If (CAnd (check KIdent) (CAhead 1 [KLeftArrow]))
             (Call FExpr ;; Expect KLeftArrow ;; record_field ;; Call FRecordUpdateLoop)
             (If (check KDoubleDot) Bump record_field ;; Call FRecordFieldLoop)) ;;
        Expect KBlockEnd)
  | FRecordUpdateLoop =>
      When (check KComma) (Bump ;; When (CNot (check KBlockEnd)) record_field ;; Call FRecordUpdateLoop)
  | FRecordFieldLoop =>
      When (check KComma) (
        Bump ;;
        If (CNot (check KBlockEnd))
           (If (check KDoubleDot) Bump (* break *) (record_field ;; Call FRecordFieldLoop))
           (Call FRecordFieldLoop))
  (* parse_block_expr *)
  | FBlockExpr => Node SBlockExpr (Expect KBlockBegin ;; while_block ;; Expect KBlockEnd)
  | FBlockLoop =>
      WithBefore (
        Call FStatement ;;
        If CStalled (Err EKSyntax stalled_block ;; Bump ;; while_block (* continue *))
           (If CTrailingLB (while_block (* continue *)) while_block))
  (* parse_if_expr *)
  | FIfExpr =>
      Node SIfExpr (
        Expect KIf ;; Call FExpr ;;
        If (check KBlockBegin) (Call FBlockExpr) (Call FExpr) ;;
        When (check KElse) (
          Bump ;;
          If (check KIf) (Call FIfExpr) (If (check KBlockBegin) (Call FBlockExpr) (Call FExpr))))
  (* parse_match_expr *)
  | FMatchExpr =>
      Node SMatchExpr (
        Expect KMatch ;; Call FExpr ;; Expect KBlockBegin ;;
        Node SMatchArmList while_match_arms ;;
        Expect KBlockEnd)
  | FMatchArmLoop =>
      WithBefore (
        Call FMatchArm ;;
        If CStalled (Err EKSyntax stalled_match ;; Bump ;; while_match_arms (* continue *))
           (If CTrailingLB (while_match_arms (* continue *))
               (When (check KComma) Bump ;; while_match_arms)))
  (* parse_match_arm *)
  | FMatchArm =>
      Node SMatchArm (
        Call FMatchPattern ;; Expect KFatArrow ;;
        If (check KBlockBegin) (Call FBlockExpr) (Call FExpr))
  (* parse_match_pattern *)
  | FMatchPattern =>
      Node SMatchPattern (
        Match [ ([KInt], Node SIntLiteral Bump); ([KFloat], Node SFloatLiteral Bump);
                ([KPlaceHolder], Node SPlaceHolderLiteral Bump);
                ([KParenBegin], Call FMatchTuplePattern);
                ([KIdent; KFloatType; KStringType; KIntegerType],
                 Node SConstructorPattern (
                   Node SIdentifier Bump ;;
                   When (check KParenBegin) (
                     If c_is_tuple_pattern_in_constructor (Call FTuplePattern)
                        (Bump ;;
                         If (check KIdent) (Node SIdentifier Bump)
                            (If (check KPlaceHolder) (Node SPlaceHolderLiteral Bump)
                                (When (check KParenBegin) (Call FTuplePattern))) ;;
                         Expect KParenEnd)))) ]
              (Err EKTokIfSome "match pattern (int, float, _, or constructor)" ;; Bump))
  (* parse_match_tuple_pattern *)
  | FMatchTuplePattern =>
      Node STuplePattern (
        Expect KParenBegin ;;
        When (CNot (check KParenEnd)) (Call FMatchPattern ;; Call FMatchTupleLoop) ;;
        Expect KParenEnd)
  | FMatchTupleLoop =>
      When (check KComma) (Bump ;; When (CNot (check KParenEnd)) (Call FMatchPattern) ;; Call FMatchTupleLoop)
  (* parse_type_decl *)
  | FTypeDecl =>
      Node STypeDecl (
        Expect KType ;; When (check KRec) Bump ;; Expect KIdent ;; Expect KAssign ;;
        Call FVariantDef ;; Call FTypeDeclLoop)
  | FTypeDeclLoop => When (check KLambdaArgBeginEnd) (Bump ;; Call FVariantDef ;; Call FTypeDeclLoop)
  (* parse_type_alias_decl *)
  | FTypeAliasDecl =>
      Node STypeDecl (Expect KType ;; Expect KAlias ;; Expect KIdent ;; Expect KAssign ;; Call FType)
  (* parse_variant_def *)
  | FVariantDef =>
      Node SVariantDef (
        Expect KIdent ;;
        When (check KParenBegin) (
          Bump ;; Call FType ;;
          When (check KComma) (Call FVariantLoop) ;;
          Expect KParenEnd))
  | FVariantLoop =>
      When (check KComma) (Bump ;; When (CNot (check KParenEnd)) (Call FType) ;; Call FVariantLoop)
  (* parse_array_expr *)
  | FArrayExpr =>
      Node SArrayExpr (
        Expect KArrayBegin ;;
        When (CNot (check KArrayEnd)) (Call FExpr ;; Call FArrayLoop) ;;
        Expect KArrayEnd)
  | FArrayLoop =>
      When (check KComma) (Bump ;; When (CNot (check KArrayEnd)) (Call FExpr) ;; Call FArrayLoop)
  end.

(* ------------------------------------------------------------------------------------------ *)
(* the interpreter                                                                              *)
(* ------------------------------------------------------------------------------------------ *)
Inductive outcome := Ok (st : pstate) | OutOfFuel | Panic (why : string).

Fixpoint eval_cond (c : cond) (before : nat) (st : pstate) : bool :=
  match c with
  | CPeek ks => match peek st with Some k => tk_in k ks | None => false end
  | CPeekNone => match peek st with None => true | Some _ => false end
  | CAhead n ks => match peek_ahead st n with Some k => tk_in k ks | None => false end
  | CAheadNone n => match peek_ahead st n with None => true | Some _ => false end
  | CAtEnd => is_at_end st
  | CTrailingLB => has_trailing_linebreak st
  | CStalled => (cur st =? before) && negb (is_at_end st)
  | CPrevAdjIn ks => match prev_kind_if_adjacent st with Some k => tk_in k ks | None => false end
  | CMacroAfterPath => macro_after_path st
  | CFnTypeAhead => fn_type_ahead st
  | CTypeTupleAhead => type_tuple_ahead st
  | CIsTupleExpr => is_tuple_expr st
  | CConst b => b
  | CNot a => negb (eval_cond a before st)
  | CAnd a b => eval_cond a before st && eval_cond b before st
  | COr a b => eval_cond a before st || eval_cond b before st
  end.

(* finish_node() of emit_node / after start_node_at: the returned id is dropped *)
Definition finish (st : pstate) : pstate := set_stack st (fst (b_finish (stack st))).

(* `call g mk st` runs procedure g; `before`, `mk` are the Rust locals `before`, `lhs_marker` in scope *)
Fixpoint exec (call : fname -> option nat -> pstate -> outcome)
              (c : cmd) (before : nat) (mk : option nat) (st : pstate) {struct c} : outcome :=
  match c with
  | Skip => Ok st
  | Seq a b => match exec call a before mk st with
               | Ok st1 => exec call b before mk st1
               | o => o
               end
  | Bump => Ok (bump st)
  | Expect k => Ok (snd (expect k st))
  | Expects ks => Ok (snd (expects ks st))
  | IfExpect k t e => if fst (expect k st) then exec call t before mk (snd (expect k st))
                      else exec call e before mk (snd (expect k st))
  | Err ek s => Ok (emit_err ek s st)
  | MarkKind k => Ok (mark_kind k st)
  | Node k c1 => match exec call c1 before None (set_stack st (b_start k (stack st))) with
                 | Ok st1 => Ok (finish st1)
                 | o => o
                 end
  | WithMarker c1 => exec call c1 before (Some (b_marker (stack st))) st
  | WrapAt k c1 =>
      match mk with
      | None => Panic "start_node_at without a marker in scope"
      | Some m =>
          match b_start_at m k (stack st) with
          | None => Panic "start_node_at: drain range start is out of bounds"
          | Some s1 => match exec call c1 before None (set_stack st s1) with
                       | Ok st1 => Ok (finish st1)
                       | o => o
                       end
          end
      end
  | SetMarkerLast c1 => exec call c1 before (Some (b_marker (stack st) - 1)) st
  | WithBefore c1 => exec call c1 (cur st) mk st
  | If b t e => if eval_cond b before st then exec call t before mk st else exec call e before mk st
  | Call g => call g None st
  | CallM g => call g mk st
  end.

Fixpoint run (fuel : nat) (f : fname) (mk : option nat) (st : pstate) {struct fuel} : outcome :=
  match fuel with
  | O => OutOfFuel
  | S k => exec (run k) (body f) 0 mk st
  end.

(* ------------------------------------------------------------------------------------------ *)
(* Parser::parse / parse_cst                                                                    *)
(* ------------------------------------------------------------------------------------------ *)
Inductive presult :=
  | POk (root : tree) (errors : list perror) (rewrites : list (nat * TokenKind))
  | POutOfFuel
  | PPanic (why : string).

Definition init_state (ts : list tok) : pstate := mkSt ts None 0 [] [] [].

(* the constants of C04_parse_progress: fuel K*(n+1) with K = 12 always suffices *)
Definition FUEL_K : nat := 12.
Definition parse_fuel (n : nat) : nat := FUEL_K * (n + 1).

(* parse(): start_node(Program); while ..; finish_node().unwrap() *)
Definition parse_with (fuel : nat) (ts : list tok) : presult :=
  match exec (run fuel) while_program 0 None (set_stack (init_state ts) (b_start SProgram [])) with
  | Ok st1 => match snd (b_finish (stack st1)) with
              | Some root => POk root (rev (errs st1)) (rev (marks st1))
              | None => PPanic "finish_node().unwrap() on None"
              end
  | OutOfFuel => POutOfFuel
  | Panic w => PPanic w
  end.
Definition parse (ts : list tok) : presult := parse_with (parse_fuel (length ts)) ts.

(* in-order token leaves of a tree *)
Fixpoint leaves (t : tree) : list nat :=
  match t with
  | TTok p => [p]
  | TNode _ ch => (fix go (l : list tree) : list nat := match l with [] => [] | x :: r => leaves x ++ go r end) ch
  end.
