(* Parser/Progress.v — the measure argument behind C04_parse_progress.

   rem st = number of tokens not yet consumed.  Every procedure f has a rank (its position in the longest chain of
   calls that may happen without a token being consumed in between).  `run fuel f` needs at most
   FUEL_K * rem + rank f + 1 units of fuel:  a call made after a token was consumed may be to any procedure
   (FUEL_K > every rank), a call made before any token was consumed must go to a procedure of smaller rank.
   Whether "a token was consumed" at a call site is established by a small abstract interpretation of the
   procedure body (`chk`), which tracks: the set of kinds `peek()` is known to be in, whether a token is known to be
   present, whether rem has dropped since entry, and whether the no-progress test of the recovery loops
   (`current == before && !is_at_end()`) is known to have failed.  `chk` is proved sound once (exec_progress) and
   evaluated on every body (bodies_ok). *)
From Coq Require Import String List Bool Arith NArith Lia.
From Mimium Require Import Tables.LexerTables Tables.TokenKinds Parser.Model Parser.Basic.
Import ListNotations.

Definition remn (st : pstate) : nat := length (rest st).

(* ---------------------------------------------------------------------------------------- *)
(* static tables                                                                              *)
(* ---------------------------------------------------------------------------------------- *)
Definition rank (f : fname) : nat :=
  match f with
  | FProgramLoop | FModuleLoop | FBlockLoop | FMatchArmLoop => 10
  | FStatement | FMatchArm => 9
  | FExpr => 8
  | FAssignmentExpr => 7
  | FExprPrec _ | FExprPrecNoLB _ => 6
  | FPrefixExpr => 5
  | FPostfixExpr => 4
  | FPrimary | FType => 3
  | FMacroExpansion | FTypeUnion => 2
  | FQualifiedPath | FUsePath | FPattern | FUnaryExpr | FPostfixLoop | FMatchPattern | FTypePrimary => 1
  | _ => 0
  end.

(* precondition of a procedure: peek() is one of these kinds *)
Definition pre (f : fname) : option (list TokenKind) :=
  match f with
  | FModuleDecl => Some [KMod] | FUseStmt => Some [KUse]
  | FQualifiedPath | FMacroExpansion => Some [KIdent]
  | FMacroDecl => Some [KMacro] | FFunctionDecl => Some [KFunction]
  | FBracketExpr => Some [KBackQuote] | FEscapeExpr => Some [KDollar]
  | FLetDecl => Some [KLet] | FLetRecDecl => Some [KLetRec]
  | FTuplePattern | FParamList | FArgList | FTypeTupleOrParen | FTupleExpr | FMatchTuplePattern => Some [KParenBegin]
  | FRecordPattern | FTypeRecord | FRecordExpr | FBlockExpr => Some [KBlockBegin]
  | FUnaryExpr => Some prefix_ops
  | FTypeAnnotation => Some [KColon]
  | FLambdaExpr => Some [KLambdaArgBeginEnd]
  | FIfExpr => Some [KIf] | FMatchExpr => Some [KMatch]
  | FTypeDecl | FTypeAliasDecl => Some [KType]
  | FArrayExpr => Some [KArrayBegin]
  | _ => None
  end.
(* precondition: some token is present (the loop test `!is_at_end()` held) *)
Definition pre_real (f : fname) : bool :=
  match f with FProgramLoop | FModuleLoop | FBlockLoop | FMatchArmLoop => true | _ => false end.
(* postcondition: at least one token was consumed *)
Definition post (f : fname) : bool :=
  match f with FArgList | FQualifiedPath | FTypeTupleOrParen => true | _ => false end.

(* ---------------------------------------------------------------------------------------- *)
(* the abstract interpretation                                                                *)
(* ---------------------------------------------------------------------------------------- *)
Record astate := mkA {
  a_known : option (list TokenKind);   (* peek() = Some k with k in the list *)
  a_real : bool;                       (* a token is present (rest <> []) *)
  a_dropped : bool;                    (* rem < rem at procedure entry *)
  a_ns : bool                          (* current <> before \/ is_at_end() *)
}.

Definition kinds_sub (ks ks' : list TokenKind) : bool := forallb (fun k => tk_in k ks') ks.
Definition is_real (a : astate) : bool := a_real a || match a_known a with Some _ => true | None => false end.

Definition pre_ok (g : fname) (a : astate) : bool :=
  (match pre g with
   | None => true
   | Some ks' => match a_known a with Some ks => kinds_sub ks ks' | None => false end
   end) && (negb (pre_real g) || is_real a).

(* after a bump *)
(* after a bump: current = S current' > before *)
Definition a_consume (a : astate) : astate := mkA None false (a_dropped a || is_real a) true.
(* after something that may or may not have consumed *)
Definition a_forget (a : astate) : astate := mkA None false (a_dropped a) (a_ns a).
(* after a call of g *)
Definition a_call (g : fname) (a : astate) : astate := mkA None false (a_dropped a || post g) false.

Definition a_join (a b : astate) : astate :=
  mkA (match a_known a, a_known b with
       | Some x, Some y => if kinds_sub x y && kinds_sub y x then Some x else None
       | _, _ => None
       end)
      (is_real a && is_real b) (a_dropped a && a_dropped b) (a_ns a && a_ns b).

Fixpoint refine_t (b : cond) (bne : bool) (a : astate) : astate :=
  match b with
  | CPeek ks => mkA (Some ks) true (a_dropped a) (a_ns a)
  | CNot CAtEnd => mkA (a_known a) true (a_dropped a || (a_ns a && bne)) (a_ns a)
  | CStalled => mkA (a_known a) true (a_dropped a) (a_ns a)
  | CAnd x y => refine_t y bne (refine_t x bne a)
  | _ => a
  end.

Fixpoint refine_f (b : cond) (a : astate) : astate :=
  match b with
  | CStalled => mkA (a_known a) (a_real a) (a_dropped a) true
  | COr x y => refine_f y (refine_f x a)
  | _ => a
  end.

Definition obind {A B} (o : option A) (f : A -> option B) : option B := match o with Some x => f x | None => None end.

(* f = the procedure whose body is analysed; bne = "a token was present when `before` was assigned" *)
Fixpoint chk (f : fname) (bne : bool) (c : cmd) (a : astate) : option astate :=
  match c with
  | Skip => Some a
  | Seq x y => obind (chk f bne x a) (chk f bne y)
  | Bump => Some (a_consume a)
  | Expect k => match a_known a with
                | Some (k0 :: ks) => if forallb (fun k' => tk_eqb k' k) (k0 :: ks) then Some (a_consume a) else Some (a_forget a)
                | _ => Some (a_forget a)
                end
  | Expects ks' => match a_known a with
                   | Some (k0 :: ks) => if kinds_sub (k0 :: ks) ks' then Some (a_consume a) else Some (a_forget a)
                   | _ => Some (a_forget a)
                   end
  | IfExpect k t e =>
      obind (chk f bne t (mkA None false true true)) (fun a1 =>
      obind (chk f bne e (a_forget a)) (fun a2 => Some (a_join a1 a2)))
  | Err _ _ => Some a
  | MarkKind k => if is_real a then Some (mkA (Some [k]) true (a_dropped a) false)
                  else Some (mkA None false (a_dropped a) false)
  | Node _ x | WithMarker x | WrapAt _ x | SetMarkerLast x => chk f bne x a
  | WithBefore x =>
      obind (chk f (is_real a) x (mkA (a_known a) (a_real a) (a_dropped a) false)) (fun a1 =>
      Some (mkA (a_known a1) (a_real a1) (a_dropped a1) false))
  | If b t e =>
      obind (chk f bne t (refine_t b bne a)) (fun a1 =>
      obind (chk f bne e (refine_f b a)) (fun a2 => Some (a_join a1 a2)))
  | Call g | CallM g =>
      if pre_ok g a && (a_dropped a || (rank g <? rank f)) then Some (a_call g a) else None
  end.

Definition a_init (f : fname) : astate := mkA (pre f) (pre_real f) false false.

Definition chk_body (f : fname) : bool :=
  match chk f false (body f) (a_init f) with
  | Some a => negb (post f) || a_dropped a
  | None => false
  end.

Lemma bodies_ok : forall f, chk_body f = true.
Proof. destruct f; vm_compute; reflexivity. Qed.

Definition max_rank : nat := 10.
Lemma rank_le : forall f, rank f <= max_rank.
Proof. destruct f; cbn; unfold max_rank; lia. Qed.

(* ---------------------------------------------------------------------------------------- *)
(* concretisation                                                                             *)
(* ---------------------------------------------------------------------------------------- *)
Definition moved_or_end (before : nat) (st : pstate) : Prop := cur st <> before \/ is_at_end st = true.

(* st0 = state at procedure entry, st = current state, before/bne = the Rust local `before` *)
Record G (n : nat) (st0 : pstate) (before : nat) (bne : bool) (a : astate) (st : pstate) : Prop := mkG {
  g_inv : Inv n st;
  g_le : remn st <= remn st0;
  g_before : before <= cur st;
  g_known : forall ks, a_known a = Some ks -> exists k, peek st = Some k /\ In k ks;
  g_real : a_real a = true -> rest st <> [];
  g_dropped : a_dropped a = true -> remn st < remn st0;
  g_ns : a_ns a = true -> moved_or_end before st;
  g_bne : bne = true -> exists r1, 1 <= r1 /\ r1 <= remn st0 /\ remn st <= r1 /\ (cur st <> before -> remn st < r1)
}.

Lemma peek_some_rest : forall st k, peek st = Some k -> rest st <> [].
Proof. intros st k H. unfold peek in H. destruct (rest st); [discriminate | discriminate]. Qed.

Lemma not_at_end_rest : forall st, is_at_end st = false -> rest st <> [].
Proof. intros st H. unfold is_at_end, peek in H. destruct (rest st); [discriminate | discriminate]. Qed.

Lemma is_real_sound : forall n st0 before bne a st, G n st0 before bne a st -> is_real a = true -> rest st <> [].
Proof.
  intros n st0 before bne a st Hg H. unfold is_real in H. apply orb_prop in H. destruct H as [H|H].
  - exact (g_real _ _ _ _ _ _ Hg H).
  - destruct (a_known a) as [ks|] eqn:E; [|discriminate].
    destruct (g_known _ _ _ _ _ _ Hg ks E) as [k [Hk _]]. eapply peek_some_rest; exact Hk.
Qed.

Lemma kinds_sub_In : forall ks ks' k, kinds_sub ks ks' = true -> In k ks -> In k ks'.
Proof.
  intros ks ks' k H Hin. unfold kinds_sub in H. rewrite forallb_forall in H. apply tk_in_In. apply H. exact Hin.
Qed.

(* cursor strictly forward from a position with a token => fewer tokens remain *)
Lemma moved_remn : forall n st st', Inv n st -> Inv n st' -> remn st' <= remn st -> cur st < cur st' ->
  1 <= remn st -> remn st' < remn st.
Proof.
  intros n st st' I I' Hle Hc H1. unfold remn in *.
  pose proof (inv_cur _ _ I) as C. pose proof (inv_cur _ _ I') as C'. pose proof (inv_len _ _ I) as L. pose proof (inv_len _ _ I') as L'.
  destruct (rest st) as [|t r]; cbn [length] in *; [lia|].
  destruct (rest st') as [|t' r']; cbn [length] in *; lia.
Qed.

Lemma bne_step : forall n st0 before st st',
  (exists r1, 1 <= r1 /\ r1 <= remn st0 /\ remn st <= r1 /\ (cur st <> before -> remn st < r1)) ->
  before <= cur st -> Inv n st -> Step n st st' ->
  exists r1, 1 <= r1 /\ r1 <= remn st0 /\ remn st' <= r1 /\ (cur st' <> before -> remn st' < r1).
Proof.
  intros n st0 before st st' [r1 [H1 [H2 [H3 H4]]]] Hb I S. exists r1.
  pose proof (st_rest _ _ _ S) as R. pose proof (st_cur _ _ _ S) as C. fold (remn st') in R. fold (remn st) in R.
  repeat split; try lia. intros Hne.
  destruct (Nat.eq_dec (cur st) before) as [E|E]; [|specialize (H4 E); lia].
  destruct (Nat.eq_dec (remn st) r1) as [E2|E2]; [|lia].
  assert (remn st' < remn st); [|lia].
  eapply moved_remn; eauto; [exact (st_inv _ _ _ S) | lia | lia].
Qed.

(* generic transfer along a step: everything that depends on the token under the cursor is forgotten *)
Lemma G_step : forall n st0 before bne a st st' a',
  G n st0 before bne a st -> Step n st st' ->
  a_known a' = None -> a_real a' = false ->
  (a_dropped a' = true -> a_dropped a = true \/ remn st' < remn st) ->
  (a_ns a' = true -> moved_or_end before st') ->
  G n st0 before bne a' st'.
Proof.
  intros n st0 before bne a st st' a' Hg S Hk Hr Hd Hn.
  pose proof (st_rest _ _ _ S) as R. pose proof (st_cur _ _ _ S) as C. fold (remn st') in R. fold (remn st) in R.
  pose proof (g_le _ _ _ _ _ _ Hg) as Le. pose proof (g_before _ _ _ _ _ _ Hg) as Hb.
  constructor.
  - exact (st_inv _ _ _ S).
  - lia.
  - lia.
  - intros ks E. rewrite Hk in E. discriminate.
  - intros E. rewrite Hr in E. discriminate.
  - intros E. destruct (Hd E) as [D|D]; [pose proof (g_dropped _ _ _ _ _ _ Hg D); lia | lia].
  - exact Hn.
  - intros E. eapply bne_step; eauto. exact (g_bne _ _ _ _ _ _ Hg E). exact (g_inv _ _ _ _ _ _ Hg).
Qed.

(* a state that differs only in builder stack / errors *)
Lemma G_same : forall n st0 before bne a st st',
  G n st0 before bne a st -> Inv n st' -> rest st' = rest st -> cur st' = cur st -> G n st0 before bne a st'.
Proof.
  intros n st0 before bne a st st' Hg I R C. destruct Hg as [gi gl gb gk gr gd gn ge].
  unfold remn, moved_or_end, is_at_end, peek in *. constructor; unfold remn, moved_or_end, is_at_end, peek; rewrite ?R, ?C; auto.
Qed.

Lemma G_join_l : forall n st0 before bne a1 a2 st, G n st0 before bne a1 st -> G n st0 before bne (a_join a1 a2) st.
Proof.
  intros n st0 before bne a1 a2 st Hg. pose proof Hg as [gi gl gb gk gr gd gn ge].
  constructor; auto; unfold a_join; cbn [a_known a_real a_dropped a_ns].
  - intros ks E. destruct (a_known a1) as [x|]; [|discriminate]. destruct (a_known a2) as [y|]; [|discriminate].
    destruct (kinds_sub x y && kinds_sub y x); [|discriminate]. injection E as <-. apply gk. reflexivity.
  - intros E. apply andb_prop in E. eapply is_real_sound; [exact Hg | tauto].
  - intros E. apply andb_prop in E. apply gd. tauto.
  - intros E. apply andb_prop in E. apply gn. tauto.
Qed.

Lemma G_join_r : forall n st0 before bne a1 a2 st, G n st0 before bne a2 st -> G n st0 before bne (a_join a1 a2) st.
Proof.
  intros n st0 before bne a1 a2 st Hg. pose proof Hg as [gi gl gb gk gr gd gn ge].
  constructor; auto; unfold a_join; cbn [a_known a_real a_dropped a_ns].
  - intros ks E. destruct (a_known a1) as [x|]; [|discriminate]. destruct (a_known a2) as [y|] eqn:E2; [|discriminate].
    destruct (kinds_sub x y && kinds_sub y x) eqn:Es; [|discriminate]. injection E as <-.
    apply andb_prop in Es. destruct (gk y eq_refl) as [k [Hp Hin]]. exists k. split; [exact Hp|].
    eapply kinds_sub_In; [apply Es | exact Hin].
  - intros E. apply andb_prop in E. eapply is_real_sound; [exact Hg | tauto].
  - intros E. apply andb_prop in E. apply gd. tauto.
  - intros E. apply andb_prop in E. apply gn. tauto.
Qed.

Lemma refine_t_sound : forall n st0 before bne b a st,
  G n st0 before bne a st -> eval_cond b before st = true -> G n st0 before bne (refine_t b bne a) st.
Proof.
  intros n st0 before bne b. induction b; intros a st Hg He; cbn [refine_t]; try exact Hg.
  - (* CPeek *) cbn [eval_cond] in He. destruct (peek st) as [k|] eqn:P; [|discriminate].
    destruct Hg as [gi gl gb gk gr gd gn ge]. constructor; auto; cbn [a_known a_real a_dropped a_ns].
    + intros ks' E. injection E as <-. exists k. split; [exact P | apply tk_in_In; exact He].
    + intros _. eapply peek_some_rest; exact P.
  - (* CStalled *) cbn [eval_cond] in He. apply andb_prop in He. destruct He as [_ He]. apply negb_true_iff in He.
    destruct Hg as [gi gl gb gk gr gd gn ge]. constructor; auto; cbn [a_known a_real a_dropped a_ns].
    intros _. apply not_at_end_rest; exact He.
  - (* CNot *) destruct b; try exact Hg. cbn [eval_cond] in He. apply negb_true_iff in He.
    destruct Hg as [gi gl gb gk gr gd gn ge]. constructor; auto; cbn [a_known a_real a_dropped a_ns].
    + intros _. apply not_at_end_rest; exact He.
    + intros E. apply orb_prop in E. destruct E as [E|E]; [apply gd; exact E|].
      apply andb_prop in E. destruct E as [E1 E2]. destruct (ge E2) as [r1 [H1 [H2 [H3 H4]]]].
      destruct (gn E1) as [M|M]; [specialize (H4 M); lia | congruence].
  - (* CAnd *) cbn [eval_cond] in He. apply andb_prop in He. destruct He as [H1 H2]. apply IHb2; [apply IHb1|]; assumption.
Qed.

Lemma refine_f_sound : forall n st0 before bne b a st,
  G n st0 before bne a st -> eval_cond b before st = false -> G n st0 before bne (refine_f b a) st.
Proof.
  intros n st0 before bne b. induction b; intros a st Hg He; cbn [refine_f]; try exact Hg.
  - (* CStalled *) cbn [eval_cond] in He. destruct Hg as [gi gl gb gk gr gd gn ge].
    constructor; auto; cbn [a_known a_real a_dropped a_ns]. intros _. unfold moved_or_end.
    apply andb_false_iff in He. destruct He as [He|He].
    + left. apply Nat.eqb_neq. exact He.
    + right. apply negb_false_iff. exact He.
  - (* COr *) cbn [eval_cond] in He. apply orb_false_iff in He. destruct He as [H1 H2]. apply IHb2; [apply IHb1|]; assumption.
Qed.

(* ---------------------------------------------------------------------------------------- *)
(* primitives                                                                                 *)
(* ---------------------------------------------------------------------------------------- *)
Lemma bump_real : forall st, rest st <> [] -> remn (bump st) < remn st.
Proof. intros st H. unfold remn, bump. destruct (rest st); [congruence|]. cbn. lia. Qed.

Lemma bump_moved : forall before st, before <= cur st -> moved_or_end before (bump st).
Proof. intros before st H. left. unfold bump. destruct (rest st); cbn [cur]; lia. Qed.

Lemma moe_same : forall before st st', rest st' = rest st -> cur st' = cur st -> moved_or_end before st -> moved_or_end before st'.
Proof. intros before st st' R C H. unfold moved_or_end, is_at_end, peek in *. rewrite R, C. exact H. Qed.

Lemma expect_cases : forall k st,
  (fst (expect k st) = true /\ snd (expect k st) = bump st /\ peek st = Some k) \/
  (fst (expect k st) = false /\ rest (snd (expect k st)) = rest st /\ cur (snd (expect k st)) = cur st).
Proof.
  intros k st. unfold expect. destruct (peek st) as [k'|] eqn:P.
  - destruct (tk_eqb k' k) eqn:E.
    + left. apply tk_eqb_eq in E. subst. auto.
    + right. destruct (is_at_end st); cbn; auto.
  - right. destruct (is_at_end st); cbn; auto.
Qed.

Lemma expects_cases : forall ks st,
  (exists k, snd (expects ks st) = bump st /\ peek st = Some k /\ In k ks) \/
  ((forall k, peek st = Some k -> ~ In k ks) /\ rest (snd (expects ks st)) = rest st /\ cur (snd (expects ks st)) = cur st).
Proof.
  intros ks st. unfold expects. destruct (peek st) as [k|] eqn:P.
  - destruct (tk_in k ks) eqn:E.
    + left. exists k. apply tk_in_In in E. auto.
    + right. cbn. split; auto. intros k0 H0 Hin. injection H0 as <-. apply tk_in_In in Hin. congruence.
  - right. cbn. split; auto. intros k0 H0. discriminate.
Qed.

Definition pre_holds (g : fname) (s : pstate) : Prop :=
  (forall ks, pre g = Some ks -> exists k, peek s = Some k /\ In k ks) /\ (pre_real g = true -> rest s <> []).

(* ---------------------------------------------------------------------------------------- *)
(* soundness of chk                                                                           *)
(* ---------------------------------------------------------------------------------------- *)
Definition call_progress (n kb : nat) (call : fname -> option nat -> pstate -> outcome) : Prop :=
  forall g mk s, Inv n s -> pre_holds g s -> FUEL_K * remn s + rank g + 1 <= kb ->
    match call g mk s with
    | OutOfFuel => False
    | Ok s' => post g = true -> remn s' < remn s
    | Panic _ => True
    end.

Section Soundness.
  Variables (n kb : nat) (call : fname -> option nat -> pstate -> outcome) (f : fname) (st0 : pstate).
  Hypothesis Hbasic : call_basic n call.
  Hypothesis Hcall : call_progress n kb call.
  Hypothesis Hbudget : FUEL_K * remn st0 + rank f <= kb.

  Definition good (before : nat) (bne : bool) (a' : astate) (o : outcome) : Prop :=
    match o with OutOfFuel => False | Panic _ => True | Ok st' => G n st0 before bne a' st' end.

  Lemma consume_sound : forall before bne a st,
    G n st0 before bne a st -> G n st0 before bne (a_consume a) (bump st).
  Proof.
    intros before bne a st Hg. eapply G_step; [exact Hg | apply Step_bump; exact (g_inv _ _ _ _ _ _ Hg) | reflexivity | reflexivity | |].
    - cbn [a_consume a_dropped]. intros E. apply orb_prop in E. destruct E as [E|E]; [left; exact E|].
      right. apply bump_real. eapply is_real_sound; eauto.
    - intros _. apply bump_moved. exact (g_before _ _ _ _ _ _ Hg).
  Qed.

  Lemma forget_sound : forall before bne a st st',
    G n st0 before bne a st -> Step n st st' -> rest st' = rest st -> cur st' = cur st ->
    G n st0 before bne (a_forget a) st'.
  Proof.
    intros before bne a st st' Hg S R C. eapply G_step; [exact Hg | exact S | reflexivity | reflexivity | |].
    - cbn [a_forget a_dropped]. auto.
    - cbn [a_forget a_ns]. intros E. eapply moe_same; eauto. exact (g_ns _ _ _ _ _ _ Hg E).
  Qed.

  Lemma call_sound : forall g mk' bne a a' before st,
    (if pre_ok g a && (a_dropped a || (rank g <? rank f)) then Some (a_call g a) else None) = Some a' ->
    G n st0 before bne a st -> good before bne a' (call g mk' st).
  Proof.
    intros g mk' bne a a' before st Hc Hg.
    destruct (pre_ok g a && (a_dropped a || (rank g <? rank f))) eqn:E; [|discriminate]. injection Hc as <-.
    apply andb_prop in E. destruct E as [Hpre Hrk]. unfold pre_ok in Hpre. apply andb_prop in Hpre. destruct Hpre as [Hp1 Hp2].
    assert (Hpre : pre_holds g st).
    { split.
      - intros ks Ep. rewrite Ep in Hp1. destruct (a_known a) as [ks0|] eqn:Ek; [|discriminate].
        destruct (g_known _ _ _ _ _ _ Hg _ Ek) as [k [P Hin]]. exists k. split; [exact P|]. eapply kinds_sub_In; eauto.
      - intros Er. rewrite Er in Hp2. cbn in Hp2. eapply is_real_sound; eauto. }
    assert (Hb : FUEL_K * remn st + rank g + 1 <= kb).
    { pose proof (rank_le g) as Rl. unfold max_rank in Rl. unfold FUEL_K in *. pose proof (g_le _ _ _ _ _ _ Hg) as Le.
      apply orb_prop in Hrk. destruct Hrk as [D|D].
      - pose proof (g_dropped _ _ _ _ _ _ Hg D). lia.
      - apply Nat.ltb_lt in D. lia. }
    pose proof (Hcall g mk' st (g_inv _ _ _ _ _ _ Hg) Hpre Hb) as Hc. unfold good.
    destruct (call g mk' st) as [s'| |] eqn:Ec; auto.
    eapply G_step; [exact Hg | eapply Hbasic; [exact (g_inv _ _ _ _ _ _ Hg) | exact Ec] | reflexivity | reflexivity | |].
    - cbn [a_call a_dropped]. intros E. apply orb_prop in E. destruct E as [E|E]; [left; exact E | right; apply Hc; exact E].
    - cbn. intros E. discriminate.
  Qed.

  Lemma exec_progress : forall c bne a a' before mk st,
    chk f bne c a = Some a' -> G n st0 before bne a st -> good before bne a' (exec call c before mk st).
  Proof.
    induction c; intros bne a a' before mk st Hc Hg; cbn [chk] in Hc; cbn [exec]; unfold good.
    - (* Skip *) injection Hc as <-. exact Hg.
    - (* Seq *) destruct (chk f bne c1 a) as [a1|] eqn:C1; cbn [obind] in Hc; [|discriminate].
      pose proof (IHc1 _ _ _ before mk st C1 Hg) as H1. unfold good in H1.
      destruct (exec call c1 before mk st) as [st1| |]; [|exact H1|exact I].
      exact (IHc2 _ _ _ before mk st1 Hc H1).
    - (* Bump *) injection Hc as <-. apply consume_sound; exact Hg.
    - (* Expect *)
      pose proof (Step_expect n k st (g_inv _ _ _ _ _ _ Hg)) as S.
      destruct (expect_cases k st) as [[_ [E P]]|[_ [R C]]].
      + (* consumed *) rewrite E.
        assert (Hcons : G n st0 before bne (a_consume a) (bump st)) by (apply consume_sound; exact Hg).
        assert (Hforg : G n st0 before bne (a_forget a) (bump st)).
        { eapply G_step; [exact Hg | apply Step_bump; exact (g_inv _ _ _ _ _ _ Hg) | reflexivity | reflexivity | |].
          - cbn. auto.
          - intros _. apply bump_moved. exact (g_before _ _ _ _ _ _ Hg). }
        destruct (a_known a) as [[|k0 ks]|]; try (injection Hc as <-; exact Hforg).
        destruct (forallb _ _); injection Hc as <-; assumption.
      + (* not consumed: only possible when the abstract state did not promise it *)
        assert (Hforg : G n st0 before bne (a_forget a) (snd (expect k st))) by (eapply forget_sound; eauto).
        destruct (a_known a) as [[|k0 ks]|] eqn:Ek; try (injection Hc as <-; exact Hforg).
        destruct (forallb (fun k' => tk_eqb k' k) (k0 :: ks)) eqn:Ea; injection Hc as <-; [|exact Hforg].
        exfalso. destruct (g_known _ _ _ _ _ _ Hg _ Ek) as [k1 [P1 Hin]].
        rewrite forallb_forall in Ea. specialize (Ea _ Hin). apply tk_eqb_eq in Ea. subst k1.
        destruct (expect_cases k st) as [[F _]|[F _]].
        * unfold expect in R. rewrite P1, tk_eqb_refl in R. cbn in R.
          pose proof (peek_some_rest _ _ P1) as Hne. unfold bump in R. destruct (rest st) as [|t r]; [congruence|].
          cbn in R. apply (f_equal (@length tok)) in R. cbn in R. lia.
        * unfold expect in F. rewrite P1, tk_eqb_refl in F. discriminate.
    - (* Expects *)
      pose proof (Step_expects n ks st (g_inv _ _ _ _ _ _ Hg)) as S.
      destruct (expects_cases ks st) as [[k [E [P Hin]]]|[Hno [R C]]].
      + rewrite E.
        assert (Hcons : G n st0 before bne (a_consume a) (bump st)) by (apply consume_sound; exact Hg).
        assert (Hforg : G n st0 before bne (a_forget a) (bump st)).
        { eapply G_step; [exact Hg | apply Step_bump; exact (g_inv _ _ _ _ _ _ Hg) | reflexivity | reflexivity | |].
          - cbn. auto.
          - intros _. apply bump_moved. exact (g_before _ _ _ _ _ _ Hg). }
        destruct (a_known a) as [[|k0 ks0]|]; try (injection Hc as <-; exact Hforg).
        destruct (kinds_sub _ _); injection Hc as <-; assumption.
      + assert (Hforg : G n st0 before bne (a_forget a) (snd (expects ks st))) by (eapply forget_sound; eauto).
        destruct (a_known a) as [[|k0 ks0]|] eqn:Ek; try (injection Hc as <-; exact Hforg).
        destruct (kinds_sub (k0 :: ks0) ks) eqn:Ea; injection Hc as <-; [|exact Hforg].
        exfalso. destruct (g_known _ _ _ _ _ _ Hg _ Ek) as [k1 [P1 Hin]].
        apply (Hno _ P1). eapply kinds_sub_In; eauto.
    - (* IfExpect *)
      destruct (chk f bne c1 (mkA None false true true)) as [a1|] eqn:C1; cbn [obind] in Hc; [|discriminate].
      destruct (chk f bne c2 (a_forget a)) as [a2|] eqn:C2; cbn [obind] in Hc; [|discriminate].
      injection Hc as <-.
      pose proof (Step_expect n k st (g_inv _ _ _ _ _ _ Hg)) as S.
      destruct (expect_cases k st) as [[F [E P]]|[F [R C]]]; rewrite F.
      + rewrite E in *.
        assert (Hg1 : G n st0 before bne (mkA None false true true) (bump st)).
        { eapply G_step; [exact Hg | exact S | reflexivity | reflexivity | |].
          - intros _. right. apply bump_real. eapply peek_some_rest; exact P.
          - intros _. apply bump_moved. exact (g_before _ _ _ _ _ _ Hg). }
        pose proof (IHc1 _ _ _ before mk _ C1 Hg1) as H1. unfold good in H1.
        destruct (exec call c1 before mk (bump st)); auto. apply G_join_l; exact H1.
      + assert (Hg2 : G n st0 before bne (a_forget a) (snd (expect k st))) by (eapply forget_sound; eauto).
        pose proof (IHc2 _ _ _ before mk _ C2 Hg2) as H2. unfold good in H2.
        destruct (exec call c2 before mk (snd (expect k st))); auto. apply G_join_r; exact H2.
    - (* Err *) injection Hc as <-.
      pose proof (Step_emit_err n ek s st (g_inv _ _ _ _ _ _ Hg)) as S.
      eapply G_same; [exact Hg | exact (st_inv _ _ _ S) | |]; unfold emit_err; destruct ek; try reflexivity; destruct (peek st); reflexivity.
    - (* MarkKind *)
      pose proof (Step_mark_kind n k st (g_inv _ _ _ _ _ _ Hg)) as S.
      destruct (is_real a) eqn:Er; injection Hc as <-.
      + pose proof (is_real_sound _ _ _ _ _ _ Hg Er) as Hne.
        destruct Hg as [gi gl gb gk gr gd gn ge]. unfold mark_kind in *. unfold remn, moved_or_end in *.
        destruct (rest st) as [|t r] eqn:R; [congruence|].
        constructor; unfold remn; cbn [a_known a_real a_dropped a_ns rest cur length]; auto.
        * exact (st_inv _ _ _ S).
        * intros ks E. injection E as <-. exists k. split; [reflexivity | left; reflexivity].
        * intros _. discriminate.
        * intros E. discriminate.
      + eapply G_step; [exact Hg | exact S | reflexivity | reflexivity | |].
        * cbn. auto.
        * cbn. intros E. discriminate.
    - (* Node *)
      pose proof (exec_basic n call Hbasic (Node k c) before mk st) as HB. cbn [exec] in HB.
      assert (Hg1 : G n st0 before bne a (set_stack st (b_start k (stack st)))).
      { eapply G_same; [exact Hg | | reflexivity | reflexivity].
        apply Inv_set_stack; [exact (g_inv _ _ _ _ _ _ Hg) | discriminate | apply stack_leaves_start]. }
      pose proof (IHc _ _ _ before None _ Hc Hg1) as H1. unfold good in H1.
      destruct (exec call c before None (set_stack st (b_start k (stack st)))) as [st1| |]; auto.
      eapply G_same; [exact H1 | | reflexivity | reflexivity].
      exact (st_inv _ _ _ (HB _ (g_inv _ _ _ _ _ _ Hg) eq_refl)).
    - (* WithMarker *) exact (IHc _ _ _ before _ st Hc Hg).
    - (* WrapAt *)
      destruct mk as [m|]; [|exact I].
      pose proof (exec_basic n call Hbasic (WrapAt k c) before (Some m) st) as HB. cbn [exec] in HB.
      destruct (b_start_at m k (stack st)) as [s1|] eqn:Es; [|exact I].
      destruct (start_at_some _ _ _ _ (inv_stack _ _ (g_inv _ _ _ _ _ _ Hg)) Es) as [Hl Hd].
      assert (Hg1 : G n st0 before bne a (set_stack st s1)).
      { eapply G_same; [exact Hg | | reflexivity | reflexivity].
        apply Inv_set_stack; [exact (g_inv _ _ _ _ _ _ Hg) | | exact Hl]. intro H0. rewrite H0 in Hd. discriminate. }
      pose proof (IHc _ _ _ before None _ Hc Hg1) as H1. unfold good in H1.
      destruct (exec call c before None (set_stack st s1)) as [st1| |]; auto.
      eapply G_same; [exact H1 | | reflexivity | reflexivity].
      exact (st_inv _ _ _ (HB _ (g_inv _ _ _ _ _ _ Hg) eq_refl)).
    - (* SetMarkerLast *) exact (IHc _ _ _ before _ st Hc Hg).
    - (* WithBefore *)
      destruct (chk f (is_real a) c (mkA (a_known a) (a_real a) (a_dropped a) false)) as [a1|] eqn:C1; cbn [obind] in Hc; [|discriminate].
      injection Hc as <-.
      pose proof (exec_basic n call Hbasic (WithBefore c) before mk st) as HB. cbn [exec] in HB.
      assert (Hg1 : G n st0 (cur st) (is_real a) (mkA (a_known a) (a_real a) (a_dropped a) false) st).
      { pose proof Hg as [gi gl gb gk gr gd gn ge]. constructor; cbn [a_known a_real a_dropped a_ns]; auto.
        - intros E. discriminate.
        - intros E. exists (remn st). pose proof (is_real_sound _ _ _ _ _ _ Hg E) as Hne.
          unfold remn in *. destruct (rest st); [congruence|]. cbn [length] in *. repeat split; try lia. }
      pose proof (IHc _ _ _ (cur st) mk st C1 Hg1) as H1. unfold good in H1.
      destruct (exec call c (cur st) mk st) as [st1| |]; auto.
      pose proof (HB _ (g_inv _ _ _ _ _ _ Hg) eq_refl) as S.
      destruct H1 as [hi hl hb hk hr hd hn he]. constructor; cbn [a_known a_real a_dropped a_ns]; auto.
      + pose proof (g_before _ _ _ _ _ _ Hg). lia.
      + intros E. discriminate.
      + intros E. eapply bne_step with (st := st);
          [exact (g_bne _ _ _ _ _ _ Hg E) | exact (g_before _ _ _ _ _ _ Hg) | exact (g_inv _ _ _ _ _ _ Hg) | exact S].
    - (* If *)
      destruct (chk f bne c1 (refine_t b bne a)) as [a1|] eqn:C1; cbn [obind] in Hc; [|discriminate].
      destruct (chk f bne c2 (refine_f b a)) as [a2|] eqn:C2; cbn [obind] in Hc; [|discriminate].
      injection Hc as <-.
      destruct (eval_cond b before st) eqn:Eb.
      + pose proof (IHc1 _ _ _ before mk st C1 (refine_t_sound _ _ _ _ _ _ _ Hg Eb)) as H1. unfold good in H1.
        destruct (exec call c1 before mk st); auto. apply G_join_l; exact H1.
      + pose proof (IHc2 _ _ _ before mk st C2 (refine_f_sound _ _ _ _ _ _ _ Hg Eb)) as H2. unfold good in H2.
        destruct (exec call c2 before mk st); auto. apply G_join_r; exact H2.
    - (* Call *) exact (call_sound f0 None bne a a' before st Hc Hg).
    - (* CallM *) exact (call_sound f0 mk bne a a' before st Hc Hg).
  Qed.
End Soundness.

(* ---------------------------------------------------------------------------------------- *)
(* fuel FUEL_K * rem + rank f + 1 suffices for procedure f                                    *)
(* ---------------------------------------------------------------------------------------- *)
Lemma G_init : forall n f s, Inv n s -> pre_holds f s -> G n s 0 false (a_init f) s.
Proof.
  intros n f s I [P1 P2]. constructor; cbn [a_init a_known a_real a_dropped a_ns]; auto; try lia; intros E; discriminate.
Qed.

Lemma run_progress : forall n fuel, call_progress n fuel (run fuel).
Proof.
  intros n. induction fuel as [|k IH]; intros g mk s I Hp Hb; [lia|].
  cbn [run].
  pose proof (bodies_ok g) as Hok. unfold chk_body in Hok.
  destruct (chk g false (body g) (a_init g)) as [a'|] eqn:C; [|discriminate].
  assert (Hbud : FUEL_K * remn s + rank g <= k) by lia.
  pose proof (exec_progress n k (run k) g s (run_basic n k) IH Hbud (body g) false (a_init g) a' 0 mk s C (G_init n g s I Hp)) as H.
  unfold good in H. destruct (exec (run k) (body g) 0 mk s) as [s'| |]; auto.
  intros Hpost. rewrite Hpost in Hok. cbn in Hok. exact (g_dropped _ _ _ _ _ _ H Hok).
Qed.

(* the whole parser *)
Lemma parse_with_progress : forall fuel ts, parse_fuel (length ts) <= fuel -> parse_with fuel ts <> POutOfFuel.
Proof.
  intros fuel ts Hf H. unfold parse_with in H.
  set (st := set_stack (init_state ts) (b_start SProgram [])) in *.
  assert (E : exec (run fuel) while_program 0 None st <> OutOfFuel).
  { cbn [while_program When exec eval_cond]. destruct (is_at_end st) eqn:Ae; cbn [negb]; [discriminate|].
    pose proof (run_progress (length ts) fuel FProgramLoop None st (Inv_init ts)) as P.
    assert (Hp : pre_holds FProgramLoop st).
    { split; [intros ks E0; discriminate | intros _; apply not_at_end_rest; exact Ae]. }
    assert (Hb : FUEL_K * remn st + rank FProgramLoop + 1 <= fuel).
    { unfold parse_fuel, FUEL_K, remn, st in *. cbn in *. lia. }
    specialize (P Hp Hb). intro Hx. rewrite Hx in P. exact P. }
  destruct (exec (run fuel) while_program 0 None st) as [s1| |]; try congruence.
  destruct (snd (b_finish (stack s1))); discriminate.
Qed.

Lemma parse_progress : forall ts, parse ts <> POutOfFuel.
Proof. intros ts. apply parse_with_progress. lia. Qed.
