(* Parser/Progress.v — the measure argument behind C04_parse_progress.

   rem st = number of tokens not yet consumed.  Every procedure f has a rank (its position in the longest chain of
   calls that may happen without a token being consumed in between).  `run fuel f` needs at most
   FUEL_K * rem + rank f + 1 units of fuel:  a call made after a token was consumed may be to any procedure
   (FUEL_K > every rank), a call made before any token was consumed must go to a procedure of smaller rank.
   Whether "a token was consumed" at a call site is established by a small abstract interpretation of the
   procedure body (`chk`), which tracks: the set of kinds `peek()` is known to be in, whether a token is known to be
   present, whether rem has dropped since entry, and whether the no-progress test of the recovery loops
   (`current == before && !is_at_end()`) is known to have failed.  `chk` is proved sound once (exec_progress) and
   evaluated on every body (bodies_ok). *)
From Coq Require Import String List Bool Arith NArith Lia.
From Mimium Require Import Tables.LexerTables Tables.TokenKinds Parser.Model Parser.Basic.
Import ListNotations.

Definition remn (st : pstate) : nat := length (rest st).

(* ---------------------------------------------------------------------------------------- *)
(* static tables                                                                              *)
(* ---------------------------------------------------------------------------------------- *)
Definition rank (f : fname) : nat :=
  match f with
  | FProgramLoop | FModuleLoop | FBlockLoop | FMatchArmLoop => 10
  | FStatement | FMatchArm => 9
  | FExpr => 8
  | FAssignmentExpr => 7
  | FExprPrec _ | FExprPrecNoLB _ => 6
  | FPrefixExpr => 5
  | FPostfixExpr => 4
  | FPrimary | FType => 3
  | FMacroExpansion | FTypeUnion => 2
  | FQualifiedPath | FUsePath | FPattern | FUnaryExpr | FPostfixLoop | FMatchPattern | FTypePrimary => 1
  | _ => 0
  end.

(* precondition of a procedure: peek() is one of these kinds *)
Definition pre (f : fname) : option (list TokenKind) :=
  match f with
  | FModuleDecl => Some [KMod] | FUseStmt => Some [KUse]
  | FQualifiedPath | FMacroExpansion => Some [KIdent]
  | FMacroDecl => Some [KMacro] | FFunctionDecl => Some [KFunction]
  | FBracketExpr => Some [KBackQuote] | FEscapeExpr => Some [KDollar]
  | FLetDecl => Some [KLet] | FLetRecDecl => Some [KLetRec]
  | FTuplePattern | FParamList | FArgList | FTypeTupleOrParen | FTupleExpr | FMatchTuplePattern => Some [KParenBegin]
  | FRecordPattern | FTypeRecord | FRecordExpr | FBlockExpr => Some [KBlockBegin]
  | FUnaryExpr => Some prefix_ops
  | FTypeAnnotation => Some [KColon]
  | FLambdaExpr => Some [KLambdaArgBeginEnd]
  | FIfExpr => Some [KIf] | FMatchExpr => Some [KMatch]
  | FTypeDecl | FTypeAliasDecl => Some [KType]
  | FArrayExpr => Some [KArrayBegin]
  | _ => None
  end.
(* precondition: some token is present (the loop test `!is_at_end()` held) *)
Definition pre_real (f : fname) : bool :=
  match f with FProgramLoop | FModuleLoop | FBlockLoop | FMatchArmLoop => true | _ => false end.
(* postcondition: at least one token was consumed *)
Definition post (f : fname) : bool :=
  match f with FArgList | FQualifiedPath | FTypeTupleOrParen => true | _ => false end.

(* ---------------------------------------------------------------------------------------- *)
(* the abstract interpretation                                                                *)
(* ---------------------------------------------------------------------------------------- *)
Record astate := mkA {
  a_known : option (list TokenKind);   (* peek() = Some k with k in the list *)
  a_real : bool;                       (* a token is present (rest <> []) *)
  a_dropped : bool;                    (* rem < rem at procedure entry *)
  a_ns : bool                          (* current <> before \/ is_at_end() *)
}.

Definition kinds_sub (ks ks' : list TokenKind) : bool := forallb (fun k => tk_in k ks') ks.
Definition is_real (a : astate) : bool := a_real a || match a_known a with Some _ => true | None => false end.

Definition pre_ok (g : fname) (a : astate) : bool :=
  (match pre g with
   | None => true
   | Some ks' => match a_known a with Some ks => kinds_sub ks ks' | None => false end
   end) && (negb (pre_real g) || is_real a).

(* after a bump *)
Definition a_consume (a : astate) : astate := mkA None false (a_dropped a || is_real a) (a_ns a).
(* after something that may or may not have consumed *)
Definition a_forget (a : astate) : astate := mkA None false (a_dropped a) (a_ns a).
(* after a call of g *)
Definition a_call (g : fname) (a : astate) : astate := mkA None false (a_dropped a || post g) false.

Definition a_join (a b : astate) : astate :=
  mkA (match a_known a, a_known b with
       | Some x, Some y => if kinds_sub x y && kinds_sub y x then Some x else None
       | _, _ => None
       end)
      (is_real a && is_real b) (a_dropped a && a_dropped b) (a_ns a && a_ns b).

Fixpoint refine_t (b : cond) (bne : bool) (a : astate) : astate :=
  match b with
  | CPeek ks => mkA (Some ks) true (a_dropped a) (a_ns a)
  | CNot CAtEnd => mkA (a_known a) true (a_dropped a || (a_ns a && bne)) (a_ns a)
  | CStalled => mkA (a_known a) true (a_dropped a) (a_ns a)
  | CAnd x y => refine_t y bne (refine_t x bne a)
  | _ => a
  end.

Fixpoint refine_f (b : cond) (a : astate) : astate :=
  match b with
  | CStalled => mkA (a_known a) (a_real a) (a_dropped a) true
  | COr x y => refine_f y (refine_f x a)
  | _ => a
  end.

Definition obind {A B} (o : option A) (f : A -> option B) : option B := match o with Some x => f x | None => None end.

(* f = the procedure whose body is analysed; bne = "a token was present when `before` was assigned" *)
Fixpoint chk (f : fname) (bne : bool) (c : cmd) (a : astate) : option astate :=
  match c with
  | Skip => Some a
  | Seq x y => obind (chk f bne x a) (chk f bne y)
  | Bump => Some (a_consume a)
  | Expect k => match a_known a with
                | Some (k0 :: ks) => if forallb (fun k' => tk_eqb k' k) (k0 :: ks) then Some (a_consume a) else Some (a_forget a)
                | _ => Some (a_forget a)
                end
  | Expects ks' => match a_known a with
                   | Some (k0 :: ks) => if kinds_sub (k0 :: ks) ks' then Some (a_consume a) else Some (a_forget a)
                   | _ => Some (a_forget a)
                   end
  | IfExpect k t e =>
      obind (chk f bne t (mkA None false true (a_ns a))) (fun a1 =>
      obind (chk f bne e (a_forget a)) (fun a2 => Some (a_join a1 a2)))
  | Err _ _ => Some a
  | MarkKind k => if is_real a then Some (mkA (Some [k]) true (a_dropped a) false)
                  else Some (mkA None false (a_dropped a) false)
  | Node _ x | WithMarker x | WrapAt _ x | SetMarkerLast x => chk f bne x a
  | WithBefore x =>
      obind (chk f (is_real a) x (mkA (a_known a) (a_real a) (a_dropped a) false)) (fun a1 =>
      Some (mkA (a_known a1) (a_real a1) (a_dropped a1) false))
  | If b t e =>
      obind (chk f bne t (refine_t b bne a)) (fun a1 =>
      obind (chk f bne e (refine_f b a)) (fun a2 => Some (a_join a1 a2)))
  | Call g | CallM g =>
      if pre_ok g a && (a_dropped a || (rank g <? rank f)) then Some (a_call g a) else None
  end.

Definition a_init (f : fname) : astate := mkA (pre f) (pre_real f) false false.

Definition chk_body (f : fname) : bool :=
  match chk f false (body f) (a_init f) with
  | Some a => negb (post f) || a_dropped a
  | None => false
  end.

Lemma bodies_ok : forall f, chk_body f = true.
Proof. destruct f; vm_compute; reflexivity. Qed.

Definition max_rank : nat := 10.
Lemma rank_le : forall f, rank f <= max_rank.
Proof. destruct f; cbn; unfold max_rank; lia. Qed.
