(* Parser/Basic.v — structural invariants of the Parser model that hold for EVERY command (no static check needed):
   token-leaf bookkeeping, error indices, builder depth, monotone cursor. *)
From Coq Require Import String List Bool Arith NArith Lia.
From Mimium Require Import Tables.LexerTables Tables.TokenKinds Parser.Model.
Import ListNotations.

(* ---------------------------------------------------------------------------------------- *)
(* token-kind equality                                                                        *)
(* ---------------------------------------------------------------------------------------- *)
Lemma kind_code_inj : forall a b, kind_code a = kind_code b -> a = b.
Proof.
  assert (H : forall k, nth_error all_kinds (N.to_nat (kind_code k)) = Some k) by (destruct k; reflexivity).
  intros a b E. pose proof (H a) as Ha. pose proof (H b) as Hb. rewrite E in Ha. congruence.
Qed.

Lemma tk_eqb_eq : forall a b, tk_eqb a b = true <-> a = b.
Proof.
  intros a b. unfold tk_eqb. rewrite N.eqb_eq. split; [apply kind_code_inj | congruence].
Qed.

Lemma tk_eqb_refl : forall a, tk_eqb a a = true.
Proof. intros. apply tk_eqb_eq. reflexivity. Qed.

Lemma tk_eqb_neq : forall a b, tk_eqb a b = false <-> a <> b.
Proof.
  intros a b. destruct (tk_eqb a b) eqn:E.
  - apply tk_eqb_eq in E. split; [discriminate | congruence].
  - split; [| reflexivity]. intros _ H. apply tk_eqb_eq in H. congruence.
Qed.

Lemma tk_in_In : forall k ks, tk_in k ks = true <-> In k ks.
Proof.
  intros k ks. unfold tk_in. rewrite existsb_exists. split.
  - intros [x [Hin He]]. apply tk_eqb_eq in He. subst. exact Hin.
  - intros H. exists k. split; [exact H | apply tk_eqb_refl].
Qed.

(* ---------------------------------------------------------------------------------------- *)
(* leaves of the builder stack (bottom frame first)                                           *)
(* ---------------------------------------------------------------------------------------- *)
Fixpoint leaves_list (l : list tree) : list nat :=
  match l with [] => [] | x :: r => leaves x ++ leaves_list r end.

Fixpoint stack_leaves (s : list frame) : list nat :=
  match s with [] => [] | f :: r => stack_leaves r ++ leaves_list (snd f) end.

Lemma leaves_node : forall k ch, leaves (TNode k ch) = leaves_list ch.
Proof. intros k ch. induction ch as [|x r IH]; [reflexivity|]. cbn [leaves leaves_list] in *. rewrite <- IH. reflexivity. Qed.

Lemma leaves_list_app : forall a b, leaves_list (a ++ b) = leaves_list a ++ leaves_list b.
Proof. induction a as [|x r IH]; intros b; cbn [leaves_list app]; [reflexivity|]. rewrite IH, app_assoc. reflexivity. Qed.

Lemma stack_leaves_start : forall k s, stack_leaves (b_start k s) = stack_leaves s.
Proof. intros. unfold b_start. cbn [stack_leaves snd leaves_list]. apply app_nil_r. Qed.

Lemma stack_leaves_add : forall p s, s <> [] -> stack_leaves (b_add_token p s) = stack_leaves s ++ [p].
Proof.
  intros p [|[k ch] r] H; [congruence|]. cbn [b_add_token stack_leaves snd].
  rewrite leaves_list_app. cbn [leaves_list leaves]. rewrite app_nil_r, app_assoc. reflexivity.
Qed.

Lemma stack_leaves_finish : forall s, 2 <= length s -> stack_leaves (fst (b_finish s)) = stack_leaves s.
Proof.
  intros [|[k ch] [|[k1 ch1] r]] H; cbn [length] in H; try lia.
  cbn [b_finish fst stack_leaves snd]. rewrite leaves_list_app. cbn [leaves_list]. rewrite leaves_node, app_nil_r, app_assoc.
  reflexivity.
Qed.

Lemma length_finish : forall s, 2 <= length s -> length (fst (b_finish s)) = length s - 1.
Proof. intros [|[k ch] [|[k1 ch1] r]] H; cbn [length] in *; try lia. cbn [b_finish fst length]. lia. Qed.

Lemma start_at_some : forall m k s s1, s <> [] -> b_start_at m k s = Some s1 ->
  stack_leaves s1 = stack_leaves s /\ length s1 = S (length s).
Proof.
  intros m k [|[k0 ch] r] s1 Hne H; [congruence|]. cbn [b_start_at] in H.
  destruct (m <=? length ch); [|discriminate]. injection H as <-.
  cbn [stack_leaves snd length]. split; [|reflexivity].
  rewrite <- app_assoc, <- leaves_list_app, firstn_skipn. reflexivity.
Qed.

(* ---------------------------------------------------------------------------------------- *)
(* the state invariant (n = number of tokens of the input)                                    *)
(* ---------------------------------------------------------------------------------------- *)
Definition err_ok (n : nat) (e : perror) : Prop := match e_idx e with EAt p => p < n | EEnd => True end.

Record Inv (n : nat) (st : pstate) : Prop := mkInv {
  inv_len : length (rest st) <= n;
  inv_cur : match rest st with [] => n <= cur st | _ :: _ => cur st = n - length (rest st) end;
  inv_leaves : stack_leaves (stack st) = seq 0 (n - length (rest st));
  inv_stack : stack st <> [];
  inv_errs : Forall (err_ok n) (errs st);
  inv_marks : Forall (fun m => fst m < n) (marks st)
}.

(* what one execution step may do *)
Record Step (n : nat) (st st' : pstate) : Prop := mkStep {
  st_inv : Inv n st';
  st_depth : length (stack st') = length (stack st);
  st_cur : cur st <= cur st';
  st_rest : length (rest st') <= length (rest st)
}.

Lemma Step_refl : forall n st, Inv n st -> Step n st st.
Proof. intros. constructor; auto. Qed.

Lemma Step_trans : forall n a b c, Step n a b -> Step n b c -> Step n a c.
Proof. intros n a b c [I1 D1 C1 R1] [I2 D2 C2 R2]. constructor; auto; lia. Qed.

Lemma Inv_add_error : forall n e st, Inv n st -> err_ok n e -> Step n st (add_error e st).
Proof.
  intros n e st [L C Lv Sk E M] He. constructor; cbn; auto. constructor; cbn; auto.
Qed.

Lemma cti_ok : forall n st, Inv n st -> forall c s f, err_ok n (mkErr (current_token_index st) c s f).
Proof.
  intros n st [L C Lv Sk E M] c s f. unfold err_ok, current_token_index. cbn [e_idx].
  destruct (rest st) eqn:R; [exact I|]. cbn [length] in *. lia.
Qed.

Lemma Step_bump : forall n st, Inv n st -> Step n st (bump st).
Proof.
  intros n st [L C Lv Sk E M]. unfold bump. destruct (rest st) as [|t r] eqn:R.
  - constructor; cbn; try lia; auto. constructor; cbn; auto; try lia.
  - cbn [length] in *. constructor; cbn; try lia; auto; try (rewrite R; cbn [length]; lia).
    + constructor; cbn; auto; try lia.
      * destruct r; cbn [length] in *; lia.
      * rewrite stack_leaves_add by exact Sk. rewrite Lv, C.
        replace (n - length r) with (S (n - S (length r))) by lia. rewrite seq_S. reflexivity.
      * destruct (stack st) as [|[k ch] s']; [congruence|]. cbn. discriminate.
    + destruct (stack st) as [|[k ch] s']; [congruence|]. reflexivity.
Qed.

Lemma Step_expect : forall n k st, Inv n st -> Step n st (snd (expect k st)).
Proof.
  intros n k st I. unfold expect.
  destruct (match peek st with Some k' => tk_eqb k' k | None => false end).
  - cbn [snd]. apply Step_bump; exact I.
  - destruct (is_at_end st); cbn [snd]; apply Inv_add_error; auto; apply cti_ok; exact I.
Qed.

Lemma Step_expects : forall n ks st, Inv n st -> Step n st (snd (expects ks st)).
Proof.
  intros n ks st I. unfold expects. destruct (peek st) as [k|].
  - destruct (tk_in k ks); cbn [snd]; [apply Step_bump; exact I|]. apply Inv_add_error; auto; apply cti_ok; exact I.
  - cbn [snd]. apply Inv_add_error; auto; apply cti_ok; exact I.
Qed.

Lemma Step_emit_err : forall n ek s st, Inv n st -> Step n st (emit_err ek s st).
Proof.
  intros n ek s st I. unfold emit_err. destruct ek.
  - destruct (peek st); [apply Inv_add_error; auto; apply cti_ok; exact I | apply Step_refl; exact I].
  - apply Inv_add_error; auto; apply cti_ok; exact I.
  - apply Inv_add_error; auto; apply cti_ok; exact I.
  - apply Inv_add_error; auto; apply cti_ok; exact I.
Qed.

Lemma Step_mark_kind : forall n k st, Inv n st -> Step n st (mark_kind k st).
Proof.
  intros n k st I. unfold mark_kind. destruct (rest st) as [|t r] eqn:R; [apply Step_refl; exact I|].
  destruct I as [L C Lv Sk E M]. rewrite R in *. cbn [length] in *.
  constructor; cbn; auto; try lia; try (rewrite R; cbn [length]; lia). constructor; cbn; auto. constructor; [cbn; lia | exact M].
Qed.

Lemma Inv_set_stack : forall n st s, Inv n st -> s <> [] -> stack_leaves s = stack_leaves (stack st) -> Inv n (set_stack st s).
Proof. intros n st s [L C Lv Sk E M] Hs Hl. constructor; cbn; auto. congruence. Qed.

(* push a frame, run, pop it again *)
Lemma Step_framed : forall n st s1 st1,
  Inv n st -> stack_leaves s1 = stack_leaves (stack st) -> length s1 = S (length (stack st)) ->
  Step n (set_stack st s1) st1 -> Step n st (finish st1).
Proof.
  intros n st s1 st1 I Hl Hd [[L C Lv Sk E M] D Cu R]. cbn [set_stack stack cur rest] in *.
  assert (Hst : stack st <> []) by (destruct I; assumption).
  assert (H2 : 2 <= length (stack st1)). { rewrite D, Hd. destruct (stack st); [congruence|cbn; lia]. }
  unfold finish. constructor; cbn [set_stack stack cur rest]; auto.
  - constructor; cbn [set_stack stack cur rest errs marks]; auto.
    + rewrite stack_leaves_finish by exact H2. exact Lv.
    + intro H0. apply (f_equal (@length frame)) in H0. rewrite length_finish in H0 by exact H2. cbn in H0. lia.
  - rewrite length_finish by exact H2. lia.
Qed.

(* ---------------------------------------------------------------------------------------- *)
(* every command preserves the invariant                                                      *)
(* ---------------------------------------------------------------------------------------- *)
Definition call_basic (n : nat) (call : fname -> option nat -> pstate -> outcome) : Prop :=
  forall g mk st, Inv n st -> forall st', call g mk st = Ok st' -> Step n st st'.

Lemma exec_basic : forall n call, call_basic n call ->
  forall c before mk st st', Inv n st -> exec call c before mk st = Ok st' -> Step n st st'.
Proof.
  intros n call Hcall. induction c; intros before mk st st' I H; cbn [exec] in H.
  - (* Skip *) injection H as <-. apply Step_refl; exact I.
  - (* Seq *) destruct (exec call c1 before mk st) as [st1| |] eqn:E1; try discriminate.
    pose proof (IHc1 _ _ _ _ I E1) as S1. pose proof (IHc2 _ _ _ _ (st_inv _ _ _ S1) H) as S2.
    eapply Step_trans; eauto.
  - injection H as <-. apply Step_bump; exact I.
  - injection H as <-. apply Step_expect; exact I.
  - injection H as <-. apply Step_expects; exact I.
  - (* IfExpect *) pose proof (Step_expect n k st I) as S1.
    destruct (fst (expect k st)).
    + eapply Step_trans; [exact S1|]. eapply IHc1; [exact (st_inv _ _ _ S1) | exact H].
    + eapply Step_trans; [exact S1|]. eapply IHc2; [exact (st_inv _ _ _ S1) | exact H].
  - injection H as <-. apply Step_emit_err; exact I.
  - injection H as <-. apply Step_mark_kind; exact I.
  - (* Node *)
    destruct (exec call c before None (set_stack st (b_start k (stack st)))) as [st1| |] eqn:E1; try discriminate.
    injection H as <-.
    eapply Step_framed with (s1 := b_start k (stack st)); [exact I | apply stack_leaves_start | reflexivity |].
    eapply IHc; [| exact E1]. apply Inv_set_stack; [exact I | discriminate | apply stack_leaves_start].
  - (* WithMarker *) eapply IHc; eauto.
  - (* WrapAt *)
    destruct mk as [m|]; [|discriminate].
    destruct (b_start_at m k (stack st)) as [s1|] eqn:Es; [|discriminate].
    destruct (exec call c before None (set_stack st s1)) as [st1| |] eqn:E1; try discriminate.
    injection H as <-.
    destruct (start_at_some _ _ _ _ (inv_stack _ _ I) Es) as [Hl Hd].
    eapply Step_framed with (s1 := s1); [exact I | exact Hl | exact Hd |].
    eapply IHc; [| exact E1]. apply Inv_set_stack; [exact I | | exact Hl].
    intro H0. rewrite H0 in Hd. discriminate.
  - (* SetMarkerLast *) eapply IHc; eauto.
  - (* WithBefore *) eapply IHc; eauto.
  - (* If *) destruct (eval_cond b before st); [eapply IHc1 | eapply IHc2]; eauto.
  - (* Call *) eapply Hcall; eauto.
  - (* CallM *) eapply Hcall; eauto.
Qed.

Lemma run_basic : forall n fuel, call_basic n (run fuel).
Proof.
  intros n. induction fuel as [|k IH]; intros g mk st I st' H; cbn [run] in H; [discriminate|].
  eapply exec_basic; eauto.
Qed.

(* ---------------------------------------------------------------------------------------- *)
(* Eof-free inputs stay Eof-free (no command of cst_parser.rs rewrites a kind to Eof)          *)
(* ---------------------------------------------------------------------------------------- *)
Fixpoint marks_ok (c : cmd) : bool :=
  match c with
  | MarkKind k => negb (tk_eqb k KEof)
  | Seq a b => marks_ok a && marks_ok b
  | IfExpect _ a b => marks_ok a && marks_ok b
  | If _ a b => marks_ok a && marks_ok b
  | Node _ a | WithMarker a | WrapAt _ a | SetMarkerLast a | WithBefore a => marks_ok a
  | _ => true
  end.

Lemma bodies_marks_ok : forall f, marks_ok (body f) = true.
Proof. destruct f; reflexivity. Qed.

Definition NoEof (st : pstate) : Prop := Forall (fun t => tk t <> KEof) (rest st).

Lemma NoEof_bump : forall st, NoEof st -> NoEof (bump st).
Proof.
  intros st H. unfold NoEof, bump in *. destruct (rest st) as [|t r]; cbn [rest]; [constructor|]. inversion H; assumption.
Qed.

Lemma NoEof_expect : forall k st, NoEof st -> NoEof (snd (expect k st)).
Proof.
  intros k st H. unfold expect.
  destruct (match peek st with Some k' => tk_eqb k' k | None => false end); [apply NoEof_bump; exact H|].
  destruct (is_at_end st); exact H.
Qed.

Lemma NoEof_expects : forall ks st, NoEof st -> NoEof (snd (expects ks st)).
Proof.
  intros ks st H. unfold expects. destruct (peek st) as [k|]; [|exact H].
  destruct (tk_in k ks); [apply NoEof_bump; exact H | exact H].
Qed.

Lemma NoEof_emit_err : forall ek s st, NoEof st -> NoEof (emit_err ek s st).
Proof. intros ek s st H. unfold emit_err. destruct ek; try exact H. destruct (peek st); exact H. Qed.

Definition call_noeof (call : fname -> option nat -> pstate -> outcome) : Prop :=
  forall g mk st st', NoEof st -> call g mk st = Ok st' -> NoEof st'.

Lemma exec_noeof : forall call, call_noeof call ->
  forall c before mk st st', marks_ok c = true -> NoEof st -> exec call c before mk st = Ok st' -> NoEof st'.
Proof.
  intros call Hcall. induction c; intros before mk st st' Hm I H; cbn [exec] in H; cbn [marks_ok] in Hm;
    try (apply andb_prop in Hm; destruct Hm as [Hm1 Hm2]).
  - injection H as <-. exact I.
  - destruct (exec call c1 before mk st) as [st1| |] eqn:E1; try discriminate. eauto.
  - injection H as <-. apply NoEof_bump; exact I.
  - injection H as <-. apply NoEof_expect; exact I.
  - injection H as <-. apply NoEof_expects; exact I.
  - pose proof (NoEof_expect k st I). destruct (fst (expect k st)); eauto.
  - injection H as <-. apply NoEof_emit_err; exact I.
  - injection H as <-. unfold NoEof, mark_kind in *. destruct (rest st) as [|t r] eqn:R; [rewrite R; constructor|]. cbn [rest].
    inversion I; subst. constructor; [|assumption]. cbn [tk]. apply tk_eqb_neq. apply negb_true_iff. exact Hm.
  - destruct (exec call c before None (set_stack st (b_start k (stack st)))) as [st1| |] eqn:E1; try discriminate.
    injection H as <-. unfold finish, NoEof. cbn [set_stack rest]. eapply (IHc _ _ _ _ Hm); [|exact E1]. exact I.
  - eauto.
  - destruct mk as [m|]; [|discriminate]. destruct (b_start_at m k (stack st)) as [s1|]; [|discriminate].
    destruct (exec call c before None (set_stack st s1)) as [st1| |] eqn:E1; try discriminate.
    injection H as <-. unfold finish, NoEof. cbn [set_stack rest]. eapply (IHc _ _ _ _ Hm); [|exact E1]. exact I.
  - eauto.
  - eauto.
  - destruct (eval_cond b before st); eauto.
  - eauto.
  - eauto.
Qed.

Lemma run_noeof : forall fuel, call_noeof (run fuel).
Proof.
  induction fuel as [|k IH]; intros g mk st st' I H; cbn [run] in H; [discriminate|].
  eapply exec_noeof; eauto. apply bodies_marks_ok.
Qed.

(* ---------------------------------------------------------------------------------------- *)
(* the top-level loop stops only at the end                                                   *)
(* ---------------------------------------------------------------------------------------- *)
Lemma program_loop_at_end : forall fuel before mk st st',
  exec (run fuel) while_program before mk st = Ok st' -> is_at_end st' = true.
Proof.
  induction fuel as [|k IH]; intros before mk st st' H; cbn [while_program When exec eval_cond] in H;
    destruct (is_at_end st) eqn:E; cbn [negb] in H; try (injection H as <-; exact E).
  - cbn [run] in H. discriminate.
  - cbn [run body exec] in H.
    match type of H with match ?X with _ => _ end = _ => destruct X as [st1| |] eqn:E1; try discriminate end.
    match type of H with match ?X with _ => _ end = _ => destruct X as [st2| |] eqn:E2; try discriminate end.
    eapply IH; exact H.
Qed.

(* ---------------------------------------------------------------------------------------- *)
(* parse                                                                                      *)
(* ---------------------------------------------------------------------------------------- *)
Lemma Inv_init : forall ts, Inv (length ts) (set_stack (init_state ts) (b_start SProgram [])).
Proof.
  intros ts. constructor; cbn; auto; try discriminate.
  - destruct ts; cbn [length]; lia.
  - rewrite Nat.sub_diag. reflexivity.
Qed.

Lemma parse_ok_facts : forall fuel ts root es ms,
  parse_with fuel ts = POk root es ms ->
  exists st1, exec (run fuel) while_program 0 None (set_stack (init_state ts) (b_start SProgram [])) = Ok st1 /\
              Inv (length ts) st1 /\ is_at_end st1 = true /\ length (stack st1) = 1 /\
              snd (b_finish (stack st1)) = Some root /\ es = rev (errs st1) /\ ms = rev (marks st1).
Proof.
  intros fuel ts root es ms H. unfold parse_with in H.
  destruct (exec (run fuel) while_program 0 None _) as [st1| |] eqn:E; try discriminate.
  destruct (snd (b_finish (stack st1))) as [r|] eqn:F; [|discriminate]. injection H as <- <- <-.
  pose proof (exec_basic (length ts) _ (run_basic (length ts) fuel) _ _ _ _ _ (Inv_init ts) E) as S.
  exists st1. split; [reflexivity|]. split; [exact (st_inv _ _ _ S)|].
  split; [eapply program_loop_at_end; exact E|].
  split; [rewrite (st_depth _ _ _ S); reflexivity|].
  split; [exact F|]. split; reflexivity.
Qed.

(* ---------------------------------------------------------------------------------------- *)
(* the CST leaves are exactly the token positions                                             *)
(* ---------------------------------------------------------------------------------------- *)
Lemma parse_leaves : forall fuel ts root es ms,
  Forall (fun t => tk t <> KEof) ts ->
  parse_with fuel ts = POk root es ms -> leaves root = seq 0 (length ts).
Proof.
  intros fuel ts root es ms Hne H.
  destruct (parse_ok_facts _ _ _ _ _ H) as [st1 [E [I [Ae [D [F _]]]]]].
  assert (N1 : NoEof st1).
  { eapply (exec_noeof (run fuel) (run_noeof fuel) while_program 0 None _ st1); [reflexivity | | exact E]. exact Hne. }
  assert (R : rest st1 = []).
  { unfold is_at_end, peek in Ae. unfold NoEof in N1. destruct (rest st1) as [|t r]; [reflexivity|].
    inversion N1; subst. apply tk_eqb_eq in Ae. congruence. }
  pose proof (inv_leaves _ _ I) as Lv. rewrite R in Lv. cbn [length] in Lv. rewrite Nat.sub_0_r in Lv.
  destruct (stack st1) as [|[k ch] [|f r]]; cbn [length] in D; try discriminate.
  cbn [b_finish snd] in F. injection F as <-. rewrite leaves_node. cbn [stack_leaves snd app] in Lv. exact Lv.
Qed.
