(* Lmmt/Typing.v — typing of run-time objects: values against a typing SC of the closure instances, environments against
   a typing SV of the variable cells and the signatures of the function table, closure instances, function-table
   entries, whole worlds.  Everything is monotone under extension (append) of SV, SC and the signature list. *)
From Coq Require Import List ZArith NArith Bool Lia.
From Mimium Require Import Lmmm.Syntax Lmmm.Ref Lmmx.Syntax Lmmx.Ref Lmmt.Types Lmmt.Check.
Import ListNotations.

(* ---- answers ---- *)
Definition res_ok {A} (P : A -> Prop) (r : res A) : Prop :=
  match r with Ok a => P a | OutOfFuel => True | Stuck _ => False end.

Lemma res_ok_bind : forall A B (Q : A -> Prop) (P : B -> Prop) (m : res A) (k : A -> res B),
  res_ok Q m -> (forall a, Q a -> res_ok P (k a)) -> res_ok P (rbind m k).
Proof. intros A B Q P [a| |c] k Hm Hk; cbn in *; auto. Qed.

Lemma res_ok_impl : forall A (P Q : A -> Prop) (m : res A),
  res_ok P m -> (forall a, P a -> Q a) -> res_ok Q m.
Proof. intros A P Q [a| |c] Hm H; cbn in *; auto. Qed.

(* ---- extension ---- *)
Definition ext {A} (l l' : list A) : Prop := exists x, l' = l ++ x.

Lemma ext_refl : forall A (l : list A), ext l l.
Proof. intros. exists []. rewrite app_nil_r. reflexivity. Qed.

Lemma ext_trans : forall A (a b c : list A), ext a b -> ext b c -> ext a c.
Proof. intros A a b c [x ->] [y ->]. exists (x ++ y). rewrite app_assoc. reflexivity. Qed.

Lemma ext_app : forall A (l x : list A), ext l (l ++ x).
Proof. intros. exists x. reflexivity. Qed.

Lemma ext_nth : forall A (l l' : list A) i a, ext l l' -> nth_error l i = Some a -> nth_error l' i = Some a.
Proof.
  intros A l l' i a [x ->] H. rewrite nth_error_app1; auto. apply nth_error_Some. congruence.
Qed.

#[export] Hint Resolve ext_refl ext_app : lmmt.

(* ---- values ---- *)
Fixpoint vtyp (SC : list ty) (t : ty) (v : val) {struct t} : Prop :=
  match t, v with
  | TNum, VNum _ => True
  | TUnit, VUnit => True
  | TTup ts, VTup vs =>
      (fix go (ts : list ty) (vs : list val) : Prop :=
         match ts, vs with
         | [], [] => True
         | t :: ts', v :: vs' => vtyp SC t v /\ go ts' vs'
         | _, _ => False
         end) ts vs
  | TRec fts, VRec fvs =>
      (fix go (fts : list (ident * ty)) (fvs : list (ident * val)) : Prop :=
         match fts, fvs with
         | [], [] => True
         | ft :: fts', fv :: fvs' => fst ft = fst fv /\ vtyp SC (snd ft) (snd fv) /\ go fts' fvs'
         | _, _ => False
         end) fts fvs
  | TFn ps r, VClo id => nth_error SC id = Some (TFn ps r)
  | TSum _ cs, VCon tag p =>
      (fix pick (cs : list (option ty)) (n : nat) : Prop :=
         match cs, n with
         | [], _ => False
         | o :: _, O => match o with Some t' => vtyp SC t' p | None => p = VUnit end
         | _ :: cs', S n' => pick cs' n'
         end) cs tag
  | _, _ => False
  end.

(* the payload of constructor number tag of a sum value *)
Definition ptyp (SC : list ty) (o : option ty) (p : val) : Prop :=
  match o with Some t' => vtyp SC t' p | None => p = VUnit end.

Lemma vtyp_sum : forall SC nm cs tag p, vtyp SC (TSum nm cs) (VCon tag p) <-> exists o, nth_error cs tag = Some o /\ ptyp SC o p.
Proof.
  intros SC nm cs. cbn [vtyp]. induction cs as [|o cs IH]; intros tag p.
  - split; [contradiction|]. intros (o & E & _). destruct tag; discriminate.
  - destruct tag as [|tag].
    + split.
      * intro H. exists o. split; auto.
      * intros (o' & E & H). cbn in E. inversion E; subst. exact H.
    + cbn [nth_error]. apply IH.
Qed.

Lemma vtyp_sum_inv : forall SC nm cs v, vtyp SC (TSum nm cs) v ->
  exists tag p o, v = VCon tag p /\ nth_error cs tag = Some o /\ ptyp SC o p.
Proof.
  intros SC nm cs [z|vs|fs|id| |tag p] H; try (cbn in H; contradiction).
  apply vtyp_sum in H. destruct H as (o & E & Hp). eauto 6.
Qed.

Definition fvtyp (SC : list ty) (ft : ident * ty) (fv : ident * val) : Prop :=
  fst ft = fst fv /\ vtyp SC (snd ft) (snd fv).

Lemma vtyp_tup : forall SC ts vs, vtyp SC (TTup ts) (VTup vs) <-> Forall2 (vtyp SC) ts vs.
Proof.
  intros SC. induction ts as [|t ts IH]; intros [|v vs]; cbn; split; intro H; auto; try contradiction; try (inversion H; fail).
  - destruct H as [H1 H2]. constructor; auto. apply IH. exact H2.
  - inversion H; subst. split; auto. apply IH. auto.
Qed.

Lemma vtyp_rec : forall SC fts fvs, vtyp SC (TRec fts) (VRec fvs) <-> Forall2 (fvtyp SC) fts fvs.
Proof.
  intros SC. induction fts as [|t ts IH]; intros [|v vs]; cbn; split; intro H; auto; try contradiction; try (inversion H; fail).
  - destruct H as (H0 & H1 & H2). constructor; [split; auto|]. apply IH. exact H2.
  - inversion H as [|? ? ? ? [Ha Hb] Hc]; subst. split; auto. split; auto. apply IH. auto.
Qed.

Lemma vtyp_num_inv : forall SC v, vtyp SC TNum v -> exists z, v = VNum z.
Proof. intros SC [z|vs|fs|id| |tag pv] H; cbn in H; try contradiction. eauto. Qed.

Lemma vtyp_tup_inv : forall SC ts v, vtyp SC (TTup ts) v -> exists vs, v = VTup vs /\ Forall2 (vtyp SC) ts vs.
Proof.
  intros SC ts [z|vs|fs|id| |tag pv] H; try (cbn in H; contradiction). exists vs. split; auto. apply vtyp_tup. exact H.
Qed.

Lemma vtyp_rec_inv : forall SC fts v, vtyp SC (TRec fts) v -> exists fvs, v = VRec fvs /\ Forall2 (fvtyp SC) fts fvs.
Proof.
  intros SC ts [z|vs|fs|id| |tag pv] H; try (cbn in H; contradiction). exists fs. split; auto. apply vtyp_rec. exact H.
Qed.

Lemma vtyp_fn_inv : forall SC ps r v, vtyp SC (TFn ps r) v -> exists id, v = VClo id /\ nth_error SC id = Some (TFn ps r).
Proof. intros SC ps r [z|vs|fs|id| |tag pv] H; cbn in H; try contradiction. eauto. Qed.

Lemma vtyp_mono : forall SC SC', ext SC SC' -> forall t v, vtyp SC t v -> vtyp SC' t v.
Proof.
  intros SC SC' He. induction t using ty_ind'; intros v Hv; destruct v; try (cbn in Hv; contradiction); auto.
  - apply vtyp_tup. apply vtyp_tup in Hv. revert H. induction Hv; intros HF; constructor; inversion HF; subst; auto.
  - apply vtyp_rec. apply vtyp_rec in Hv. revert H. induction Hv as [|ft fv fts fvs [Ha Hb] Hc IH]; intros HF; constructor;
      inversion HF; subst; auto. split; auto.
  - cbn in *. eapply ext_nth; eauto.
  - apply vtyp_sum. apply vtyp_sum in Hv. destruct Hv as (o & E & Hp). exists o. split; auto.
    rewrite Forall_forall in H. specialize (H o (nth_error_In _ _ E)). destruct o as [t'|]; cbn in *; auto.
Qed.

Lemma vtyps_mono : forall SC SC' ts vs, ext SC SC' -> Forall2 (vtyp SC) ts vs -> Forall2 (vtyp SC') ts vs.
Proof. intros SC SC' ts vs He H. induction H; constructor; auto. eapply vtyp_mono; eauto. Qed.

Lemma fvtyps_mono : forall SC SC' ts vs, ext SC SC' -> Forall2 (fvtyp SC) ts vs -> Forall2 (fvtyp SC') ts vs.
Proof.
  intros SC SC' ts vs He H. induction H as [|? ? ? ? [Ha Hb]]; constructor; auto. split; auto. eapply vtyp_mono; eauto.
Qed.

(* looking a field up in a typed record value *)
Lemma fvtyps_lookup : forall SC fts fvs f t, Forall2 (fvtyp SC) fts fvs -> rlookup f fts = Some t ->
  exists v, rlookup f fvs = Some v /\ vtyp SC t v.
Proof.
  intros SC fts fvs f t H. induction H as [|[g u] [g' v] fts fvs [Ha Hb] Hc IH]; cbn; intro E; [discriminate|].
  cbn in Ha, Hb. subst g'. destruct (N.eqb f g); auto. inversion E; subst. eauto.
Qed.

Lemma fvtyps_lookup_none : forall SC fts fvs f, Forall2 (fvtyp SC) fts fvs -> rlookup f fts = None -> rlookup f fvs = None.
Proof.
  intros SC fts fvs f H. induction H as [|[g u] [g' v] fts fvs [Ha Hb] Hc IH]; cbn; intro E; auto.
  cbn in Ha. subst g'. destruct (N.eqb f g); auto. discriminate.
Qed.

(* ---- environments ---- *)
Section Objects.
  Variable an : annots.

  Definition ent_ok (SV : list ty) (sigs : list fsig) (g : gent) (ob : option binding) : Prop :=
    match g with
    | NVar t => exists l, ob = Some (BLoc l) /\ nth_error SV l = Some t
    | NFun sg => exists k, ob = Some (BFun k) /\ nth_error sigs k = Some sg
    | NHidden => True
    end.

  Definition env_ok (SV : list ty) (sigs : list fsig) (G : tenv) (r : xenv) : Prop :=
    forall x g, tlookup x G = Some g -> ent_ok SV sigs g (xlookup x r).

  Lemma ent_ok_mono : forall SV SV' sigs sigs' g ob, ext SV SV' -> ext sigs sigs' ->
    ent_ok SV sigs g ob -> ent_ok SV' sigs' g ob.
  Proof.
    intros SV SV' sigs sigs' [t|sg|] ob H1 H2; cbn; auto.
    - intros (l & E & Hn). exists l. split; auto. eapply ext_nth; eauto.
    - intros (k & E & Hn). exists k. split; auto. eapply ext_nth; eauto.
  Qed.

  Lemma env_ok_mono : forall SV SV' sigs sigs' G r, ext SV SV' -> ext sigs sigs' ->
    env_ok SV sigs G r -> env_ok SV' sigs' G r.
  Proof. intros SV SV' sigs sigs' G r H1 H2 H x g E. eapply ent_ok_mono; eauto. Qed.

  Lemma env_ok_nil : forall SV sigs, env_ok SV sigs [] [].
  Proof. intros SV sigs x g E. cbn in E. discriminate. Qed.

  Lemma env_ok_cons : forall SV sigs G r x g b, ent_ok SV sigs g (Some b) -> env_ok SV sigs G r ->
    env_ok SV sigs ((x, g) :: G) ((x, b) :: r).
  Proof.
    intros SV sigs G r x g b Hb H y g' E. cbn in *. destruct (N.eqb y x); auto. inversion E; subst. exact Hb.
  Qed.

  (* ---- closure instances, function-table entries ---- *)
  Definition clo_ok (SV : list ty) (sigs : list fsig) (c : cinst) (fty : ty) : Prop :=
    exists pts rt G, fty = TFn pts rt /\ length (ci_params c) = length pts /\
                     env_ok SV sigs G (ci_env c) /\ tc an (bind_tys (ci_params c) pts G) (ci_body c) = Some rt.

  Definition par_ok (G : tenv) (pd : ident * option xexpr) (ps : ident * ty * bool) : Prop :=
    fst pd = fst (fst ps) /\ snd ps = is_some (snd pd) /\
    match snd pd with Some de => tc an G de = Some (snd (fst ps)) | None => True end.

  Definition fe_ok (SV : list ty) (sigs : list fsig) (fe : fentry) (sg : fsig) : Prop :=
    exists G, env_ok SV sigs G (fe_env fe) /\ Forall2 (par_ok G) (fe_params fe) (sg_params sg) /\
              tc an (bind_tys (map fst (fe_params fe)) (sg_ptys sg) G) (fe_body fe) = Some (sg_ret sg).

  Lemma clo_ok_mono : forall SV SV' sigs sigs' c t, ext SV SV' -> ext sigs sigs' -> clo_ok SV sigs c t -> clo_ok SV' sigs' c t.
  Proof.
    intros SV SV' sigs sigs' c t H1 H2 (pts & rt & G & E & Hl & He & Hb). exists pts, rt, G. repeat split; auto.
    eapply env_ok_mono; eauto.
  Qed.

  Lemma fe_ok_mono : forall SV SV' sigs sigs' fe sg, ext SV SV' -> ext sigs sigs' -> fe_ok SV sigs fe sg -> fe_ok SV' sigs' fe sg.
  Proof.
    intros SV SV' sigs sigs' fe sg H1 H2 (G & He & Hp & Hb). exists G. repeat split; auto. eapply env_ok_mono; eauto.
  Qed.

  (* ---- worlds: cells typed by SV, instances typed by SC, the function table typed by the signatures ---- *)
  Definition wok (ft : list fentry) (sigs : list fsig) (SV SC : list ty) (w : world) : Prop :=
    Forall2 (vtyp SC) SV (w_vars w) /\ Forall2 (clo_ok SV sigs) (w_clos w) SC /\ Forall2 (fe_ok SV sigs) ft sigs.

  Lemma Forall2_mono : forall A B (P Q : A -> B -> Prop) l l', (forall a b, P a b -> Q a b) -> Forall2 P l l' -> Forall2 Q l l'.
  Proof. intros A B P Q l l' H F. induction F; constructor; auto. Qed.

  Lemma Forall2_nth_l : forall A B (P : A -> B -> Prop) l l' i a, Forall2 P l l' -> nth_error l i = Some a ->
    exists b, nth_error l' i = Some b /\ P a b.
  Proof.
    intros A B P l l' i a F. revert i. induction F; intros [|i] E; cbn in *; try discriminate.
    - inversion E; subst. eauto.
    - eauto.
  Qed.

  Lemma Forall2_nth_r : forall A B (P : A -> B -> Prop) l l' i b, Forall2 P l l' -> nth_error l' i = Some b ->
    exists a, nth_error l i = Some a /\ P a b.
  Proof.
    intros A B P l l' i b F. revert i. induction F; intros [|i] E; cbn in *; try discriminate.
    - inversion E; subst. eauto.
    - eauto.
  Qed.

  Lemma Forall2_set_nth : forall A B (P : A -> B -> Prop) l l' i a b, Forall2 P l l' -> nth_error l' i = Some b -> P a b ->
    Forall2 P (set_nth l i a) l'.
  Proof.
    intros A B P l l' i a b F. revert i. induction F; intros [|i] E Hp; cbn in *; try discriminate.
    - inversion E; subst. constructor; auto.
    - constructor; auto.
  Qed.

  Lemma Forall2_set_nth_r : forall A B (P : A -> B -> Prop) l l' i a b, Forall2 P l l' -> nth_error l i = Some a -> P a b ->
    Forall2 P l (set_nth l' i b).
  Proof.
    intros A B P l l' i a b F. revert i. induction F; intros [|i] E Hp; cbn in *; try discriminate.
    - inversion E; subst. constructor; auto.
    - constructor; eauto.
  Qed.

  Lemma Forall2_len : forall A B (P : A -> B -> Prop) l l', Forall2 P l l' -> length l = length l'.
  Proof. intros A B P l l' F. induction F; cbn; auto. Qed.

  (* a new cell *)
  Lemma wok_alloc : forall ft sigs SV SC w v t, wok ft sigs SV SC w -> vtyp SC t v ->
    wok ft sigs (SV ++ [t]) SC (snd (alloc v w)) /\ fst (alloc v w) = length SV.
  Proof.
    intros ft sigs SV SC w v t (Hv & Hc & Hf) Ht. unfold alloc. cbn [fst snd]. split.
    - split; [|split]; cbn [w_vars w_clos].
      + apply Forall2_app; auto.
      + eapply Forall2_mono; [|exact Hc]. intros. eapply clo_ok_mono; eauto with lmmt.
      + eapply Forall2_mono; [|exact Hf]. intros. eapply fe_ok_mono; eauto with lmmt.
    - symmetry. eapply Forall2_len; eauto.
  Qed.

  (* a new instance *)
  Lemma wok_new_inst : forall ft sigs SV SC w c t, wok ft sigs SV SC w -> clo_ok SV sigs c t ->
    wok ft sigs SV (SC ++ [t]) (snd (new_inst c w)) /\ fst (new_inst c w) = length SC.
  Proof.
    intros ft sigs SV SC w c t (Hv & Hc & Hf) Ht. unfold new_inst. cbn [fst snd]. split.
    - split; [|split]; cbn [w_vars w_clos]; auto.
      + eapply Forall2_mono; [|exact Hv]. intros. eapply vtyp_mono; eauto with lmmt.
      + apply Forall2_app; auto.
    - eapply Forall2_len; eauto.
  Qed.

  (* the function table and the signatures grow together *)
  Lemma wok_new_fun : forall ft sigs SV SC w fe sg, wok ft sigs SV SC w -> fe_ok SV (sigs ++ [sg]) fe sg ->
    wok (ft ++ [fe]) (sigs ++ [sg]) SV SC w.
  Proof.
    intros ft sigs SV SC w fe sg (Hv & Hc & Hf) Hn. split; [|split]; auto.
    - eapply Forall2_mono; [|exact Hc]. intros. eapply clo_ok_mono; eauto with lmmt.
    - apply Forall2_app; auto. eapply Forall2_mono; [|exact Hf]. intros. eapply fe_ok_mono; eauto with lmmt.
  Qed.
End Objects.
