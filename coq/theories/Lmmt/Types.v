(* Lmmt/Types.v — types of the core language with closures (Lmmx): number, unit, tuple, record (fields in canonical
   order), function (list ty) -> ty, declared sum type (its name and, per constructor in declaration order, the payload type;
   not recursive: `type rec` is outside); function signatures (parameter names, types, has-default flags, return type);
   typing environments.  Boolean type equality with its soundness lemma, word size of a type. *)
From Coq Require Import List ZArith NArith Bool Lia.
From Mimium Require Import Lmmm.Syntax Lmmx.Syntax.
Import ListNotations.

Inductive ty : Type :=
| TNum
| TUnit
| TTup (ts : list ty)
| TRec (fs : list (ident * ty))      (* field names strictly increasing: the canonical order of Lmmx.XRecord *)
| TFn (ps : list ty) (r : ty)
| TSum (name : ident) (cs : list (option ty)).   (* type name = C0 | C1(t1) | ..: two sum types are equal when name AND constructors are *)

(* structural induction through the nested lists *)
Section TyInd.
  Variable P : ty -> Prop.
  Hypothesis Hnum : P TNum.
  Hypothesis Hunit : P TUnit.
  Hypothesis Htup : forall ts, Forall P ts -> P (TTup ts).
  Hypothesis Hrec : forall fs, Forall (fun ft => P (snd ft)) fs -> P (TRec fs).
  Hypothesis Hfn : forall ps r, Forall P ps -> P r -> P (TFn ps r).
  Definition optP (o : option ty) : Prop := match o with Some t => P t | None => True end.
  Hypothesis Hsum : forall nm cs, Forall optP cs -> P (TSum nm cs).

  Fixpoint ty_ind' (t : ty) : P t :=
    match t with
    | TNum => Hnum
    | TUnit => Hunit
    | TTup ts =>
        Htup ts ((fix go (l : list ty) : Forall P l :=
                    match l with [] => Forall_nil _ | x :: l' => Forall_cons _ (ty_ind' x) (go l') end) ts)
    | TRec fs =>
        Hrec fs ((fix go (l : list (ident * ty)) : Forall (fun ft => P (snd ft)) l :=
                    match l with [] => Forall_nil _ | x :: l' => Forall_cons _ (ty_ind' (snd x)) (go l') end) fs)
    | TFn ps r =>
        Hfn ps r ((fix go (l : list ty) : Forall P l :=
                     match l with [] => Forall_nil _ | x :: l' => Forall_cons _ (ty_ind' x) (go l') end) ps)
            (ty_ind' r)
    | TSum nm cs =>
        Hsum nm cs ((fix go (l : list (option ty)) : Forall optP l :=
                       match l with
                       | [] => Forall_nil optP
                       | o :: l' => @Forall_cons _ optP o l' (match o as o' return optP o' with
                                                              | Some t => ty_ind' t
                                                              | None => I
                                                              end) (go l')
                       end) cs)
    end.
End TyInd.

(* pointwise boolean comparison of two lists *)
Definition list_eqb {A} (eqb : A -> A -> bool) : list A -> list A -> bool :=
  fix go (xs ys : list A) : bool :=
    match xs, ys with
    | [], [] => true
    | x :: xs', y :: ys' => eqb x y && go xs' ys'
    | _, _ => false
    end.

Fixpoint ty_eqb (a b : ty) {struct a} : bool :=
  match a, b with
  | TNum, TNum => true
  | TUnit, TUnit => true
  | TTup xs, TTup ys => list_eqb (fun x y => ty_eqb x y) xs ys
  | TRec xs, TRec ys => list_eqb (fun x y => N.eqb (fst x) (fst y) && ty_eqb (snd x) (snd y)) xs ys
  | TFn ps r, TFn qs s => list_eqb (fun x y => ty_eqb x y) ps qs && ty_eqb r s
  | TSum n xs, TSum m ys =>
      N.eqb n m && list_eqb (fun x y => match x, y with
                                        | Some a', Some b' => ty_eqb a' b'
                                        | None, None => true
                                        | _, _ => false
                                        end) xs ys
  | _, _ => false
  end.

Definition tys_eqb (xs ys : list ty) : bool := list_eqb (fun x y => ty_eqb x y) xs ys.

Lemma list_eqb_eq : forall A (eqb : A -> A -> bool) xs,
  Forall (fun x => forall y, eqb x y = true -> x = y) xs ->
  forall ys, list_eqb eqb xs ys = true -> xs = ys.
Proof.
  intros A eqb xs H. induction H as [|x xs Hx _ IH]; intros [|y ys] E; cbn in E; try discriminate; auto.
  apply andb_true_iff in E. destruct E as [E1 E2]. f_equal; auto.
Qed.

Lemma ty_eqb_eq : forall a b, ty_eqb a b = true -> a = b.
Proof.
  induction a using ty_ind'; intros b E; destruct b; cbn in E; try discriminate; auto.
  - f_equal. eapply list_eqb_eq; eauto.
  - f_equal. eapply list_eqb_eq; [|exact E].
    eapply Forall_impl; [|exact H]. intros [f t] IH [g u] E'. cbn in *.
    apply andb_true_iff in E'. destruct E' as [E1 E2]. apply N.eqb_eq in E1. f_equal; auto.
  - apply andb_true_iff in E. destruct E as [E1 E2]. f_equal; auto. eapply list_eqb_eq; eauto.
  - apply andb_true_iff in E. destruct E as [E1 E2]. apply N.eqb_eq in E1. f_equal; auto.
    eapply list_eqb_eq; [|exact E2].
    eapply Forall_impl; [|exact H]. intros [t|] IH [u|] E'; cbn in *; try discriminate; auto. f_equal. auto.
Qed.

Lemma tys_eqb_eq : forall xs ys, tys_eqb xs ys = true -> xs = ys.
Proof.
  intros xs ys. apply list_eqb_eq. apply Forall_forall. intros x _ y. apply ty_eqb_eq.
Qed.

Lemma list_eqb_refl : forall A (eqb : A -> A -> bool) xs,
  Forall (fun x => eqb x x = true) xs -> list_eqb eqb xs xs = true.
Proof. intros A eqb xs H. induction H; cbn; auto. rewrite H, IHForall. reflexivity. Qed.

Lemma ty_eqb_refl : forall a, ty_eqb a a = true.
Proof.
  induction a using ty_ind'; cbn; auto.
  - apply list_eqb_refl; auto.
  - apply list_eqb_refl. eapply Forall_impl; [|exact H]. intros [f t] IH. cbn in *. rewrite N.eqb_refl, IH. reflexivity.
  - rewrite list_eqb_refl, IHa; auto.
  - rewrite N.eqb_refl. apply list_eqb_refl. eapply Forall_impl; [|exact H]. intros [t|] IH; cbn in *; auto.
Qed.

(* number of machine words of a value of the type (mir.rs word_size: a number and a closure reference are one word,
   aggregates are flat) *)
Fixpoint word_size (t : ty) : nat :=
  match t with
  | TNum => 1
  | TUnit => 0
  | TTup ts => (fix go (l : list ty) : nat := match l with [] => 0 | x :: l' => word_size x + go l' end) ts
  | TRec fs => (fix go (l : list (ident * ty)) : nat := match l with [] => 0 | x :: l' => word_size (snd x) + go l' end) fs
  | TFn _ _ => 1
  | TSum _ cs =>      (* the tag word and room for the widest payload (mir.rs word_size of Type::UserSum) *)
      S ((fix go (l : list (option ty)) : nat :=
            match l with
            | [] => 0
            | o :: l' => Nat.max (match o with Some x => word_size x | None => 0 end) (go l')
            end) cs)
  end.

(* does a value of the type contain a closure? (typing.rs Type::contains_function) *)
Fixpoint ty_has_fn (t : ty) : bool :=
  match t with
  | TFn _ _ => true
  | TTup ts => existsb (fun x => ty_has_fn x) ts
  | TRec fs => existsb (fun ft => ty_has_fn (snd ft)) fs
  | TSum _ cs => existsb (fun o => match o with Some x => ty_has_fn x | None => false end) cs
  | _ => false
  end.

(* the type of the values of a shape (Lmmx.Syntax.shape: what a multi-word `self` is read at) *)
Fixpoint ty_of_shape (sh : shape) : ty :=
  match sh with
  | SNum => TNum
  | STup shs => TTup (map ty_of_shape shs)
  | SRec fs => TRec (map (fun fx => (fst fx, ty_of_shape (snd fx))) fs)
  | SSum nm cs => TSum nm (map (fun o => match o with Some x => Some (ty_of_shape x) | None => None end) cs)
  end.

Lemma word_size_nums : forall n, word_size (TTup (repeat TNum n)) = n.
Proof. induction n; cbn in *; auto. Qed.

(* signature of a named function: (parameter name, type, has a default value) in order, and the return type *)
Record fsig := mkSig { sg_params : list (ident * ty * bool); sg_ret : ty }.

Definition sg_names (sg : fsig) : list ident := map (fun p => fst (fst p)) (sg_params sg).
Definition sg_ptys (sg : fsig) : list ty := map (fun p => snd (fst p)) (sg_params sg).
Definition sig_ty (sg : fsig) : ty := TFn (sg_ptys sg) (sg_ret sg).

(* what a name stands for: a variable cell of a type, a named function, or a name that is in scope but may not be used
   (a function inside its own body when its return type is not annotated: no recursion without annotation) *)
Inductive gent := NVar (t : ty) | NFun (sg : fsig) | NHidden.
Definition tenv := list (ident * gent).

Fixpoint tlookup (x : ident) (G : tenv) : option gent :=
  match G with
  | [] => None
  | (y, g) :: G' => if N.eqb x y then Some g else tlookup x G'
  end.

(* parameters p1 .. pn of types t1 .. tn in front of G, the first parameter outermost (Lmmx.bind_params_x) *)
Fixpoint bind_tys (ps : list ident) (ts : list ty) (G : tenv) : tenv :=
  match ps, ts with
  | p :: ps', t :: ts' => (p, NVar t) :: bind_tys ps' ts' G
  | _, _ => G
  end.

(* annotations, keyed by binder: types of lambda / function parameters (a parameter without entry is a number) and
   return types of named functions (needed only for recursive functions).  The configuration of the checker also holds the
   two comparisons it uses — of two types (if arms, assignment, named arguments, defaults, return annotation) and of the
   argument types of a call with the parameter types.  THE checker is the strict configuration `mkAnn par ret sums` (type
   equality); the comparison harness also runs a LENIENT configuration (Lmmt/Check.v, end) that over-approximates what the
   real type checker is known to let through. *)
Record config := mkCfg {
  an_par : list (ident * ty);
  an_ret : list (ident * ty);
  an_sums : list (ident * list (option ty));   (* the declared sum types: name |-> payload type per constructor *)
  an_teq : ty -> ty -> bool;
  an_tseq : list ty -> list ty -> bool;
  an_len : bool }.                    (* lenient rules for operators / delay / spread calls / dsp outputs (Check.v) *)
Definition annots := config.
Definition mkAnn (par ret : list (ident * ty)) (sums : list (ident * list (option ty))) : config :=
  mkCfg par ret sums ty_eqb tys_eqb false.
Definition an_ty (an : annots) (x : ident) : ty := match rlookup x (an_par an) with Some t => t | None => TNum end.

(* the comparisons decide equality (all the soundness proof needs) *)
Definition cfg_strict (an : config) : Prop :=
  (forall a b, an_teq an a b = true -> a = b) /\ (forall xs ys, an_tseq an xs ys = true -> xs = ys) /\ an_len an = false.

Lemma mkAnn_strict : forall par ret sums, cfg_strict (mkAnn par ret sums).
Proof. intros. split; [|split]; cbn; [apply ty_eqb_eq|apply tys_eqb_eq|reflexivity]. Qed.
