(* Lmmt/SoundBind.v — binding never gets stuck on typed values: let patterns (Lmmx.bind_pat against Check.tc_pat) and
   parameter passing (Lmmx.bind_params_x against Types.bind_tys); the new cells extend the store typing. *)
From Coq Require Import List ZArith NArith Bool Lia.
From Mimium Require Import Lmmm.Syntax Lmmm.Ref Lmmx.Syntax Lmmx.Ref Lmmt.Types Lmmt.Check Lmmt.Typing.
Import ListNotations.

Section PatInd.
  Variable P : pat -> Prop.
  Hypothesis Hvar : forall x, P (PVar x).
  Hypothesis Hwild : P PWild.
  Hypothesis Htup : forall ps, Forall P ps -> P (PTup ps).
  Hypothesis Hrec : forall fps, Forall (fun fp => P (snd fp)) fps -> P (PRec fps).

  Fixpoint pat_ind' (p : pat) : P p :=
    match p with
    | PVar x => Hvar x
    | PWild => Hwild
    | PTup ps =>
        Htup ps ((fix go (l : list pat) : Forall P l :=
                    match l with [] => Forall_nil _ | x :: l' => Forall_cons _ (pat_ind' x) (go l') end) ps)
    | PRec fps =>
        Hrec fps ((fix go (l : list (ident * pat)) : Forall (fun fp => P (snd fp)) l :=
                     match l with [] => Forall_nil _ | x :: l' => Forall_cons _ (pat_ind' (snd x)) (go l') end) fps)
    end.
End PatInd.

Ltac split4 := split; [|split; [|split]].

Section Bind.
  Variable an : annots.
  Variable ft : list fentry.
  Variable sigs : list fsig.

  Definition bind_sound_at (p : pat) : Prop :=
    forall t G G', tc_pat p t G = Some G' ->
    forall v r w SV SC, vtyp SC t v -> env_ok SV sigs G r -> wok an ft sigs SV SC w ->
    exists r' w' SV', bind_pat p v r w = Ok (r', w') /\ ext SV SV' /\ wok an ft sigs SV' SC w' /\ env_ok SV' sigs G' r'.

  Lemma bind_pat_sound : forall p, bind_sound_at p.
  Proof.
    induction p using pat_ind'; unfold bind_sound_at.
    - (* PVar *)
      intros t G G' Htc v r w SV SC Hv He Hw. cbn in Htc. inversion Htc; subst. cbn [bind_pat].
      destruct (wok_alloc an ft sigs SV SC w v t Hw Hv) as [Hw' Hl].
      destruct (alloc v w) as [l w'] eqn:Ea. cbn [fst snd] in *. subst l.
      exists ((x, BLoc (length SV)) :: r), w', (SV ++ [t]). split4; auto with lmmt.
      apply env_ok_cons.
      + cbn. exists (length SV). split; auto. rewrite nth_error_app2, Nat.sub_diag; auto.
      + eapply env_ok_mono; eauto with lmmt.
    - (* PWild *)
      intros t G G' Htc v r w SV SC Hv He Hw. cbn in Htc. inversion Htc; subst. exists r, w, SV. cbn. split4; auto with lmmt.
    - (* PTup *)
      intros t G G' Htc v r w SV SC Hv He Hw. cbn [tc_pat] in Htc. destruct t; try discriminate.
      apply vtyp_tup_inv in Hv. destruct Hv as (vs & -> & Hvs). cbn [bind_pat].
      revert ts vs G r w SV Htc Hvs He Hw.
      induction H as [|p ps Hp _ IHps]; intros ts vs G r w SV Htc Hvs He Hw.
      + destruct ts; try discriminate. inversion Hvs; subst. inversion Htc; subst. exists r, w, SV. split4; auto with lmmt.
      + destruct ts as [|t ts]; try discriminate. inversion Hvs as [|? v ? vs' Hv1 Hv2]; subst.
        destruct (tc_pat p t G) as [G1|] eqn:E1; try discriminate.
        destruct (Hp _ _ _ E1 v r w SV SC Hv1 He Hw) as (r1 & w1 & SV1 & Eb & Hx & Hw1 & He1). rewrite Eb.
        destruct (IHps ts vs' G1 r1 w1 SV1 Htc Hv2 He1 Hw1) as (r2 & w2 & SV2 & Eb2 & Hx2 & Hw2 & He2).
        exists r2, w2, SV2. split4; auto. eapply ext_trans; eauto.
    - (* PRec *)
      intros t G G' Htc v r w SV SC Hv He Hw. cbn [tc_pat] in Htc. destruct t; try discriminate.
      apply vtyp_rec_inv in Hv. destruct Hv as (fvs & -> & Hvs). cbn [bind_pat].
      revert G r w SV Htc He Hw.
      induction H as [|[f p] fps Hp _ IHps]; intros G r w SV Htc He Hw.
      + inversion Htc; subst. exists r, w, SV. split4; auto with lmmt.
      + destruct (rlookup f fs) as [t'|] eqn:El; try discriminate.
        destruct (fvtyps_lookup SC fs fvs f t' Hvs El) as (v' & Elv & Hv').
        rewrite Elv. cbn [snd] in Hp.
        destruct (tc_pat p t' G) as [G1|] eqn:E1; try discriminate.
        destruct (Hp _ _ _ E1 v' r w SV SC Hv' He Hw) as (r1 & w1 & SV1 & Eb & Hx & Hw1 & He1). rewrite Eb.
        destruct (IHps G1 r1 w1 SV1 Htc He1 Hw1) as (r2 & w2 & SV2 & Eb2 & Hx2 & Hw2 & He2).
        exists r2, w2, SV2. split4; auto. eapply ext_trans; eauto.
  Qed.

  (* parameter passing: as many typed values as parameters *)
  Lemma bind_params_sound : forall ps pts vs G r w SV SC,
    length ps = length pts -> Forall2 (vtyp SC) pts vs -> env_ok SV sigs G r -> wok an ft sigs SV SC w ->
    exists r' w' SV', bind_params_x ps vs r w = Ok (r', w') /\ ext SV SV' /\ wok an ft sigs SV' SC w' /\
                      env_ok SV' sigs (bind_tys ps pts G) r'.
  Proof.
    induction ps as [|p ps IH]; intros pts vs G r w SV SC Hl Hvs He Hw.
    - destruct pts; try discriminate. inversion Hvs; subst. exists r, w, SV. cbn. split4; auto with lmmt.
    - destruct pts as [|t pts]; try discriminate. inversion Hvs as [|? v ? vs' Hv1 Hv2]; subst.
      cbn [bind_params_x bind_tys].
      destruct (wok_alloc an ft sigs SV SC w v t Hw Hv1) as [Hw' Hlen].
      destruct (alloc v w) as [l w'] eqn:Ea. cbn [fst snd] in *. subst l.
      assert (He' : env_ok (SV ++ [t]) sigs G r) by (eapply env_ok_mono; eauto with lmmt).
      cbn in Hl. injection Hl as Hl.
      destruct (IH pts vs' G r w' (SV ++ [t]) SC Hl Hv2 He' Hw') as (r1 & w1 & SV1 & Eb & Hx & Hw1 & He1).
      rewrite Eb. exists ((p, BLoc (length SV)) :: r1), w1, SV1. split4; auto.
      + eapply ext_trans; eauto with lmmt.
      + apply env_ok_cons; auto. cbn. exists (length SV). split; auto.
        eapply ext_nth; eauto. rewrite nth_error_app2, Nat.sub_diag; auto.
  Qed.
End Bind.
