(* Lmmt/SoundEval.v — type soundness of the expression evaluator: `xstep` of a sound evaluator is sound (case analysis on
   the expression, one case per typing rule of Check.tc), hence `xeval n` is sound for every fuel n. *)
From Coq Require Import List ZArith NArith Bool Lia.
From Mimium Require Import Lmmm.Syntax Lmmm.Ref Lmmx.Syntax Lmmx.Ref.
From Mimium Require Import Lmmt.Types Lmmt.Check Lmmt.Typing Lmmt.SoundBind Lmmt.SoundStep Lmmt.SoundMatch.
Import ListNotations.

Section Eval.
  Variable an : annots.
  Variable ft : list fentry.
  Variable sigs : list fsig.
  Hypothesis Hcf : cfg_strict an.
  Variable now : Z.
  Variable rec : evaluator.
  Hypothesis Hrec : ev_sound an ft sigs rec.

  Ltac envmono := eapply env_ok_mono; [ | | eassumption]; eauto using ext_trans with lmmt.

  (* a number-typed subexpression: the recursive call *)
  Tactic Notation "sub_num" constr(H) :=
    eapply res_ok_bind; [eapply Hrec; [exact H|eauto|eauto]|];
    intros [[va ka] w1] (SV1 & SC1 & X1 & Y1 & Hw1 & Hv1).

  Lemma post_now : forall SV SC w z, wok an ft sigs SV SC w -> post an ft sigs SV SC TNum (VNum z, st0, w).
  Proof. intros. cbn. exists SV, SC. split4; auto with lmmt; try exact I. Qed.

  Lemma xstep_sound : ev_sound an ft sigs (xstep ft now rec).
  Proof.
    intros selfv r e s w G t SV SC Htc He Hw. destruct e; cbn [tc] in Htc; try rewrite (proj2 (proj2 Hcf)) in Htc; cbn [xstep].
    - (* XLit *) inversion Htc; subst. apply post_now; auto.
    - (* XVar *)
      destruct (tlookup x G) as [g|] eqn:El; try discriminate. specialize (He x g El).
      destruct g as [t'|sg|]; try discriminate; inversion Htc; subst; cbn in He.
      + destruct He as (l & -> & Hl). destruct Hw as (Hv & Hc & Hf).
        destruct (Forall2_nth_l _ _ _ _ _ _ _ Hv Hl) as (v & Ev & Hvt). rewrite Ev. cbn.
        exists SV, SC. split4; auto with lmmt. split; auto.
      + destruct He as (k & -> & Hk). pose proof Hw as (Hv & Hc & Hf).
        destruct (Forall2_nth_r _ _ _ _ _ _ _ Hf Hk) as (fe & Ef & G' & E1 & E2 & E3). rewrite Ef.
        assert (Hclo : clo_ok an SV sigs (mkC (map fst (fe_params fe)) (fe_body fe) (fe_env fe) st0) (sig_ty sg)).
        { exists (sg_ptys sg), (sg_ret sg), G'. cbn. split4; auto. eapply par_ok_names; eauto. }
        destruct (wok_new_inst an ft sigs SV SC w _ _ Hw Hclo) as [Hw' Hid].
        destruct (new_inst _ w) as [id w'] eqn:En. cbn [fst snd] in *. subst id. cbn.
        exists SV, (SC ++ [sig_ty sg]). split4; auto with lmmt.
        unfold sig_ty. cbn. rewrite nth_error_app2, Nat.sub_diag; auto.
    - (* XNow *) inversion Htc; subst. apply post_now; auto.
    - (* XSr *) inversion Htc; subst. apply post_now; auto.
    - (* XSelf *) inversion Htc; subst. apply post_now; auto.
    - (* XBin *)
      destruct (tc an G e1) as [[| | | | |]|] eqn:E1; try discriminate.
      destruct (tc an G e2) as [[| | | | |]|] eqn:E2; try discriminate. inversion Htc; subst.
      sub_num E1.
      eapply res_ok_bind; [eapply Hrec; [exact E2|envmono|eauto]|].
      intros [[vb kb] w2] (SV2 & SC2 & X2 & Y2 & Hw2 & Hv2).
      apply vtyp_num_inv in Hv1. destruct Hv1 as (za & ->). apply vtyp_num_inv in Hv2. destruct Hv2 as (zb & ->). cbn.
      exists SV2, SC2. split4; auto; try (eapply ext_trans; eauto); try exact I.
    - (* XNeg *)
      destruct (tc an G e) as [[| | | | |]|] eqn:E1; try discriminate. inversion Htc; subst.
      sub_num E1. apply vtyp_num_inv in Hv1. destruct Hv1 as (za & ->). cbn.
      exists SV1, SC1. split4; auto; try exact I.
    - (* XLet *)
      destruct (tc an G e1) as [ta|] eqn:E1; try discriminate.
      destruct (tc_pat p ta G) as [G'|] eqn:Ep; try discriminate.
      eapply res_ok_bind; [eapply Hrec; [exact E1|eauto|eauto]|].
      intros [[va ka] w1] (SV1 & SC1 & X1 & Y1 & Hw1 & Hv1).
      assert (He1 : env_ok SV1 sigs G r) by (envmono).
      destruct (bind_pat_sound an ft sigs p ta G G' Ep va r w1 SV1 SC1 Hv1 He1 Hw1) as (r' & w2 & SV2 & Eb & X2 & Hw2 & He2).
      rewrite Eb. cbn [rbind].
      eapply res_ok_bind; [eapply Hrec; [exact Htc|eauto|eauto]|].
      intros [[vb kb] w3] (SV3 & SC3 & X3 & Y3 & Hw3 & Hv3). cbn.
      exists SV3, SC3. split4; auto; repeat (eapply ext_trans; eauto).
    - (* XIf *)
      destruct (tc an G e1) as [[| | | | |]|] eqn:E1; try discriminate.
      destruct (tc an G e2) as [t2|] eqn:E2; try discriminate.
      destruct (tc an G e3) as [t3|] eqn:E3; try discriminate.
      destruct (an_teq an t2 t3) eqn:Eq; try discriminate. apply (proj1 Hcf) in Eq. inversion Htc; subst.
      sub_num E1. apply vtyp_num_inv in Hv1. destruct Hv1 as (zc & ->). cbn [as_num rbind].
      assert (He1 : env_ok SV1 sigs G r) by (envmono).
      destruct (0 <? zc)%Z.
      + eapply res_ok_bind; [eapply Hrec; [exact E2|eauto|eauto]|].
        intros [[v2 k2] w2] (SV2 & SC2 & X2 & Y2 & Hw2 & Hv2). cbn.
        exists SV2, SC2. split4; auto; eapply ext_trans; eauto.
      + eapply res_ok_bind; [eapply Hrec; [exact E3|eauto|eauto]|].
        intros [[v2 k2] w2] (SV2 & SC2 & X2 & Y2 & Hw2 & Hv2). cbn.
        exists SV2, SC2. split4; auto; eapply ext_trans; eauto.
    - (* XMem *)
      destruct (tc an G e) as [[| | | | |]|] eqn:E1; try discriminate. inversion Htc; subst.
      sub_num E1. apply vtyp_num_inv in Hv1. destruct Hv1 as (za & ->). cbn.
      exists SV1, SC1. split4; auto; try exact I.
    - (* XDelay *)
      destruct (tc an G e1) as [[| | | | |]|] eqn:E1; try discriminate.
      destruct (tc an G e2) as [[| | | | |]|] eqn:E2; try discriminate. inversion Htc; subst.
      sub_num E1.
      eapply res_ok_bind; [eapply Hrec; [exact E2|envmono|eauto]|].
      intros [[vb kb] w2] (SV2 & SC2 & X2 & Y2 & Hw2 & Hv2).
      apply vtyp_num_inv in Hv1. destruct Hv1 as (za & ->). apply vtyp_num_inv in Hv2. destruct Hv2 as (zb & ->). cbn.
      exists SV2, SC2. split4; auto; try (eapply ext_trans; eauto); try exact I.
    - (* XTuple *)
      destruct (omap (fun x => tc an G x) es) as [ts|] eqn:E1; try discriminate. inversion Htc; subst.
      eapply res_ok_bind; [eapply eval_list_sound; eauto|].
      intros [[vs ks] w1] (SV1 & SC1 & X1 & Y1 & Hw1 & Hv1). cbn.
      exists SV1, SC1. split4; auto. apply vtyp_tup. exact Hv1.
    - (* XProj *)
      destruct (tc an G e) as [[| |ts| | |]|] eqn:E1; try discriminate.
      eapply res_ok_bind; [eapply Hrec; [exact E1|eauto|eauto]|].
      intros [[v k] w1] (SV1 & SC1 & X1 & Y1 & Hw1 & Hv1).
      apply vtyp_tup_inv in Hv1. destruct Hv1 as (vs & -> & Hvs).
      destruct (Forall2_nth_l _ _ _ _ _ _ _ Hvs Htc) as (x & Ex & Hx). rewrite Ex. cbn.
      exists SV1, SC1. split4; auto.
    - (* XRecord *)
      destruct (keys_increasing fs); try discriminate.
      destruct (ofields (fun x => tc an G x) fs) as [fts|] eqn:E1; try discriminate. inversion Htc; subst.
      eapply res_ok_bind; [eapply eval_fields_sound; eauto|].
      intros [[vs ks] w1] (SV1 & SC1 & X1 & Y1 & Hw1 & Hv1). cbn.
      exists SV1, SC1. split4; auto. apply vtyp_rec. exact Hv1.
    - (* XField *)
      destruct (tc an G e) as [[| | |fts| |]|] eqn:E1; try discriminate.
      eapply res_ok_bind; [eapply Hrec; [exact E1|eauto|eauto]|].
      intros [[v k] w1] (SV1 & SC1 & X1 & Y1 & Hw1 & Hv1).
      apply vtyp_rec_inv in Hv1. destruct Hv1 as (fvs & -> & Hvs).
      destruct (fvtyps_lookup SC1 fts fvs f t Hvs Htc) as (x & Ex & Hx). rewrite Ex. cbn.
      exists SV1, SC1. split4; auto.
    - (* XLam *)
      destruct (ids_nodup ps); try discriminate.
      destruct (tc an (bind_tys ps (map (an_ty an) ps) G) e) as [rt|] eqn:E1; try discriminate.
      destruct (self_ok_in false e rt); try discriminate. inversion Htc; subst.
      assert (Hclo : clo_ok an SV sigs (mkC ps e r st0) (TFn (map (an_ty an) ps) rt)).
      { exists (map (an_ty an) ps), rt, G. cbn. split4; auto. rewrite map_length. reflexivity. }
      destruct (wok_new_inst an ft sigs SV SC w _ _ Hw Hclo) as [Hw' Hid].
      destruct (new_inst _ w) as [id w'] eqn:En. cbn [fst snd] in *. subst id. cbn.
      exists SV, (SC ++ [TFn (map (an_ty an) ps) rt]). split4; auto with lmmt.
      rewrite nth_error_app2, Nat.sub_diag; auto.
    - (* XApp *)
      destruct (tc an G e) as [[| | | |pts rt|]|] eqn:E1; try discriminate.
      destruct (omap (fun x => tc an G x) args) as [ats|] eqn:E2; try discriminate.
      destruct (an_tseq an ats pts) eqn:Eq; try discriminate. apply (proj1 (proj2 Hcf)) in Eq. inversion Htc; subst.
      eapply apply_x_sound; eauto.
    - (* XCallNamed *)
      destruct (tlookup f G) as [g|] eqn:El; try discriminate. specialize (He f g El) as Hent.
      destruct g as [t'|sg|]; try discriminate. cbn in Hent. destruct Hent as (k & -> & Hk).
      destruct (ids_nodup (map fst fs)); try discriminate.
      destruct (ofields (fun x => tc an G x) fs) as [gts|] eqn:E1; try discriminate.
      destruct (named_ok (an_teq an) (sg_params sg) gts) eqn:En; try discriminate. inversion Htc; subst.
      pose proof Hw as (Hv & Hc & Hf).
      destruct (Forall2_nth_r _ _ _ _ _ _ _ Hf Hk) as (fe & Ef & G' & F1 & F2 & F3). rewrite Ef.
      eapply res_ok_bind; [eapply eval_fields_sound; eauto|].
      intros [[given ks] w1] (SV1 & SC1 & X1 & Y1 & Hw1 & Hv1).
      eapply res_ok_bind; [eapply (fill_defaults_sound an ft sigs Hcf rec Hrec fe G' _ _ F2 given gts w1 SV1 SC1); eauto;
                           envmono|].
      intros [vs w2] (SV2 & SC2 & X2 & Y2 & Hw2 & Hv2).
      eapply res_ok_bind; [eapply (call_fun_sound an ft sigs rec Hrec k vs _ w2 sg SV2 SC2); eauto|].
      intros [[v ki] w3] (SV3 & SC3 & X3 & Y3 & Hw3 & Hv3). cbn.
      exists SV3, SC3. split4; auto; repeat (eapply ext_trans; eauto).
    - (* XPipe *)
      destruct (tc an G e2) as [[| | | |pts rt|]|] eqn:E1; try discriminate.
      destruct (tc an G e1) as [ta|] eqn:E2; try discriminate.
      destruct (an_tseq an [ta] pts) eqn:Eq; try discriminate. apply (proj1 (proj2 Hcf)) in Eq. inversion Htc; subst.
      eapply apply_x_sound; eauto. cbn. rewrite E2. reflexivity.
    - (* XAssign *)
      destruct (tlookup x G) as [g|] eqn:El; try discriminate.
      destruct g as [t'|sg|]; try discriminate.
      destruct (tc an G e) as [te|] eqn:E1; try discriminate.
      destruct (an_teq an t' te) eqn:Eq; try discriminate. apply (proj1 Hcf) in Eq. inversion Htc; subst.
      eapply res_ok_bind; [eapply Hrec; [exact E1|eauto|eauto]|].
      intros [[v k] w1] (SV1 & SC1 & X1 & Y1 & Hw1 & Hv1).
      specialize (He x _ El). cbn in He. destruct He as (l & -> & Hl).
      destruct Hw1 as (Hvs & Hc & Hf).
      assert (Hl1 : nth_error SV1 l = Some te) by (eapply ext_nth; eauto).
      assert (Hlt : l < length (w_vars w1)).
      { rewrite <- (Forall2_len _ _ _ _ _ Hvs). apply nth_error_Some. congruence. }
      apply Nat.ltb_lt in Hlt. rewrite Hlt. cbn.
      exists SV1, SC1. split4; auto; try exact I.
      split; [|split]; cbn [w_vars w_clos]; auto.
      eapply Forall2_set_nth_r; eauto.
    - (* XSeq *)
      destruct (tc an G e1) as [ta|] eqn:E1; try discriminate.
      eapply res_ok_bind; [eapply Hrec; [exact E1|eauto|eauto]|].
      intros [[va ka] w1] (SV1 & SC1 & X1 & Y1 & Hw1 & Hv1).
      eapply res_ok_bind; [eapply Hrec; [exact Htc|envmono|eauto]|].
      intros [[vb kb] w2] (SV2 & SC2 & X2 & Y2 & Hw2 & Hv2). cbn.
      exists SV2, SC2. split4; auto; eapply ext_trans; eauto.
    - (* XSelfS *)
      destruct (shape_ok (an_sums an) sh) eqn:Es; try discriminate. inversion Htc; subst. cbn.
      exists SV, SC. split4; auto with lmmt. eapply dec_typed; eauto.
    - (* XCon *)
      destruct (rlookup tn (an_sums an)) as [cs|] eqn:El; try discriminate.
      destruct (nth_error cs tag) as [[t'|]|] eqn:En; destruct arg as [a|]; try discriminate.
      + destruct (tc an G a) as [ta|] eqn:E1; try discriminate.
        destruct (an_teq an t' ta) eqn:Eq; try discriminate. apply (proj1 Hcf) in Eq. inversion Htc; subst.
        eapply res_ok_bind; [eapply Hrec; [exact E1|eauto|eauto]|].
        intros [[v k] w1] (SV1 & SC1 & X1 & Y1 & Hw1 & Hv1).
        assert (Hvt : vtyp SC1 (TSum tn cs) (VCon tag v)) by (apply (proj2 (vtyp_sum SC1 tn cs tag v)); exists (Some ta); split; auto).
        cbn [rbind post extends]. exists SV1, SC1. split4; auto.
      + inversion Htc; subst.
        assert (Hvt : vtyp SC (TSum tn cs) (VCon tag VUnit)) by (apply (proj2 (vtyp_sum SC tn cs tag VUnit)); exists None; split; auto; reflexivity).
        cbn [post extends]. exists SV, SC. split4; auto with lmmt.
    - (* XMatch *)
      destruct (tc an G e) as [ts|] eqn:E1; try discriminate.
      change (match tc_arms an G ts arms with
              | Some (t0 :: tl) => if forallb (an_teq an t0) tl && exhaustive ts (map fst arms) then Some t0 else None
              | _ => None
              end = Some t) in Htc.
      destruct (tc_arms an G ts arms) as [[|t0 tl]|] eqn:Ea; try discriminate.
      destruct (forallb (an_teq an t0) tl && exhaustive ts (map fst arms)) eqn:Ec; try discriminate. inversion Htc; subst t0.
      apply andb_true_iff in Ec. destruct Ec as [Eall Eex].
      eapply res_ok_bind; [eapply Hrec; [exact E1|eauto|eauto]|].
      intros [[v k0] w1] (SV1 & SC1 & X1 & Y1 & Hw1 & Hv1).
      destruct (find_arm_typed an G ts arms (t :: tl) SC1 v Ea Eex Hv1) as (i & m & body & Ef & En & Et).
      rewrite Ef. cbn [rbind].
      (* the arm found is typed, its body has type t *)
      pose proof (tc_arms_inv an G ts arms _ Ea) as Harms.
      destruct (Forall2_nth_l _ _ _ _ _ _ _ Harms En) as (tb & Etb & G' & Ep & Eb). cbn [fst snd] in Ep, Eb.
      assert (Htb : tb = t).
      { destruct i as [|i]; cbn in Etb; [inversion Etb; reflexivity|].
        rewrite forallb_forall in Eall. symmetry. apply (proj1 Hcf). apply Eall. eapply nth_error_In; eauto. }
      subst tb.
      assert (He1 : env_ok SV1 sigs G r) by envmono.
      destruct (mbind_sound an ft sigs m ts G G' Ep v r w1 SV1 SC1 Hv1 Et He1 Hw1) as (r' & w2 & SV2 & Em & X2 & Hw2 & He2).
      rewrite Em. cbn [rbind].
      eapply res_ok_bind; [eapply Hrec; [exact Eb|eauto|eauto]|].
      intros [[vb kb] w3] (SV3 & SC3 & X3 & Y3 & Hw3 & Hv3). cbn.
      exists SV3, SC3. split4; auto; repeat (eapply ext_trans; eauto).
  Qed.
End Eval.

Theorem xeval_sound : forall an ft sigs, cfg_strict an -> forall now n, ev_sound an ft sigs (xeval n ft now).
Proof.
  intros an ft sigs Hcf now. induction n as [|n IH].
  - apply ev_bot_sound.
  - cbn [xeval]. apply xstep_sound; auto.
Qed.
