(* Lmmt/Check.v — an executable, syntax-directed type checker for Lmmx programs (definitions only).

   The checker is annotation driven, it does not infer: the types of lambda parameters and function parameters are looked
   up in the annotations (keyed by the binder; a parameter without entry is a number), everything else is synthesised
   bottom-up and compared with `ty_eqb`.  It mirrors what compiler/typing.rs decides on the MONOMORPHIC fragment of the
   language (no polymorphism, no record width subtyping, no tuple broadcasting, no parameter packs):

     numbers      literals, now, samplerate, self; operands of arithmetic / comparison / logic, of mem and delay
     self         the function's return value of the previous call: only in a function / lambda that returns a number
                  (mir.rs StateType: the model's feedback cell holds one number; tuple-valued self is outside Lmmx)
     if           the condition is a number, both arms have the same type
     let          the pattern is matched against the type of the bound expression (a record pattern may name a subset of the
                  fields); the binders are variables of the parts' types
     x = e        x is a VARIABLE (not a function name) of the type of e; the assignment itself is unit
     a ; b        b's type
     tuple / record  componentwise; record literals are in canonical (strictly increasing field) order, so the type does
                  not depend on the order the fields were written in; e.i / e.f select a component that exists
     |ps| body    (annotated ps) -> type of body;   f(args), a |> f: f has a function type whose parameter types are exactly
                  the argument types;  a function NAME used as a value has the function type of its signature
     f({x = a ..})  f is a function name, every parameter is either given with its type or has a default value
     fn f(ps){body}  parameters annotated, defaults have the parameter's type (checked in the function's own environment);
                  f may call itself only when its return type is annotated
     dsp          inputs are numbers, every output is a number. *)
From Coq Require Import List ZArith NArith Bool.
From Mimium Require Import Lmmm.Syntax Lmmx.Syntax Lmmt.Types.
Import ListNotations.

(* map a partial function over a list (all elements must succeed) *)
Definition omap {A B} (f : A -> option B) : list A -> option (list B) :=
  fix go (l : list A) : option (list B) :=
    match l with
    | [] => Some []
    | a :: l' => match f a, go l' with Some b, Some bs => Some (b :: bs) | _, _ => None end
    end.

Definition ofields {A B} (f : A -> option B) : list (ident * A) -> option (list (ident * B)) :=
  fix go (l : list (ident * A)) : option (list (ident * B)) :=
    match l with
    | [] => Some []
    | (k, a) :: l' => match f a, go l' with Some b, Some bs => Some ((k, b) :: bs) | _, _ => None end
    end.

(* `self` of this body (not of a nested lambda) *)
Fixpoint xuses_self (e : xexpr) : bool :=
  match e with
  | XSelf => true
  | XLit _ | XVar _ | XNow | XSr | XLam _ _ => false
  | XBin _ a b | XLet _ a b | XDelay _ a b | XPipe a b | XSeq a b => xuses_self a || xuses_self b
  | XNeg a | XMem a | XProj a _ | XField a _ | XAssign _ a => xuses_self a
  | XIf c t e' => xuses_self c || xuses_self t || xuses_self e'
  | XTuple es => existsb (fun x => xuses_self x) es
  | XRecord fs | XCallNamed _ fs => existsb (fun fe => xuses_self (snd fe)) fs
  | XApp f args => xuses_self f || existsb (fun x => xuses_self x) args
  | XSelfS _ => true
  | XCon _ _ arg => match arg with Some a => xuses_self a | None => false end
  | XMatch sc arms => xuses_self sc || existsb (fun a => xuses_self (snd a)) arms
  end.

Definition self_ok (body : xexpr) (rt : ty) : bool := negb (xuses_self body) || ty_eqb rt TNum.
(* lenient configuration: self may have any type that holds no closure ('Function that uses self cannot return function type') *)
Definition self_ok_in (lenient : bool) (body : xexpr) (rt : ty) : bool :=
  if lenient then negb (xuses_self body) || negb (ty_has_fn rt) else self_ok body rt.

Fixpoint keys_increasing {A} (fs : list (ident * A)) : bool :=
  match fs with
  | [] => true
  | (f, _) :: fs' => match fs' with [] => true | (g, _) :: _ => N.ltb f g && keys_increasing fs' end
  end.

Fixpoint ids_nodup (xs : list ident) : bool :=
  match xs with
  | [] => true
  | x :: xs' => negb (existsb (N.eqb x) xs') && ids_nodup xs'
  end.

(* the binders of a pattern matched against a value of type t, in front of G (mirrors Lmmx.bind_pat) *)
Fixpoint tc_pat (p : pat) (t : ty) (G : tenv) {struct p} : option tenv :=
  match p with
  | PVar x => Some ((x, NVar t) :: G)
  | PWild => Some G
  | PTup ps =>
      match t with
      | TTup ts =>
          (fix go (ps : list pat) (ts : list ty) (G : tenv) : option tenv :=
             match ps, ts with
             | [], [] => Some G
             | p :: ps', t :: ts' => match tc_pat p t G with Some G' => go ps' ts' G' | None => None end
             | _, _ => None
             end) ps ts G
      | _ => None
      end
  | PRec fps =>
      match t with
      | TRec fts =>
          (fix go (fps : list (ident * pat)) (G : tenv) : option tenv :=
             match fps with
             | [] => Some G
             | (f, p) :: fps' =>
                 match rlookup f fts with
                 | Some t' => match tc_pat p t' G with Some G' => go fps' G' | None => None end
                 | None => None
                 end
             end) fps G
      | _ => None
      end
  end.

(* named-argument call: every parameter is given with its own type or has a default *)
Definition named_ok (teq : ty -> ty -> bool) (params : list (ident * ty * bool)) (given : list (ident * ty)) : bool :=
  forallb (fun p => match rlookup (fst (fst p)) given with
                    | Some t' => teq (snd (fst p)) t'
                    | None => snd p
                    end) params.

(* lenient configuration only: a number -> number function applied to a tuple is mapped over it (typing.rs auto spread) *)
Definition spread (pts : list ty) (rt : ty) (ats : list ty) : option ty :=
  match pts, rt, ats with
  | [TNum], TNum, [TTup ts] => Some (TTup ts)
  | _, _, _ => None
  end.

Section Tc.
  Variable an : annots.

  Fixpoint tc (G : tenv) (e : xexpr) {struct e} : option ty :=
    match e with
    | XLit _ | XNow | XSr | XSelf => Some TNum
    | XVar x =>
        match tlookup x G with
        | Some (NVar t) => Some t
        | Some (NFun sg) => Some (sig_ty sg)
        | _ => None
        end
    | XBin op a b =>
        if an_len an
        then match tc G a, tc G b with
             | Some ta, Some tb =>
                 Some (match op with
                       | OAdd | OSub | OMul => match ta, tb with TTup _, _ => ta | _, TTup _ => tb | _, _ => TNum end
                       | _ => TNum
                       end)
             | _, _ => None
             end
        else match tc G a, tc G b with Some TNum, Some TNum => Some TNum | _, _ => None end
    | XNeg a =>
        if an_len an
        then match tc G a with Some (TTup ts) => Some (TTup ts) | Some _ => Some TNum | None => None end
        else match tc G a with Some TNum => Some TNum | _ => None end
    | XLet p a b =>
        match tc G a with
        | Some ta => match tc_pat p ta G with Some G' => tc G' b | None => None end
        | None => None
        end
    | XIf c t e' =>
        match tc G c with
        | Some TNum =>
            match tc G t, tc G e' with
            | Some t1, Some t2 => if an_teq an t1 t2 then Some t1 else None
            | _, _ => None
            end
        | _ => None
        end
    | XMem a => match tc G a with Some TNum => Some TNum | _ => None end
    | XDelay _ a t =>
        if an_len an
        then match tc G a, tc G t with Some _, Some _ => Some TNum | _, _ => None end
        else match tc G a, tc G t with Some TNum, Some TNum => Some TNum | _, _ => None end
    | XTuple es => match omap (fun x => tc G x) es with Some ts => Some (TTup ts) | None => None end
    | XProj e' i => match tc G e' with Some (TTup ts) => nth_error ts i | _ => None end
    | XRecord fs =>
        if keys_increasing fs
        then match ofields (fun x => tc G x) fs with Some fts => Some (TRec fts) | None => None end
        else None
    | XField e' f => match tc G e' with Some (TRec fts) => rlookup f fts | _ => None end
    | XLam ps body =>
        let pts := map (an_ty an) ps in
        if ids_nodup ps
        then match tc (bind_tys ps pts G) body with
             | Some rt => if self_ok_in (an_len an) body rt then Some (TFn pts rt) else None
             | None => None
             end
        else None
    | XApp f args =>
        match tc G f, omap (fun x => tc G x) args with
        | Some (TFn pts rt), Some ats => if an_tseq an ats pts then Some rt else if an_len an then spread pts rt ats else None
        | _, _ => None
        end
    | XPipe a f =>
        match tc G f, tc G a with
        | Some (TFn pts rt), Some ta => if an_tseq an [ta] pts then Some rt else if an_len an then spread pts rt [ta] else None
        | _, _ => None
        end
    | XCallNamed f fs =>
        match tlookup f G with
        | Some (NFun sg) =>
            if ids_nodup (map fst fs)
            then match ofields (fun x => tc G x) fs with
                 | Some gts => if named_ok (an_teq an) (sg_params sg) gts then Some (sg_ret sg) else None
                 | None => None
                 end
            else None
        | _ => None
        end
    | XAssign x e' =>
        match tlookup x G, tc G e' with
        | Some (NVar t), Some t' => if an_teq an t t' then Some TUnit else None
        | _, _ => None
        end
    | XSeq a b => match tc G a with Some _ => tc G b | None => None end
    | XSelfS _ | XCon _ _ _ | XMatch _ _ => None
    end.

  Definition tc_list (G : tenv) (es : list xexpr) : option (list ty) := omap (fun x => tc G x) es.
  Definition tc_fields (G : tenv) (fs : list (ident * xexpr)) : option (list (ident * ty)) := ofields (fun x => tc G x) fs.

  (* the default value of every parameter has the parameter's type, in the function's own environment *)
  Definition defaults_ok (G : tenv) (params : list (ident * option xexpr)) : bool :=
    an_len an ||
    forallb (fun p => match snd p with
                      | Some de => match tc G de with Some t => an_teq an t (an_ty an (fst p)) | None => false end
                      | None => true
                      end) params.

  Definition is_some {A} (o : option A) : bool := match o with Some _ => true | None => false end.

  Definition sig_of (params : list (ident * option xexpr)) (rt : ty) : fsig :=
    mkSig (map (fun p => (fst p, an_ty an (fst p), is_some (snd p))) params) rt.

  (* top-level declarations in source order (mirrors Lmmx.xinit) *)
  Fixpoint tc_globals (gs : list gdecl) (G : tenv) : option tenv :=
    match gs with
    | [] => Some G
    | GFun name params body :: gs' =>
        let names := map fst params in
        let pts := map (an_ty an) names in
        let Gself := match rlookup name (an_ret an) with
                     | Some rt => (name, NFun (sig_of params rt)) :: G
                     | None => (name, NHidden) :: G
                     end in
        match tc (bind_tys names pts Gself) body with
        | Some rt =>
            if ids_nodup names && self_ok_in (an_len an) body rt && defaults_ok Gself params &&
               match rlookup name (an_ret an) with Some rt' => an_teq an rt' rt | None => true end
            then tc_globals gs' ((name, NFun (sig_of params rt)) :: G)
            else None
        | None => None
        end
    | GLet p e :: gs' =>
        match tc G e with
        | Some t => match tc_pat p t G with Some G' => tc_globals gs' G' | None => None end
        | None => None
        end
    end.

  (* the lets of dsp (mirrors Lmmx.xlets) *)
  Fixpoint tc_lets (lets : list (pat * xexpr)) (G : tenv) : option tenv :=
    match lets with
    | [] => Some G
    | (p, e) :: rest =>
        match tc G e with
        | Some t => match tc_pat p t G with Some G' => tc_lets rest G' | None => None end
        | None => None
        end
    end.

  Definition is_num (o : option ty) : bool := match o with Some TNum => true | _ => false end.

  (* what the checker reports about an accepted program *)
  Record ty_info := mkInfo {
    ti_inputs : nat;          (* number of input words of dsp *)
    ti_dsp_ret : ty;          (* return type of dsp: a number, or the tuple of its outputs *)
    ti_genv : tenv }.         (* the global environment (signatures of the functions, types of the global variables) *)

  Definition dsp_ret (n : nat) : ty := match n with 1 => TNum | _ => TTup (repeat TNum n) end.

  Definition tc_prog (p : xprogram) : option ty_info :=
    match tc_globals (x_globals p) [] with
    | Some Gg =>
        let n := length (x_inputs p) in
        match tc_lets (x_lets p) (bind_tys (x_inputs p) (repeat TNum n) Gg) with
        | Some G1 =>
            if ids_nodup (x_inputs p) && forallb (fun e => if an_len an then is_some (tc G1 e) else is_num (tc G1 e)) (x_outs p)
            then Some (mkInfo n (dsp_ret (length (x_outs p))) Gg)
            else None
        | None => None
        end
    | None => None
    end.
End Tc.

(* ---- the LENIENT configuration: no soundness claim.  checks/lmmt_part.py uses it as an UPPER bound of what the real type
   checker (compiler/typing.rs) lets through: `unify_vec` drops the errors of the elements of two tuples of equal length —
   and the argument list of a call with two or more arguments is compared as a tuple — and record types are compared up to
   width; so the operands of every binary operator (a two-argument call) may have any type, and arithmetic on tuples is
   a feature (broadcasting), as is the application of a number -> number function to a tuple (auto spread); the operands of
   delay, the outputs of dsp and the default values of parameters are not checked.  A program the real checker accepts must at least be accepted
   in this configuration (up to the kinds of mutation listed in checks/lmmt_part.py TOLERATED). ---- *)
Definition ty_sim (a b : ty) : bool :=
  match a, b with
  | TNum, TNum => true
  | TUnit, TUnit => true
  | TTup xs, TTup ys => Nat.eqb (length xs) (length ys)
  | TRec _, TRec _ => true
  | TFn _ _, TFn _ _ => true
  | _, _ => false
  end.

(* an argument list against a parameter list: one against one as types; otherwise as tuples of equal width, where a single
   tuple / record stands for its components (typing.rs unify_types_args: parameter packs) *)
Definition pack_width (l : list ty) : nat :=
  match l with
  | [TTup ts] => length ts
  | [TRec fs] => length fs
  | _ => length l
  end.

Definition tys_sim (xs ys : list ty) : bool :=
  match xs, ys with
  | [x], [y] => ty_sim x y || (Nat.leb 2 (pack_width xs) && Nat.eqb (pack_width xs) (pack_width ys))
  | _, _ => Nat.eqb (pack_width xs) (pack_width ys)
  end.

Definition mkLenient (par ret : list (ident * ty)) : config := mkCfg par ret ty_sim tys_sim true.
