(* Lmmt/Check.v — an executable, syntax-directed type checker for Lmmx programs (definitions only).

   The checker is annotation driven, it does not infer: the types of lambda parameters and function parameters are looked
   up in the annotations (keyed by the binder; a parameter without entry is a number), everything else is synthesised
   bottom-up and compared with `ty_eqb`.  It mirrors what compiler/typing.rs decides on the MONOMORPHIC fragment of the
   language (no polymorphism, no record width subtyping, no tuple broadcasting, no parameter packs):

     numbers      literals, now, samplerate, self; operands of arithmetic / comparison / logic, of mem and delay
     self         the function's return value of the previous call: XSelf where the function / lambda returns a number,
                  XSelfS sh where it returns first-order data of shape sh (numbers, tuples, records, declared sum types);
                  every `self` of a body has the body's type
     C, C(e)      constructor number `tag` of a declared sum type: the payload has the declared type; the result is the sum type
     match        the scrutinee has any type; literal patterns need a number, constructor patterns a sum type (payload
                  patterns bind at the payload type), tuple patterns a tuple componentwise, `_` anything; all arms have the
                  same type; the match is EXHAUSTIVE: an irrefutable arm (`_`, or a tuple pattern of `_`s), or the scrutinee
                  is a sum value and every constructor has an arm (typing.rs check_match_exhaustiveness on sum types and,
                  since the repair of T7, on numbers; on tuples the real checker asks for nothing: lenient configuration)
     if           the condition is a number, both arms have the same type
     let          the pattern is matched against the type of the bound expression (a record pattern may name a subset of the
                  fields); the binders are variables of the parts' types
     x = e        x is a VARIABLE (not a function name) of the type of e; the assignment itself is unit
     a ; b        b's type
     tuple / record  componentwise; record literals are in canonical (strictly increasing field) order, so the type does
                  not depend on the order the fields were written in; e.i / e.f select a component that exists
     |ps| body    (annotated ps) -> type of body;   f(args), a |> f: f has a function type whose parameter types are exactly
                  the argument types;  a function NAME used as a value has the function type of its signature
     f({x = a ..})  f is a function name, every parameter is either given with its type or has a default value
     fn f(ps){body}  parameters annotated, defaults have the parameter's type (checked in the function's own environment);
                  f may call itself only when its return type is annotated
     dsp          inputs are numbers, every output is a number. *)
From Coq Require Import List ZArith NArith Bool.
From Mimium Require Import Lmmm.Syntax Lmmx.Syntax Lmmt.Types.
Import ListNotations.

(* map a partial function over a list (all elements must succeed) *)
Definition omap {A B} (f : A -> option B) : list A -> option (list B) :=
  fix go (l : list A) : option (list B) :=
    match l with
    | [] => Some []
    | a :: l' => match f a, go l' with Some b, Some bs => Some (b :: bs) | _, _ => None end
    end.

Definition ofields {A B} (f : A -> option B) : list (ident * A) -> option (list (ident * B)) :=
  fix go (l : list (ident * A)) : option (list (ident * B)) :=
    match l with
    | [] => Some []
    | (k, a) :: l' => match f a, go l' with Some b, Some bs => Some ((k, b) :: bs) | _, _ => None end
    end.

(* the types at which this body (not a nested lambda) reads `self` *)
Fixpoint self_tys (e : xexpr) : list ty :=
  match e with
  | XSelf => [TNum]
  | XSelfS sh => [ty_of_shape sh]
  | XLit _ | XVar _ | XNow | XSr | XLam _ _ => []
  | XBin _ a b | XLet _ a b | XDelay _ a b | XPipe a b | XSeq a b => self_tys a ++ self_tys b
  | XNeg a | XMem a | XProj a _ | XField a _ | XAssign _ a => self_tys a
  | XIf c t e' => self_tys c ++ self_tys t ++ self_tys e'
  | XTuple es => flat_map (fun x => self_tys x) es
  | XRecord fs | XCallNamed _ fs => flat_map (fun fe => self_tys (snd fe)) fs
  | XApp f args => self_tys f ++ flat_map (fun x => self_tys x) args
  | XCon _ _ arg => match arg with Some a => self_tys a | None => [] end
  | XMatch sc arms => self_tys sc ++ flat_map (fun a => self_tys (snd a)) arms
  end.

Definition xuses_self (e : xexpr) : bool := match self_tys e with [] => false | _ => true end.

(* every `self` of the body is read at the body's type *)
Definition self_ok (body : xexpr) (rt : ty) : bool := forallb (ty_eqb rt) (self_tys body).
(* lenient configuration: self may have any type that holds no closure ('Function that uses self cannot return function type') *)
Definition self_ok_in (lenient : bool) (body : xexpr) (rt : ty) : bool :=
  if lenient then negb (xuses_self body) || negb (ty_has_fn rt) else self_ok body rt.

Fixpoint keys_increasing {A} (fs : list (ident * A)) : bool :=
  match fs with
  | [] => true
  | (f, _) :: fs' => match fs' with [] => true | (g, _) :: _ => N.ltb f g && keys_increasing fs' end
  end.

Fixpoint ids_nodup (xs : list ident) : bool :=
  match xs with
  | [] => true
  | x :: xs' => negb (existsb (N.eqb x) xs') && ids_nodup xs'
  end.

(* the binders of a pattern matched against a value of type t, in front of G (mirrors Lmmx.bind_pat) *)
Fixpoint tc_pat (p : pat) (t : ty) (G : tenv) {struct p} : option tenv :=
  match p with
  | PVar x => Some ((x, NVar t) :: G)
  | PWild => Some G
  | PTup ps =>
      match t with
      | TTup ts =>
          (fix go (ps : list pat) (ts : list ty) (G : tenv) : option tenv :=
             match ps, ts with
             | [], [] => Some G
             | p :: ps', t :: ts' => match tc_pat p t G with Some G' => go ps' ts' G' | None => None end
             | _, _ => None
             end) ps ts G
      | _ => None
      end
  | PRec fps =>
      match t with
      | TRec fts =>
          (fix go (fps : list (ident * pat)) (G : tenv) : option tenv :=
             match fps with
             | [] => Some G
             | (f, p) :: fps' =>
                 match rlookup f fts with
                 | Some t' => match tc_pat p t' G with Some G' => go fps' G' | None => None end
                 | None => None
                 end
             end) fps G
      | _ => None
      end
  end.

(* named-argument call: every parameter is given with its own type or has a default *)
Definition named_ok (teq : ty -> ty -> bool) (params : list (ident * ty * bool)) (given : list (ident * ty)) : bool :=
  forallb (fun p => match rlookup (fst (fst p)) given with
                    | Some t' => teq (snd (fst p)) t'
                    | None => snd p
                    end) params.

(* lenient configuration only: a number -> number function applied to a tuple is mapped over it (typing.rs auto spread) *)
Definition spread (pts : list ty) (rt : ty) (ats : list ty) : option ty :=
  match pts, rt, ats with
  | [TNum], TNum, [TTup ts] => Some (TTup ts)
  | _, _, _ => None
  end.

(* ---- match ---- *)
(* the binders of a match pattern against a scrutinee of type t, in front of G (mirrors Lmmx.mbind; typing.rs
   check_match_pattern_type, called for every arm before the arm is typed: a literal pattern needs a number, a tuple pattern a
   tuple of the same width — element by element —, a constructor pattern a scrutinee of a sum type that has the constructor, an
   inner pattern a constructor that carries a value).  BOTH configurations: since the repair of finding T8 (typing.rs c082721)
   the real checker compares every pattern with the type it meets, so there is no lenient variant of this function any more.
   What is left of T8 (a bare identifier that is no declared constructor, in a tuple pattern over a scrutinee whose type is not
   yet known) needs a scrutinee WITHOUT a type, which this annotation-driven checker does not have. *)
Fixpoint tc_mpat (m : mpat) (t : ty) (G : tenv) {struct m} : option tenv :=
  match m with
  | MLit _ => match t with TNum => Some G | _ => None end
  | MWild => Some G
  | MCon tag p =>
      match t with
      | TSum _ cs =>
          match nth_error cs tag, p with
          | Some None, None => Some G
          | Some (Some _), None => Some G
          | Some (Some t'), Some q => tc_pat q t' G
          | _, _ => None
          end
      | _ => None
      end
  | MTup ms =>
      match t with
      | TTup ts =>
          (fix go (ms : list mpat) (ts : list ty) (G : tenv) : option tenv :=
             match ms, ts with
             | [], [] => Some G
             | m :: ms', t :: ts' => match tc_mpat m t G with Some G' => go ms' ts' G' | None => None end
             | _, _ => None
             end) ms ts G
      | _ => None
      end
  end.

(* a pattern every value matches *)
Fixpoint irrefutable (m : mpat) : bool :=
  match m with
  | MWild => true
  | MTup ms => forallb (fun x => irrefutable x) ms
  | _ => false
  end.

Definition is_con_of (tag : nat) (m : mpat) : bool := match m with MCon t _ => Nat.eqb t tag | _ => false end.

(* strict: an irrefutable arm, or a sum-typed scrutinee with an arm for every constructor *)
Definition exhaustive (t : ty) (ms : list mpat) : bool :=
  existsb irrefutable ms ||
  match t with
  | TSum _ cs => forallb (fun tag => existsb (is_con_of tag) ms) (seq 0 (length cs))
  | _ => false
  end.

(* lenient (typing.rs check_match_exhaustiveness): a NUMBER scrutinee needs a `_` arm (since the repair of finding T7 for
   numbers, typing.rs 027af85: no finite list of literals covers the numbers); on a sum-typed scrutinee `_` and ANY tuple
   pattern count as covering everything, otherwise every constructor needs an arm; nothing else is checked — in particular a
   match on a TUPLE needs no `_` arm (what is left of T7) *)
Definition exhaustive_len (t : ty) (ms : list mpat) : bool :=
  match t with
  | TNum => existsb (fun m => match m with MWild => true | _ => false end) ms
  | TSum _ cs =>
      existsb (fun m => match m with MWild | MTup _ => true | _ => false end) ms ||
      forallb (fun tag => existsb (is_con_of tag) ms) (seq 0 (length cs))
  | _ => true
  end.

(* shapes whose sum types are declared (with these constructors) and have at least one constructor *)
Fixpoint shape_ok (sums : list (ident * list (option ty))) (sh : shape) : bool :=
  match sh with
  | SNum => true
  | STup shs => forallb (fun x => shape_ok sums x) shs
  | SRec fs => keys_increasing fs && forallb (fun fx => shape_ok sums (snd fx)) fs
  | SSum nm cs =>
      match cs with [] => false | _ => true end &&
      forallb (fun o => match o with Some x => shape_ok sums x | None => true end) cs &&
      match rlookup nm sums with
      | Some cs' => ty_eqb (TSum nm cs') (ty_of_shape (SSum nm cs))
      | None => false
      end
  end.

Section Tc.
  Variable an : annots.

  Fixpoint tc (G : tenv) (e : xexpr) {struct e} : option ty :=
    match e with
    | XLit _ | XNow | XSr | XSelf => Some TNum
    | XVar x =>
        match tlookup x G with
        | Some (NVar t) => Some t
        | Some (NFun sg) => Some (sig_ty sg)
        | _ => None
        end
    | XBin op a b =>
        if an_len an
        then match tc G a, tc G b with
             | Some ta, Some tb =>
                 Some (match op with
                       | OAdd | OSub | OMul => match ta, tb with TTup _, _ => ta | _, TTup _ => tb | _, _ => TNum end
                       | _ => TNum
                       end)
             | _, _ => None
             end
        else match tc G a, tc G b with Some TNum, Some TNum => Some TNum | _, _ => None end
    | XNeg a =>
        if an_len an
        then match tc G a with Some (TTup ts) => Some (TTup ts) | Some _ => Some TNum | None => None end
        else match tc G a with Some TNum => Some TNum | _ => None end
    | XLet p a b =>
        match tc G a with
        | Some ta => match tc_pat p ta G with Some G' => tc G' b | None => None end
        | None => None
        end
    | XIf c t e' =>
        match tc G c with
        | Some TNum =>
            match tc G t, tc G e' with
            | Some t1, Some t2 => if an_teq an t1 t2 then Some t1 else None
            | _, _ => None
            end
        | _ => None
        end
    | XMem a => match tc G a with Some TNum => Some TNum | _ => None end
    | XDelay _ a t =>
        if an_len an
        then match tc G a, tc G t with Some _, Some _ => Some TNum | _, _ => None end
        else match tc G a, tc G t with Some TNum, Some TNum => Some TNum | _, _ => None end
    | XTuple es => match omap (fun x => tc G x) es with Some ts => Some (TTup ts) | None => None end
    | XProj e' i => match tc G e' with Some (TTup ts) => nth_error ts i | _ => None end
    | XRecord fs =>
        if keys_increasing fs
        then match ofields (fun x => tc G x) fs with Some fts => Some (TRec fts) | None => None end
        else None
    | XField e' f => match tc G e' with Some (TRec fts) => rlookup f fts | _ => None end
    | XLam ps body =>
        let pts := map (an_ty an) ps in
        if ids_nodup ps
        then match tc (bind_tys ps pts G) body with
             | Some rt => if self_ok_in (an_len an) body rt then Some (TFn pts rt) else None
             | None => None
             end
        else None
    | XApp f args =>
        match tc G f, omap (fun x => tc G x) args with
        | Some (TFn pts rt), Some ats => if an_tseq an ats pts then Some rt else if an_len an then spread pts rt ats else None
        | _, _ => None
        end
    | XPipe a f =>
        match tc G f, tc G a with
        | Some (TFn pts rt), Some ta => if an_tseq an [ta] pts then Some rt else if an_len an then spread pts rt [ta] else None
        | _, _ => None
        end
    | XCallNamed f fs =>
        match tlookup f G with
        | Some (NFun sg) =>
            if ids_nodup (map fst fs)
            then match ofields (fun x => tc G x) fs with
                 | Some gts => if named_ok (an_teq an) (sg_params sg) gts then Some (sg_ret sg) else None
                 | None => None
                 end
            else None
        | _ => None
        end
    | XAssign x e' =>
        match tlookup x G, tc G e' with
        | Some (NVar t), Some t' => if an_teq an t t' then Some TUnit else None
        | _, _ => None
        end
    | XSeq a b => match tc G a with Some _ => tc G b | None => None end
    | XSelfS sh => if shape_ok (an_sums an) sh then Some (ty_of_shape sh) else None
    | XCon tn tag arg =>
        match rlookup tn (an_sums an) with
        | Some cs =>
            match nth_error cs tag, arg with
            | Some None, None => Some (TSum tn cs)
            | Some (Some t), Some a =>
                match tc G a with
                | Some ta => if an_teq an t ta then Some (TSum tn cs) else None
                | None => None
                end
            (* lenient: typing.rs takes a constructor that carries a payload, written without it, for a function value
               (what is left of finding T9; the backends cannot compile it) *)
            | Some (Some t), None => if an_len an then Some (TFn [t] (TSum tn cs)) else None
            | _, _ => None
            end
        | None => None
        end
    | XMatch sc arms =>
        match tc G sc with
        | Some ts =>
            match (fix go (l : list (mpat * xexpr)) : option (list ty) :=
                     match l with
                     | [] => Some []
                     | a :: l' =>
                         match tc_mpat (fst a) ts G with
                         | Some G' => match tc G' (snd a), go l' with Some t, Some tl => Some (t :: tl) | _, _ => None end
                         | None => None
                         end
                     end) arms with
            | Some (t :: tl) =>
                (* all arms have the type of the first (typing.rs since the repair of finding T6, ac0109c: the error of
                   unify_types(first, arm) is returned; in the lenient configuration `an_teq` is unification up to T0) *)
                if forallb (an_teq an t) tl && (if an_len an then exhaustive_len ts (map fst arms) else exhaustive ts (map fst arms))
                then Some t else None
            | _ => None
            end
        | None => None
        end
    end.

  (* the types of the arms of a match on a scrutinee of type ts (the inner loop of tc on XMatch) *)
  Definition tc_arms (G : tenv) (ts : ty) : list (mpat * xexpr) -> option (list ty) :=
    fix go (l : list (mpat * xexpr)) : option (list ty) :=
      match l with
      | [] => Some []
      | a :: l' =>
          match tc_mpat (fst a) ts G with
          | Some G' => match tc G' (snd a), go l' with Some t, Some tl => Some (t :: tl) | _, _ => None end
          | None => None
          end
      end.

  Definition tc_list (G : tenv) (es : list xexpr) : option (list ty) := omap (fun x => tc G x) es.
  Definition tc_fields (G : tenv) (fs : list (ident * xexpr)) : option (list (ident * ty)) := ofields (fun x => tc G x) fs.

  (* the default value of every parameter has the parameter's type, in the function's own environment *)
  Definition defaults_ok (G : tenv) (params : list (ident * option xexpr)) : bool :=
    an_len an ||
    forallb (fun p => match snd p with
                      | Some de => match tc G de with Some t => an_teq an t (an_ty an (fst p)) | None => false end
                      | None => true
                      end) params.

  Definition is_some {A} (o : option A) : bool := match o with Some _ => true | None => false end.

  Definition sig_of (params : list (ident * option xexpr)) (rt : ty) : fsig :=
    mkSig (map (fun p => (fst p, an_ty an (fst p), is_some (snd p))) params) rt.

  (* top-level declarations in source order (mirrors Lmmx.xinit) *)
  Fixpoint tc_globals (gs : list gdecl) (G : tenv) : option tenv :=
    match gs with
    | [] => Some G
    | GFun name params body :: gs' =>
        let names := map fst params in
        let pts := map (an_ty an) names in
        let Gself := match rlookup name (an_ret an) with
                     | Some rt => (name, NFun (sig_of params rt)) :: G
                     | None => (name, NHidden) :: G
                     end in
        match tc (bind_tys names pts Gself) body with
        | Some rt =>
            if ids_nodup names && self_ok_in (an_len an) body rt && defaults_ok Gself params &&
               match rlookup name (an_ret an) with Some rt' => an_teq an rt' rt | None => true end
            then tc_globals gs' ((name, NFun (sig_of params rt)) :: G)
            else None
        | None => None
        end
    | GLet p e :: gs' =>
        match tc G e with
        | Some t => match tc_pat p t G with Some G' => tc_globals gs' G' | None => None end
        | None => None
        end
    end.

  (* the lets of dsp (mirrors Lmmx.xlets) *)
  Fixpoint tc_lets (lets : list (pat * xexpr)) (G : tenv) : option tenv :=
    match lets with
    | [] => Some G
    | (p, e) :: rest =>
        match tc G e with
        | Some t => match tc_pat p t G with Some G' => tc_lets rest G' | None => None end
        | None => None
        end
    end.

  Definition is_num (o : option ty) : bool := match o with Some TNum => true | _ => false end.

  (* what the checker reports about an accepted program *)
  Record ty_info := mkInfo {
    ti_inputs : nat;          (* number of input words of dsp *)
    ti_dsp_ret : ty;          (* return type of dsp: a number, or the tuple of its outputs *)
    ti_genv : tenv }.         (* the global environment (signatures of the functions, types of the global variables) *)

  Definition dsp_ret (n : nat) : ty := match n with 1 => TNum | _ => TTup (repeat TNum n) end.

  Definition tc_prog (p : xprogram) : option ty_info :=
    match tc_globals (x_globals p) [] with
    | Some Gg =>
        let n := length (x_inputs p) in
        match tc_lets (x_lets p) (bind_tys (x_inputs p) (repeat TNum n) Gg) with
        | Some G1 =>
            if ids_nodup (x_inputs p) && forallb (fun e => if an_len an then is_some (tc G1 e) else is_num (tc G1 e)) (x_outs p)
            then Some (mkInfo n (dsp_ret (length (x_outs p))) Gg)
            else None
        | None => None
        end
    | None => None
    end.
End Tc.

(* ---- the LENIENT configuration: no soundness claim.  checks/lmmt_part.py uses it as an UPPER bound of what the real type
   checker (compiler/typing.rs) lets through: `unify_vec` drops the errors of the elements of two tuples of equal length —
   and the argument list of a call with two or more arguments is compared as a tuple — and record types are compared up to
   width; so the operands of every binary operator (a two-argument call) may have any type, and arithmetic on tuples is
   a feature (broadcasting), as is the application of a number -> number function to a tuple (auto spread); the operands of
   delay, the outputs of dsp and the default values of parameters are not checked.  A program the real checker accepts must at least be accepted
   in this configuration (up to the kinds of mutation listed in checks/lmmt_part.py TOLERATED).
   MATCH follows the repaired typing.rs (findings T6, T8, T7 on numbers, T9 on scrutinees): the patterns are checked against the
   scrutinee type exactly as in the strict configuration (tc_mpat has no lenient variant), the arms must have the type of the first arm
   (up to `ty_sim`), a match on a number needs a `_` arm; lenient is only what typing.rs still lets through: a match on a TUPLE needs
   no `_` arm, on a sum type any tuple pattern counts as `_` (T7), and a constructor that carries a payload, written without it, is a
   function value payload -> sum type (T9; as the scrutinee of a match it is therefore rejected by the patterns). ---- *)
Definition ty_sim (a b : ty) : bool :=
  match a, b with
  | TNum, TNum => true
  | TUnit, TUnit => true
  | TTup xs, TTup ys => Nat.eqb (length xs) (length ys)
  | TRec _, TRec _ => true
  | TFn _ _, TFn _ _ => true
  | TSum n _, TSum m _ => N.eqb n m
  | _, _ => false
  end.

(* an argument list against a parameter list: one against one as types; otherwise as tuples of equal width, where a single
   tuple / record stands for its components (typing.rs unify_types_args: parameter packs) *)
Definition pack_width (l : list ty) : nat :=
  match l with
  | [TTup ts] => length ts
  | [TRec fs] => length fs
  | _ => length l
  end.

Definition tys_sim (xs ys : list ty) : bool :=
  match xs, ys with
  | [x], [y] => ty_sim x y || (Nat.leb 2 (pack_width xs) && Nat.eqb (pack_width xs) (pack_width ys))
  | _, _ => Nat.eqb (pack_width xs) (pack_width ys)
  end.

Definition mkLenient (par ret : list (ident * ty)) (sums : list (ident * list (option ty))) : config :=
  mkCfg par ret sums ty_sim tys_sim true.
