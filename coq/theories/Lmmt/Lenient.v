(* Lmmt/Lenient.v — the lenient configuration of the checker accepts every program the checker (strict configuration)
   accepts, with the same types: it is an upper bound, so "strict accepts => real accepts => lenient accepts" is a
   meaningful sandwich for the comparison with the real type checker (checks/lmmt_part.py).  On `match` the two
   configurations differ only in the exhaustiveness check of tuple / sum scrutinees and in the equality the arm types are
   compared with (the lenient configuration follows the repaired typing.rs: findings T6, T7 on numbers, T8). *)
From Coq Require Import List ZArith NArith Bool Lia.
From Mimium Require Import Lmmm.Syntax Lmmx.Syntax Lmmx.World Lmmx.MatchSelf Lmmt.Types Lmmt.Check.
Import ListNotations.

Section XInd.
  Variable P : xexpr -> Prop.
  Hypothesis Hlit : forall z, P (XLit z).
  Hypothesis Hvar : forall x, P (XVar x).
  Hypothesis Hnow : P XNow.
  Hypothesis Hsr : P XSr.
  Hypothesis Hself : P XSelf.
  Hypothesis Hbin : forall op a b, P a -> P b -> P (XBin op a b).
  Hypothesis Hneg : forall a, P a -> P (XNeg a).
  Hypothesis Hlet : forall p a b, P a -> P b -> P (XLet p a b).
  Hypothesis Hif : forall c t e, P c -> P t -> P e -> P (XIf c t e).
  Hypothesis Hmem : forall a, P a -> P (XMem a).
  Hypothesis Hdelay : forall n a t, P a -> P t -> P (XDelay n a t).
  Hypothesis Htuple : forall es, Forall P es -> P (XTuple es).
  Hypothesis Hproj : forall e i, P e -> P (XProj e i).
  Hypothesis Hrecord : forall fs, Forall (fun fe => P (snd fe)) fs -> P (XRecord fs).
  Hypothesis Hfield : forall e f, P e -> P (XField e f).
  Hypothesis Hlam : forall ps b, P b -> P (XLam ps b).
  Hypothesis Happ : forall f args, P f -> Forall P args -> P (XApp f args).
  Hypothesis Hnamed : forall f fs, Forall (fun fe => P (snd fe)) fs -> P (XCallNamed f fs).
  Hypothesis Hpipe : forall a f, P a -> P f -> P (XPipe a f).
  Hypothesis Hassign : forall x e, P e -> P (XAssign x e).
  Hypothesis Hseq : forall a b, P a -> P b -> P (XSeq a b).
  Hypothesis Hselfs : forall sh, P (XSelfS sh).
  Hypothesis Hcon : forall tn tag arg, (forall a, arg = Some a -> P a) -> P (XCon tn tag arg).
  Hypothesis Hmatch : forall sc arms, P sc -> Forall (fun a => P (snd a)) arms -> P (XMatch sc arms).

  Fixpoint xexpr_ind' (e : xexpr) : P e :=
    let all := fix all (l : list xexpr) : Forall P l :=
      match l with [] => Forall_nil _ | x :: l' => Forall_cons _ (xexpr_ind' x) (all l') end in
    let allf := fix allf (l : list (ident * xexpr)) : Forall (fun fe => P (snd fe)) l :=
      match l with [] => Forall_nil _ | x :: l' => Forall_cons _ (xexpr_ind' (snd x)) (allf l') end in
    match e with
    | XLit z => Hlit z
    | XVar x => Hvar x
    | XNow => Hnow
    | XSr => Hsr
    | XSelf => Hself
    | XBin op a b => Hbin op a b (xexpr_ind' a) (xexpr_ind' b)
    | XNeg a => Hneg a (xexpr_ind' a)
    | XLet p a b => Hlet p a b (xexpr_ind' a) (xexpr_ind' b)
    | XIf c t e' => Hif c t e' (xexpr_ind' c) (xexpr_ind' t) (xexpr_ind' e')
    | XMem a => Hmem a (xexpr_ind' a)
    | XDelay n a t => Hdelay n a t (xexpr_ind' a) (xexpr_ind' t)
    | XTuple es => Htuple es (all es)
    | XProj e' i => Hproj e' i (xexpr_ind' e')
    | XRecord fs => Hrecord fs (allf fs)
    | XField e' f => Hfield e' f (xexpr_ind' e')
    | XLam ps b => Hlam ps b (xexpr_ind' b)
    | XApp f args => Happ f args (xexpr_ind' f) (all args)
    | XCallNamed f fs => Hnamed f fs (allf fs)
    | XPipe a f => Hpipe a f (xexpr_ind' a) (xexpr_ind' f)
    | XAssign x e' => Hassign x e' (xexpr_ind' e')
    | XSeq a b => Hseq a b (xexpr_ind' a) (xexpr_ind' b)
    | XSelfS sh => Hselfs sh
    | XCon tn tag arg =>
        Hcon tn tag arg (match arg as o return forall a, o = Some a -> P a with
                         | Some a0 => fun a E => match E in _ = y return match y with Some z => P z | None => True end with
                                                 | eq_refl => xexpr_ind' a0
                                                 end
                         | None => fun a E => match E in _ = y return match y with Some z => P a | None => True end with
                                              | eq_refl => I
                                              end
                         end)
    | XMatch sc arms =>
        Hmatch sc arms (xexpr_ind' sc)
          ((fix alla (l : list (mpat * xexpr)) : Forall (fun a => P (snd a)) l :=
              match l with [] => Forall_nil _ | x :: l' => Forall_cons _ (xexpr_ind' (snd x)) (alla l') end) arms)
    end.
End XInd.

Lemma ty_sim_refl : forall t, ty_sim t t = true.
Proof. destruct t; cbn; auto; [apply Nat.eqb_refl|apply N.eqb_refl]. Qed.

(* the types `self` is read at hold no closure *)
Lemma ty_of_shape_no_fn : forall sh, ty_has_fn (ty_of_shape sh) = false.
Proof.
  induction sh as [|shs IH|fs IH|nm cs IH] using shape_ind'; cbn [ty_of_shape ty_has_fn]; auto.
  - induction IH as [|x l Hx _ IHl]; cbn; auto. rewrite Hx, IHl. reflexivity.
  - induction IH as [|x l Hx _ IHl]; cbn; auto. rewrite Hx, IHl. reflexivity.
  - induction IH as [|[x|] l Hx _ IHl]; cbn in *; auto. rewrite Hx, IHl. reflexivity.
Qed.

Lemma Forall_flat_map : forall A B (P : B -> Prop) (f : A -> list B) l,
  Forall (fun a => Forall P (f a)) l -> Forall P (flat_map f l).
Proof. intros A B P f l H. induction H; cbn; auto. apply Forall_app. split; auto. Qed.

Lemma self_tys_data : forall e, Forall (fun t => ty_has_fn t = false) (self_tys e).
Proof.
  induction e using xexpr_ind'; cbn [self_tys];
    try (destruct arg as [a0|]; [apply (H a0 eq_refl)|constructor]);
    repeat match goal with
           | |- Forall _ (_ ++ _) => apply Forall_app; split
           | |- Forall _ (flat_map _ _) => apply Forall_flat_map
           | |- Forall _ [] => constructor
           | |- Forall _ [_] => constructor; [|constructor]
           end; auto using ty_of_shape_no_fn.
Qed.

Lemma tys_sim_refl : forall ts, tys_sim ts ts = true.
Proof.
  intros [|x [|y l]]; cbn; auto.
  - rewrite ty_sim_refl. reflexivity.
  - apply Nat.eqb_refl.
Qed.

Section Extends.
  Variables par ret : list (ident * ty).
  Variable sums : list (ident * list (option ty)).
  Let S := mkAnn par ret sums.
  Let L := mkLenient par ret sums.

  Lemma an_ty_same : forall x, an_ty L x = an_ty S x.
  Proof. reflexivity. Qed.

  Lemma omap_ext : forall es G ts,
    Forall (fun e => forall G t, tc S G e = Some t -> tc L G e = Some t) es ->
    omap (fun x => tc S G x) es = Some ts -> omap (fun x => tc L G x) es = Some ts.
  Proof.
    intros es G. induction es as [|e es IH]; intros ts HF H; cbn in *; auto.
    inversion HF as [|? ? He Hes]; subst.
    destruct (tc S G e) as [t|] eqn:E1; try discriminate.
    destruct (omap (fun x => tc S G x) es) as [ts'|] eqn:E2; try discriminate.
    rewrite (He _ _ E1), (IH _ Hes eq_refl). exact H.
  Qed.

  Lemma ofields_ext : forall fs G ts,
    Forall (fun fe => forall G t, tc S G (snd fe) = Some t -> tc L G (snd fe) = Some t) fs ->
    ofields (fun x => tc S G x) fs = Some ts -> ofields (fun x => tc L G x) fs = Some ts.
  Proof.
    intros fs G. induction fs as [|[f e] fs IH]; intros ts HF H; cbn in *; auto.
    inversion HF as [|? ? He Hes]; subst. cbn in He.
    destruct (tc S G e) as [t|] eqn:E1; try discriminate.
    destruct (ofields (fun x => tc S G x) fs) as [ts'|] eqn:E2; try discriminate.
    rewrite (He _ _ E1), (IH _ Hes eq_refl). exact H.
  Qed.

  Lemma named_ok_ext : forall ps gts, named_ok ty_eqb ps gts = true -> named_ok ty_sim ps gts = true.
  Proof.
    intros ps gts. unfold named_ok. induction ps as [|p ps IH]; cbn; auto.
    intro H. apply andb_true_iff in H. destruct H as [H1 H2]. rewrite (IH H2), andb_true_r.
    destruct (rlookup (fst (fst p)) gts) as [t'|]; auto. apply ty_eqb_eq in H1. subst. apply ty_sim_refl.
  Qed.

  Lemma self_ok_ext : forall body rt, self_ok body rt = true -> self_ok_in true body rt = true.
  Proof.
    intros body rt H. unfold self_ok in H. unfold self_ok_in, xuses_self. pose proof (self_tys_data body) as Hd.
    destruct (self_tys body) as [|t l]; cbn in *; auto.
    apply andb_true_iff in H. destruct H as [H _]. apply ty_eqb_eq in H. subst. inversion Hd; subst. rewrite H1. reflexivity.
  Qed.

  (* the patterns are checked in the same way in both configurations (Check.tc_mpat) *)
  Lemma tc_arms_ext : forall arms G ts tys,
    Forall (fun a => forall G t, tc S G (snd a) = Some t -> tc L G (snd a) = Some t) arms ->
    tc_arms S G ts arms = Some tys -> tc_arms L G ts arms = Some tys.
  Proof.
    induction arms as [|a arms IH]; intros G ts tys HF H; cbn [tc_arms] in *; auto.
    inversion HF as [|? ? Ha Harms]; subst.
    destruct (tc_mpat (fst a) ts G) as [G'|] eqn:E1; try discriminate.
    destruct (tc S G' (snd a)) as [t|] eqn:E2; try discriminate. rewrite (Ha _ _ E2).
    change (match tc_arms S G ts arms with Some tl => Some (t :: tl) | None => None end = Some tys) in H.
    change (match tc_arms L G ts arms with Some tl => Some (t :: tl) | None => None end = Some tys).
    destruct (tc_arms S G ts arms) as [tl|] eqn:E3; try discriminate. rewrite (IH _ _ _ Harms E3). exact H.
  Qed.

  Lemma tc_arms_pats : forall an arms G ts tys,
    tc_arms an G ts arms = Some tys -> Forall (fun m => exists G', tc_mpat m ts G = Some G') (map fst arms).
  Proof.
    intro an. induction arms as [|a arms IH]; intros G ts tys H; cbn [tc_arms map] in *; constructor.
    - destruct (tc_mpat (fst a) ts G) as [G'|]; try discriminate. eauto.
    - destruct (tc_mpat (fst a) ts G) as [G'|]; try discriminate.
      destruct (tc an G' (snd a)) as [t|]; try discriminate.
      change (match tc_arms an G ts arms with Some tl => Some (t :: tl) | None => None end = Some tys) in H.
      destruct (tc_arms an G ts arms) as [tl|] eqn:E3; try discriminate. eapply IH; eauto.
  Qed.

  (* strict exhaustiveness implies the lenient one on patterns that are typed against the scrutinee type (on a number the
     lenient check asks for `_` itself, and `_` is the only irrefutable pattern a number can meet) *)
  Lemma exhaustive_ext : forall t ms G,
    Forall (fun m => exists G', tc_mpat m t G = Some G') ms -> exhaustive t ms = true -> exhaustive_len t ms = true.
  Proof.
    intros t ms G HF H. unfold exhaustive in H. unfold exhaustive_len. destruct t; auto.
    - rewrite orb_false_r in H. apply existsb_exists in H. destruct H as (m & Hin & Hi). apply existsb_exists. exists m. split; auto.
      rewrite Forall_forall in HF. destruct (HF m Hin) as (G' & Hm).
      destruct m; cbn in Hi, Hm; try discriminate; reflexivity.
    - apply orb_true_iff in H. apply orb_true_iff. destruct H as [H|H]; [left|right; exact H].
      apply existsb_exists in H. destruct H as (m & Hin & Hi). apply existsb_exists. exists m. split; auto.
      destruct m; cbn in Hi; try discriminate; reflexivity.
  Qed.

  Lemma forallb_sim : forall t0 tl, forallb (ty_eqb t0) tl = true -> forallb (ty_sim t0) tl = true.
  Proof.
    intros t0 tl H. induction tl as [|t tl IH]; cbn in *; auto.
    apply andb_true_iff in H. destruct H as [H1 H2]. apply ty_eqb_eq in H1. subst. rewrite ty_sim_refl, (IH H2). reflexivity.
  Qed.

  Ltac unfold_cfg :=
    try change (an_teq S) with ty_eqb in *; try change (an_teq L) with ty_sim in *;
    try change (an_tseq S) with tys_eqb in *; try change (an_tseq L) with tys_sim in *;
    try change (an_len S) with false in *; try change (an_len L) with true in *;
    try change (an_ret L) with (an_ret S) in *.

  Lemma tc_extends : forall e G t, tc S G e = Some t -> tc L G e = Some t.
  Proof.
    induction e using xexpr_ind'; intros G t Htc; cbn [tc] in *; unfold_cfg; cbn iota in *; auto.
    - (* XBin *)
      destruct (tc S G e1) as [[| | | | |]|] eqn:E1; try discriminate.
      destruct (tc S G e2) as [[| | | | |]|] eqn:E2; try discriminate.
      rewrite (IHe1 _ _ E1), (IHe2 _ _ E2). inversion Htc; subst. destruct op; reflexivity.
    - (* XNeg *)
      destruct (tc S G e) as [[| | | | |]|] eqn:E1; try discriminate. rewrite (IHe _ _ E1). exact Htc.
    - (* XLet *)
      destruct (tc S G e1) as [ta|] eqn:E1; try discriminate. rewrite (IHe1 _ _ E1).
      destruct (tc_pat p ta G); try discriminate. auto.
    - (* XIf *)
      destruct (tc S G e1) as [[| | | | |]|] eqn:E1; try discriminate. rewrite (IHe1 _ _ E1).
      destruct (tc S G e2) as [t2|] eqn:E2; try discriminate.
      destruct (tc S G e3) as [t3|] eqn:E3; try discriminate.
      rewrite (IHe2 _ _ E2), (IHe3 _ _ E3). unfold_cfg.
      destruct (ty_eqb t2 t3) eqn:Eq; try discriminate. apply ty_eqb_eq in Eq. subst. rewrite ty_sim_refl. exact Htc.
    - (* XMem *)
      destruct (tc S G e) as [[| | | | |]|] eqn:E1; try discriminate. rewrite (IHe _ _ E1). exact Htc.
    - (* XDelay *)
      destruct (tc S G e1) as [[| | | | |]|] eqn:E1; try discriminate.
      destruct (tc S G e2) as [[| | | | |]|] eqn:E2; try discriminate.
      rewrite (IHe1 _ _ E1), (IHe2 _ _ E2). exact Htc.
    - (* XTuple *)
      destruct (omap (fun x => tc S G x) es) as [ts|] eqn:E1; try discriminate.
      rewrite (omap_ext _ _ _ H E1). exact Htc.
    - (* XProj *)
      destruct (tc S G e) as [[| |ts| | |]|] eqn:E1; try discriminate. rewrite (IHe _ _ E1). exact Htc.
    - (* XRecord *)
      destruct (keys_increasing fs); try discriminate.
      destruct (ofields (fun x => tc S G x) fs) as [ts|] eqn:E1; try discriminate.
      rewrite (ofields_ext _ _ _ H E1). exact Htc.
    - (* XField *)
      destruct (tc S G e) as [[| | |fts| |]|] eqn:E1; try discriminate. rewrite (IHe _ _ E1). exact Htc.
    - (* XLam *)
      destruct (ids_nodup ps); try discriminate.
      change (map (an_ty L) ps) with (map (an_ty S) ps).
      destruct (tc S (bind_tys ps (map (an_ty S) ps) G) e) as [rt|] eqn:E1; try discriminate.
      rewrite (IHe _ _ E1).
      destruct (self_ok_in false e rt) eqn:Es; try discriminate. cbn [self_ok_in] in Es.
      rewrite (self_ok_ext _ _ Es). exact Htc.
    - (* XApp *)
      destruct (tc S G e) as [[| | | |pts rt|]|] eqn:E1; try discriminate. rewrite (IHe _ _ E1).
      destruct (omap (fun x => tc S G x) args) as [ats|] eqn:E2; try discriminate.
      rewrite (omap_ext _ _ _ H E2). unfold_cfg.
      destruct (tys_eqb ats pts) eqn:Eq; try discriminate. apply tys_eqb_eq in Eq. subst. rewrite tys_sim_refl. exact Htc.
    - (* XCallNamed *)
      destruct (tlookup f G) as [[t'|sg|]|]; try discriminate.
      destruct (ids_nodup (map fst fs)); try discriminate.
      destruct (ofields (fun x => tc S G x) fs) as [gts|] eqn:E1; try discriminate.
      rewrite (ofields_ext _ _ _ H E1). unfold_cfg.
      destruct (named_ok ty_eqb (sg_params sg) gts) eqn:En; try discriminate.
      rewrite (named_ok_ext _ _ En). exact Htc.
    - (* XPipe *)
      destruct (tc S G e2) as [[| | | |pts rt|]|] eqn:E1; try discriminate. rewrite (IHe2 _ _ E1).
      destruct (tc S G e1) as [ta|] eqn:E2; try discriminate. rewrite (IHe1 _ _ E2). unfold_cfg.
      destruct (tys_eqb [ta] pts) eqn:Eq; try discriminate. apply tys_eqb_eq in Eq. subst. rewrite tys_sim_refl. exact Htc.
    - (* XAssign *)
      destruct (tlookup x G) as [[t'|sg|]|]; try discriminate.
      destruct (tc S G e) as [te|] eqn:E1; try discriminate. rewrite (IHe _ _ E1). unfold_cfg.
      destruct (ty_eqb t' te) eqn:Eq; try discriminate. apply ty_eqb_eq in Eq. subst. rewrite ty_sim_refl. exact Htc.
    - (* XSeq *)
      destruct (tc S G e1) as [ta|] eqn:E1; try discriminate. rewrite (IHe1 _ _ E1). auto.
    - (* XCon *)
      change (an_sums L) with (an_sums S).
      destruct (rlookup tn (an_sums S)) as [cs|]; try discriminate.
      destruct (nth_error cs tag) as [[t'|]|]; destruct arg as [a|]; try discriminate; auto.
      destruct (tc S G a) as [ta|] eqn:E1; try discriminate. rewrite (H a eq_refl _ _ E1). unfold_cfg.
      destruct (ty_eqb t' ta) eqn:Eq; try discriminate. apply ty_eqb_eq in Eq. subst. rewrite ty_sim_refl. exact Htc.
    - (* XMatch *)
      destruct (tc S G e) as [ts|] eqn:E1; try discriminate. rewrite (IHe _ _ E1).
      change (match tc_arms S G ts arms with
              | Some (t0 :: tl) => if forallb (ty_eqb t0) tl && exhaustive ts (map fst arms) then Some t0 else None
              | _ => None
              end = Some t) in Htc.
      change (match tc_arms L G ts arms with
              | Some (t0 :: tl) => if forallb (ty_sim t0) tl && exhaustive_len ts (map fst arms) then Some t0 else None
              | _ => None
              end = Some t).
      destruct (tc_arms S G ts arms) as [[|t0 tl]|] eqn:Ea; try discriminate.
      rewrite (tc_arms_ext _ _ _ _ H Ea).
      destruct (forallb (ty_eqb t0) tl && exhaustive ts (map fst arms)) eqn:Ec; try discriminate.
      apply andb_true_iff in Ec. destruct Ec as [Eall Eex].
      rewrite (forallb_sim _ _ Eall), (exhaustive_ext _ _ _ (tc_arms_pats _ _ _ _ _ Ea) Eex). exact Htc.
  Qed.

  Lemma tc_globals_extends : forall gs G G', tc_globals S gs G = Some G' -> tc_globals L gs G = Some G'.
  Proof.
    induction gs as [|[name params body|p e] gs IH]; intros G G' H; cbn [tc_globals] in *; auto.
    - change (an_ret L) with (an_ret S). change (map (an_ty L) (map fst params)) with (map (an_ty S) (map fst params)).
      change (sig_of L) with (sig_of S).
      set (Gself := match rlookup name (an_ret S) with
                    | Some rt => (name, NFun (sig_of S params rt)) :: G
                    | None => (name, NHidden) :: G
                    end) in *.
      destruct (tc S (bind_tys (map fst params) (map (an_ty S) (map fst params)) Gself) body) as [rt|] eqn:Eb; try discriminate.
      rewrite (tc_extends _ _ _ Eb).
      match type of H with (if ?c then _ else _) = _ => destruct c eqn:Ec; try discriminate end.
      apply andb_true_iff in Ec. destruct Ec as [Ec Eret]. apply andb_true_iff in Ec. destruct Ec as [Ec Edef].
      apply andb_true_iff in Ec. destruct Ec as [Enod Eself].
      rewrite Enod. cbn [an_len L mkLenient] in *. cbn [self_ok_in] in Eself. rewrite (self_ok_ext _ _ Eself).
      unfold defaults_ok. cbn [an_len L mkLenient orb andb].
      assert (Er : match rlookup name (an_ret S) with Some rt' => an_teq L rt' rt | None => true end = true).
      { destruct (rlookup name (an_ret S)) as [rt'|]; auto. cbn [an_teq S L mkAnn mkLenient] in *.
        apply ty_eqb_eq in Eret. subst. apply ty_sim_refl. }
      rewrite Er. apply IH. exact H.
    - destruct (tc S G e) as [t|] eqn:E1; try discriminate. rewrite (tc_extends _ _ _ E1).
      destruct (tc_pat p t G); try discriminate. auto.
  Qed.

  Lemma tc_lets_extends : forall lets G G', tc_lets S lets G = Some G' -> tc_lets L lets G = Some G'.
  Proof.
    induction lets as [|[p e] lets IH]; intros G G' H; cbn [tc_lets] in *; auto.
    destruct (tc S G e) as [t|] eqn:E1; try discriminate. rewrite (tc_extends _ _ _ E1).
    destruct (tc_pat p t G); try discriminate. auto.
  Qed.

  Theorem tc_prog_extends : forall p info, tc_prog S p = Some info -> tc_prog L p = Some info.
  Proof.
    intros p info H. unfold tc_prog in *.
    destruct (tc_globals S (x_globals p) []) as [Gg|] eqn:Eg; try discriminate. rewrite (tc_globals_extends _ _ _ Eg).
    destruct (tc_lets S (x_lets p) _) as [G1|] eqn:El; try discriminate. rewrite (tc_lets_extends _ _ _ El).
    match type of H with (if ?c then _ else _) = _ => destruct c eqn:Ec; try discriminate end.
    apply andb_true_iff in Ec. destruct Ec as [E1 E2]. rewrite E1. cbn [an_len S L mkAnn mkLenient andb] in *.
    assert (E3 : forallb (fun e => is_some (tc L G1 e)) (x_outs p) = true).
    { clear H. induction (x_outs p) as [|e es IH]; cbn in *; auto.
      apply andb_true_iff in E2. destruct E2 as [Ea Eb]. rewrite (IH Eb), andb_true_r.
      destruct (tc S G1 e) as [[| | | | |]|] eqn:Ee; try discriminate. rewrite (tc_extends _ _ _ Ee). reflexivity. }
    rewrite E3. exact H.
  Qed.
End Extends.
