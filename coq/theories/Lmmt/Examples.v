(* Lmmt/Examples.v — the checker on concrete programs: the closure examples of Lmmx/Examples.v are accepted (and run);
   ill-typed programs are rejected AND get stuck in the reference semantics (the checker is not vacuous); an ill-typed
   program that happens not to get stuck (the checker is, necessarily, conservative); a recursive function needs its
   return type. *)
From Coq Require Import List ZArith NArith Bool.
From Mimium Require Import Lmmm.Syntax Lmmm.Ref Lmmx.Syntax Lmmx.Ref Lmmx.Examples Lmmt.Types Lmmt.Check.
Import ListNotations.
Local Open Scope N_scope.

Definition an0 : annots := mkAnn [] [] [].
Definition ret_of (an : annots) (p : xprogram) : option ty := option_map ti_dsp_ret (tc_prog an p).

Lemma ex_counter_typed : ret_of an0 ex_counter = Some TNum.
Proof. vm_compute. reflexivity. Qed.
Lemma ex_two_counters_typed : ret_of an0 ex_two_counters = Some TNum.
Proof. vm_compute. reflexivity. Qed.
(* fn f2(v3 : ()->float) *)
Lemma ex_hof_stateful_typed : ret_of (mkAnn [(3, TFn [] TNum)] [] []) ex_hof_stateful = Some TNum.
Proof. vm_compute. reflexivity. Qed.
Lemma ex_hof_stateful_needs_annotation : ret_of an0 ex_hof_stateful = None.
Proof. vm_compute. reflexivity. Qed.
Lemma ex_nested_assign_typed : ret_of an0 ex_nested_assign = Some TNum.
Proof. vm_compute. reflexivity. Qed.
Lemma ex_shared_after_passing_typed : ret_of (mkAnn [(8, TFn [] TNum)] [] []) ex_shared_after_passing = Some TNum.
Proof. vm_compute. reflexivity. Qed.
Lemma ex_defaults_pipe_typed : ret_of an0 ex_defaults_pipe = Some (TTup [TNum; TNum; TNum]).
Proof. vm_compute. reflexivity. Qed.

(* records, patterns, a closure stored in a tuple:
   fn dsp(){ let {fa = v1, fc = (v2, _)} = {fa = 1, fb = 2, fc = (3, 4)}   let v3 = (|v4| v4 + v1, v2)   (v3.0)(v3.1) } *)
Definition ex_records : xprogram :=
  mkXProg [] []
    [(PRec [(0, PVar 1); (2, PTup [PVar 2; PWild])],
      XRecord [(0, XLit 1); (1, XLit 2); (2, XTuple [XLit 3; XLit 4])]);
     (PVar 3, XTuple [XLam [4] (XBin OAdd (XVar 4) (XVar 1)); XVar 2])]
    [XApp (XProj (XVar 3) 0) [XProj (XVar 3) 1]].
Lemma ex_records_typed : ret_of an0 ex_records = Some TNum.
Proof. vm_compute. reflexivity. Qed.
Lemma ex_records_run : xrun 20 ex_records [[]] = Ok [[4]]%Z.
Proof. vm_compute. reflexivity. Qed.

(* ---- ill-typed programs: rejected, and stuck ---- *)
(* fn dsp(){ 1(2) } *)
Definition bad_call_number : xprogram := mkXProg [] [] [] [XApp (XLit 1) [XLit 2]].
Lemma bad_call_number_rejected : tc_prog an0 bad_call_number = None /\ xrun 20 bad_call_number [[]] = Stuck E_NOTFUN.
Proof. vm_compute. split; reflexivity. Qed.

(* fn f1(v2, v3){ v2 + v3 }  fn dsp(){ f1(1) } *)
Definition bad_arity : xprogram :=
  mkXProg [GFun 1 [(2, None); (3, None)] (XBin OAdd (XVar 2) (XVar 3))] [] [] [XApp (XVar 1) [XLit 1]].
Lemma bad_arity_rejected : tc_prog an0 bad_arity = None /\ xrun 20 bad_arity [[]] = Stuck E_ARITY.
Proof. vm_compute. split; reflexivity. Qed.

(* fn dsp(){ (if (now) (1, 2) else 3).0 } *)
Definition bad_if_arms : xprogram := mkXProg [] [] [] [XProj (XIf XNow (XTuple [XLit 1; XLit 2]) (XLit 3)) 0].
Lemma bad_if_arms_rejected : tc_prog an0 bad_if_arms = None /\ xrun 20 bad_if_arms [[]] = Stuck E_NOTTUP.
Proof. vm_compute. split; reflexivity. Qed.

(* fn dsp(){ let v1 = 1   v1 = (1, 2)   v1 + 1 } *)
Definition bad_assign : xprogram :=
  mkXProg [] [] [] [XLet (PVar 1) (XLit 1) (XSeq (XAssign 1 (XTuple [XLit 1; XLit 2])) (XBin OAdd (XVar 1) (XLit 1)))].
Lemma bad_assign_rejected : tc_prog an0 bad_assign = None /\ xrun 20 bad_assign [[]] = Stuck E_NOTNUM.
Proof. vm_compute. split; reflexivity. Qed.

(* the lenient configuration (an upper bound of the real checker, no theorem) lets this one through *)
(* fn dsp(){ 1 < (1, 2) } *)
Definition bad_operand : xprogram := mkXProg [] [] [] [XBin OLt (XLit 1) (XTuple [XLit 1; XLit 2])].
Lemma bad_operand_lenient :
  tc_prog an0 bad_operand = None /\ ret_of (mkLenient [] [] []) bad_operand = Some TNum /\ xrun 20 bad_operand [[]] = Stuck E_NOTNUM.
Proof. vm_compute. repeat split; reflexivity. Qed.

(* fn dsp(){ let v1 = {fa = 1}  v1.fb } *)
Definition bad_field : xprogram := mkXProg [] [] [] [XLet (PVar 1) (XRecord [(0, XLit 1)]) (XField (XVar 1) 1)].
Lemma bad_field_rejected : tc_prog an0 bad_field = None /\ xrun 20 bad_field [[]] = Stuck E_NOTREC.
Proof. vm_compute. split; reflexivity. Qed.

(* fn f1(v2){ v2 }  fn dsp(){ f1 = f1  0 }: a function name is not a variable *)
Definition bad_assign_fun : xprogram :=
  mkXProg [GFun 1 [(2, None)] (XVar 2)] [] [] [XSeq (XAssign 1 (XVar 1)) (XLit 0)].
Lemma bad_assign_fun_rejected : tc_prog an0 bad_assign_fun = None /\ xrun 20 bad_assign_fun [[]] = Stuck E_ASSIGN.
Proof. vm_compute. split; reflexivity. Qed.

(* fn f1(v2, v3 = 7){ v2 + v3 }  fn dsp(){ f1({v3 = 1}) }: a parameter without default is missing *)
Definition bad_named : xprogram :=
  mkXProg [GFun 1 [(2, None); (3, Some (XLit 7))] (XBin OAdd (XVar 2) (XVar 3))] [] [] [XCallNamed 1 [(3, XLit 1)]].
Lemma bad_named_rejected : tc_prog an0 bad_named = None /\ xrun 20 bad_named [[]] = Stuck E_NODEFAULT.
Proof. vm_compute. split; reflexivity. Qed.

(* the checker is conservative: fn dsp(){ if (1) 1 else (1, 2) } is rejected although this run is defined *)
Definition bad_but_runs : xprogram := mkXProg [] [] [] [XIf (XLit 1) (XLit 1) (XTuple [XLit 1; XLit 2])].
Lemma bad_but_runs_rejected : tc_prog an0 bad_but_runs = None /\ xrun 20 bad_but_runs [[]] = Ok [[1]]%Z.
Proof. vm_compute. split; reflexivity. Qed.

(* ---- recursion: fn f1(v2) -> float { if (v2) f1(v2 - 1) + 1 else 0 }   fn dsp(){ f1(3) } ---- *)
Definition ex_rec : xprogram :=
  mkXProg [GFun 1 [(2, None)] (XIf (XVar 2) (XBin OAdd (XApp (XVar 1) [XBin OSub (XVar 2) (XLit 1)]) (XLit 1)) (XLit 0))]
          [] [] [XApp (XVar 1) [XLit 3]].
Lemma ex_rec_typed : ret_of (mkAnn [] [(1, TNum)] []) ex_rec = Some TNum.
Proof. vm_compute. reflexivity. Qed.
Lemma ex_rec_needs_return_type : ret_of an0 ex_rec = None.
Proof. vm_compute. reflexivity. Qed.
Lemma ex_rec_run : xrun 20 ex_rec [[]] = Ok [[3]]%Z /\ xrun 5 ex_rec [[]] = OutOfFuel.
Proof. vm_compute. split; reflexivity. Qed.
(* a wrong return annotation is rejected *)
Lemma ex_rec_wrong_return_type : ret_of (mkAnn [] [(1, TTup [TNum; TNum])] []) ex_rec = None.
Proof. vm_compute. reflexivity. Qed.

(* ---- sum types, match, multi-word self ---- *)
Local Close Scope N_scope.
Definition sums_T : list (ident * list (option ty)) := [(50%N, [Some (TTup [TNum; TNum]); Some TNum; None])].
Definition an_T : annots := mkAnn [] [] sums_T.
Definition ty_T : ty := TSum 50%N [Some (TTup [TNum; TNum]); Some TNum; None].

(* the program of Lmmx/Examples.v with a sum-typed self is accepted, dsp returns a number *)
Lemma ex_sum_self_typed : ret_of an_T ex_sum_self = Some TNum.
Proof. vm_compute. reflexivity. Qed.
Lemma ex_tuple_self_typed : ret_of an0 ex_tuple_self = Some TNum.
Proof. vm_compute. reflexivity. Qed.
Lemma ex_match_arm_state_typed : ret_of an0 ex_match_arm_state = Some TNum.
Proof. vm_compute. reflexivity. Qed.

(* one word for the tag and room for the widest payload *)
Lemma word_size_T : word_size ty_T = 3.
Proof. reflexivity. Qed.
Lemma word_size_sum : forall nm cs,
  word_size (TSum nm cs) = S (list_max (map (fun o => match o with Some t => word_size t | None => 0 end) cs)).
Proof.
  intros nm cs. cbn [word_size]. f_equal. induction cs as [|o cs IH]; [reflexivity|]. cbn [map list_max fold_right]. rewrite IH. reflexivity.
Qed.

(* a match that is not exhaustive is rejected, and it does get stuck: match now { 0 => 10 } *)
Definition bad_match_nonexhaustive : xprogram := mkXProg [] [] [] [XMatch XNow [(MLit 0, XLit 10)]].
Lemma bad_match_nonexhaustive_rejected :
  tc_prog an0 bad_match_nonexhaustive = None /\ tc_prog (mkLenient [] [] []) bad_match_nonexhaustive = None /\
  xrun 20 bad_match_nonexhaustive [[]; []] = Stuck E_NOMATCH.
Proof. vm_compute. repeat split. Qed.

(* a sum match that misses a constructor: match K1(1) { K0((a, b)) => a } on type T *)
Definition bad_match_missing_ctor : xprogram :=
  mkXProg [] [] [] [XMatch (XCon 50%N 1 (Some (XLit 1))) [(MCon 0 (Some (PTup [PVar 4%N; PVar 5%N])), XVar 4%N)]].
Lemma bad_match_missing_ctor_rejected :
  tc_prog an_T bad_match_missing_ctor = None /\ xrun 20 bad_match_missing_ctor [[]] = Stuck E_NOMATCH.
Proof. vm_compute. repeat split. Qed.

(* payload of the wrong type: K1((1, 2)) where K1 carries a number; then K1's payload is used as a number *)
Definition bad_payload_type : xprogram :=
  mkXProg [] [] [] [XMatch (XCon 50%N 1 (Some (XTuple [XLit 1; XLit 2]))) [(MCon 1 (Some (PVar 4%N)), XBin OAdd (XVar 4%N) (XLit 1)); (MWild, XLit 0)]].
Lemma bad_payload_type_rejected : tc_prog an_T bad_payload_type = None /\ xrun 20 bad_payload_type [[]] = Stuck E_NOTNUM.
Proof. vm_compute. repeat split. Qed.

(* constructor arity: K2 carries nothing but is given a payload, K1 carries a number but is given none *)
Definition bad_ctor_arity : xprogram :=
  mkXProg [] [] [] [XMatch (XCon 50%N 1 None) [(MCon 1 (Some (PVar 4%N)), XBin OAdd (XVar 4%N) (XLit 1)); (MWild, XLit 0)]].
Lemma bad_ctor_arity_rejected : tc_prog an_T bad_ctor_arity = None /\ xrun 20 bad_ctor_arity [[]] = Stuck E_NOTNUM.
Proof. vm_compute. repeat split. Qed.

(* a pattern of the wrong type: a literal pattern against a sum value *)
Definition bad_pattern_type : xprogram :=
  mkXProg [] [] [] [XMatch (XCon 50%N 2 None) [(MLit 0, XLit 1); (MWild, XLit 0)]].
Lemma bad_pattern_type_rejected :
  tc_prog an_T bad_pattern_type = None /\ tc_prog (mkLenient [] [] sums_T) bad_pattern_type = None /\
  xrun 20 bad_pattern_type [[]] = Stuck E_PAT.
Proof. vm_compute. repeat split. Qed.

(* arms of different types *)
Definition bad_match_arms : xprogram :=
  mkXProg [] [] [] [XBin OAdd (XMatch XNow [(MLit 0, XLit 1); (MWild, XTuple [XLit 1; XLit 2])]) (XLit 1)].
Lemma bad_match_arms_rejected :
  tc_prog an0 bad_match_arms = None /\ xrun 20 bad_match_arms [[]; []] = Stuck E_NOTNUM.
Proof. vm_compute. repeat split. Qed.

(* self read at a type that is not the function's return type *)
Definition bad_self_shape : xprogram :=
  mkXProg [GFun 1%N [] (XLet (PTup [PVar 3%N; PVar 4%N]) (XSelfS (STup [SNum; SNum])) (XBin OAdd (XVar 3%N) (XVar 4%N)))] [] [] [XApp (XVar 1%N) []].
Lemma bad_self_shape_rejected : tc_prog an0 bad_self_shape = None.
Proof. vm_compute. reflexivity. Qed.

(* ---- the LENIENT configuration follows the repaired typing.rs: the witnesses of the repaired findings are rejected by it too,
   the witnesses of what typing.rs still lets through are still accepted by it (and only by it) ---- *)
Definition len0 : annots := mkLenient [] [] [].
Definition len_T : annots := mkLenient [] [] sums_T.

(* T6 (repaired): (match now { 0 => 1, _ => (1, 2) }) + 1 *)
Lemma lenient_rejects_T6_match_arms : tc_prog len0 bad_match_arms = None.
Proof. vm_compute. reflexivity. Qed.
(* T7 on a number (repaired): match now { 0 => 10 } *)
Lemma lenient_rejects_T7_number : tc_prog len0 bad_match_nonexhaustive = None.
Proof. vm_compute. reflexivity. Qed.
(* T8 (repaired): a literal pattern on a sum value; a constructor pattern on a number: match now { K2 => 1, _ => 0 }; a tuple pattern
   on a number: match now { (0, _) => 7, _ => 3 }; a tuple pattern of another width: match (1, 2) { (0, 0, _) => 1, _ => 2 }; a
   binder for a constructor without payload: match K2 { K2(q) => q, _ => 2 }; a tuple pattern for a number payload:
   match K1(1) { K1((a, b)) => a, _ => 0 } *)
Definition bad_pat_ctor_on_number : xprogram := mkXProg [] [] [] [XMatch XNow [(MCon 2 None, XLit 1); (MWild, XLit 0)]].
Definition bad_pat_tuple_on_number : xprogram := mkXProg [] [] [] [XMatch XNow [(MTup [MLit 0; MWild], XLit 7); (MWild, XLit 3)]].
Definition bad_pat_tuple_longer : xprogram :=
  mkXProg [] [] [] [XMatch (XTuple [XLit 1; XLit 2]) [(MTup [MLit 0; MLit 0; MWild], XLit 1); (MWild, XLit 2)]].
Definition bad_pat_binder_no_payload : xprogram :=
  mkXProg [] [] [] [XMatch (XCon 50%N 2 None) [(MCon 2 (Some (PVar 4%N)), XVar 4%N); (MWild, XLit 2)]].
Definition bad_pat_payload_tuple : xprogram :=
  mkXProg [] [] [] [XMatch (XCon 50%N 1 (Some (XLit 1))) [(MCon 1 (Some (PTup [PVar 4%N; PVar 5%N])), XVar 4%N); (MWild, XLit 0)]].
Lemma lenient_rejects_T8_patterns :
  tc_prog len_T bad_pattern_type = None /\ tc_prog len_T bad_pat_ctor_on_number = None /\ tc_prog len0 bad_pat_tuple_on_number = None /\
  tc_prog len0 bad_pat_tuple_longer = None /\ tc_prog len_T bad_pat_binder_no_payload = None /\ tc_prog len_T bad_pat_payload_tuple = None.
Proof. vm_compute. repeat split. Qed.
Lemma strict_rejects_T8_patterns :
  tc_prog an_T bad_pat_ctor_on_number = None /\ tc_prog an0 bad_pat_tuple_on_number = None /\
  tc_prog an0 bad_pat_tuple_longer = None /\ tc_prog an_T bad_pat_binder_no_payload = None /\ tc_prog an_T bad_pat_payload_tuple = None.
Proof. vm_compute. repeat split. Qed.
(* T9 as the scrutinee (repaired): match K1 { K1(x) => x + 1, _ => 0 } where K1 carries a number: for typing.rs K1 alone is a function *)
Lemma lenient_rejects_T9_scrutinee : tc_prog len_T bad_ctor_arity = None.
Proof. vm_compute. reflexivity. Qed.

(* what is left of T7: a match on a TUPLE needs no `_` arm: match (now, 0) { (0, 0) => 1, (1, _) => 2 } is accepted by typing.rs and by
   the lenient configuration, rejected by the checker, and stuck in the third sample *)
Definition res_match_tuple_nonexhaustive : xprogram :=
  mkXProg [] [] [] [XMatch (XTuple [XNow; XLit 0]) [(MTup [MLit 0; MLit 0], XLit 1); (MTup [MLit 1; MWild], XLit 2)]].
Lemma lenient_accepts_T7_tuple :
  tc_prog an0 res_match_tuple_nonexhaustive = None /\ ret_of len0 res_match_tuple_nonexhaustive = Some TNum /\
  xrun 20 res_match_tuple_nonexhaustive [[]; []; []] = Stuck E_NOMATCH.
Proof. vm_compute. repeat split. Qed.
(* what is left of T9: a constructor that carries a payload, without it, is a function value: let v = K1  1   and
   fn ap(f : (float) -> T, x){ f(x) }  ...  match ap(K1, 2) { K1(y) => y, _ => 0 } *)
Definition res_ctor_as_function : xprogram := mkXProg [] [] [(PVar 4%N, XCon 50%N 1 None)] [XLit 1].
Definition res_ctor_passed_as_function : xprogram :=
  mkXProg [GFun 1%N [(2%N, None); (3%N, None)] (XApp (XVar 2%N) [XVar 3%N])] [] []
          [XMatch (XApp (XVar 1%N) [XCon 50%N 1 None; XLit 2]) [(MCon 1 (Some (PVar 4%N)), XVar 4%N); (MWild, XLit 0)]].
Lemma lenient_accepts_T9_function_value :
  tc_prog an_T res_ctor_as_function = None /\ ret_of len_T res_ctor_as_function = Some TNum /\
  tc_prog (mkAnn [(2%N, TFn [TNum] ty_T)] [] sums_T) res_ctor_passed_as_function = None /\
  ret_of (mkLenient [(2%N, TFn [TNum] ty_T)] [] sums_T) res_ctor_passed_as_function = Some TNum.
Proof. vm_compute. repeat split. Qed.
(* (what is left of T8 — an undeclared constructor name in a tuple pattern over a scrutinee whose type is not yet known — has no
   counterpart here: every scrutinee of this checker has a type) *)
